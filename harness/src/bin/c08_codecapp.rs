//! C08 / C14 (ARP, DNS, DHCP codecs): lock-step of the real encoders/decoders
//! against the extracted Coq model, plus the property oracle.
//!
//! case lines (all numbers decimal, byte strings hex, `-` = empty):
//!   utf8 <hex>                                  std::str::from_utf8 acceptance
//!   arp-dec <hex>                               ArpPacket::from_bytes
//!   arp-enc ht pt hl pl oper smac16 sip tmac16 tip      build, then decode (macs: 16 hex digits, u64)
//!   dns-dec <hex>                               DnsMessage::from_bytes (+ query_name, to_message)
//!   dns-fields id pr qd an ns ar qname qtype qclass name rtype class ttl rdata
//!                                               reference bytes -> from_bytes -> to_message
//!   dns-new id pr qd an ns ar qname name ttl ip public constructors -> to_message -> from_bytes
//!   dhcp-dec <hex>                              DhcpMessage::from_bytes (+ to_message)
//!   dhcp-fields op ht hl hops xid secs flags cip yip sip rip chaddr mt sname bfile
//!                                               reference bytes -> from_bytes -> to_message
//!   dhcp-default op yip mt                      DhcpMessage::default() with the pub fields set
//!
//! The oracle is independent of the model: the reference encoders below are
//! plain `Vec<u8>` pushes written from the packet layouts; it checks
//! decode(encode v) == v, encode(decode bs) == consumed prefix of bs, and that
//! nothing panics.
use elvis_core::protocols::arp::arp_parsing::{ArpPacket, Operation};
use elvis_core::protocols::dhcp::dhcp_parsing::{DhcpMessage, MessageType};
use elvis_core::protocols::dns::dns_parsing::{DnsHeader, DnsMessage, DnsQuestion, DnsResourceRecord};
use elvis_core::protocols::ipv4::Ipv4Address;
use elvis_verif_harness::*;
use std::panic::{catch_unwind, AssertUnwindSafe};

struct CodecApp;

// ------------------------------------------------------------------ reference encoders
fn ref_arp(ht: u16, pt: u16, hl: u8, pl: u8, oper: u16, smac: u64, sip: u32, tmac: u64, tip: u32) -> Vec<u8> {
    let mut v = Vec::new();
    v.push((ht >> 8) as u8);
    v.push(ht as u8);
    v.push((pt >> 8) as u8);
    v.push(pt as u8);
    v.push(hl);
    v.push(pl);
    v.push((oper >> 8) as u8);
    v.push(oper as u8);
    for k in (0..6).rev() {
        v.push((smac >> (8 * k)) as u8);
    }
    for k in (0..4).rev() {
        v.push((sip >> (8 * k)) as u8);
    }
    for k in (0..6).rev() {
        v.push((tmac >> (8 * k)) as u8);
    }
    for k in (0..4).rev() {
        v.push((tip >> (8 * k)) as u8);
    }
    v
}

fn push16(v: &mut Vec<u8>, x: u16) {
    v.push((x >> 8) as u8);
    v.push(x as u8);
}
fn push32(v: &mut Vec<u8>, x: u32) {
    for k in (0..4).rev() {
        v.push((x >> (8 * k)) as u8);
    }
}

#[derive(Clone, Debug, PartialEq)]
struct DnsF {
    hdr: [u16; 6],
    qname: Vec<u8>,
    qtype: u16,
    qclass: u16,
    name: Vec<u8>,
    rtype: u16,
    class: u16,
    ttl: u32,
    rdata: Vec<u8>,
}

fn ref_dns(f: &DnsF) -> Vec<u8> {
    let mut v = Vec::new();
    for x in f.hdr {
        push16(&mut v, x);
    }
    v.extend_from_slice(&f.qname);
    v.push(0x20);
    push16(&mut v, f.qtype);
    push16(&mut v, f.qclass);
    v.extend_from_slice(&f.name);
    v.push(0x20);
    push16(&mut v, f.rtype);
    push16(&mut v, f.class);
    push32(&mut v, f.ttl);
    push16(&mut v, f.rdata.len() as u16);
    v.extend_from_slice(&f.rdata);
    v
}

#[derive(Clone, Debug, PartialEq)]
struct DhcpF {
    op: u8,
    htype: u8,
    hlen: u8,
    hops: u8,
    xid: u32,
    secs: u16,
    flags: u8,
    cip: u32,
    yip: u32,
    sip: u32,
    rip: u32,
    chaddr: u16,
    mt: u8,
    sname: Vec<u8>,
    bfile: Vec<u8>,
}

fn ref_dhcp(f: &DhcpF) -> Vec<u8> {
    let mut v = vec![f.op, f.htype, f.hlen, f.hops];
    push32(&mut v, f.xid);
    push16(&mut v, f.secs);
    v.push(f.flags);
    push32(&mut v, f.cip);
    push32(&mut v, f.yip);
    push32(&mut v, f.sip);
    push32(&mut v, f.rip);
    push16(&mut v, f.chaddr);
    v.push(f.mt);
    v.extend_from_slice(&f.sname);
    v.push(0);
    v.extend_from_slice(&f.bfile);
    v.push(0);
    v
}

// ------------------------------------------------------------------ value generators
fn e8(r: &mut Rng) -> u8 {
    match r.below(4) {
        0 => *r.pick(&[0u8, 1, 0x20, 0x7f, 0x80, 0xfe, 0xff]),
        _ => r.next_u64() as u8,
    }
}
fn e16(r: &mut Rng) -> u16 {
    match r.below(4) {
        0 => *r.pick(&[0u16, 1, 2, 3, 0xff, 0x100, 0x0102, 0x2020, 0x7fff, 0x8000, 0xfffe, 0xffff]),
        _ => r.next_u64() as u16,
    }
}
fn e32(r: &mut Rng) -> u32 {
    match r.below(4) {
        0 => *r.pick(&[0u32, 1, 0xff, 0x100, 0xffff, 0x1_0000, 0x0102_0304, 0x7fff_ffff, 0x8000_0000, 0xffff_fffe, 0xffff_ffff]),
        _ => r.next_u64() as u32,
    }
}
fn e48(r: &mut Rng) -> u64 {
    match r.below(4) {
        0 => *r.pick(&[0u64, 1, 69, 0xff, 0xffff_ffff, 0x1_0000_0000, 0x0102_0304_0506, 0x8000_0000_0000, 0xffff_ffff_fffe, 0xffff_ffff_ffff]),
        _ => r.next_u64() & 0xffff_ffff_ffff,
    }
}
/// a u64 that does not fit in 48 bits
fn wide(r: &mut Rng) -> u64 {
    match r.below(3) {
        0 => *r.pick(&[0x1_0000_0000_0000u64, 0xffff_0000_0000_0000, 0xffff_ffff_ffff_ffff, 0x8000_0000_0000_0045]),
        _ => r.next_u64() | (1u64 << r.range(48, 63)),
    }
}

fn len_pick(r: &mut Rng) -> usize {
    match r.below(40) {
        0..=7 => 0,
        8..=13 => 1,
        14..=31 => r.range(2, 24) as usize,
        32..=38 => r.range(25, 300) as usize,
        _ => r.range(301, 3000) as usize,
    }
}

/// arbitrary bytes without `delim`
fn name_without(r: &mut Rng, delim: u8) -> Vec<u8> {
    let n = len_pick(r);
    let style = r.below(3);
    (0..n)
        .map(|_| loop {
            let b = match style {
                0 => r.range(0x61, 0x7a) as u8,
                1 => e8(r),
                _ => r.next_u64() as u8,
            };
            if b != delim {
                break b;
            }
        })
        .collect()
}

const CP_EDGES: [u32; 16] = [
    1, 0x20, 0x7f, 0x80, 0x7ff, 0x800, 0xfff, 0x1000, 0xcfff, 0xd000, 0xd7ff, 0xe000, 0xffff, 0x1_0000, 0x3_ffff, 0x10_ffff,
];

/// valid UTF-8 without NUL
fn utf8_string(r: &mut Rng) -> Vec<u8> {
    let n = len_pick(r).min(400);
    let mut s = String::new();
    let ascii_only = r.coin(1, 3);
    for _ in 0..n {
        let cp = if ascii_only {
            r.range(1, 0x7f) as u32
        } else {
            match r.below(6) {
                0 => *r.pick(&CP_EDGES),
                1 => r.range(1, 0x7f) as u32,
                2 => r.range(0x80, 0x7ff) as u32,
                3 => r.range(0x800, 0xffff) as u32,
                4 => r.range(0x1_0000, 0x10_ffff) as u32,
                _ => r.range(0x41, 0x5a) as u32,
            }
        };
        if let Some(c) = char::from_u32(cp) {
            if c != '\0' {
                s.push(c);
            }
        }
    }
    s.into_bytes()
}

const BAD_UTF8: [&[u8]; 24] = [
    &[0x80],
    &[0xbf],
    &[0xc0, 0x80],
    &[0xc1, 0xbf],
    &[0xc2],
    &[0xc2, 0x7f],
    &[0xc2, 0xc0],
    &[0xdf],
    &[0xe0, 0x9f, 0xbf],
    &[0xe0, 0xa0],
    &[0xe0, 0xa0, 0x7f],
    &[0xe1, 0x80],
    &[0xed, 0xa0, 0x80],
    &[0xed, 0xbf, 0xbf],
    &[0xef, 0xbf],
    &[0xf0, 0x8f, 0xbf, 0xbf],
    &[0xf0, 0x90, 0x80],
    &[0xf0, 0x90, 0x80, 0xc0],
    &[0xf4, 0x90, 0x80, 0x80],
    &[0xf4, 0x8f, 0xbf],
    &[0xf5, 0x80, 0x80, 0x80],
    &[0xf8, 0x88, 0x80, 0x80, 0x80],
    &[0xfe],
    &[0xff],
];
/// boundary sequences that ARE valid (so that both sides of every range test occur)
const EDGE_OK_UTF8: [&[u8]; 14] = [
    &[0x7f],
    &[0xc2, 0x80],
    &[0xdf, 0xbf],
    &[0xe0, 0xa0, 0x80],
    &[0xe0, 0xbf, 0xbf],
    &[0xe1, 0x80, 0x80],
    &[0xec, 0xbf, 0xbf],
    &[0xed, 0x80, 0x80],
    &[0xed, 0x9f, 0xbf],
    &[0xee, 0x80, 0x80],
    &[0xef, 0xbf, 0xbf],
    &[0xf0, 0x90, 0x80, 0x80],
    &[0xf3, 0xbf, 0xbf, 0xbf],
    &[0xf4, 0x8f, 0xbf, 0xbf],
];

/// bytes that are mostly not valid UTF-8 (no NUL so that they stay one DHCP string)
fn hostile_utf8(r: &mut Rng, allow_nul: bool) -> Vec<u8> {
    let mut v = if r.coin(1, 2) { utf8_string(r) } else { vec![] };
    v.truncate(40);
    match r.below(5) {
        0 => {
            let at = r.below(v.len() as u64 + 1) as usize;
            let ins = *r.pick(&BAD_UTF8);
            v.splice(at..at, ins.iter().copied());
        }
        1 => {
            let at = r.below(v.len() as u64 + 1) as usize;
            let ins = *r.pick(&EDGE_OK_UTF8);
            v.splice(at..at, ins.iter().copied());
        }
        2 => {
            // a lead byte and continuation bytes of random values near the range edges
            let lead = *r.pick(&[0xc2u8, 0xdf, 0xe0, 0xe1, 0xec, 0xed, 0xee, 0xef, 0xf0, 0xf1, 0xf3, 0xf4, 0xf5, 0xc1, 0xc0]);
            v.push(lead);
            for _ in 0..r.below(4) {
                v.push(*r.pick(&[0x7fu8, 0x80, 0x8f, 0x90, 0x9f, 0xa0, 0xbf, 0xc0]));
            }
        }
        3 => {
            let n = r.range(1, 12) as usize;
            for _ in 0..n {
                v.push(r.next_u64() as u8 | 0x80);
            }
        }
        _ => {
            if !v.is_empty() {
                let at = r.below(v.len() as u64) as usize;
                v[at] = e8(r);
            } else {
                v.push(e8(r));
            }
        }
    }
    if !allow_nul {
        for b in v.iter_mut() {
            if *b == 0 {
                *b = 1;
            }
        }
    }
    v
}

fn gen_dns(r: &mut Rng) -> DnsF {
    let rdata = match r.below(40) {
        0..=3 => vec![],
        4..=21 => r.bytes(4),
        22..=31 => { let n = r.range(1, 40) as usize; r.bytes(n) }
        32..=37 => { let n = r.range(41, 600) as usize; r.bytes(n) }
        38 => { let n = r.range(601, 5000) as usize; r.bytes(n) }
        _ => { let n = if r.coin(1, 4) { 65535 } else { r.range(601, 2000) as usize }; r.bytes(n) }
    };
    DnsF {
        hdr: [e16(r), e16(r), e16(r), e16(r), e16(r), e16(r)],
        qname: name_without(r, 0x20),
        qtype: e16(r),
        qclass: e16(r),
        name: name_without(r, 0x20),
        rtype: e16(r),
        class: e16(r),
        ttl: e32(r),
        rdata,
    }
}

fn gen_dhcp(r: &mut Rng) -> DhcpF {
    DhcpF {
        op: e8(r),
        htype: e8(r),
        hlen: e8(r),
        hops: e8(r),
        xid: e32(r),
        secs: e16(r),
        flags: e8(r),
        cip: e32(r),
        yip: e32(r),
        sip: e32(r),
        rip: e32(r),
        chaddr: e16(r),
        mt: r.range(1, 7) as u8,
        sname: utf8_string(r),
        bfile: utf8_string(r),
    }
}

/// generic hostile transformations of a valid packet
fn mangle(r: &mut Rng, mut v: Vec<u8>) -> Vec<u8> {
    match r.below(6) {
        0 | 1 => {
            let cut = r.below(v.len() as u64 + 1) as usize;
            v.truncate(cut);
            v
        }
        2 => {
            if !v.is_empty() {
                let at = r.below(v.len() as u64) as usize;
                v[at] = e8(r);
            }
            v
        }
        3 => {
            let n = r.range(1, 8) as usize;
            v.extend(r.bytes(n));
            v
        }
        4 => {
            let n = r.below(80) as usize;
            r.bytes(n)
        }
        _ => v,
    }
}

fn fmt_dns_fields(f: &DnsF) -> String {
    format!(
        "dns-fields {} {} {} {} {} {} {} {} {} {} {} {} {} {}",
        f.hdr[0], f.hdr[1], f.hdr[2], f.hdr[3], f.hdr[4], f.hdr[5], hex(&f.qname), f.qtype, f.qclass,
        hex(&f.name), f.rtype, f.class, f.ttl, hex(&f.rdata)
    )
}
fn fmt_dhcp_fields(f: &DhcpF) -> String {
    format!(
        "dhcp-fields {} {} {} {} {} {} {} {} {} {} {} {} {} {} {}",
        f.op, f.htype, f.hlen, f.hops, f.xid, f.secs, f.flags, f.cip, f.yip, f.sip, f.rip, f.chaddr, f.mt,
        hex(&f.sname), hex(&f.bfile)
    )
}

// ------------------------------------------------------------------ running the real code
fn ip(x: u32) -> Ipv4Address {
    Ipv4Address::from(x)
}

struct Dec {
    line: String,
    panicked: bool,
    /// Some(message) when an accepted string violates the re-encode clause
    reenc_fail: Option<String>,
}

fn arp_dec(bs: &[u8]) -> (Dec, Option<ArpPacket>) {
    let mut it = bs.iter().copied();
    let r = catch_unwind(AssertUnwindSafe(|| ArpPacket::from_bytes(it.by_ref())));
    match r {
        Err(e) => (Dec { line: "PANIC".into(), panicked: true, reenc_fail: Some(panic_message(e)) }, None),
        Ok(Err(e)) => (Dec { line: format!("ERR {:?}", e), panicked: false, reenc_fail: None }, None),
        Ok(Ok(h)) => {
            let consumed = bs.len() - it.len();
            let re = h.build();
            let mut fail = None;
            if re[..] != bs[..consumed] {
                fail = Some(format!("arp: build(from_bytes(bs)) = {} differs from the {} consumed bytes", hex(&re), consumed));
            }
            match ArpPacket::from_bytes(re.iter().copied()) {
                Ok(h2) if h2 == h => {}
                other => fail = Some(format!("arp: from_bytes(build(h)) = {:?} for accepted h = {:?}", other, h)),
            }
            let line = format!(
                "OK c={} {} {} {} {} {} {} {} {} {} re={}",
                consumed, h.htype, h.ptype, h.hlen, h.plen, h.oper as u16, h.sender_mac,
                h.sender_ip.to_u32(), h.target_mac, h.target_ip.to_u32(), hex(&re)
            );
            (Dec { line, panicked: false, reenc_fail: fail }, Some(h))
        }
    }
}

/// public view of a decoded DNS message plus its re-encoding
struct DnsView {
    hdr: [u16; 6],
    qname: Vec<u8>,
    name: Vec<u8>,
    rtype: u16,
    ttl: u32,
    rdata: Vec<u8>,
    re: Vec<u8>,
}

fn dns_view(m: DnsMessage) -> (DnsView, String) {
    let qn = match catch_unwind(AssertUnwindSafe(|| m.question.query_name())) {
        Err(_) => "PANIC".to_string(),
        Ok(Ok(_)) => "ok".to_string(),
        Ok(Err(e)) => format!("{:?}", e),
    };
    let hdr = [m.header.id, m.header.properties, m.header.qdcount, m.header.ancount, m.header.nscount, m.header.arcount];
    let qname = m.question.qname.clone();
    let name = m.answer.name.clone();
    let rtype = m.answer.rec_type;
    let ttl = m.answer.ttl;
    let rdata = m.answer.rdata.clone();
    let re = m.to_message().expect("to_message is always Ok").to_vec();
    (DnsView { hdr, qname, name, rtype, ttl, rdata, re }, qn)
}

fn dns_dec(bs: &[u8]) -> (Dec, Option<DnsView>) {
    let mut it = bs.iter().copied();
    let r = catch_unwind(AssertUnwindSafe(|| DnsMessage::from_bytes(it.by_ref())));
    match r {
        Err(e) => (Dec { line: "PANIC".into(), panicked: true, reenc_fail: Some(panic_message(e)) }, None),
        Ok(Err(e)) => (Dec { line: format!("ERR {:?}", e), panicked: false, reenc_fail: None }, None),
        Ok(Ok(m)) => {
            let consumed = bs.len() - it.len();
            let (v, qn) = dns_view(m);
            let mut fail = None;
            if v.re[..] != bs[..consumed] {
                fail = Some(format!("dns: to_message(from_bytes(bs)) differs from the {} consumed bytes", consumed));
            }
            match DnsMessage::from_bytes(v.re.iter().copied()) {
                Ok(m2) => {
                    let (v2, _) = dns_view(m2);
                    if v2.hdr != v.hdr || v2.qname != v.qname || v2.name != v.name || v2.rtype != v.rtype
                        || v2.ttl != v.ttl || v2.rdata != v.rdata || v2.re != v.re
                    {
                        fail = Some("dns: from_bytes(to_message(m)) differs from accepted m".to_string());
                    }
                }
                Err(e) => fail = Some(format!("dns: from_bytes(to_message(m)) = {:?} for accepted m", e)),
            }
            let mut panicked = false;
            if qn == "PANIC" {
                panicked = true;
                fail = Some("dns: DnsQuestion::query_name panicked on an accepted request (from_utf8 unwrap)".to_string());
            }
            let line = format!(
                "OK c={} {} {} {} {} {} {} {} {} {} {} {} re={} qn={}",
                consumed, v.hdr[0], v.hdr[1], v.hdr[2], v.hdr[3], v.hdr[4], v.hdr[5], hex(&v.qname), hex(&v.name),
                v.rtype, v.ttl, hex(&v.rdata), hex(&v.re), qn
            );
            (Dec { line, panicked, reenc_fail: fail }, Some(v))
        }
    }
}

/// Inverse of `str::escape_debug` as used by `impl Debug for String`.
fn unescape_debug(s: &str) -> String {
    let mut out = String::new();
    let mut it = s.chars();
    while let Some(c) = it.next() {
        if c != '\\' {
            out.push(c);
            continue;
        }
        match it.next().expect("escape") {
            'n' => out.push('\n'),
            'r' => out.push('\r'),
            't' => out.push('\t'),
            '0' => out.push('\0'),
            '\\' => out.push('\\'),
            '"' => out.push('"'),
            '\'' => out.push('\''),
            'u' => {
                assert_eq!(it.next(), Some('{'));
                let mut h = String::new();
                loop {
                    let d = it.next().expect("unicode escape");
                    if d == '}' {
                        break;
                    }
                    h.push(d);
                }
                out.push(char::from_u32(u32::from_str_radix(&h, 16).unwrap()).unwrap());
            }
            other => panic!("unknown escape \\{}", other),
        }
    }
    out
}

/// The private fields of DhcpMessage are read through its derived Debug.
fn dhcp_fields_of(h: &DhcpMessage) -> DhcpF {
    let d = format!("{:?}", h);
    let num = |key: &str| -> u64 {
        let pat = format!(" {}: ", key);
        let at = d.find(&pat).unwrap_or_else(|| panic!("no field {} in {}", key, d)) + pat.len();
        let rest = &d[at..];
        let end = rest.find(|c: char| !c.is_ascii_digit()).unwrap();
        rest[..end].parse().unwrap()
    };
    let addr = |key: &str| -> u32 {
        let pat = format!(" {}: Ipv4Address([", key);
        let at = d.find(&pat).unwrap_or_else(|| panic!("no field {} in {}", key, d)) + pat.len();
        let rest = &d[at..];
        let end = rest.find(']').unwrap();
        let p: Vec<u32> = rest[..end].split(", ").map(|x| x.parse().unwrap()).collect();
        (p[0] << 24) | (p[1] << 16) | (p[2] << 8) | p[3]
    };
    // the two strings: between `server_name: "` .. `", boot_file: "` .. `", msg_type: `;
    // a `"` inside a Debug-escaped string is always preceded by a backslash, so these
    // separators cannot occur inside the literals
    let a = d.find(" server_name: \"").expect("server_name") + " server_name: \"".len();
    let sep = "\", boot_file: \"";
    // first occurrence of the separator that is not inside an escape
    let mut b = a;
    loop {
        let k = d[b..].find(sep).expect("boot_file") + b;
        // count backslashes immediately before k
        let bs = d[..k].chars().rev().take_while(|c| *c == '\\').count();
        if bs % 2 == 0 {
            b = k;
            break;
        }
        b = k + 1;
    }
    let c0 = b + sep.len();
    let sep2 = "\", msg_type: ";
    let mut c = c0;
    loop {
        let k = d[c..].find(sep2).expect("msg_type") + c;
        let bs = d[..k].chars().rev().take_while(|ch| *ch == '\\').count();
        if bs % 2 == 0 {
            c = k;
            break;
        }
        c = k + 1;
    }
    let sname = unescape_debug(&d[a..b]);
    let bfile = unescape_debug(&d[c0..c]);
    assert_eq!(format!("{:?}", sname), format!("\"{}\"", &d[a..b]), "unescape server_name");
    assert_eq!(format!("{:?}", bfile), format!("\"{}\"", &d[c0..c]), "unescape boot_file");
    let mt = match &d[c + sep2.len()..d.len() - 2] {
        "Discover" => 1,
        "Offer" => 2,
        "Request" => 3,
        "Decline" => 4,
        "Ack" => 5,
        "Nack" => 6,
        "Release" => 7,
        other => panic!("message type {:?}", other),
    };
    let f = DhcpF {
        op: num("op") as u8,
        htype: num("htype") as u8,
        hlen: num("hlen") as u8,
        hops: num("hops") as u8,
        xid: num("transaction_id") as u32,
        secs: num("seconds") as u16,
        flags: num("flags") as u8,
        cip: addr("client_ip"),
        yip: addr("your_ip"),
        sip: addr("server_ip"),
        rip: addr("router_ip"),
        chaddr: num("client_hardware_address") as u16,
        mt,
        sname: sname.into_bytes(),
        bfile: bfile.into_bytes(),
    };
    // the pub fields directly
    assert_eq!(f.op, h.op);
    assert_eq!(f.yip, h.your_ip.to_u32());
    f
}

fn dhcp_dec(bs: &[u8]) -> (Dec, Option<DhcpF>) {
    let mut it = bs.iter().copied();
    let r = catch_unwind(AssertUnwindSafe(|| DhcpMessage::from_bytes(it.by_ref())));
    match r {
        Err(e) => (Dec { line: "PANIC".into(), panicked: true, reenc_fail: Some(panic_message(e)) }, None),
        Ok(Err(e)) => (Dec { line: format!("ERR {:?}", e), panicked: false, reenc_fail: None }, None),
        Ok(Ok(h)) => {
            let consumed = bs.len() - it.len();
            let f = dhcp_fields_of(&h);
            let again = DhcpMessage::from_bytes(bs[..consumed].iter().copied());
            let re = DhcpMessage::to_message(h).expect("to_message is always Ok").to_vec();
            let mut fail = None;
            if re[..] != bs[..consumed] {
                fail = Some(format!("dhcp: to_message(from_bytes(bs)) differs from the {} consumed bytes", consumed));
            }
            match (DhcpMessage::from_bytes(re.iter().copied()), again) {
                (Ok(h2), Ok(h1)) if h2 == h1 => {}
                (x, _) => fail = Some(format!("dhcp: from_bytes(to_message(h)) = {:?} for accepted h", x)),
            }
            let line = format!(
                "OK c={} {} {} {} {} {} {} {} {} {} {} {} {} {} {} {} re={}",
                consumed, f.op, f.htype, f.hlen, f.hops, f.xid, f.secs, f.flags, f.cip, f.yip, f.sip, f.rip,
                f.chaddr, f.mt, hex(&f.sname), hex(&f.bfile), hex(&re)
            );
            (Dec { line, panicked: false, reenc_fail: fail }, Some(f))
        }
    }
}

fn verdict(d: &Dec, extra: Option<String>) -> Oracle {
    if d.panicked {
        return Oracle::Fail(format!("C14: panic in a decoder: {}", d.reenc_fail.clone().unwrap_or_default()));
    }
    if let Some(m) = &d.reenc_fail {
        return Oracle::Fail(format!("C08: {}", m));
    }
    if let Some(m) = extra {
        return Oracle::Fail(format!("C08: {}", m));
    }
    Oracle::Ok
}

fn bucket(line: &str, what: &str) {
    let k = if line.starts_with("OK") {
        "ok".to_string()
    } else {
        line.replace(' ', "_")
    };
    stat(&format!("{}_{}", what, k));
}

impl Family for CodecApp {
    fn gen(r: &mut Rng, _idx: usize) -> String {
        match r.below(100) {
            // ---------------------------------------------------------- utf8
            0..=7 => {
                let v = match r.below(4) {
                    0 => utf8_string(r),
                    1 => (*r.pick(&EDGE_OK_UTF8)).to_vec(),
                    2 => (*r.pick(&BAD_UTF8)).to_vec(),
                    _ => hostile_utf8(r, true),
                };
                format!("utf8 {}", hex(&v))
            }
            // ---------------------------------------------------------- ARP
            8..=29 => {
                let oper = if r.coin(1, 2) { 1u16 } else { 2 };
                let (ht, pt, hl, pl) = if r.coin(1, 3) { (1, 0x0800, 6, 4) } else { (e16(r), e16(r), e8(r), e8(r)) };
                let (sm, tm) = (e48(r), e48(r));
                let (si, ti) = (e32(r), e32(r));
                match r.below(10) {
                    0..=2 => format!("arp-enc {} {} {} {} {} {:016x} {} {:016x} {}", ht, pt, hl, pl, oper, sm, si, tm, ti),
                    3 => {
                        let (sm, tm) = if r.coin(1, 2) { (wide(r), tm) } else { (sm, wide(r)) };
                        format!("arp-enc {} {} {} {} {} {:016x} {} {:016x} {}", ht, pt, hl, pl, oper, sm, si, tm, ti)
                    }
                    4 => {
                        // operation field values other than 1 / 2
                        let bad = *r.pick(&[0u16, 3, 4, 0x0100, 0x0200, 0x0101, 0x0201, 0x0102, 0xffff, 0x8001]);
                        let bad = if r.coin(1, 4) { e16(r) } else { bad };
                        format!("arp-dec {}", hex(&ref_arp(ht, pt, hl, pl, bad, sm, si, tm, ti)))
                    }
                    _ => format!("arp-dec {}", hex(&mangle(r, ref_arp(ht, pt, hl, pl, oper, sm, si, tm, ti)))),
                }
            }
            // ---------------------------------------------------------- DNS
            30..=64 => {
                let mut f = gen_dns(r);
                match r.below(20) {
                    0..=5 => fmt_dns_fields(&f),
                    6..=7 => format!(
                        "dns-new {} {} {} {} {} {} {} {} {} {}",
                        f.hdr[0], f.hdr[1], f.hdr[2], f.hdr[3], f.hdr[4], f.hdr[5], hex(&f.qname), hex(&f.name), f.ttl, e32(r)
                    ),
                    8 => {
                        // names that are not UTF-8: accepted by from_bytes, reach query_name
                        f.qname = hostile_utf8(r, true).into_iter().filter(|b| *b != 0x20).collect();
                        if r.coin(1, 2) {
                            f.name = hostile_utf8(r, true).into_iter().filter(|b| *b != 0x20).collect();
                        }
                        fmt_dns_fields(&f)
                    }
                    9 => {
                        // a name with the delimiter inside: the packet splits elsewhere
                        let at = r.below(f.qname.len() as u64 + 1) as usize;
                        f.qname.insert(at, 0x20);
                        format!("dns-dec {}", hex(&ref_dns(&f)))
                    }
                    10..=11 => {
                        // rdlength field against the rdata actually present
                        f.rdata.truncate(40);
                        let mut v = ref_dns(&f);
                        let pos = v.len() - f.rdata.len() - 2;
                        let real = f.rdata.len() as u16;
                        let l = match r.below(6) {
                            0 => 0,
                            1 => 0xffff,
                            2 => real.wrapping_add(1),
                            3 => real.wrapping_sub(1),
                            4 => real.wrapping_add(0x100),
                            _ => e16(r),
                        };
                        v[pos] = (l >> 8) as u8;
                        v[pos + 1] = l as u8;
                        if r.coin(1, 3) {
                            let n = r.range(1, 300) as usize;
                            v.extend(r.bytes(n));
                        }
                        format!("dns-dec {}", hex(&v))
                    }
                    12 => {
                        // no delimiter at all after the header
                        let mut v = ref_dns(&f);
                        v.truncate(12);
                        let n = r.below(40) as usize;
                        v.extend((0..n).map(|_| loop {
                            let b = r.next_u64() as u8;
                            if b != 0x20 {
                                break b;
                            }
                        }));
                        format!("dns-dec {}", hex(&v))
                    }
                    _ => {
                        f.qname.truncate(30);
                        f.name.truncate(30);
                        f.rdata.truncate(30);
                        format!("dns-dec {}", hex(&mangle(r, ref_dns(&f))))
                    }
                }
            }
            // ---------------------------------------------------------- DHCP
            _ => {
                let mut f = gen_dhcp(r);
                match r.below(20) {
                    0..=5 => fmt_dhcp_fields(&f),
                    6 => format!("dhcp-default {} {} {}", e8(r), e32(r), r.range(1, 7)),
                    7..=8 => {
                        // message type byte outside 1..=7
                        f.mt = match r.below(4) {
                            0 => 0,
                            1 => 8,
                            2 => 255,
                            _ => { let x = e8(r); if (1..=7).contains(&x) { 0 } else { x } }
                        };
                        f.sname.truncate(20);
                        f.bfile.truncate(20);
                        let v = ref_dhcp(&f);
                        format!("dhcp-dec {}", hex(&if r.coin(1, 4) { mangle(r, v) } else { v }))
                    }
                    9..=11 => {
                        // strings that are not UTF-8
                        f.bfile.truncate(30);
                        f.sname.truncate(30);
                        match r.below(3) {
                            0 => f.sname = hostile_utf8(r, false),
                            1 => f.bfile = hostile_utf8(r, false),
                            _ => {
                                f.sname = hostile_utf8(r, false);
                                f.bfile = hostile_utf8(r, false);
                            }
                        }
                        format!("dhcp-dec {}", hex(&ref_dhcp(&f)))
                    }
                    12 => {
                        // a terminator inside a string / a missing terminator
                        f.sname.truncate(30);
                        f.bfile.truncate(30);
                        let mut v = ref_dhcp(&f);
                        if r.coin(1, 2) {
                            let at = 30 + r.below(f.sname.len() as u64 + 1) as usize;
                            v.insert(at, 0);
                        } else {
                            v.pop();
                            if r.coin(1, 2) {
                                v.retain(|b| *b != 0);
                            }
                        }
                        format!("dhcp-dec {}", hex(&v))
                    }
                    _ => {
                        f.sname.truncate(30);
                        f.bfile.truncate(30);
                        format!("dhcp-dec {}", hex(&mangle(r, ref_dhcp(&f))))
                    }
                }
            }
        }
    }

    fn run(case: &str) -> Outcome {
        let t: Vec<&str> = case.split_whitespace().collect();
        let n = |i: usize| -> u64 { t[i].parse().unwrap() };
        match t[0] {
            "utf8" => {
                let bs = unhex(t[1]);
                let ok = std::str::from_utf8(&bs).is_ok();
                stat(if ok { "utf8_valid" } else { "utf8_invalid" });
                Outcome { impl_line: format!("U {}", ok as u8), oracle: Oracle::Ok }
            }
            "arp-dec" => {
                let bs = unhex(t[1]);
                let (d, _) = arp_dec(&bs);
                bucket(&d.line, "arp_dec");
                stat(&format!("arp_dec_len_{}", if bs.len() < 28 { "lt28" } else if bs.len() == 28 { "28" } else { "gt28" }));
                let o = verdict(&d, None);
                Outcome { impl_line: d.line, oracle: o }
            }
            "arp-enc" => {
                let smac = u64::from_str_radix(t[6], 16).unwrap();
                let tmac = u64::from_str_radix(t[8], 16).unwrap();
                let oper = if n(5) == 1 { Operation::Request } else { Operation::Reply };
                let h = ArpPacket {
                    htype: n(1) as u16,
                    ptype: n(2) as u16,
                    hlen: n(3) as u8,
                    plen: n(4) as u8,
                    oper,
                    sender_mac: smac,
                    sender_ip: ip(n(7) as u32),
                    target_mac: tmac,
                    target_ip: ip(n(9) as u32),
                };
                let enc = match catch_unwind(AssertUnwindSafe(|| h.build())) {
                    Ok(v) => v,
                    Err(e) => {
                        return Outcome { impl_line: "PANIC".into(), oracle: Oracle::Fail(format!("arp build panicked: {}", panic_message(e))) }
                    }
                };
                let (d, back) = arp_dec(&enc);
                let in_quantifier = smac < (1 << 48) && tmac < (1 << 48);
                stat(if in_quantifier { "arp_enc_48bit" } else { "arp_enc_wide_mac" });
                let mut extra = None;
                if in_quantifier {
                    let want = ref_arp(n(1) as u16, n(2) as u16, n(3) as u8, n(4) as u8, n(5) as u16, smac, n(7) as u32, tmac, n(9) as u32);
                    if enc != want {
                        extra = Some(format!("arp: build gives {} but the wire format is {}", hex(&enc), hex(&want)));
                    } else if back.as_ref() != Some(&h) {
                        extra = Some(format!("arp: from_bytes(build(h)) = {:?} for h = {:?}", back, h));
                    }
                }
                let o = verdict(&d, extra);
                Outcome { impl_line: format!("ENC {} DEC {}", hex(&enc), d.line), oracle: o }
            }
            "dns-dec" => {
                let bs = unhex(t[1]);
                let (d, _) = dns_dec(&bs);
                bucket(&d.line.split(" qn=").next().unwrap_or("").to_string(), "dns_dec");
                if let Some(q) = d.line.split(" qn=").nth(1) {
                    stat(&format!("dns_query_name_{}", q));
                }
                let o = verdict(&d, None);
                Outcome { impl_line: d.line, oracle: o }
            }
            "dns-fields" => {
                let f = DnsF {
                    hdr: [n(1) as u16, n(2) as u16, n(3) as u16, n(4) as u16, n(5) as u16, n(6) as u16],
                    qname: unhex(t[7]),
                    qtype: n(8) as u16,
                    qclass: n(9) as u16,
                    name: unhex(t[10]),
                    rtype: n(11) as u16,
                    class: n(12) as u16,
                    ttl: n(13) as u32,
                    rdata: unhex(t[14]),
                };
                let want = ref_dns(&f);
                let (d, v) = dns_dec(&want);
                let wf = !f.qname.contains(&0x20) && !f.name.contains(&0x20) && f.rdata.len() <= 65535;
                stat(if wf { "dns_fields_wf" } else { "dns_fields_not_wf" });
                stat(&format!("dns_rdata_len_{}", match f.rdata.len() { 0 => "0", 1..=4 => "1-4", 5..=600 => "5-600", 65535 => "65535", _ => "601+" }));
                stat(&format!("dns_qname_len_{}", match f.qname.len() { 0 => "0", 1..=24 => "1-24", 25..=300 => "25-300", _ => "301+" }));
                if let Some(q) = d.line.split(" qn=").nth(1) {
                    stat(&format!("dns_query_name_{}", q));
                }
                let mut extra = None;
                let enc = match &v {
                    Some(v) => {
                        if wf {
                            if v.hdr != f.hdr || v.qname != f.qname || v.name != f.name || v.rtype != f.rtype
                                || v.ttl != f.ttl || v.rdata != f.rdata
                            {
                                extra = Some("dns: decoded fields differ from the encoded value".to_string());
                            } else if v.re != want {
                                // carries qtype, qclass, class, rdlength (private fields)
                                extra = Some(format!("dns: to_message(from_bytes(wire)) = {} for wire = {}", hex(&v.re), hex(&want)));
                            }
                        }
                        v.re.clone()
                    }
                    None => {
                        if wf && !d.panicked {
                            extra = Some(format!("dns: well-formed message rejected: {}", d.line));
                        }
                        want.clone()
                    }
                };
                let o = verdict(&d, extra);
                Outcome { impl_line: format!("ENC {} DEC {}", hex(&enc), d.line), oracle: o }
            }
            "dns-new" => {
                let qname = unhex(t[7]);
                let name = unhex(t[8]);
                let addr = n(10) as u32;
                let m = DnsMessage::new(
                    DnsHeader { id: n(1) as u16, properties: n(2) as u16, qdcount: n(3) as u16, ancount: n(4) as u16, nscount: n(5) as u16, arcount: n(6) as u16 },
                    DnsQuestion::new(qname.clone()),
                    DnsResourceRecord::new(name.clone(), n(9) as u32, ip(addr)),
                )
                .expect("DnsMessage::new is always Ok");
                let enc = match catch_unwind(AssertUnwindSafe(|| m.to_message().expect("to_message is always Ok").to_vec())) {
                    Ok(v) => v,
                    Err(e) => {
                        return Outcome { impl_line: "PANIC".into(), oracle: Oracle::Fail(format!("dns to_message panicked: {}", panic_message(e))) }
                    }
                };
                let f = DnsF {
                    hdr: [n(1) as u16, n(2) as u16, n(3) as u16, n(4) as u16, n(5) as u16, n(6) as u16],
                    qname,
                    qtype: 1,
                    qclass: 1,
                    name,
                    rtype: 1,
                    class: 1,
                    ttl: n(9) as u32,
                    rdata: addr.to_be_bytes().to_vec(),
                };
                let want = ref_dns(&f);
                let (d, v) = dns_dec(&enc);
                stat("dns_new");
                let mut extra = None;
                if enc != want {
                    extra = Some(format!("dns: to_message gives {} but the wire format is {}", hex(&enc), hex(&want)));
                } else if let Some(v) = &v {
                    if v.hdr != f.hdr || v.qname != f.qname || v.name != f.name || v.rtype != 1 || v.ttl != f.ttl || v.rdata != f.rdata || v.re != enc {
                        extra = Some("dns: from_bytes(to_message(m)) differs from m".to_string());
                    }
                } else if !d.panicked {
                    extra = Some(format!("dns: encoded message rejected: {}", d.line));
                }
                let o = verdict(&d, extra);
                Outcome { impl_line: format!("ENC {} DEC {}", hex(&enc), d.line), oracle: o }
            }
            "dhcp-dec" => {
                let bs = unhex(t[1]);
                let (d, _) = dhcp_dec(&bs);
                bucket(&d.line, "dhcp_dec");
                if bs.len() > 29 {
                    stat(&format!("dhcp_dec_type_{}", match bs[29] { 0 => "0", 1..=7 => "1-7", _ => "8+" }));
                }
                let o = verdict(&d, None);
                Outcome { impl_line: d.line, oracle: o }
            }
            "dhcp-fields" | "dhcp-default" if !(1..=7).contains(&n(if t[0] == "dhcp-fields" { 13 } else { 3 })) => {
                Outcome { impl_line: "REJECT message type outside 1..=7".into(), oracle: Oracle::Ok }
            }
            "dhcp-fields" => {
                let f = DhcpF {
                    op: n(1) as u8,
                    htype: n(2) as u8,
                    hlen: n(3) as u8,
                    hops: n(4) as u8,
                    xid: n(5) as u32,
                    secs: n(6) as u16,
                    flags: n(7) as u8,
                    cip: n(8) as u32,
                    yip: n(9) as u32,
                    sip: n(10) as u32,
                    rip: n(11) as u32,
                    chaddr: n(12) as u16,
                    mt: n(13) as u8,
                    sname: unhex(t[14]),
                    bfile: unhex(t[15]),
                };
                let want = ref_dhcp(&f);
                let (d, back) = dhcp_dec(&want);
                let wf = (1..=7).contains(&f.mt)
                    && !f.sname.contains(&0)
                    && !f.bfile.contains(&0)
                    && std::str::from_utf8(&f.sname).is_ok()
                    && std::str::from_utf8(&f.bfile).is_ok();
                stat(if wf { "dhcp_fields_wf" } else { "dhcp_fields_not_wf" });
                stat(&format!("dhcp_type_{}", f.mt));
                stat(&format!("dhcp_sname_len_{}", match f.sname.len() { 0 => "0", 1..=24 => "1-24", 25..=300 => "25-300", _ => "301+" }));
                let mut extra = None;
                let enc = match (&back, d.line.split(" re=").nth(1)) {
                    (Some(b), Some(re)) => {
                        if wf && *b != f {
                            extra = Some(format!("dhcp: decoded {:?} for encoded value {:?}", b, f));
                        } else if wf && unhex(re) != want {
                            extra = Some(format!("dhcp: to_message(from_bytes(wire)) = {} for wire = {}", re, hex(&want)));
                        }
                        unhex(re)
                    }
                    _ => {
                        if wf && !d.panicked {
                            extra = Some(format!("dhcp: well-formed message rejected: {}", d.line));
                        }
                        want.clone()
                    }
                };
                let o = verdict(&d, extra);
                Outcome { impl_line: format!("ENC {} DEC {}", hex(&enc), d.line), oracle: o }
            }
            "dhcp-default" => {
                let mut h = DhcpMessage::default();
                h.op = n(1) as u8;
                h.your_ip = ip(n(2) as u32);
                h.msg_type = MessageType::try_from(n(3) as u8).expect("message type 1..=7");
                let enc = match catch_unwind(AssertUnwindSafe(|| DhcpMessage::to_message(h).expect("to_message is always Ok").to_vec())) {
                    Ok(v) => v,
                    Err(e) => {
                        return Outcome { impl_line: "PANIC".into(), oracle: Oracle::Fail(format!("dhcp to_message panicked: {}", panic_message(e))) }
                    }
                };
                let f = DhcpF {
                    op: n(1) as u8, htype: 50, hlen: 50, hops: 50, xid: 0, secs: 0, flags: 0, cip: 0, yip: n(2) as u32,
                    sip: 0, rip: 0, chaddr: 0, mt: n(3) as u8, sname: b"Null".to_vec(), bfile: b"BootFile".to_vec(),
                };
                let want = ref_dhcp(&f);
                let (d, back) = dhcp_dec(&enc);
                stat("dhcp_default");
                stat(&format!("dhcp_type_{}", f.mt));
                let mut extra = None;
                if enc != want {
                    extra = Some(format!("dhcp: to_message gives {} but the wire format is {}", hex(&enc), hex(&want)));
                } else if let Some(b) = &back {
                    if *b != f {
                        extra = Some(format!("dhcp: from_bytes(to_message(h)) = {:?} for h = {:?}", b, f));
                    }
                } else if !d.panicked {
                    extra = Some(format!("dhcp: encoded message rejected: {}", d.line));
                }
                let o = verdict(&d, extra);
                Outcome { impl_line: format!("ENC {} DEC {}", hex(&enc), d.line), oracle: o }
            }
            other => panic!("bad case kind {}", other),
        }
    }
}

fn main() {
    main_loop::<CodecApp>();
}
