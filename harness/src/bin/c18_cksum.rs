//! C18: the same codecs built with `--features compute_checksum`: emitted
//! checksums verify under RFC 1071, reference packets (conforming encoder,
//! cross-checked with etherparse) are accepted, detectable corruption is
//! rejected.  Model: ocaml/codecip_drv.ml with argument `ck1`.
//! Case and result formats: see codecip_common/mod.rs.
#[path = "codecip_common/mod.rs"]
mod common;
use elvis_verif_harness::*;

struct Cksum;

impl Family for Cksum {
    fn gen(rng: &mut Rng, idx: usize) -> String {
        common::gen_case(rng, idx, &common::Mix { big: 10, cksum_heavy: true })
    }
    fn run(case: &str) -> Outcome {
        common::run_case(case)
    }
}

fn main() {
    assert!(common::CK, "c18_cksum must be built with --features compute_checksum");
    main_loop::<Cksum>();
}
