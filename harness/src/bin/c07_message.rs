//! C07: `Message` is an immutable byte string.  Lock-step over a pool of 8 real
//! `Message`s, the extracted model (ocaml/message_drv.ml) and 8 plain `Vec<u8>`.
//!
//! case  : ops separated by ';' (pool = 8 x Message::default() at start)
//!   N d hex      pool[d] = Message::new(bytes)
//!   C d i        pool[d] = pool[i].clone()
//!   H i hex      pool[i].header(bytes)
//!   K i j        pool[i].concatenate(pool[j].clone())
//!   S i rg a b | S i rf a | S i ru | S i ri a b | S i rt b | S i rti b
//!                pool[i].slice(a..b | a.. | .. | a..=b | ..b | ..=b)
//!   X d i n      let x = pool[i].cut(n); pool[d] = x
//!   R i n        pool[i].remove_front(n)
//!   E i j        observe pool[i] == pool[j]
//! result: one segment per op joined by " | ": the slots whose dump changed
//!   ("k=len:hex", "." if none), "eq=0/1", or "PANIC" (which ends the case: every
//!   panic of Message happens before the first mutation, see message.rs:93,133,161).
//! property oracle: the same ops on real `Vec<u8>`s (std slicing / drain / extend);
//!   after EVERY op EVERY slot must agree in len, to_vec, iter, is_empty, and == on all pairs.
use elvis_core::message::Message;
use elvis_verif_harness::*;
use std::panic::{catch_unwind, AssertUnwindSafe};

const SLOTS: usize = 8;
const MAX_LEN: usize = 96;
const MAX_CHUNKS: usize = 24;

struct Msg;

// ------------------------------------------------------------------ generator
/// generator-side picture of a slot: the lengths of its chunks (empty chunks included)
#[derive(Clone, Default)]
struct Shape(Vec<usize>);

impl Shape {
    fn len(&self) -> usize {
        self.0.iter().sum()
    }
    /// chunk edges as byte offsets (0 and len included)
    fn edges(&self) -> Vec<usize> {
        let mut v = vec![0];
        let mut a = 0;
        for c in &self.0 {
            a += c;
            v.push(a);
        }
        v
    }
    fn drop_front(&mut self, mut n: usize, keep_empty_head: bool) {
        // mirrors message.rs:97-110 / 167-176: pops every chunk with len <= n
        let _ = keep_empty_head;
        while let Some(&h) = self.0.first() {
            if h <= n {
                n -= h;
                self.0.remove(0);
            } else {
                self.0[0] -= n;
                break;
            }
        }
    }
    fn slice(&mut self, start: usize, len: usize) {
        self.drop_front(start, false);
        let mut keep = len;
        let mut i = 0;
        for c in self.0.iter_mut() {
            i += 1;
            if keep >= *c {
                keep -= *c;
            } else {
                *c = keep;
                break;
            }
        }
        self.0.truncate(i);
    }
    fn cut(&mut self, n: usize) -> Shape {
        let mut out = vec![];
        let mut r = n;
        while !self.0.is_empty() {
            let h = self.0[0];
            if h <= r {
                r -= h;
                out.push(h);
                self.0.remove(0);
            } else {
                if r > 0 {
                    out.push(r);
                }
                self.0[0] -= r;
                break;
            }
        }
        Shape(out)
    }
}

fn body(rng: &mut Rng) -> Vec<u8> {
    let n = match rng.below(12) {
        0 => 0,
        1 => 1,
        2 => 2,
        3 => rng.range(30, 40) as usize,
        _ => rng.range(2, 12) as usize,
    };
    // few distinct byte values: equal messages with different chunkings are likely
    match rng.below(3) {
        0 => (0..n).map(|_| rng.below(2) as u8).collect(),
        1 => (0..n).map(|k| k as u8).collect(),
        _ => rng.bytes(n),
    }
}

/// an interesting offset into a slot: 0, chunk edges +-1, len, (rarely) len+1 and huge values
fn point(rng: &mut Rng, sh: &Shape, hostile: bool) -> u64 {
    let len = sh.len() as u64;
    if hostile {
        return match rng.below(6) {
            0 | 1 | 2 => len + 1,
            3 => len + 2 + rng.below(5),
            4 => u64::MAX,
            _ => u64::MAX - rng.below(3),
        };
    }
    let e = sh.edges();
    match rng.below(12) {
        0 => 0,
        1 => len,
        2 | 3 | 4 => rng.range(0, len),
        _ => {
            let inner: Vec<usize> = e.iter().cloned().filter(|&x| x > 0 && (x as u64) < len).collect();
            let p = if !inner.is_empty() && rng.coin(3, 4) { *rng.pick(&inner) as u64 } else { *rng.pick(&e) as u64 };
            match rng.below(4) {
                0 => p.saturating_sub(1),
                1 => (p + 1).min(len),
                _ => p,
            }
        }
    }
}

fn gen_range(rng: &mut Rng, sh: &Shape, hostile: bool) -> (String, Option<(usize, usize)>) {
    // returns the token text and, when valid, the (start, len) effect for the shape tracker
    let len = sh.len() as u64;
    let mut a = point(rng, sh, false);
    let mut b = point(rng, sh, false);
    let form = rng.below(6);
    if hostile {
        match rng.below(4) {
            0 => a = point(rng, sh, true),
            1 => b = point(rng, sh, true),
            2 => {
                // inverted by at least 2 (s..=e with s = e+1 is still a valid empty range)
                if a < b {
                    std::mem::swap(&mut a, &mut b);
                }
                if a < b + 2 {
                    a = b + 2;
                }
            }
            _ => {
                a = point(rng, sh, true);
                b = point(rng, sh, true);
            }
        }
    } else if a > b && !(form == 0 && rng.coin(1, 5)) {
        // (one in five inverted `a..b` is kept: the code yields the empty message, see the remark)
        std::mem::swap(&mut a, &mut b);
    }
    let ok = |s: u64, e: u64| -> Option<(usize, usize)> {
        if s <= e && e <= len {
            Some((s as usize, (e - s) as usize))
        } else {
            None
        }
    };
    match form {
        0 => (format!("rg {} {}", a, b), if a > b && a <= len { Some((a as usize, 0)) } else { ok(a, b) }),
        1 => (format!("rf {}", a), ok(a, len)),
        2 => ("ru".to_string(), ok(0, len)),
        3 => {
            // a..=e with e = b-1 (a == b gives the valid empty range a..=a-1); hostile: e = usize::MAX overflows e+1
            if hostile && rng.coin(1, 3) {
                (format!("ri {} {}", a, u64::MAX), None)
            } else if b == 0 {
                (format!("rg {} {}", a, b), if a <= len { Some((a as usize, 0)) } else { None })
            } else {
                (format!("ri {} {}", a, b - 1), ok(a, b))
            }
        }
        4 => (format!("rt {}", b), ok(0, b)),
        _ => {
            if hostile && rng.coin(1, 3) {
                (format!("rti {}", u64::MAX), None)
            } else if b == 0 {
                (format!("rt {}", b), ok(0, 0))
            } else {
                (format!("rti {}", b - 1), ok(0, b))
            }
        }
    }
}

impl Family for Msg {
    fn gen(rng: &mut Rng, idx: usize) -> String {
        let mut sh: Vec<Shape> = vec![Shape::default(); SLOTS];
        let nops = match rng.below(8) {
            0 => rng.range(1, 6),
            1 => rng.range(50, 60),
            _ => rng.range(8, 45),
        } as usize;
        // stream A (2 of 3 cases): only valid ops; stream B: one must-panic op somewhere (mostly at the end)
        let hostile_at = if idx % 3 == 2 {
            Some(if rng.coin(2, 3) { nops - 1 } else { rng.below(nops as u64) as usize })
        } else {
            None
        };
        // work in a small neighbourhood of slots so that aliasing is dense
        let live = rng.range(2, SLOTS as u64) as usize;
        let mut ops: Vec<String> = vec![];
        // prologue (most cases): a few multi-chunk messages, some with empty chunks
        if rng.coin(7, 8) {
            for d in 0..rng.range(1, 3.min(live as u64)) as usize {
                let b = body(rng);
                sh[d] = Shape(vec![b.len()]);
                ops.push(format!("N {} {}", d, hex(&b)));
                for _ in 0..rng.below(4) {
                    let h = body(rng);
                    if sh[d].len() + h.len() <= MAX_LEN {
                        sh[d].0.insert(0, h.len());
                        ops.push(format!("H {} {}", d, hex(&h)));
                    }
                }
            }
        }
        for k in 0..nops {
            let hostile = hostile_at == Some(k);
            // prefer a slot that holds bytes
            let mut i = rng.below(live as u64) as usize;
            for _ in 0..3 {
                if sh[i].len() > 0 {
                    break;
                }
                i = rng.below(live as u64) as usize;
            }
            let slot = |rng: &mut Rng| rng.below(live as u64) as usize;
            let mut kind = if hostile { 4 + rng.below(3) * 2 } else { rng.below(16) };
            if !hostile && sh[i].len() == 0 && matches!(kind, 4..=8 | 12..=14) && rng.coin(3, 4) {
                kind = rng.below(2) * 3; // refill an empty slot instead of slicing nothing
            }
            match kind {
                0 | 1 => {
                    let b = body(rng);
                    sh[i] = Shape(vec![b.len()]);
                    ops.push(format!("N {} {}", i, hex(&b)));
                }
                2 => {
                    let d = slot(rng);
                    sh[d] = sh[i].clone();
                    ops.push(format!("C {} {}", d, i));
                }
                3 => {
                    let b = body(rng);
                    if sh[i].len() + b.len() <= MAX_LEN && sh[i].0.len() < MAX_CHUNKS {
                        sh[i].0.insert(0, b.len());
                        ops.push(format!("H {} {}", i, hex(&b)));
                    }
                }
                4 | 5 | 12 => {
                    let (txt, eff) = gen_range(rng, &sh[i], hostile);
                    ops.push(format!("S {} {}", i, txt));
                    match eff {
                        Some((s, l)) => sh[i].slice(s, l),
                        None => break, // the op panics: the case ends here
                    }
                }
                6 | 7 | 13 => {
                    let d = slot(rng);
                    let n = point(rng, &sh[i], hostile);
                    ops.push(format!("X {} {} {}", d, i, n));
                    if n > sh[i].len() as u64 {
                        break;
                    }
                    let f = sh[i].cut(n as usize);
                    sh[d] = f;
                }
                8 | 14 => {
                    let n = point(rng, &sh[i], hostile);
                    ops.push(format!("R {} {}", i, n));
                    if n > sh[i].len() as u64 {
                        break;
                    }
                    sh[i].drop_front(n as usize, false);
                }
                9 | 10 | 15 => {
                    let j = slot(rng);
                    if sh[i].len() + sh[j].len() <= MAX_LEN && sh[i].0.len() + sh[j].0.len() <= MAX_CHUNKS {
                        let mut o = sh[j].0.clone();
                        sh[i].0.append(&mut o);
                        ops.push(format!("K {} {}", i, j));
                    }
                }
                _ => {
                    let j = slot(rng);
                    ops.push(format!("E {} {}", i, j));
                }
            }
        }
        if ops.is_empty() {
            ops.push("N 0 -".to_string());
        }
        // a few ops after a panicking one: both sides must ignore them
        if hostile_at.is_some() && rng.coin(1, 4) {
            ops.push("N 0 00".to_string());
        }
        ops.join(" ; ")
    }

    fn run(case: &str) -> Outcome {
        let mut pool: Vec<Message> = (0..SLOTS).map(|_| Message::default()).collect();
        let mut vecs: Vec<Vec<u8>> = vec![vec![]; SLOTS];
        let mut dumps: Vec<String> = pool.iter().map(dump).collect();
        let mut segs: Vec<String> = vec![];
        let mut fail: Option<String> = None;
        let mut nops = 0usize;
        let mut maxlen = 0usize;
        for (opno, opt) in case.split(';').enumerate() {
            let t: Vec<&str> = opt.split_whitespace().collect();
            if t.is_empty() {
                continue;
            }
            nops += 1;
            let us = |k: usize| -> usize { t[k].parse::<usize>().expect("number") };
            stat(&format!("op_{}{}", t[0], if t[0] == "S" { format!("_{}", t[2]) } else { String::new() }));
            // ---- observation
            if t[0] == "E" {
                let (i, j) = (us(1), us(2));
                let r = pool[i] == pool[j];
                segs.push(format!("eq={}", r as u8));
                stat(if r { "eq_true" } else { "eq_false" });
                if r != (vecs[i] == vecs[j]) && fail.is_none() {
                    fail = Some(format!("op#{} {}: == gives {} but the byte strings compare {}", opno, opt.trim(), r, !r));
                }
                continue;
            }
            if matches!(t[0], "X" | "R") {
                let (i, n) = if t[0] == "X" { (us(2), t[3]) } else { (us(1), t[2]) };
                let n: u64 = n.parse().unwrap();
                let l = vecs[i].len() as u64;
                stat(if n == 0 { "cutpoint_0" } else if n == l { "cutpoint_len" } else if n < l { "cutpoint_interior" } else { "cutpoint_beyond" });
            }
            // ---- the real code
            let r_impl = catch_unwind(AssertUnwindSafe(|| apply_impl(&mut pool, &t)));
            // ---- plain Vec<u8>
            let r_vec = catch_unwind(AssertUnwindSafe(|| apply_vec(&mut vecs, &t)));
            let inverted = t[0] == "S" && t[2] == "rg" && t[3].parse::<u64>().unwrap() > t[4].parse::<u64>().unwrap();
            match (&r_impl, &r_vec) {
                (Ok(()), Ok(())) => {}
                (Err(_), Err(_)) => {
                    stat(&format!("panic_{}", t[0]));
                    if t[0] == "S" {
                        // which panic site of slice_range.rs / message.rs:93 the case aims at
                        let a: u64 = t.get(3).map(|x| x.parse().unwrap()).unwrap_or(0);
                        let b: u64 = t.get(4).map(|x| x.parse().unwrap()).unwrap_or(0);
                        let why = match t[2] {
                            "ri" if b == u64::MAX => "end_plus_1_overflows",
                            "rti" if a == u64::MAX => "end_plus_1_overflows",
                            "ri" if a > b + 1 => "end_plus_1_minus_start_underflows",
                            "rg" if a > b => "inverted_and_start_beyond_len",
                            _ => "assert_start_plus_len",
                        };
                        stat(&format!("panic_S_{}_{}", t[2], why));
                    }
                }
                (Ok(()), Err(_)) if inverted => {
                    // documented remark (C07_inverted_range_remark): `s..e` with e < s <= len yields the
                    // empty message where Vec slicing panics; outside the property's range quantifier.
                    stat("remark_inverted_range_gives_empty");
                    let i = us(1);
                    if !pool[i].to_vec().is_empty() && fail.is_none() {
                        fail = Some(format!("op#{} {}: inverted range gave a non-empty message", opno, opt.trim()));
                    }
                    vecs[i] = vec![];
                }
                (Ok(()), Err(_)) => {
                    if fail.is_none() {
                        fail = Some(format!("op#{} {}: Vec<u8> panics, Message does not", opno, opt.trim()));
                    }
                }
                (Err(e), Ok(())) => {
                    if fail.is_none() {
                        fail = Some(format!("op#{} {}: Message panics, Vec<u8> does not", opno, opt.trim()));
                    }
                    let _ = e;
                }
            }
            if r_impl.is_err() {
                segs.push("PANIC".to_string());
                // the panic must not have modified anything (assert-before-mutate)
                for k in 0..SLOTS {
                    if dump(&pool[k]) != dumps[k] && fail.is_none() {
                        fail = Some(format!("op#{} {}: slot {} changed by a panicking op", opno, opt.trim(), k));
                    }
                }
                break;
            }
            // ---- dump + oracle over EVERY slot
            let mut ch = vec![];
            for k in 0..SLOTS {
                let d = dump(&pool[k]);
                if d != dumps[k] {
                    ch.push(format!("{}={}", k, d));
                    dumps[k] = d;
                }
                if fail.is_none() {
                    if let Some(m) = compare(&pool[k], &vecs[k]) {
                        fail = Some(format!("op#{} {}: slot {}: {}", opno, opt.trim(), k, m));
                    }
                }
                maxlen = maxlen.max(vecs[k].len());
            }
            if fail.is_none() {
                for a in 0..SLOTS {
                    for b in 0..SLOTS {
                        if (pool[a] == pool[b]) != (vecs[a] == vecs[b]) {
                            fail = Some(format!("op#{} {}: slots {} == {} disagrees with the byte strings", opno, opt.trim(), a, b));
                        }
                    }
                }
            }
            if r_vec.is_err() && !inverted {
                segs.push(if ch.is_empty() { ".".to_string() } else { ch.join(" ") });
                break; // reference is gone; oracle already failed
            }
            segs.push(if ch.is_empty() { ".".to_string() } else { ch.join(" ") });
        }
        stat(&format!("nops_{:02}", (nops / 10) * 10));
        stat(&format!("maxlen_{:03}", (maxlen / 20) * 20));
        Outcome {
            impl_line: segs.join(" | "),
            oracle: match fail {
                None => Oracle::Ok,
                Some(m) => Oracle::Fail(m),
            },
        }
    }
}

fn dump(m: &Message) -> String {
    let v = m.to_vec();
    let it: Vec<u8> = m.iter().collect();
    let mut s = format!("{}:{}", m.len(), hex(&v));
    if it != v {
        s.push_str(&format!("/iter:{}", hex(&it)));
    }
    if m.is_empty() != (m.len() == 0) {
        s.push_str(if m.is_empty() { "!empty" } else { "!nonempty" });
    }
    s
}

/// the property's predicate on one slot
fn compare(m: &Message, v: &Vec<u8>) -> Option<String> {
    if m.len() != v.len() {
        return Some(format!("len() = {} but the byte string has {} bytes", m.len(), v.len()));
    }
    if &m.to_vec() != v {
        return Some(format!("to_vec() = {} expected {}", hex(&m.to_vec()), hex(v)));
    }
    if !m.iter().eq(v.iter().cloned()) {
        return Some("iter() differs from the byte string".to_string());
    }
    if m.is_empty() != v.is_empty() {
        return Some("is_empty() differs".to_string());
    }
    if *m != Message::new(v.clone()) || Message::new(v.clone()) != *m {
        return Some("== with a fresh message of the same bytes is false".to_string());
    }
    None
}

fn apply_impl(pool: &mut Vec<Message>, t: &[&str]) {
    let us = |k: usize| -> usize { t[k].parse::<usize>().expect("number") };
    match t[0] {
        "N" => {
            // every constructor path of chunk.rs:50-84 / message.rs:234-250 ends in Chunk::new(Vec)
            let b = unhex(t[2]);
            pool[us(1)] = match b.len() % 5 {
                0 => Message::new(b),
                1 => Message::new(&b[..]),
                2 => Message::from(b),
                3 => Message::from(&b[..]),
                _ => match String::from_utf8(b.clone()) {
                    Ok(st) => {
                        if b.len() % 2 == 0 {
                            Message::new(st.as_str())
                        } else {
                            Message::new(st)
                        }
                    }
                    Err(_) => Message::new(b),
                },
            }
        }
        "C" => pool[us(1)] = pool[us(2)].clone(),
        "H" => {
            let b = unhex(t[2]);
            if b.len() % 2 == 0 {
                pool[us(1)].header(b)
            } else {
                pool[us(1)].header(&b[..])
            }
        }
        "K" => {
            let o = pool[us(2)].clone();
            pool[us(1)].concatenate(o)
        }
        "S" => {
            let i = us(1);
            match t[2] {
                "rg" => pool[i].slice(us(3)..us(4)),
                "rf" => pool[i].slice(us(3)..),
                "ru" => pool[i].slice(..),
                "ri" => pool[i].slice(us(3)..=us(4)),
                "rt" => pool[i].slice(..us(3)),
                "rti" => pool[i].slice(..=us(3)),
                _ => panic!("bad range form"),
            }
        }
        "X" => {
            let x = pool[us(2)].cut(us(3));
            pool[us(1)] = x;
        }
        "R" => pool[us(1)].remove_front(us(2)),
        _ => panic!("bad op"),
    }
}

fn apply_vec(vecs: &mut Vec<Vec<u8>>, t: &[&str]) {
    let us = |k: usize| -> usize { t[k].parse::<usize>().expect("number") };
    match t[0] {
        "N" => vecs[us(1)] = unhex(t[2]),
        "C" => vecs[us(1)] = vecs[us(2)].clone(),
        "H" => {
            let mut n = unhex(t[2]);
            n.extend_from_slice(&vecs[us(1)]);
            vecs[us(1)] = n;
        }
        "K" => {
            let o = vecs[us(2)].clone();
            vecs[us(1)].extend_from_slice(&o)
        }
        "S" => {
            let i = us(1);
            let v = &vecs[i];
            let n: Vec<u8> = match t[2] {
                "rg" => v[us(3)..us(4)].to_vec(),
                "rf" => v[us(3)..].to_vec(),
                "ru" => v[..].to_vec(),
                "ri" => v[us(3)..=us(4)].to_vec(),
                "rt" => v[..us(3)].to_vec(),
                "rti" => v[..=us(3)].to_vec(),
                _ => panic!("bad range form"),
            };
            vecs[i] = n;
        }
        "X" => {
            let n = us(3);
            let x: Vec<u8> = vecs[us(2)].drain(..n).collect();
            vecs[us(1)] = x;
        }
        "R" => {
            let n = us(2);
            vecs[us(1)].drain(..n);
        }
        _ => panic!("bad op"),
    }
}

fn main() {
    main_loop::<Msg>();
}
