//! Scaffolding for full-stack scenarios: every scenario runs the real simulation
//! (`run_internet*`) in a CHILD PROCESS (run_internet installs a panic hook that
//! exits the process), on a deterministic paused current-thread runtime or on a
//! multi-thread runtime, with a process-wide link observer that records every
//! frame and applies a per-frame fate plan (deliver / drop / duplicate / delay).
//!
//! Child protocol on stdout: zero or more `EV <t_ns> <text>` lines in log order,
//! then free-form `OUT <text>` lines written by the scenario, then `END`.
use elvis_core::network::verif::{FrameFate, FrameInfo, Observer};
use elvis_core::network::Mac;
use std::any::TypeId;
use std::collections::HashMap;
use std::io::Read;
use std::sync::atomic::{AtomicUsize, Ordering};
use std::sync::{Arc, Mutex, OnceLock};
use std::time::Duration;

static LOG: Mutex<Vec<String>> = Mutex::new(Vec::new());
static START: OnceLock<tokio::time::Instant> = OnceLock::new();
static PROTO_NAMES: Mutex<Option<HashMap<TypeId, String>>> = Mutex::new(None);
static NET_IDS: Mutex<Vec<usize>> = Mutex::new(Vec::new());

/// Nanoseconds of (virtual, when the runtime is paused) time since `start_clock`.
pub fn now_ns() -> u128 {
    match START.get() {
        Some(s) => tokio::time::Instant::now().duration_since(*s).as_nanos(),
        None => 0,
    }
}

/// Call once inside the runtime before the simulation starts.
pub fn start_clock() {
    let _ = START.set(tokio::time::Instant::now());
}

/// Append an event to the global log (time-stamped).
pub fn log(text: String) {
    LOG.lock().unwrap().push(format!("EV {} {}", now_ns(), text.replace('\n', " ")));
}

/// Give a protocol type a readable name in frame events.
pub fn name_protocol(id: TypeId, name: &str) {
    let mut g = PROTO_NAMES.lock().unwrap();
    g.get_or_insert_with(HashMap::new).insert(id, name.to_string());
}

pub fn proto_name(id: TypeId) -> String {
    if id == TypeId::of::<elvis_core::protocols::Ipv4>() {
        return "ipv4".into();
    }
    if id == TypeId::of::<elvis_core::protocols::Arp>() {
        return "arp".into();
    }
    let g = PROTO_NAMES.lock().unwrap();
    g.as_ref().and_then(|m| m.get(&id).cloned()).unwrap_or_else(|| "other".into())
}

/// Register a network so that frame events carry a small index instead of an address.
pub fn register_network(net: &Arc<elvis_core::Network>) -> usize {
    let id = elvis_core::network::verif::network_id(net);
    let mut g = NET_IDS.lock().unwrap();
    if let Some(i) = g.iter().position(|x| *x == id) {
        return i;
    }
    g.push(id);
    g.len() - 1
}

fn net_index(id: usize) -> i64 {
    NET_IDS.lock().unwrap().iter().position(|x| *x == id).map(|x| x as i64).unwrap_or(-1)
}

fn mac_str(m: Option<Mac>) -> String {
    match m {
        None => "none".into(),
        Some(m) if m == elvis_core::Network::BROADCAST_MAC => "bcast".into(),
        Some(m) => m.to_string(),
    }
}

/// Per-frame fate plan: called with the running index of the frame (order of `Network::send` calls).
pub type Plan = Box<dyn Fn(usize, &FrameInfo) -> FrameFate + Send + Sync>;

pub struct Recorder {
    plan: Plan,
    counter: AtomicUsize,
    /// include the frame bytes (hex) in `send` events
    pub with_bytes: bool,
}

impl Recorder {
    pub fn install(plan: Plan, with_bytes: bool) {
        elvis_core::network::verif::install(Arc::new(Recorder { plan, counter: AtomicUsize::new(0), with_bytes }));
    }
}

fn bytes_hash(b: &[u8]) -> u64 {
    let mut h: u64 = 7;
    for x in b {
        h = (h * 31 + *x as u64) % 1_000_003;
    }
    h
}

impl Observer for Recorder {
    /// event: `send <idx> net=<i> from=<mac> to=<mac|bcast|none> proto=<name> len=<n> hash=<h> fate=<f> [bytes=<hex>]`
    fn on_send(&self, f: &FrameInfo) -> FrameFate {
        let idx = self.counter.fetch_add(1, Ordering::SeqCst);
        let fate = (self.plan)(idx, f);
        let bytes = f.message.to_vec();
        let fate_s = match fate {
            FrameFate::Deliver => "deliver".to_string(),
            FrameFate::Drop => "drop".to_string(),
            FrameFate::Duplicate => "dup".to_string(),
            FrameFate::Delay(d) => format!("delay{}", d.as_nanos()),
        };
        let mut line = format!(
            "send {} net={} from={} to={} proto={} len={} hash={} fate={}",
            idx, net_index(f.network), f.sender, mac_str(f.destination), proto_name(f.protocol), bytes.len(),
            bytes_hash(&bytes), fate_s
        );
        if self.with_bytes {
            line.push_str(" bytes=");
            line.push_str(&crate::hex(&bytes));
        }
        log(line);
        fate
    }

    /// event: `dlv net=<i> from=<mac> to=<...> tap=<mac|none> proto=<name> len=<n> hash=<h>`
    fn on_delivery(&self, f: &FrameInfo, tap: Option<Mac>) {
        let bytes = f.message.to_vec();
        log(format!(
            "dlv net={} from={} to={} tap={} proto={} len={} hash={}",
            net_index(f.network), f.sender, mac_str(f.destination), mac_str(tap).replace("bcast", "?"), proto_name(f.protocol),
            bytes.len(), bytes_hash(&bytes)
        ));
    }
}

#[derive(Clone, Copy, Debug, PartialEq, Eq)]
pub enum Flavor {
    /// current_thread runtime with paused (virtual) time: fully deterministic
    CurrentPaused,
    /// multi_thread runtime with n workers, real time
    Multi(usize),
}

/// Run a future to completion on the requested runtime flavour.
pub fn block_on<F: std::future::Future>(flavor: Flavor, fut: F) -> F::Output {
    match flavor {
        Flavor::CurrentPaused => tokio::runtime::Builder::new_current_thread()
            .enable_all()
            .start_paused(true)
            .build()
            .unwrap()
            .block_on(fut),
        Flavor::Multi(n) => tokio::runtime::Builder::new_multi_thread()
            .worker_threads(n.max(1))
            .enable_all()
            .build()
            .unwrap()
            .block_on(fut),
    }
}

/// In the child: print the log and the scenario's own output lines, then END.
pub fn child_finish(out_lines: &[String]) -> ! {
    use std::io::Write;
    let stdout = std::io::stdout();
    let mut w = std::io::BufWriter::new(stdout.lock());
    for l in LOG.lock().unwrap().iter() {
        let _ = writeln!(w, "{}", l);
    }
    for l in out_lines {
        let _ = writeln!(w, "OUT {}", l.replace('\n', " "));
    }
    let _ = writeln!(w, "END");
    let _ = w.flush();
    drop(w);
    std::process::exit(0);
}

pub struct ChildResult {
    /// `EV ...` lines without the prefix: (t_ns, text)
    pub events: Vec<(u128, String)>,
    pub out: Vec<String>,
    /// the child printed END and exited 0
    pub clean: bool,
    pub exit_code: Option<i32>,
    pub timed_out: bool,
    pub stderr_tail: String,
}

/// Re-run the current executable as `<exe> --child <case>` and collect its trace.
pub fn run_child(case: &str, wall_timeout: Duration) -> ChildResult {
    let wall_timeout = wall_timeout * crate::slow_factor();
    let exe = std::env::current_exe().unwrap();
    let mut cmd = std::process::Command::new(exe);
    cmd.arg("--child").arg(case).stdout(std::process::Stdio::piped()).stderr(std::process::Stdio::piped()).stdin(std::process::Stdio::null());
    let mut child = cmd.spawn().expect("spawn child");
    let mut so = child.stdout.take().unwrap();
    let mut se = child.stderr.take().unwrap();
    let t_out = std::thread::spawn(move || {
        let mut s = String::new();
        let _ = so.read_to_string(&mut s);
        s
    });
    let t_err = std::thread::spawn(move || {
        let mut s = Vec::new();
        let _ = se.read_to_end(&mut s);
        String::from_utf8_lossy(&s).to_string()
    });
    let t0 = std::time::Instant::now();
    let mut timed_out = false;
    let status = loop {
        match child.try_wait() {
            Ok(Some(st)) => break Some(st),
            Ok(None) => {
                if t0.elapsed() > wall_timeout {
                    let _ = child.kill();
                    timed_out = true;
                    break child.wait().ok();
                }
                std::thread::sleep(Duration::from_millis(2));
            }
            Err(_) => break None,
        }
    };
    let out = t_out.join().unwrap_or_default();
    let err = t_err.join().unwrap_or_default();
    let mut events = vec![];
    let mut outl = vec![];
    let mut ended = false;
    for l in out.lines() {
        if let Some(rest) = l.strip_prefix("EV ") {
            if let Some((t, text)) = rest.split_once(' ') {
                events.push((t.parse().unwrap_or(0), text.to_string()));
            }
        } else if let Some(rest) = l.strip_prefix("OUT ") {
            outl.push(rest.to_string());
        } else if l == "END" {
            ended = true;
        }
    }
    let code = status.and_then(|s| s.code());
    let tail: String = err.chars().rev().take(600).collect::<String>().chars().rev().collect();
    ChildResult { events, out: outl, clean: ended && code == Some(0) && !timed_out, exit_code: code, timed_out, stderr_tail: tail }
}

/// The `--child <case>` argument, when this process is a child.
pub fn child_case() -> Option<String> {
    let a: Vec<String> = std::env::args().collect();
    a.iter().position(|x| x == "--child").and_then(|i| a.get(i + 1).cloned())
}
