#!/bin/sh
# MANIFEST.setup_cmd: build, offline and from files on disk only, everything the claimed checks need
# (full .vo build of the Coq development they depend on, extracted OCaml model drivers, Rust harness bins
# against /repo's working tree with the verif hooks on).
set -e
cd "$(dirname "$0")"
export CARGO_NET_OFFLINE=true
mkdir -p .cache ocaml/gen ocaml/bin evidence replays
exec ./check --setup
