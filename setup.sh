#!/bin/sh
# MANIFEST.setup_cmd: build the whole framework offline from files on disk.
set -e
cd "$(dirname "$0")"
export CARGO_NET_OFFLINE=true
mkdir -p .cache ocaml/gen ocaml/bin evidence replays
# 1. Coq development: full .vo build (no -vos/-vok)
python3 - <<'PY'
import sys; sys.path.insert(0, "lib")
import vlib
e = vlib.coq_makefile()
if e: print(e); sys.exit(1)
PY
(cd coq && timeout 7000 make -j16 > ../.cache/coq-build.log 2>&1) || { tail -40 .cache/coq-build.log; exit 1; }
# 2. extracted models + drivers
./ocaml/build.sh
# 3. Rust harness against /repo's working tree (hooks on)
(cd harness && timeout 7000 cargo build --offline --bins --target-dir ../.cache/target > ../.cache/cargo-build.log 2>&1) || { tail -40 .cache/cargo-build.log; exit 1; }
if [ -f harness/.features ]; then
  for f in $(cat harness/.features); do
    bins=$(grep "^$f " harness/.feature-bins | cut -d' ' -f2-)
    for b in $bins; do
      (cd harness && timeout 7000 cargo build --offline --bin $b --features $f --target-dir ../.cache/target-$f >> ../.cache/cargo-build.log 2>&1) || { tail -40 .cache/cargo-build.log; exit 1; }
    done
  done
fi
echo setup ok
