"""Structural tie for panic sites (DESIGN.md section 5): every construct that can panic in the anchored files is
listed in a committed inventory; a new, removed or altered site makes the correspondence 'no longer check' even if
random inputs would not reach it."""
import json
import os
import re

ROOT = os.path.dirname(os.path.dirname(os.path.abspath(__file__)))
INVENTORY = os.path.join(ROOT, "checks", "panic_sites.json")

KINDS = [
    ("unwrap", re.compile(r"\.unwrap\(\)")),
    ("expect", re.compile(r"\.expect\(")),
    ("unreachable", re.compile(r"\bunreachable!")),
    ("unimplemented", re.compile(r"\bunimplemented!|\btodo!")),
    ("panic", re.compile(r"\bpanic!")),
    ("assert", re.compile(r"\bassert!|\bassert_eq!|\bassert_ne!")),
    ("index", re.compile(r"[A-Za-z_\)\]]\[[^\]\n]*\](?!\s*=\s*\[)")),
]


def strip_tests(txt):
    """Drop `#[cfg(test)] mod ... { ... }` blocks and comments."""
    out = []
    lines = txt.split("\n")
    i = 0
    while i < len(lines):
        if re.match(r"\s*#\[cfg\(test\)\]", lines[i]):
            # skip the attribute and the item that follows (brace matched)
            j = i + 1
            depth = 0
            started = False
            while j < len(lines):
                depth += lines[j].count("{") - lines[j].count("}")
                if "{" in lines[j]:
                    started = True
                if started and depth <= 0:
                    break
                if not started and lines[j].strip().endswith(";"):
                    break
                j += 1
            i = j + 1
            continue
        out.append(lines[i])
        i += 1
    return out


def scan(files):
    sites = []
    for f in files:
        p = os.path.join("/repo", f)
        if not os.path.exists(p):
            sites.append({"file": f, "kind": "missing-file", "text": ""})
            continue
        for line in strip_tests(open(p, errors="replace").read()):
            code = line.split("//")[0]
            if re.match(r"\s*#\[", code):
                continue
            for kind, rx in KINDS:
                if kind == "index":
                    # only slices / indexing on values, not attribute or type syntax
                    if re.search(r"\b(let|fn|impl|struct|enum|type|use|pub|const|static)\b.*\[[^\]]*;\s*\d+\]", code):
                        continue
                    m = [x for x in rx.findall(code)]
                    if not m or "vec![" in code or "#[" in code or re.search(r":\s*\[|\[u8;|<\[|&\[|\(\[|= \[|\[\]", code):
                        continue
                for _ in rx.finditer(code):
                    sites.append({"file": f, "kind": kind, "text": re.sub(r"\s+", " ", code.strip())[:160]})
    return sites


def key(s):
    return (s["file"], s["kind"], s["text"])


def load():
    if not os.path.exists(INVENTORY):
        return {}
    return json.load(open(INVENTORY))


def check(group, files):
    """Return a list of problem strings: sites present in the code but not in the inventory, and vice versa."""
    inv = load().get(group, {}).get("sites", [])
    have = scan(files)
    a = {}
    for s in inv:
        a[key(s)] = a.get(key(s), 0) + 1
    b = {}
    for s in have:
        b[key(s)] = b.get(key(s), 0) + 1
    out = []
    for k, n in b.items():
        if a.get(k, 0) < n:
            out.append("panic-site inventory: NEW site in %s (%s): %s" % (k[0], k[1], k[2]))
    for k, n in a.items():
        if b.get(k, 0) < n:
            out.append("panic-site inventory: site no longer present in %s (%s): %s" % (k[0], k[1], k[2]))
    return out


def update(group, files, notes=None):
    inv = load()
    old = {key(s): s.get("model", "") for s in inv.get(group, {}).get("sites", [])}
    sites = scan(files)
    for s in sites:
        s["model"] = old.get(key(s), "")
    inv[group] = {"files": files, "sites": sites}
    json.dump(inv, open(INVENTORY, "w"), indent=1)
    return len(sites)
