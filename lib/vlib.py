"""Shared machinery of ./check: Coq build + audit, harness build, lock-step run,
verdict, evidence, replay.  See DESIGN.md sections 3, 5, 6."""
import hashlib
import json
import os
import re
import shutil
import subprocess
import sys
import time

ROOT = os.path.dirname(os.path.dirname(os.path.abspath(__file__)))
COQ = os.path.join(ROOT, "coq")
OCAML = os.path.join(ROOT, "ocaml")
HARNESS = os.path.join(ROOT, "harness")
CACHE = os.path.join(ROOT, ".cache")
EVID = os.path.join(ROOT, "evidence")
REPLAYS = os.path.join(ROOT, "replays")
CORPUS = os.path.join(ROOT, "corpus")

ENV = dict(os.environ, CARGO_NET_OFFLINE="true", CARGO_TERM_COLOR="never")

FORBIDDEN = re.compile(
    r"\bAdmitted\b|\badmit\b|\bAxiom\b|\bAxioms\b|\bParameter\b|\bParameters\b|\bConjecture\b|"
    r"\bAdmit Obligations\b|Unset Guard Checking|Unset Positivity Checking|Unset Universe Checking|"
    r"bypass_check|type-in-type|impredicative-set"
)
# stdlib axioms a theorem may depend on (none expected; listed per property in the spec)
STD_AXIOMS = {
    "functional_extensionality_dep", "proof_irrelevance", "classic", "JMeq_eq",
    "Eqdep.Eq_rect_eq.eq_rect_eq", "eq_rect_eq", "propositional_extensionality",
}


def sh(cmd, cwd=None, timeout=None, env=None):
    """Run a shell command, return (rc, combined output)."""
    try:
        p = subprocess.run(cmd, shell=True, cwd=cwd, env=env or ENV, timeout=timeout,
                           stdout=subprocess.PIPE, stderr=subprocess.STDOUT, text=True, errors="replace")
        return p.returncode, p.stdout
    except subprocess.TimeoutExpired as e:
        out = e.stdout if isinstance(e.stdout, str) else (e.stdout or b"").decode("utf8", "replace")
        return 124, out + "\n[timeout after %ss]" % timeout


class Problem:
    """Something that stops the property from being shown to hold."""

    def __init__(self, kind, what, detail=None, failing_input=None, known_class=None):
        self.kind = kind            # 'proof' | 'audit' | 'correspondence' | 'oracle' | 'structural' | 'build'
        self.what = what            # name of the theorem / correspondence / stage
        self.detail = detail or {}
        self.failing_input = failing_input  # concrete case on which the property fails on the implementation
        self.known_class = known_class


class Ctx:
    def __init__(self, spec, tier, seed):
        self.spec = spec
        self.pid = spec["id"]
        self.tier = tier
        self.seed = seed
        self.t0 = time.time()
        self.problems = []
        self.known = []            # (class, message)
        self.cov = {
            "obligations": 0, "discharged": 0, "checker_cmd": "", "trusted_base": [],
            "evaluations": 0, "distinct_nontrivial": 0, "rule": "", "samples": [],
            "traces_validated_against_impl": 0, "stages": {},
        }
        self.assumptions = []
        self.work = os.path.join(CACHE, "work", self.pid)
        os.makedirs(self.work, exist_ok=True)

    def log(self, *a):
        print("[%s %6.1fs]" % (self.pid, time.time() - self.t0), *a, flush=True)


# ---------------------------------------------------------------- Coq side

def coq_makefile():
    import fcntl
    os.makedirs(CACHE, exist_ok=True)
    with open(os.path.join(CACHE, "coq_makefile.lock"), "w") as lk:
        fcntl.flock(lk, fcntl.LOCK_EX)
        return _coq_makefile()


def _coq_makefile():
    vs = []
    for d in ("Model", "Gen", "Proofs", "Props", "Extract"):
        for r, _, fs in os.walk(os.path.join(COQ, d)):
            for f in fs:
                if f.endswith(".v"):
                    vs.append(os.path.relpath(os.path.join(r, f), COQ))
    vs.sort()
    stamp = os.path.join(COQ, ".vfiles")
    cur = "\n".join(vs)
    old = open(stamp).read() if os.path.exists(stamp) else None
    if old != cur or not os.path.exists(os.path.join(COQ, "Makefile")):
        rc, out = sh("coq_makefile -f _CoqProject %s -o Makefile" % " ".join(vs), cwd=COQ, timeout=120)
        if rc != 0:
            return out
        open(stamp, "w").write(cur)
    return None


def strip_coq_comments(txt):
    """Blank out (nested) comments, keeping line structure."""
    out = []
    depth = 0
    i = 0
    n = len(txt)
    while i < n:
        if txt.startswith("(*", i):
            depth += 1
            out.append("  ")
            i += 2
        elif depth and txt.startswith("*)", i):
            depth -= 1
            out.append("  ")
            i += 2
        else:
            c = txt[i]
            out.append(c if (depth == 0 or c == "\n") else " ")
            i += 1
    return "".join(out)


def coq_closure(roots):
    """The .v files (relative to coq/) that the given files transitively Require from this development."""
    seen = set()
    todo = list(roots)
    while todo:
        f = todo.pop()
        if f in seen or not os.path.exists(os.path.join(COQ, f)):
            continue
        seen.add(f)
        txt = strip_coq_comments(open(os.path.join(COQ, f), errors="replace").read())
        for m in re.finditer(r"Require(?:\s+Import|\s+Export)?((?:\s+[A-Za-z_]\w*(?:\.[A-Za-z_]\w*)*)+)\s*\.", txt):
            for tok in m.group(1).split():
                tok = tok.strip()
                if tok.startswith("Elvis."):
                    tok = tok[len("Elvis."):]
                cand = tok.replace(".", "/") + ".v"
                if os.path.exists(os.path.join(COQ, cand)):
                    todo.append(cand)
    return sorted(seen)


def audit_sources(files=None):
    """Grep the development for anything that declares an axiom or switches a kernel check off.
    files: list of paths relative to coq/ (default: every .v file)."""
    bad = []
    allv = []
    for r, _, fs in os.walk(COQ):
        for f in fs:
            if f.endswith(".v"):
                allv.append(os.path.relpath(os.path.join(r, f), COQ))
    for rel in (files if files is not None else sorted(allv)):
        if True:
            p = os.path.join(COQ, rel)
            txt = strip_coq_comments(open(p, errors="replace").read())
            in_section = 0
            for i, line in enumerate(txt.split("\n"), 1):
                if re.match(r"\s*Section\b", line):
                    in_section += 1
                if re.match(r"\s*End\b", line) and in_section:
                    in_section -= 1
                m = FORBIDDEN.search(line)
                if m:
                    bad.append("%s:%d: %s" % (os.path.relpath(p, ROOT), i, line.strip()[:120]))
                if re.match(r"\s*(Variable|Variables|Context|Hypothesis|Hypotheses)\b", line) and not in_section:
                    bad.append("%s:%d: Variable/Hypothesis outside a section" % (os.path.relpath(p, ROOT), i))
    proj = open(os.path.join(COQ, "_CoqProject")).read()
    if "type-in-type" in proj or "impredicative-set" in proj:
        bad.append("_CoqProject passes a forbidden flag")
    return bad


def props_lock_path():
    return os.path.join(COQ, "Props", "props.lock")


def statement_digest(path):
    """Digest of the pinned statements: the Props file without comments and whitespace runs."""
    txt = open(path).read()
    txt = re.sub(r"\(\*.*?\*\)", "", txt, flags=re.S)
    txt = re.sub(r"\s+", " ", txt).strip()
    return hashlib.sha256(txt.encode()).hexdigest()


def coq_check(ctx):
    """Build the development needed by this property, re-check its Props file(s), parse Print Assumptions."""
    spec = ctx.spec["coq"]
    props_list = spec["props"] if isinstance(spec["props"], list) else [spec["props"]]
    err = coq_makefile()
    if err:
        ctx.problems.append(Problem("build", "coq_makefile", {"log": err[-2000:]}))
        return
    closure = coq_closure(props_list + spec.get("extract", []))
    ctx.cov["coq_files_in_closure"] = closure
    bad = audit_sources(closure)
    if bad:
        ctx.problems.append(Problem("audit", "forbidden construct in the Coq development", {"lines": bad[:20]}))
    # 1. everything the Props files depend on (their Require closure) and the Extract files, in parallel
    targets = [e[:-2] + ".vo" for e in spec.get("extract", [])]
    for f in closure:
        t = f[:-2] + ".vo"
        if f not in props_list and t not in targets:
            targets.append(t)
    cmd = "timeout 3000 make -j16 %s" % " ".join(t for t in targets)
    rc, out = sh(cmd, cwd=COQ, timeout=3100)
    ctx.cov["checker_cmd"] = ("cd coq && coq_makefile -f _CoqProject ... -o Makefile && " + cmd +
                              " && make <each Props/*.vo>   (coqc 8.16.1, full .vo build)")
    expected = spec["theorems"]
    if expected == "auto":
        # every theorem that the (digest-pinned) Props files print assumptions for
        expected = []
        for props in props_list:
            expected += re.findall(r"Print Assumptions\s+([\w.']+)\s*\.", strip_coq_comments(open(os.path.join(COQ, props)).read()))
    ctx.cov["obligations"] = len(expected)
    if rc != 0:
        m = re.search(r'File "([^"]+)", line (\d+)', out)
        ctx.problems.append(Problem("proof", "Coq build failed" + (" at %s:%s" % (m.group(1), m.group(2)) if m else ""),
                                    {"log": out[-3000:]}))
        return
    # 2. each Props file is re-checked unconditionally, alone, so that its Print Assumptions output is unmixed
    by_name = {}
    for props in props_list:
        # re-run the Props file alone to get its Print Assumptions output unmixed
        try:
            os.remove(os.path.join(COQ, props[:-2] + ".vo"))
        except FileNotFoundError:
            pass
        rc, out = sh("timeout 3000 make %s" % (props[:-2] + ".vo"), cwd=COQ, timeout=3100)
        if rc != 0:
            ctx.problems.append(Problem("proof", "Coq build of %s failed" % props, {"log": out[-3000:]}))
            return
        names = re.findall(r"Print Assumptions\s+([\w.']+)\s*\.", open(os.path.join(COQ, props)).read())
        blocks = []
        cur = None
        for line in out.split("\n"):
            if line.startswith("Closed under the global context"):
                blocks.append([])
                cur = None
            elif line.startswith("Axioms:"):
                cur = []
                blocks.append(cur)
            elif cur is not None:
                if re.match(r"^(COQC|COQDEP|make)", line) or line.strip() == "":
                    cur = None
                elif re.match(r"^\S", line):
                    cur.append(line.split(":")[0].strip())
        if len(blocks) != len(names):
            ctx.problems.append(Problem("proof", "Print Assumptions output of %s could not be matched to theorems" % props,
                                        {"names": names, "blocks": len(blocks), "log": out[-2000:]}))
            return
        by_name.update(dict(zip(names, blocks)))
    allowed = set(spec.get("allow_axioms", []))
    discharged = 0
    thm_report = {}
    for t in expected:
        if t not in by_name:
            ctx.problems.append(Problem("proof", "theorem %s missing from %s" % (t, props_list)))
            continue
        extra = [a for a in by_name[t] if a.split(".")[-1] not in allowed and a not in allowed]
        thm_report[t] = by_name[t] or "closed under the global context"
        if extra:
            ctx.problems.append(Problem("proof", "theorem %s depends on unlisted axioms" % t, {"axioms": extra}))
        else:
            discharged += 1
    ctx.cov["discharged"] = discharged
    ctx.cov["theorems"] = thm_report
    # pinned statements
    lock = {}
    if os.path.exists(props_lock_path()):
        lock = json.load(open(props_lock_path()))
    for props in props_list:
        dg = statement_digest(os.path.join(COQ, props))
        if lock.get(props) != dg:
            ctx.problems.append(Problem("proof", "pinned statements of %s differ from props.lock" % props,
                                        {"have": dg, "locked": lock.get(props)}))


def coqchk(ctx):
    """Thorough tier: independent re-check of the property's compiled theorems."""
    pl = ctx.spec["coq"]["props"]
    pl = pl if isinstance(pl, list) else [pl]
    mod = " ".join("Elvis." + props[:-2].replace("/", ".") for props in pl)
    rc, out = sh("timeout 3000 coqchk -silent -o -Q . Elvis %s" % mod, cwd=COQ, timeout=3100)
    ax = []
    seen = False
    for line in out.split("\n"):
        if line.strip().startswith("* Axioms:"):
            seen = True
            rest = line.split("Axioms:")[1].strip()
            if rest and rest != "<none>":
                ax.append(rest)
        elif seen and line.startswith("    ") and not line.strip().startswith("*"):
            ax.append(line.strip())
        elif seen and line.strip().startswith("*"):
            seen = False
    ctx.cov["coqchk"] = {"rc": rc, "axioms": ax or "<none>"}
    allowed = set(ctx.spec["coq"].get("allow_axioms", []))
    extra = [a for a in ax if a.split(".")[-1] not in allowed]
    if rc != 0:
        ctx.problems.append(Problem("proof", "coqchk rejected %s" % mod, {"log": out[-2000:]}))
    elif extra:
        ctx.problems.append(Problem("proof", "coqchk reports unlisted axioms", {"axioms": extra}))


# ---------------------------------------------------------------- harness side

_built = set()


def cargo_build(ctx, binname, features=None, release=False):
    key = (binname, features, release)
    if key in _built:
        return True
    tdir = os.path.join(CACHE, "target" + ("-" + features.replace(",", "-") if features else ""))
    cmd = "cargo build --offline --bin %s --target-dir %s" % (binname, tdir)
    if features:
        cmd += " --features " + features
    if release:
        cmd += " --release"
    rc, out = sh("timeout 3000 " + cmd, cwd=HARNESS, timeout=3100)
    if rc != 0:
        errs = [l for l in out.split("\n") if l.startswith("error")]
        ctx.problems.append(Problem("build", "harness build failed: " + cmd, {"log": out[-3000:], "errors": errs[:10]}))
        return False
    _built.add(key)
    return True


def bin_path(binname, features=None, release=False):
    tdir = os.path.join(CACHE, "target" + ("-" + features.replace(",", "-") if features else ""))
    return os.path.join(tdir, "release" if release else "debug", binname)


def ocaml_build(ctx, name):
    rc, out = sh("timeout 900 ./build.sh %s" % name, cwd=OCAML, timeout=1000)
    if rc != 0:
        ctx.problems.append(Problem("build", "ocaml driver build failed: " + name, {"log": out[-3000:]}))
        return False
    return True


def read_lines(p):
    if not os.path.exists(p):
        return []
    return open(p, errors="replace").read().split("\n")[:-1]


def run_stage(ctx, st):
    """One correspondence stage: corpus first, then generated cases; impl vs model; property oracle."""
    name = st["name"]
    feats = st.get("features")
    release = st.get("release", False)
    if not cargo_build(ctx, st["bin"], feats, release):
        return
    if st.get("model") and not ocaml_build(ctx, st["model"]):
        return
    n = st["n_quick"] if ctx.tier == "quick" else st.get("n_thorough", st["n_quick"])
    exe = bin_path(st["bin"], feats, release)
    runs = []
    corpus_dir = os.path.join(CORPUS, ctx.pid)
    corpus_file = os.path.join(corpus_dir, name + ".txt")
    if os.path.exists(corpus_file):
        runs.append(("corpus", "--cases " + corpus_file))
    if st.get("replay_cases"):
        runs = [("replay", "--cases " + st["replay_cases"])]
    else:
        shards = st.get("shards", 1) if ctx.tier == "quick" else st.get("shards_thorough", st.get("shards", 1))
        per = max(1, n // shards)
        for k in range(shards):
            runs.append(("gen%d" % k, "--seed %d --n %d" % (ctx.seed * 1000003 + k * 7919 + st.get("seed_salt", 0), per)))
    stats_total = {}
    seen = set()
    evals = 0
    nontrivial = 0
    samples = []
    mismatches = []
    oracle_fails = []
    procs = []
    timeout = st.get("timeout_quick", 900) if ctx.tier == "quick" else st.get("timeout_thorough", 3300)
    for tag, args in runs:
        out = os.path.join(ctx.work, name + "-" + tag)
        shutil.rmtree(out, ignore_errors=True)
        os.makedirs(out)
        cmd = "timeout %d %s %s --out %s %s" % (timeout, exe, args, out, st.get("extra_args", ""))
        procs.append((tag, out, cmd, subprocess.Popen(cmd, shell=True, env=ENV, stdout=subprocess.PIPE,
                                                        stderr=subprocess.STDOUT, text=True, errors="replace")))
    for tag, out, cmd, p in procs:
        o, _ = p.communicate()
        if p.returncode != 0:
            ctx.problems.append(Problem("correspondence", "%s: harness run failed (%s)" % (name, tag),
                                        {"cmd": cmd, "rc": p.returncode, "log": (o or "")[-2000:]}))
            continue
        cases = read_lines(os.path.join(out, "cases.txt"))
        impl = read_lines(os.path.join(out, "impl.txt"))
        orac = read_lines(os.path.join(out, "oracle.txt"))
        model = None
        if st.get("model"):
            mexe = os.path.join(OCAML, "bin", st["model"])
            kind = st.get("kind", "lockstep")
            if kind == "validate":
                # the model's validator reads case and observed behaviour together
                paired = os.path.join(out, "paired.txt")
                with open(paired, "w") as f:
                    for c, i in zip(cases, impl):
                        f.write(c + " ||| " + i + "\n")
                src = paired
            else:
                src = os.path.join(out, "cases.txt")
            rc, mo = sh("ulimit -s unlimited 2>/dev/null; timeout %d %s %s < %s > %s" %
                        (timeout, mexe, st.get("model_args", ""), src, os.path.join(out, "model.txt")))
            if rc != 0:
                ctx.problems.append(Problem("correspondence", "%s: model driver failed (%s)" % (name, tag),
                                            {"rc": rc, "log": mo[-2000:]}))
                continue
            model = read_lines(os.path.join(out, "model.txt"))
            if len(model) != len(cases):
                ctx.problems.append(Problem("correspondence", "%s: model produced %d lines for %d cases" %
                                            (name, len(model), len(cases))))
                continue
        if not (len(cases) == len(impl) == len(orac)):
            ctx.problems.append(Problem("correspondence", "%s: harness output files disagree in length" % name))
            continue
        try:
            st_js = json.load(open(os.path.join(out, "stats.json")))
            for k, v in st_js.items():
                stats_total[k] = stats_total.get(k, 0) + v
        except Exception:
            pass
        trivial_re = re.compile(st.get("trivial_re", r"^(ERR|PANIC|REJECT)"))
        for i, c in enumerate(cases):
            evals += 1
            h = hashlib.md5(c.encode()).digest()
            new = h not in seen
            seen.add(h)
            il = impl[i]
            if new and not trivial_re.search(il):
                nontrivial += 1
            if len(samples) < 3 and new and not trivial_re.search(il):
                samples.append({"stage": name, "case": c[:400], "impl": il[:400],
                                "model": (model[i][:400] if model else None)})
            if model is not None:
                kind = st.get("kind", "lockstep")
                if kind == "validate":
                    if not model[i].startswith("ACCEPT"):
                        mismatches.append((c, il, model[i], tag))
                elif model[i] != il:
                    mismatches.append((c, il, model[i], tag))
            if orac[i].startswith("FAIL"):
                oracle_fails.append((c, il, orac[i][5:], None))
            elif orac[i].startswith("KNOWN"):
                parts = orac[i].split(" ", 2)
                oracle_fails.append((c, il, parts[2] if len(parts) > 2 else "", parts[1]))
    ctx.cov["evaluations"] += evals
    ctx.cov["distinct_nontrivial"] += nontrivial
    ctx.cov["samples"].extend(samples)
    ctx.cov["traces_validated_against_impl"] += evals if st.get("model") else 0
    ctx.cov["stages"][name] = {"cases": evals, "distinct": len(seen), "distinct_nontrivial": nontrivial,
                               "model_disagreements": len(mismatches), "oracle_failures": len(oracle_fails),
                               "input_distribution": stats_total}
    known_classes = {k["class"]: k for k in load_known().get(ctx.pid, [])}
    for other in st.get("known_from", []):
        # a stage shared with another property also meets that property's recorded findings
        for k in load_known().get(other, []):
            known_classes.setdefault(k["class"], k)
    for c, il, msg, kc in oracle_fails:
        if kc is not None and kc in known_classes:
            ctx.known.append((kc, msg, c, known_classes[kc].get("property", ctx.pid)))
        else:
            ctx.problems.append(Problem("oracle", name, {"message": msg, "impl": il[:2000],
                                                          "class_not_listed": kc},
                                        failing_input={"stage": name, "case": c}))
    for c, il, ml, tag in mismatches:
        ctx.problems.append(Problem("correspondence", name, {"case": c[:4000], "impl": il[:2000], "model": ml[:2000],
                                                              "run": tag}))


def load_known():
    p = os.path.join(ROOT, "known_findings.json")
    if not os.path.exists(p):
        return {}
    js = json.load(open(p))
    out = {}
    for k in js.get("findings", []):
        out.setdefault(k["property"], []).append(k)
    return out


# ---------------------------------------------------------------- verdict

def finish(ctx):
    spec = ctx.spec
    os.makedirs(EVID, exist_ok=True)
    os.makedirs(REPLAYS, exist_ok=True)
    # a failing input on the implementation outranks a mere broken proof/correspondence
    viol = None
    with_input = [p for p in ctx.problems if p.failing_input]
    if with_input:
        viol = with_input[0]
    elif ctx.problems:
        viol = ctx.problems[0]
    seen_known = set()
    for kc, msg, c, owner in ctx.known:
        if kc in seen_known:
            continue
        seen_known.add(kc)
        print("KNOWN-FINDING: property=%s class=%s %s (e.g. case: %s)" % (owner, kc, msg[:200], c[:200]))
    cov = ctx.cov
    cov["rule"] = spec.get("rule", "")
    cov["trusted_base"] = spec.get("trusted_base", [])
    cov["known_findings_seen"] = sorted(seen_known)
    if not cov["samples"]:
        cov["samples"] = [{"note": "no generated case (proof obligations only)", "theorems": list(cov.get("theorems", {}))[:5]}]
    ev = {
        "property_id": ctx.pid, "tier": ctx.tier, "seed": ctx.seed, "level": spec.get("level", "proof"),
        "coverage": cov, "assumptions": spec.get("assumptions", []),
        "wall_s": round(time.time() - ctx.t0, 2), "violations": len(ctx.problems),
    }
    if ctx.problems:
        ev["coverage"]["problems"] = [{"kind": p.kind, "what": p.what} for p in ctx.problems[:20]]
    json.dump(ev, open(os.path.join(EVID, ctx.pid + ".json"), "w"), indent=1)
    if viol is None:
        ctx.log("OK: %d/%d theorems, %d cases (%d distinct non-trivial), %d known-finding classes seen" %
                (cov["discharged"], cov["obligations"], cov["evaluations"], cov["distinct_nontrivial"], len(seen_known)))
        return 0
    body = {
        "property": ctx.pid, "kind": viol.kind, "what_no_longer_checks": viol.what, "detail": viol.detail,
        "failing_input": viol.failing_input, "seed": ctx.seed, "tier": ctx.tier,
        "all_problems": [{"kind": p.kind, "what": p.what, "detail": p.detail, "failing_input": p.failing_input}
                         for p in ctx.problems[:10]],
        "replay_cmd": "./check %s --replay <this file>" % ctx.pid,
    }
    h = hashlib.md5(json.dumps(body, sort_keys=True, default=str).encode()).hexdigest()[:10]
    path = os.path.join(REPLAYS, "%s-%s.json" % (ctx.pid, h))
    json.dump(body, open(path, "w"), indent=1, default=str)
    tail = "" if viol.failing_input else " no-failing-input-found"
    print("VIOLATION property=%s replay=%s%s" % (ctx.pid, path, tail), flush=True)
    ctx.log("problem: %s / %s" % (viol.kind, viol.what))
    return 1


def run_property(spec, tier, seed, replay=None):
    ctx = Ctx(spec, tier, seed)
    if replay:
        body = json.load(open(replay))
        fi = body.get("failing_input") or {}
        case = fi.get("case") or body.get("detail", {}).get("case")
        stname = fi.get("stage") or body.get("what_no_longer_checks")
        if case:
            p = os.path.join(ctx.work, "replay-cases.txt")
            open(p, "w").write(case + "\n")
            for st in spec.get("stages", []):
                if st["name"] == stname:
                    st = dict(st, replay_cases=p)
                    run_stage(ctx, st)
            return finish(ctx)
    for fn in spec.get("pre", []):
        # e.g. a translator that regenerates part of the model from /repo's current source
        for msg in fn(ctx) or []:
            ctx.problems.append(Problem("correspondence", msg))
    if "coq" in spec:
        coq_check(ctx)
        if tier == "thorough" and spec["coq"].get("coqchk", True):
            coqchk(ctx)
    for fn in spec.get("structural", []):
        for msg in fn(ctx) or []:
            ctx.problems.append(Problem("structural", msg))
    for st in spec.get("stages", []):
        if tier == "quick" and st.get("thorough_only"):
            continue
        run_stage(ctx, st)
    for fn in spec.get("post", []):
        fn(ctx)
    return finish(ctx)


def setup_all(specs):
    """Build only what the claimed checks need: Coq targets (Props + Extract closure), OCaml drivers, harness bins."""
    err = coq_makefile()
    if err:
        print(err)
        return 1
    targets, models, bins = [], [], []
    for sp in specs:
        for fn in sp.get("pre", []):
            for msg in fn(None) or []:
                print("setup: pre-hook:", msg)
        c = sp.get("coq", {})
        pl = c.get("props", [])
        pl = pl if isinstance(pl, list) else [pl]
        for f in pl + c.get("extract", []):
            t = f[:-2] + ".vo"
            if t not in targets:
                targets.append(t)
        for st in sp.get("stages", []):
            if st.get("model") and st["model"] not in models:
                models.append(st["model"])
            key = (st["bin"], st.get("features"), st.get("release", False))
            if key not in bins:
                bins.append(key)
    os.makedirs(os.path.join(OCAML, "gen"), exist_ok=True)
    rc, out = sh("timeout 7000 make -j16 %s" % " ".join(targets), cwd=COQ, timeout=7100)
    if rc != 0:
        print(out[-4000:])
        return 1
    for m in models:
        rc, out = sh("timeout 900 ./build.sh %s" % m, cwd=OCAML, timeout=1000)
        if rc != 0:
            print(out[-3000:])
            return 1

    class _C:
        problems = []
    for b, feats, rel in bins:
        c = _C()
        c.problems = []
        if not cargo_build(c, b, feats, rel):
            print(c.problems[0].detail.get("log", "")[-3000:])
            return 1
    print("setup ok: %d coq targets, %d model drivers, %d harness bins" % (len(targets), len(models), len(bins)))
    return 0


def merge_part(spec, name):
    """Merge checks/<name>.py (PART dict written by a kit) into a property spec: props / extract / theorems /
    stages / pre hook / rule / trusted_base / assumptions are appended."""
    import importlib.util
    path = os.path.join(ROOT, "checks", name + ".py")
    s = importlib.util.spec_from_file_location(name, path)
    m = importlib.util.module_from_spec(s)
    s.loader.exec_module(m)
    part = m.PART
    coq = spec["coq"]
    props = coq["props"]
    if isinstance(props, str):
        props = [props]
    coq["props"] = props + list(part.get("props", []))
    coq["extract"] = list(coq.get("extract", [])) + list(part.get("extract", []))
    if coq.get("theorems") != "auto":
        coq["theorems"] = list(coq["theorems"]) + list(part.get("theorems", []))
    spec["stages"] = list(spec.get("stages", [])) + list(part.get("stages", []))
    if part.get("pre"):
        spec["pre"] = list(spec.get("pre", [])) + [getattr(m, part["pre"])]
    if part.get("rule"):
        spec["rule"] = spec.get("rule", "") + " || " + part["rule"]
    spec["trusted_base"] = list(spec.get("trusted_base", [])) + list(part.get("trusted_base", []))
    spec["assumptions"] = list(spec.get("assumptions", [])) + list(part.get("assumptions", []))
    return spec
