(* driver for C03 part c (the TCP session table): trace validation.
   Reads lines `case ||| impl_line` (formats: harness/src/bin/c03_tcpdemux.rs), rebuilds the script and
   the machines' initial tables from the case and the event list from the implementation's line, and
   runs the EXTRACTED validator `validate` of coq/Model/TcpDemux.v (soundness: C03c_validate_sound).
   Prints `ACCEPT` or `REJECT <check> <detail>` per line. *)
open Tcpdemux_model

let rec pos_of_int (n : int) : positive =
  if n = 1 then XH
  else if n land 1 = 0 then XO (pos_of_int (n lsr 1))
  else XI (pos_of_int (n lsr 1))

let z_of_int (n : int) : z =
  if n = 0 then Z0 else if n > 0 then Zpos (pos_of_int n) else Zneg (pos_of_int (-n))

let rec int_of_pos (p : positive) : int =
  match p with XH -> 1 | XO q -> 2 * int_of_pos q | XI q -> 2 * int_of_pos q + 1

let int_of_z (x : z) : int =
  match x with Z0 -> 0 | Zpos p -> int_of_pos p | Zneg p -> - (int_of_pos p)

let rec nat_of_int (n : int) : nat = if n <= 0 then O else S (nat_of_int (n - 1))

let key a p : key = (z_of_int a, z_of_int p)

let mk_seg sa sp da dp fl sq ak tl : seg =
  { s_src = key sa sp; s_dst = key da dp; s_flags = z_of_int fl; s_seq = z_of_int sq; s_ack = z_of_int ak;
    s_tlen = z_of_int tl }

let parse_case (line : string) : step list * tstate list =
  let t = Array.of_list (Conv.tokens line) in
  let i = ref 0 in
  let nx () = incr i; t.(!i - 1) in
  let ni () = int_of_string (nx ()) in
  if nx () <> "v1" then failwith "case version";
  let _flavor = ni () in
  let _lat = ni () in
  let nm = ni () in
  let machines = List.init nm (fun _ ->
    if nx () <> "M" then failwith "M expected";
    let napps = ni () in
    let nr = ni () in
    let routes = List.init nr (fun _ ->
      let a = ni () in let m = ni () in (z_of_int a, if m < 0 then None else Some (z_of_int m))) in
    { t_ip = []; t_listen = []; t_sess = []; t_protos = tCP_TID :: List.init napps z_of_int; t_routes = routes }) in
  if nx () <> "T" then failwith "T expected";
  let ns = ni () in
  let steps = List.init ns (fun _ ->
    let st =
      match nx () with
      | "L" -> let m = ni () in let app = ni () in let a = ni () in let p = ni () in
               SListen (nat_of_int m, z_of_int app, key a p)
      | "O" -> let m = ni () in let app = ni () in let la = ni () in let lp = ni () in let ra = ni () in
               let rp = ni () in SOpen (nat_of_int m, z_of_int app, (key la lp, key ra rp))
      | "S" -> let _ = ni () in let _ = ni () in let _ = ni () in SSend
      | "I" -> let m = ni () in let to_ = ni () in let sa = ni () in let sp = ni () in let da = ni () in
               let dp = ni () in let fl = ni () in let sq = ni () in let ak = ni () in let tl = ni () in
               let _seed = ni () in
               SInject (nat_of_int m, z_of_int to_, mk_seg sa sp da dp fl sq ak tl)
      | k -> failwith ("step kind " ^ k) in
    let _settle = ni () in
    st) in
  (steps, machines)

let parse_event (tok : string) : ev =
  let p = Array.of_list (String.split_on_char ':' tok) in
  let n i = int_of_string p.(i) in
  let seg_at i = mk_seg (n i) (n (i + 1)) (n (i + 2)) (n (i + 3)) (n (i + 4)) (n (i + 5)) (n (i + 6)) (n (i + 7)) in
  let head = p.(0) in
  let idx () = nat_of_int (int_of_string (String.sub head 1 (String.length head - 1))) in
  match head.[0] with
  | 'L' -> ELis (idx (), z_of_int (n 1))
  | 'O' -> EOpn (idx (), z_of_int (n 1))
  | 'S' -> ESnd (idx ())
  | 'I' -> EInj (idx ())
  | 'F' -> EFrm (nat_of_int (n 1), z_of_int (n 2), seg_at 3)
  | 'A' -> EArr (nat_of_int (n 1), z_of_int (n 2), seg_at 3)
  | 'N' -> ENtf (nat_of_int (n 1), z_of_int (n 2), (key (n 3) (n 4), key (n 5) (n 6)))
  | 'B' -> EByt (nat_of_int (n 1), z_of_int (n 2), (key (n 3) (n 4), key (n 5) (n 6)))
  | _ -> failwith ("event " ^ tok)

let split_pair (line : string) : string * string =
  let sep = " ||| " in
  let n = String.length sep in
  let rec find i =
    if i + n > String.length line then failwith "no separator"
    else if String.sub line i n = sep then i else find (i + 1) in
  let i = find 0 in
  (String.sub line 0 i, String.sub line (i + n) (String.length line - i - n))

let () =
  Conv.iter_lines (fun line ->
    let out =
      try
        let (c, il) = split_pair line in
        if String.length il >= 5 && String.sub il 0 5 = "CRASH" then "REJECT 0 the simulation crashed or hung"
        else begin
          let (script, ms) = parse_case c in
          let toks = Conv.tokens il in
          let anomalies =
            List.exists (fun t -> String.length t > 2 && String.sub t 0 2 = "X=" && t <> "X=0") toks in
          let evtoks = List.filter (fun t -> not (String.length t >= 2 && String.sub t 0 2 = "X=")) toks in
          if anomalies then "REJECT 0 anomalies in the trace"
          else begin
            let evs = List.map parse_event evtoks in
            match int_of_z (validate script ms evs) with
            | 0 -> "ACCEPT"
            | 1 ->
                (* find the first event the model refuses *)
                let rec go st es ts i =
                  match es, ts with
                  | e :: es', t :: ts' ->
                      (match vstep script st e with
                       | Some st' -> go st' es' ts' (i + 1)
                       | None -> Printf.sprintf "event %d `%s` contradicts the model" i t)
                  | _, _ -> "?" in
                "REJECT 1 " ^ go { v_ms = ms; v_owed = []; v_inj = [] } evs evtoks 0
            | _ -> "REJECT 2 a reply owed by Tcp::demux or an injected segment never appeared on the link"
          end
        end
      with e -> "REJECT 9 driver: " ^ Printexc.to_string e
    in
    print_endline out)
