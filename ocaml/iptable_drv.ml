(* driver for the C09 model (Model/Subnet.v, Model/IpTable.v): one result line per case line.
   case kinds (see harness/src/bin/c09_iptable.rs for the same grammar):
     fb n | mk m | net ip len a | ov ip1 l1 ip2 l2 | rg lo hi | ci hex | ad a b | tbl op... *)
open Iptable_model

let rec pos_of_int (n : int) : positive =
  if n = 1 then XH
  else if n land 1 = 0 then XO (pos_of_int (n lsr 1))
  else XI (pos_of_int (n lsr 1))
let n_of_int (n : int) : n = if n = 0 then N0 else Npos (pos_of_int n)
let rec int_of_pos = function XH -> 1 | XO p -> 2 * int_of_pos p | XI p -> 2 * int_of_pos p + 1
let int_of_n = function N0 -> 0 | Npos p -> int_of_pos p
let int_of_z = function Z0 -> 0 | Zpos p -> int_of_pos p | Zneg p -> - (int_of_pos p)

exception Model_panic
exception Model_bug of string

(* unwrap a result that has no error alternative in this position *)
let ok = function
  | Ok a -> a
  | Panic _ -> raise Model_panic
  | Err _ -> raise (Model_bug "unexpected Err")
  | OutOfFuel -> raise (Model_bug "OutOfFuel")

let ni s = n_of_int (int_of_string s)
let si n = string_of_int (int_of_n n)
let b2s b = if b then "1" else "0"
let chars hex = List.map n_of_int (Conv.hex_to_ints hex)
let opt_s = function None -> "-" | Some v -> string_of_int v

let cidr_err e =
  match int_of_z e with
  | 1 -> "ERR ipv4"
  | 2 -> "ERR mask empty"
  | 3 -> "ERR mask digit"
  | 4 -> "ERR mask overflow"
  | _ -> raise (Model_bug "cidr error code")

let run_tbl (toks : string list) : string =
  let t = ref (tbl_new : int table) in
  let out = Buffer.create 256 in
  let emit s = if Buffer.length out > 0 then Buffer.add_char out ' '; Buffer.add_string out s in
  List.iter (fun tok ->
      let f = Array.of_list (String.split_on_char ',' tok) in
      let obs o =
        let (t', r) = ok (step_obs !t o) in
        t := t'; r in
      match f.(0) with
      | "A" -> let n = ok (net_new_short (ni f.(1)) (ni f.(2))) in
               emit (opt_s (obs (OAdd (n, int_of_string f.(3)))))
      | "R" -> let n = ok (net_new_short (ni f.(1)) (ni f.(2))) in
               emit (opt_s (obs (ORemove n)))
      | "D" -> ignore (obs (OAddDirect (ni f.(1), int_of_string f.(2)))); emit "."
      | "X" -> emit (opt_s (obs (ORemoveDirect (ni f.(1)))))
      | "C" -> ignore (obs (OAddCidr (chars f.(1), int_of_string f.(2)))); emit "."
      | "Y" -> ignore (obs (ORemoveCidr (chars f.(1)))); emit "."
      | "G" -> t := ok (default_gateway (int_of_string f.(1))); emit "."
      | "L" -> emit (opt_s (get_recipient !t (ni f.(1))))
      | _ -> raise (Model_bug "bad table op")) toks;
  let dump =
    match tbl_iter !t with
    | [] -> "-"
    | l -> String.concat "," (List.map (fun (n, v) ->
               Printf.sprintf "%d/%d=%d" (int_of_n n.net_id) (int_of_n n.net_mask) v) l) in
  (if Buffer.length out = 0 then "" else Buffer.contents out ^ " ") ^ "| " ^ dump

let handle (line : string) : string =
  match Conv.tokens line with
  | ["fb"; n] ->
      let m = ok (from_bitcount (ni n)) in
      Printf.sprintf "%s %s %s %s" (si m) (si (popcount m)) (si (ips_in_net m)) (si (usable_ips m))
  | ["mk"; m] ->
      (match mask_try_from (ni m) with
       | Ok r -> "OK " ^ si r
       | Err _ -> "ERR"
       | Panic _ -> raise Model_panic
       | OutOfFuel -> raise (Model_bug "fuel"))
  | ["net"; ip; len; a] ->
      let n = ok (net_new_short (ni ip) (ni len)) in
      let b = ok (broadcast n) in
      let (lo, hi) = ok (net_range n) in
      Printf.sprintf "%s %s %s %s %s %s" (si n.net_id) (si n.net_mask) (si b) (si lo) (si hi)
        (b2s (contains n (ni a)))
  | ["ov"; ip1; l1; ip2; l2] ->
      let n1 = ok (net_new_short (ni ip1) (ni l1)) in
      let n2 = ok (net_new_short (ni ip2) (ni l2)) in
      Printf.sprintf "%s %s" (b2s (ok (overlaps n1 n2))) (b2s (ok (overlaps n2 n1)))
  | ["rg"; lo; hi] ->
      (match try_from_range (ni lo) (ni hi) with
       | Ok n -> Printf.sprintf "OK %s %s" (si n.net_id) (si n.net_mask)
       | Err e -> (match int_of_z e with
                   | 1 -> "ERR empty" | 2 -> "ERR size" | 3 -> "ERR start"
                   | _ -> raise (Model_bug "range error code"))
       | Panic _ -> raise Model_panic
       | OutOfFuel -> raise (Model_bug "fuel"))
  | ["ci"; hex] ->
      let s = chars hex in
      (match cidr_to_ip s with
       | Ok (ip, m) ->
           (match from_cidr s with
            | Ok n when n.net_mask = m -> Printf.sprintf "OK %s %s %s" (si ip) (si m) (si n.net_id)
            | _ -> raise (Model_bug "from_cidr disagrees with cidr_to_ip"))
       | Err e -> cidr_err e
       | Panic _ -> raise Model_panic
       | OutOfFuel -> raise (Model_bug "fuel"))
  | ["ad"; a; b] ->
      let ba = to_be_bytes (ni a) and bb = to_be_bytes (ni b) in
      let c = match lex_compare ba bb with Lt -> "lt" | Eq -> "eq" | Gt -> "gt" in
      Printf.sprintf "%s %s %s" (String.concat "." (List.map si ba)) c (si (from_be_bytes ba))
  | "tbl" :: ops -> run_tbl ops
  | _ -> raise (Model_bug "bad case")

let () =
  Conv.iter_lines (fun line ->
      let r = try handle line with
        | Model_panic -> "PANIC"
        | Model_bug m -> "MODEL-BUG " ^ m in
      print_endline r)
