(* driver for C04 (UDP/IPv4 demultiplexing): trace validation.
   Reads lines `case ||| impl_line` (formats: harness/src/bin/c04_udp.rs), rebuilds the scenario's
   configuration from the case and the recorded trace from the implementation's line, and runs the
   EXTRACTED validator `validate` of coq/Model/Demux.v (soundness: C04_validate_sound).
   Payloads are represented by (length, digest); the digest of a sent payload is recomputed here from
   (seed, length), independently of the harness.
   Prints `ACCEPT` or `REJECT <check> <detail>` per line. *)
open Demux_model

let rec pos_of_int (n : int) : positive =
  if n = 1 then XH
  else if n land 1 = 0 then XO (pos_of_int (n lsr 1))
  else XI (pos_of_int (n lsr 1))

let z_of_int (n : int) : z =
  if n = 0 then Z0 else if n > 0 then Zpos (pos_of_int n) else Zneg (pos_of_int (-n))

let rec int_of_pos (p : positive) : int =
  match p with XH -> 1 | XO q -> 2 * int_of_pos q | XI q -> 2 * int_of_pos q + 1

let int_of_z (x : z) : int =
  match x with Z0 -> 0 | Zpos p -> int_of_pos p | Zneg p -> - (int_of_pos p)

let rec nat_of_int (n : int) : nat = if n <= 0 then O else S (nat_of_int (n - 1))
let rec int_of_nat (n : nat) : int = match n with O -> 0 | S m -> 1 + int_of_nat m

type pay = int * int   (* (length, digest) *)
let plen ((l, _) : pay) : z = z_of_int l
let peqb (a : pay) (b : pay) : bool = a = b

let digest_iter (n : int) (byte : int -> int) : int =
  let h1 = ref 1 and h2 = ref 7 in
  for i = 0 to n - 1 do
    let x = byte i in
    h1 := (!h1 * 257 + x + 1) mod 1_000_000_007;
    h2 := (!h2 * 263 + x + 1) mod 998_244_353
  done;
  (!h1 lsl 30) lor !h2

let pattern_digest (seed : int) (len : int) : int =
  digest_iter len (fun i -> (seed + i * 7 + (i lsr 8) * 13) land 0xff)

let rpy : pay = (3, digest_iter 3 (fun i -> Char.code "RPY".[i]))

let key a p : key = (z_of_int a, z_of_int p)

let parse_case (line : string) : pay config =
  let t = Array.of_list (Conv.tokens line) in
  let i = ref 0 in
  let nx () = incr i; t.(!i - 1) in
  let ni () = int_of_string (nx ()) in
  if nx () <> "v1" then failwith "case version";
  let _flavor = ni () in
  let mtu = ni () in
  let _lat = ni () in
  let reply = ni () = 1 in
  let nm = ni () in
  let machines = List.init nm (fun _ ->
    if nx () <> "M" then failwith "M expected";
    let arp = ni () = 1 in
    let napps = ni () in
    let ns = ni () in
    let subs = List.init ns (fun _ -> let l = ni () in let _ = ni () in let _ = ni () in z_of_int l) in
    let nr = ni () in
    let routes = List.init nr (fun _ ->
      let a = ni () in let m = ni () in (z_of_int a, if m < 0 then None else Some (z_of_int m))) in
    let nl = ni () in
    let listens = List.init nl (fun _ ->
      let k = ni () in let app = ni () in let a = ni () in let p = ni () in
      match k with
      | 0 -> LUdp (z_of_int app, key a p)
      | 1 -> LOpen (z_of_int app, key a p)
      | _ -> LRaw (z_of_int app, z_of_int a)) in
    { mc_arp = arp; mc_arp_ips0 = subs;
      mc_protos = uDP_TID :: List.init napps z_of_int;
      mc_routes = routes; mc_listens = listens }) in
  if nx () <> "S" then failwith "S expected";
  let ns = ni () in
  let ops = List.concat (List.init ns (fun _ ->
    let m = ni () in let _delay = ni () in
    let la = ni () in let sp = ni () in let da = ni () in let dp = ni () in
    let len = ni () in let seed = ni () in let count = ni () in
    let d = { d_src = key la sp; d_dst = key da dp; d_payload = (len, pattern_digest seed len) } in
    List.init count (fun _ -> { so_m = nat_of_int m; so_d = d }))) in
  { c_mtu = z_of_int mtu; c_reply = reply; c_rpy = rpy; c_machines = machines; c_ops = ops }

let field (toks : string list) (k : string) : string =
  let pre = k ^ "=" in
  let n = String.length pre in
  match List.find_opt (fun s -> String.length s >= n && String.sub s 0 n = pre) toks with
  | Some s -> String.sub s n (String.length s - n)
  | None -> failwith ("missing field " ^ k)

let codes (s : string) : z list =
  if s = "-" then [] else List.map (fun x -> z_of_int (int_of_string x)) (String.split_on_char ',' s)

let items (s : string) : int array list =
  if s = "-" then []
  else List.map (fun it -> Array.of_list (List.map int_of_string (String.split_on_char ':' it)))
         (String.split_on_char ';' s)

let parse_trace (line : string) : pay trace * int =
  let toks = Conv.tokens line in
  let l = List.map codes (String.split_on_char '/' (field toks "L")) in
  let tx = codes (field toks "T") in
  let frames = List.map (fun a ->
    { f_from = nat_of_int a.(0); f_to = z_of_int a.(1);
      f_d = { d_src = key a.(2) a.(3); d_dst = key a.(4) a.(5); d_payload = (a.(6), a.(7)) } })
    (items (field toks "F")) in
  let dlv = List.map (fun a ->
    { e_kind = z_of_int a.(0); e_app = z_of_int a.(1); e_m = nat_of_int a.(2);
      e_local = key a.(3) a.(4); e_remote = key a.(5) a.(6); e_pay = (a.(7), a.(8)) })
    (items (field toks "D")) in
  ({ tr_listen = l; tr_tx = tx; tr_frames = frames; tr_dlv = dlv }, int_of_string (field toks "X"))

let show_key ((a, p) : key) = Printf.sprintf "%d:%d" (int_of_z a) (int_of_z p)
let show_dev (e : pay dev) =
  Printf.sprintf "[kind %d app %d machine %d local %s remote %s len %d]" (int_of_z e.e_kind) (int_of_z e.e_app)
    (int_of_nat e.e_m) (show_key e.e_local) (show_key e.e_remote) (fst e.e_pay)
let show_sop (o : pay sop) =
  Printf.sprintf "[machine %d %s -> %s len %d]" (int_of_nat o.so_m) (show_key o.so_d.d_src) (show_key o.so_d.d_dst)
    (fst o.so_d.d_payload)

let split_pair (line : string) : string * string =
  let sep = " ||| " in
  let n = String.length sep in
  let rec find i =
    if i + n > String.length line then failwith "no separator"
    else if String.sub line i n = sep then i else find (i + 1) in
  let i = find 0 in
  (String.sub line 0 i, String.sub line (i + n) (String.length line - i - n))

let () =
  Conv.iter_lines (fun line ->
    let out =
      try
        let (c, il) = split_pair line in
        if String.length il >= 5 && String.sub il 0 5 = "CRASH" then "REJECT 0 the simulation crashed or hung"
        else begin
          let cfg = parse_case c in
          let (tr, anomalies) = parse_trace il in
          if anomalies > 0 then "REJECT 0 anomalies in the trace"
          else
            match int_of_z (validate plen peqb cfg tr) with
            | 0 -> "ACCEPT"
            | 1 ->
                let m = List.map listen_codes cfg.c_machines in
                "REJECT 1 bind results: model " ^
                String.concat "/" (List.map (fun l -> String.concat "," (List.map (fun z -> string_of_int (int_of_z z)) l)) m)
            | 2 ->
                let rec first ops cs i = match ops, cs with
                  | o :: ops', k :: cs' -> if tx_code_ok plen cfg o k then first ops' cs' (i + 1)
                                            else Printf.sprintf "send call %d %s code %d" i (show_sop o) (int_of_z k)
                  | _, _ -> "lengths differ" in
                "REJECT 2 send result: " ^ first cfg.c_ops tr.tr_tx 0
            | 3 ->
                "REJECT 3 frames: expected " ^ String.concat " " (List.map show_sop (expected_frames plen peqb cfg tr))
                ^ " observed " ^ String.concat " " (List.map show_sop (observed_frames tr))
            | 6 ->
                let bad = List.filter (fun f -> not (frame_to_ok peqb cfg f)) tr.tr_frames in
                "REJECT 6 link destination of frames: " ^
                String.concat " " (List.map (fun f -> Printf.sprintf "%s to %d" (show_sop { so_m = f.f_from; so_d = f.f_d }) (int_of_z f.f_to)) bad)
            | 4 -> "REJECT 4 the model predicts a panic (binding for a protocol that is not on the machine)"
            | n ->
                Printf.sprintf "REJECT %d deliveries: predicted %s observed %s" n
                  (String.concat " " (List.map show_dev (predicted plen peqb cfg tr)))
                  (String.concat " " (List.map show_dev tr.tr_dlv))
        end
      with e -> "REJECT 9 driver: " ^ Printexc.to_string e
    in
    print_endline out)
