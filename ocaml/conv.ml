(* Conversions between OCaml ints/strings and the extracted inductive
   positive / N / Z / nat (no Extract Constant is used, so they stay inductive).
   The functions are polymorphic in the extracted module via first-class
   constructors passed by each driver. *)

let tokens (s : string) : string list =
  List.filter (fun t -> t <> "") (String.split_on_char ' ' s)

let hex_to_ints (s : string) : int list =
  if s = "-" then []
  else
    let n = String.length s / 2 in
    List.init n (fun i -> int_of_string ("0x" ^ String.sub s (2 * i) 2))

let ints_to_hex (l : int list) : string =
  if l = [] then "-"
  else String.concat "" (List.map (fun b -> Printf.sprintf "%02x" b) l)

let iter_lines (f : string -> unit) : unit =
  try
    while true do
      let l = input_line stdin in
      if String.trim l <> "" then f l
    done
  with End_of_file -> ()
