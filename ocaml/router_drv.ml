(* driver for the C16 model (Model/Router.v): trace validation.
   stdin lines: `<case> ||| <impl line>` (grammar: harness/src/bin/c16_router.rs).
   stdout: `ACCEPT` or `REJECT <why>` per line.
   With argument `predict` the input is the bare case and the output is the model's prediction per datagram
   (debugging aid). *)
open Router_model

let rec pos_of_int (n : int) : positive =
  if n = 1 then XH
  else if n land 1 = 0 then XO (pos_of_int (n lsr 1))
  else XI (pos_of_int (n lsr 1))
let n_of_int (n : int) : n = if n = 0 then N0 else Npos (pos_of_int n)
let rec int_of_pos = function XH -> 1 | XO p -> 2 * int_of_pos p | XI p -> 2 * int_of_pos p + 1
let int_of_n = function N0 -> 0 | Npos p -> int_of_pos p
let int_of_z = function Z0 -> 0 | Zpos p -> int_of_pos p | Zneg p -> - (int_of_pos p)

exception Bad of string

let ni s = try n_of_int (int_of_string s) with _ -> raise (Bad ("number " ^ s))
let ii s = try int_of_string s with _ -> raise (Bad ("number " ^ s))

let split_sections (s : string) : string list list =
  List.map Conv.tokens (String.split_on_char '|' s)

let mask_of len =
  if len = 0 then 0 else if len >= 32 then 0xFFFFFFFF else (0xFFFFFFFF lsl (32 - len)) land 0xFFFFFFFF

let extra_ip r j = 0x0A630000 lor (r lsl 8) lor (1 + j)

let payload k len =
  List.init len (fun i ->
      n_of_int ((match i with 0 -> k lsr 8 | 1 -> k | _ -> k * 37 + i * 11 + 5) land 0xff))

type scn = { flavor : int; cls : string; cfg : cfg; dgrams : dgram list }

let parse_case (s : string) : scn =
  let secs = split_sections s in
  let flavor, cls = match secs with (f :: c :: _) :: _ -> ii f, c | _ -> raise (Bad "head") in
  let mtus = ref [] and routers = ref [] and hosts = ref [] and dgrams = ref [] in
  let ridx = ref 0 and didx = ref 0 in
  List.iteri (fun si toks ->
      if si > 0 then
        match toks with
        | "N" :: ms -> mtus := List.map ni ms
        | "R" :: rest ->
            let a = Array.of_list rest in
            let k = ii a.(0) in
            let nets = List.init k (fun j -> ni a.(1 + 2 * j)) in
            let ips = List.init k (fun j -> ni a.(2 + 2 * j)) in
            let p = 1 + 2 * k in
            let extra = ii a.(p) and m = ii a.(p + 1) in
            let ips = ips @ List.init extra (fun j -> n_of_int (extra_ip !ridx j)) in
            let tbl = ref (tbl_new : route table) in
            for e = 0 to m - 1 do
              let q = p + 2 + 4 * e in
              let addr = ii a.(q) and len = ii a.(q + 1) and gw = ii a.(q + 2) and slot = ni a.(q + 3) in
              (* IpTable::add(Ipv4Net::new(addr, from_bitcount(len)), (gw, slot)) *)
              let key = net_new (n_of_int addr) (n_of_int (mask_of len)) in
              let v = ((if gw = 0 then None else Some (n_of_int gw)), slot) in
              tbl := snd (tbl_insert key v !tbl)
            done;
            routers := { rc_table = !tbl; rc_ips = ips; rc_nets = nets } :: !routers;
            incr ridx
        | ["H"; net; ip; ml; gw; wild] ->
            hosts := { hc_net = ni net; hc_ip = ni ip; hc_mask = n_of_int (mask_of (ii ml)); hc_gw = ni gw;
                       hc_wild = (wild <> "0") } :: !hosts
        | ["D"; src; dst; ttl; len; _start; _exp] ->
            let t = ii ttl in
            dgrams := { d_src = ni src; d_dst = ni dst; d_ttl = n_of_int (if t < 0 then 30 else t);
                        d_data = payload !didx (ii len) } :: !dgrams;
            incr didx
        | "F" :: _ -> ()
        | [] -> ()
        | _ -> raise (Bad "section")) secs;
  { flavor; cls;
    cfg = { c_mtus = !mtus; c_routers = List.rev !routers; c_hosts = List.rev !hosts };
    dgrams = List.rev !dgrams }

(* "-" = a MAC address that no tap of that network has: a station that takes nothing *)
let node_of ?(nobody = 1000000) (s : string) : node option =
  if s = "-" then Some (NHost (n_of_int nobody))
  else
    let i = ni (String.sub s 1 (String.length s - 1)) in
    match s.[0] with
    | 'R' -> Some (NRouter i)
    | 'H' -> Some (NHost i)
    | _ -> raise (Bad ("node " ^ s))

let bytes hexs = List.map n_of_int (Conv.hex_to_ints hexs)

(* site -> the source location the panic hook must have reported *)
let site_location (s : int) : string list =
  match s with
  | 1601 -> ["arp_router.rs:84"]
  | 1602 -> ["ipv4_parsing.rs:129"]
  | 1603 -> ["arp_router.rs:106"]
  | 1604 -> ["pci.rs:45"]
  | 1605 -> ["arp_router.rs:116"; "arp_router.rs:117"; "arp_router.rs:118"]
  | _ -> []

let contains_sub (s : string) (sub : string) : bool =
  let n = String.length s and m = String.length sub in
  let rec go i = i + m <= n && (String.sub s i m = sub || go (i + 1)) in
  go 0

let show_node = function NRouter i -> Printf.sprintf "R%d" (int_of_n i) | NHost i -> Printf.sprintf "H%d" (int_of_n i)
let show_ending = function
  | EDelivered h -> Printf.sprintf "delivered@H%d" (int_of_n h)
  | EHostDrop h -> Printf.sprintf "hostdrop@H%d" (int_of_n h)
  | ETtl r -> Printf.sprintf "ttl@R%d" (int_of_n r)
  | ENoRoute r -> Printf.sprintf "noroute@R%d" (int_of_n r)
  | ENoArp r -> Printf.sprintf "noarp@R%d" (int_of_n r)
  | EPanic (r, s) -> Printf.sprintf "panic@R%d:%d" (int_of_n r) (int_of_z s)
  | EFuel -> "FUEL"

(* the model's account of datagram d, for messages *)
let predict (c : cfg) (d : dgram) : string =
  let h = cfg_hc c d.d_src in
  match owner c h.hc_net (host_next_hop h d.d_dst) with
  | None -> "not sent (nobody answers for the sender's next hop)"
  | Some n0 ->
      let body = List.init 8 (fun _ -> N0) @ d.d_data in
      let p = { p_ttl = d.d_ttl; p_src = h.hc_ip; p_dst = d.d_dst; p_tos = N0;
                p_totlen = n_of_int (20 + List.length body); p_ident = N0; p_flags = N0; p_frag = N0;
                p_proto = n_of_int 17; p_body = body } in
      let (hs, e) = cfg_trajectory c n0 p in
      Printf.sprintf "first->%s %s %s" (show_node n0)
        (String.concat " " (List.map (fun x ->
             Printf.sprintf "R%d/s%d->%s(ttl %d)" (int_of_n x.ho_router) (int_of_n x.ho_slot)
               (show_node x.ho_to) (int_of_n x.ho_pkt.p_ttl)) hs))
        (show_ending e)

let validate_line (line : string) : string =
  let cut =
    let rec find i =
      if i + 5 > String.length line then raise (Bad "no |||")
      else if String.sub line i 5 = " ||| " then i else find (i + 1) in
    find 0 in
  let case = String.sub line 0 cut in
  let impl = String.sub line (cut + 5) (String.length line - cut - 5) in
  let s = parse_case case in
  let panics =
    List.filter_map (fun d -> match dgram_ending s.cfg d with
        | Some (EPanic (_, z)) -> Some (int_of_z z) | _ -> None) s.dgrams in
  if String.length impl >= 5 && String.sub impl 0 5 = "PANIC" then begin
    if not (predicts_panic s.cfg s.dgrams) then "REJECT the process died but the model predicts no panic"
    else if List.exists (fun site -> List.exists (contains_sub impl) (site_location site)) panics then "ACCEPT"
    else Printf.sprintf "REJECT the process died at another place than the model's sites %s"
        (String.concat "," (List.map string_of_int panics))
  end
  else if String.length impl >= 4 && String.sub impl 0 4 = "HANG" then "REJECT the simulation hung"
  else begin
    let secs = split_sections impl in
    let quiet = match secs with ("OK" :: q :: _) :: _ -> q = "quiet=1" | _ -> raise (Bad "impl head") in
    let frames = ref [] and rxs = ref [] in
    List.iteri (fun si toks ->
        if si > 0 then
          match toks with
          | ["f"; tag; net; from; to_; ttl; src; dst; tos; totlen; ident; flags; frag; proto; body] ->
              let from = match node_of from with Some n -> n | None -> NHost (n_of_int 1000000) in
              let p = { p_ttl = ni ttl; p_src = ni src; p_dst = ni dst; p_tos = ni tos; p_totlen = ni totlen;
                        p_ident = ni ident; p_flags = ni flags; p_frag = ni frag; p_proto = ni proto;
                        p_body = bytes body } in
              frames := (ni tag, { f_net = ni net; f_from = from; f_to = node_of to_; f_pkt = p }) :: !frames
          | ["x"; tag; host; src; dst; data] ->
              rxs := (ni tag, { x_host = ni host; x_src = ni src; x_dst = ni dst; x_data = bytes data }) :: !rxs
          | [] -> ()
          | _ -> raise (Bad "impl section")) secs;
    let frames = List.rev !frames and rxs = List.rev !rxs in
    if not quiet then "REJECT the networks did not fall silent"
    else if validate s.cfg s.dgrams frames rxs then
      (if all_ideal s.cfg N0 s.dgrams frames then "ACCEPT" else "ACCEPT arp-divergent")
    else begin
      (* say which datagram *)
      let why = ref "a frame or delivery that belongs to no datagram" in
      List.iteri (fun k d ->
          let kk = n_of_int k in
          if not (check_dgram s.cfg d (select kk frames) (select kk rxs)) then
            why := Printf.sprintf "datagram %d: observed %d frames, %d deliveries; model: %s" k
                (List.length (select kk frames)) (List.length (select kk rxs)) (predict s.cfg d))
        (List.rev (List.rev s.dgrams));
      "REJECT " ^ !why
    end
  end

let predict_line (line : string) : string =
  let s = parse_case line in
  String.concat " ; " (List.mapi (fun k d -> Printf.sprintf "%d: %s" k (predict s.cfg d)) s.dgrams)

let () =
  let mode = if Array.length Sys.argv > 1 then Sys.argv.(1) else "validate" in
  Conv.iter_lines (fun line ->
      let r = try (if mode = "predict" then predict_line line else validate_line line) with
        | Bad m -> "REJECT malformed input: " ^ m
        | Invalid_argument m -> "REJECT malformed input: " ^ m
        | Failure m -> "REJECT malformed input: " ^ m in
      print_endline r)
