(* driver for the IPv4 / UDP / TCP codec and checksum models (kit codecip).
   Case and result formats: harness/src/bin/codecip_common/mod.rs.
   Arguments: ck0 | ck1   cargo feature compute_checksum off / on (default ck0)
              orig        the code as it is in /repo (no repair): same as fck0 ftl0
              fck0, ftl0  switch one repair off (defaults: both on = repaired code) *)
open Codecip_model

let ck = ref false
let fck = ref true
let ftl = ref true

let () =
  Array.iteri
    (fun i a ->
      if i > 0 then
        match a with
        | "ck0" -> ck := false
        | "ck1" -> ck := true
        | "orig" -> fck := false; ftl := false
        | "fck0" -> fck := false
        | "ftl0" -> ftl := false
        | "fck1" -> fck := true
        | "ftl1" -> ftl := true
        | _ -> failwith ("unknown argument " ^ a))
    Sys.argv

(* ---- conversions -------------------------------------------------------- *)
let rec pos_of_int (n : int) : positive =
  if n = 1 then XH else if n land 1 = 0 then XO (pos_of_int (n lsr 1)) else XI (pos_of_int (n lsr 1))

let z_of_int (n : int) : z =
  if n = 0 then Z0 else if n > 0 then Zpos (pos_of_int n) else Zneg (pos_of_int (-n))

let rec pos_of_u64 (x : int64) : positive =
  if Int64.equal x 1L then XH
  else
    let r = pos_of_u64 (Int64.shift_right_logical x 1) in
    if Int64.equal (Int64.logand x 1L) 0L then XO r else XI r

(* decimal strings up to u64::MAX *)
let z_of_dec (s : string) : z =
  if String.length s <= 18 then z_of_int (int_of_string s)
  else
    let x = Int64.of_string ("0u" ^ s) in
    if Int64.equal x 0L then Z0 else Zpos (pos_of_u64 x)

let rec int_of_pos (p : positive) : int =
  match p with XH -> 1 | XO q -> 2 * int_of_pos q | XI q -> (2 * int_of_pos q) + 1

let int_of_z (x : z) : int = match x with Z0 -> 0 | Zpos p -> int_of_pos p | Zneg p -> - int_of_pos p
let rec nat_of_int (i : int) : nat = if i <= 0 then O else S (nat_of_int (i - 1))

(* `g<len>:<seed>`: the same generator as gen_bytes in the harness *)
let gen_bytes (len : int) (seed : int) : int list =
  let x = ref (seed land 0x7fffffff) in
  List.init len (fun _ ->
      x := ((!x * 1103515245) + 12345) land 0x7fffffff;
      (!x lsr 16) land 0xff)

let parse_p (tok : string) : int list =
  List.concat_map
    (fun part ->
      if part = "-" || part = "" then []
      else if part.[0] = 'g' then
        match String.split_on_char ':' (String.sub part 1 (String.length part - 1)) with
        | [ l; s ] -> gen_bytes (int_of_string l) (int_of_string s)
        | _ -> failwith "g<len>:<seed>"
      else Conv.hex_to_ints part)
    (String.split_on_char '+' tok)

let zl (l : int list) : z list = List.map z_of_int l
let il (l : z list) : int list = List.map int_of_z l
let hex (l : z list) : string = Conv.ints_to_hex (il l)
let zi = int_of_z

(* ---- rendering ----------------------------------------------------------- *)
let err_line (e : z) : string =
  let e = zi e in
  if e >= 4294967296 then
    let r = e - 4294967296 in
    Printf.sprintf "ERR ck %d %d" (r / 65536) (r mod 65536)
  else Printf.sprintf "ERR %d" e

let ser_line (r : z list result) : string =
  match r with Ok l -> "OK " ^ hex l | Err e -> err_line e | Panic _ -> "PANIC" | OutOfFuel -> "OUTOFFUEL"

let ip_fields (h : ipv4_hdr) : string =
  Printf.sprintf "%d %d %d %d %d %d %d %d %d %d %d" (zi h.ip_ihl) (zi h.ip_tos) (zi h.ip_len) (zi h.ip_id)
    (zi h.ip_frag) (zi h.ip_flags) (zi h.ip_ttl) (zi h.ip_proto) (zi h.ip_ck) (zi h.ip_src) (zi h.ip_dst)

let ip_decode_line (bs : z list) : string =
  match ipv4_decode !fck !ftl !ck bs with
  | Ok h -> Printf.sprintf "OK %s RE %s" (ip_fields h) (ser_line (ipv4_encode !ck h))
  | Err e -> err_line e
  | Panic _ -> "PANIC"
  | OutOfFuel -> "OUTOFFUEL"

let rec drop n l = if n <= 0 then l else match l with [] -> [] | _ :: r -> drop (n - 1) r

let udp_decode_line (bs : z list) (plen : z) (sa : z) (da : z) : string =
  match udp_decode !ck bs plen sa da with
  | Ok h ->
      let re =
        if zi h.ud_len >= 8 then
          ser_line (udp_build !ck sa h.ud_sport da h.ud_dport (drop 8 bs) (z_of_int (zi h.ud_len - 8)))
        else "NA"
      in
      Printf.sprintf "OK %d %d %d %d RE %s" (zi h.ud_sport) (zi h.ud_dport) (zi h.ud_len) (zi h.ud_ck) re
  | Err e -> err_line e
  | Panic _ -> "PANIC"
  | OutOfFuel -> "OUTOFFUEL"

let tcp_fields (h : tcp_hdr) : string =
  Printf.sprintf "%d %d %d %d %d %d %d %d %d" (zi h.t_sport) (zi h.t_dport) (zi h.t_seq) (zi h.t_ack) (zi h.t_doff)
    (zi h.t_ctl) (zi h.t_wnd) (zi h.t_urg) (zi h.t_ck)

let tcp_decode_line (bs : z list) (plen : z) (sa : z) (da : z) : string =
  match tcp_decode !fck !ck bs plen sa da with
  | Ok h -> Printf.sprintf "OK %s RE %s" (tcp_fields h) (hex (tcp_encode h))
  | Err e -> err_line e
  | Panic _ -> "PANIC"
  | OutOfFuel -> "OUTOFFUEL"

let b01 (b : bool) : int = if b then 1 else 0

let ctl_line (c : z) : string =
  Printf.sprintf "%d %d %d %d %d %d %d" (zi c) (b01 (ctl_urg c)) (b01 (ctl_ack c)) (b01 (ctl_psh c)) (b01 (ctl_rst c))
    (b01 (ctl_syn c)) (b01 (ctl_fin c))

(* ---- one case ------------------------------------------------------------ *)
let rec run (t : string array) (o : int) : string =
  let p i = z_of_dec t.(o + i) in
  match t.(o) with
  | "ip4b" -> ser_line (ipv4_build !ck (p 5) (p 4) (p 6) (p 7) (p 8) (z_of_int 30) (p 3) (p 1) (p 2))
  | "ip4s" ->
      ser_line
        (ipv4_encode !ck
           { ip_ihl = p 1; ip_tos = p 2; ip_len = p 3; ip_id = p 4; ip_frag = p 5; ip_flags = p 6; ip_ttl = p 7;
             ip_proto = p 8; ip_ck = p 9; ip_src = p 10; ip_dst = p 11 })
  | "ip4d" -> ip_decode_line (zl (parse_p t.(o + 1)))
  | "ip4c" ->
      let f = cf_new (t.(o + 1) = "1") (t.(o + 2) = "1") in
      Printf.sprintf "%d %d %d" (zi f) (b01 (cf_may_fragment f)) (b01 (cf_is_last f))
  | "ip4t" -> string_of_int (zi (tos_new (p 1) (p 2) (p 3) (p 4)))
  | "udpb" -> ser_line (udp_build !ck (p 1) (p 2) (p 3) (p 4) (zl (parse_p t.(o + 5))) (p 6))
  | "udpd" -> udp_decode_line (zl (parse_p t.(o + 4))) (p 3) (p 1) (p 2)
  | "tcpb" ->
      let h = ref (tb_new (p 1) (p 2) (p 3)) in
      for i = o + 8 to Array.length t - 1 do
        let c = t.(i) in
        let v () = z_of_dec (String.sub c 1 (String.length c - 1)) in
        h :=
          match c.[0] with
          | 'w' -> tb_wnd !h (v ())
          | 'a' -> tb_ack !h (v ())
          | 'p' -> tb_psh !h
          | 'r' -> tb_rst !h
          | 's' -> tb_syn !h
          | 'f' -> tb_fin !h
          | 'u' -> tb_urg !h (v ())
          | _ -> failwith "bad builder call"
      done;
      (match tcp_build !ck !h (p 4) (p 5) (zl (parse_p t.(o + 6))) (p 7) with
      | Ok h -> Printf.sprintf "OK %s SER %s" (tcp_fields h) (hex (tcp_encode h))
      | Err e -> err_line e
      | Panic _ -> "PANIC"
      | OutOfFuel -> "OUTOFFUEL")
  | "tcps" ->
      "OK "
      ^ hex
          (tcp_encode
             { t_sport = p 1; t_dport = p 2; t_seq = p 3; t_ack = p 4; t_doff = p 5; t_ctl = p 6; t_wnd = p 7; t_urg = p 8;
               t_ck = p 9 })
  | "tcpd" -> tcp_decode_line (zl (parse_p t.(o + 4))) (p 3) (p 1) (p 2)
  | "ctln" ->
      let b i = t.(o + i) = "1" in
      ctl_line (ctl_new (b 1) (b 2) (b 3) (b 4) (b 5) (b 6))
  | "ctls" ->
      let bit = min (int_of_string t.(o + 2)) 5 in
      ctl_line (ctl_set_bit (p 1) (z_of_int bit) (t.(o + 3) = "1"))
  | "cks" ->
      let acc = ref Z0 in
      for i = o + 1 to Array.length t - 1 do
        let op = t.(i) in
        let v = String.sub op 1 (String.length op - 1) in
        let hx s = z_of_int (int_of_string ("0x" ^ s)) in
        acc :=
          match op.[0] with
          | 'w' -> ck_u16 !ck !acc (hx v)
          | 'b' ->
              let x = int_of_string ("0x" ^ v) in
              ck_u8 !ck !acc (z_of_int (x lsr 8)) (z_of_int (x land 255))
          | 'd' -> ck_u32 !ck !acc (hx v)
          | 'r' -> ck_rem !ck !acc (zl (parse_p v))
          | _ -> failwith "bad cks op"
      done;
      Printf.sprintf "%d %d" (zi !acc) (zi (as_u16 !ck !acc))
  | "flip" ->
      let n = int_of_string t.(o + 1) in
      let pos = List.init n (fun k -> int_of_string t.(o + 2 + k)) in
      let io = o + 2 + n in
      let kind = t.(io) in
      let q i = z_of_dec t.(io + i) in
      let bs = zl (parse_p (if kind = "ip4d" then t.(io + 1) else t.(io + 4))) in
      let len = List.length bs in
      let cs =
        List.fold_left
          (fun b i -> if i / 8 < len then flip_at b (nat_of_int (i / 8)) (z_of_int (7 - (i mod 8))) else b)
          bs pos
      in
      let dec b =
        match kind with
        | "ip4d" -> ip_decode_line b
        | "udpd" -> udp_decode_line b (q 3) (q 1) (q 2)
        | _ -> tcp_decode_line b (q 3) (q 1) (q 2)
      in
      dec bs ^ " | " ^ dec cs
  | s -> failwith ("unknown op " ^ s)

let () = Conv.iter_lines (fun line -> print_endline (run (Array.of_list (Conv.tokens line)) 0))
