(* driver for C20 (name resolution): trace validation.
   usage: dnsproto <cap80|nocap> <builtin-wins|registered-wins>
   reads lines `case ||| impl_line` (formats: harness/src/bin/c20_dns.rs), turns the
   implementation's recorded events into labels of Model/DnsProto.v and runs the EXTRACTED
   [validate] on them:
     Q payloads must be exactly a create_request (extracted query_of_bytes / request_bytes),
     A payloads are compared byte for byte with the model's server_respond (inside step),
     R values, cache contents after the run (M) and the way the run ended (E) are checked by
     validate; a crash must be explained by a panic site of the model (EvX; file and error kind of
     the panic message name the site).
   prints ACCEPT ... or REJECT <why> per line. *)
open Dnsproto_model

let rec pos_of_int (n : int) : positive =
  if n = 1 then XH
  else if n land 1 = 0 then XO (pos_of_int (n lsr 1))
  else XI (pos_of_int (n lsr 1))

let z_of_int (n : int) : z =
  if n = 0 then Z0 else if n > 0 then Zpos (pos_of_int n) else Zneg (pos_of_int (-n))

let rec int_of_pos (p : positive) : int =
  match p with XH -> 1 | XO q -> 2 * int_of_pos q | XI q -> 2 * int_of_pos q + 1

let int_of_z (x : z) : int =
  match x with Z0 -> 0 | Zpos p -> int_of_pos p | Zneg p -> - (int_of_pos p)

let zbytes (s : string) : z list = List.map z_of_int (Conv.hex_to_ints s)
let addr_of_u32 (a : int) : z list =
  List.map z_of_int [ (a lsr 24) land 255; (a lsr 16) land 255; (a lsr 8) land 255; a land 255 ]

exception Reject of string

(* records of the case line: `... R <k> { <name hex> <addr u32> } C ...` *)
let parse_records (case : string) : (z list * z list) list =
  let t = Array.of_list (Conv.tokens case) in
  let n = Array.length t in
  let rec find i = if i >= n then raise (Reject "case without R") else if t.(i) = "R" then i else find (i + 1) in
  let r = find 0 in
  let k = int_of_string t.(r + 1) in
  List.init k (fun j -> (zbytes t.(r + 2 + 2 * j), addr_of_u32 (int_of_string t.(r + 3 + 2 * j))))

(* the panic site of the model for `<file>:<line>:<kind>`: file and error kind decide (line numbers
   move when the file is edited); sites are named after the line numbers of the tree as modelled *)
let site_of_location (loc : string) : int =
  match String.split_on_char ':' loc with
  | [ file; _line; kind ] -> (
      match (file, kind) with
      | "dns_server.rs", "HeaderTooShort" -> 61
      | "dns_server.rs", "InvalidName" -> 64
      | "dns_server.rs", "Cache" -> 141
      | "dns_client.rs", "HeaderTooShort" -> 1091
      | "dns_client.rs", "Utf8" -> 1093
      | "dns_client.rs", "Index" -> 1095
      | "dns_client.rs", "Cache" -> 1098
      | "socket_api.rs", "Overflow" -> 2096
      | _ -> raise (Reject ("crash at a site the model does not have: " ^ loc)))
  | _ -> raise (Reject ("crash location " ^ loc))

let split_events (s : string) : string list list =
  let parts = Str.split (Str.regexp_string " ; ") s in
  List.map Conv.tokens parts

let check (cap : z option) (bw : bool) (line : string) : string =
  try
    let case, impl =
      match Str.bounded_split_delim (Str.regexp_string " ||| ") line 2 with
      | [ c; i ] -> (c, i)
      | _ -> raise (Reject "line without |||")
    in
    let records = parse_records case in
    let conn = ref 1 in
    let events = ref [] in
    let finals = ref [] in
    let ending = ref None in
    List.iter
      (fun toks ->
        match toks with
        | [ "N"; c ] -> conn := int_of_string c
        | [ "L"; c; h; n ] -> events := EvL (z_of_int (int_of_string c), z_of_int (int_of_string h), zbytes n) :: !events
        | [ "Q"; c; p; payload ] -> (
            let bs = zbytes payload in
            let zc = z_of_int (int_of_string c) in
            let label id n = events := EvQ (zc, z_of_int (int_of_string p), id, n) :: !events in
            match query_of_bytes bs with
            | Some (id, n) -> label id n
            | None -> (
                (* a name with the delimiter does not decode to itself: the datagram must still be the
                   create_request of a name this client has looked up *)
                let id = match bs with a :: b :: _ -> z_of_int (int_of_z a * 256 + int_of_z b) | _ -> z_of_int 0 in
                let names = List.filter_map (function EvL (c', _, n) when c' = zc -> Some n | _ -> None) !events in
                match List.find_opt (fun n -> request_bytes id n = bs) names with
                | Some n -> label id n
                | None -> raise (Reject ("query from client " ^ c ^ " port " ^ p ^ " is not a create_request"))))
        | [ "A"; c; p; payload ] ->
            events := EvA (z_of_int (int_of_string c), z_of_int (int_of_string p), zbytes payload) :: !events
        | "R" :: c :: h :: n :: a :: _ -> (
            match int_of_string_opt a with
            | Some v -> events := EvR (z_of_int (int_of_string c), z_of_int (int_of_string h), zbytes n, addr_of_u32 v) :: !events
            | None -> raise (Reject ("lookup " ^ h ^ " did not return an address: " ^ a)))
        | [ "M"; c; n; a ] ->
            let v = int_of_string a in
            finals := ((z_of_int (int_of_string c), zbytes n), if v < 0 then None else Some (addr_of_u32 v)) :: !finals
        | [ "E"; "DONE" ] -> ending := Some EndDone
        | "E" :: "HANG" :: _ -> ending := Some EndHang
        | [ "E"; "CRASH"; loc ] ->
            events := EvX (z_of_int (site_of_location loc)) :: !events;
            ending := Some EndCrash
        | "E" :: rest -> raise (Reject ("ending " ^ String.concat " " rest))
        | [] -> ()
        | t :: _ -> raise (Reject ("event " ^ t)))
      (split_events impl);
    let en = match !ending with Some e -> e | None -> raise (Reject "no ending") in
    let cfg = { cfg_records = records; cfg_recv_cap = cap; cfg_builtin_wins = bw; cfg_conn = z_of_int !conn } in
    let tr = List.rev !events in
    let fin = List.rev !finals in
    (* Multi-thread runtime only (case starts with "F <n>", n > 0): the harness logs L when the lookup is CALLED,
       the client's cache check happens somewhere between that call and the lookup's first own event.  An
       answer for the same client that lands in between makes a later-started lookup return from the cache
       without a query; since the cache only grows, such a lookup may be linearised right before its R.  So when
       the first disabled label is an R whose L has an A of the same client between L and R, move that L
       directly in front of the R and validate again (at most once per lookup). *)
    let multi = match Conv.tokens case with "F" :: n :: _ -> (try int_of_string n > 0 with _ -> false) | _ -> false in
    let first_disabled t =
      let rec go st i = function
        | [] -> None
        | e :: r -> ( match step cfg st e with Some st' -> go st' (i + 1) r | None -> Some (i, e))
      in
      go init_state 0 t
    in
    let relinearise t =
      match first_disabled t with
      | Some (i, EvR (c, h, _, _)) -> (
          let arr = Array.of_list t in
          let j = ref (-1) in
          Array.iteri (fun k e -> match e with EvL (c', h', _) when c' = c && h' = h && k < i -> j := k | _ -> ()) arr;
          if !j < 0 then None
          else
            let has_a = ref false in
            for k = !j + 1 to i - 1 do
              match arr.(k) with EvA (c', _, _) when c' = c -> has_a := true | _ -> ()
            done;
            if not !has_a then None
            else
              let l = arr.(!j) in
              let out = ref [] in
              Array.iteri (fun k e -> if k = !j then () else begin if k = i then out := l :: !out; out := e :: !out end) arr;
              Some (List.rev !out))
      | _ -> None
    in
    let relin = ref 0 in
    let tr =
      if not multi then tr
      else begin
        let cur = ref tr in
        let continue = ref true in
        while !continue && !relin < 64 && not (validate cfg !cur en fin) do
          match relinearise !cur with
          | Some t' -> cur := t'; incr relin
          | None -> continue := false
        done;
        !cur
      end
    in
    if validate cfg tr en fin then
      Printf.sprintf "ACCEPT %s events=%d names_ok=%b records_ok=%b%s"
        (match en with EndDone -> "done" | EndCrash -> "crash" | EndHang -> "hang")
        (List.length tr) (names_okb tr) (records_ok cfg)
        (if !relin > 0 then Printf.sprintf " relinearised=%d" !relin else "")
    else begin
      (* locate the first label that is not enabled *)
      let rec go st i = function
        | [] -> (st, None)
        | e :: r -> ( match step cfg st e with Some st' -> go st' (i + 1) r | None -> (st, Some (i, e)))
      in
      match go init_state 0 tr with
      | _, Some (i, e) ->
          let d =
            match e with
            | EvL (c, h, _) -> Printf.sprintf "L client %d lookup %d" (int_of_z c) (int_of_z h)
            | EvQ (c, p, id, _) -> Printf.sprintf "Q client %d port %d id %d" (int_of_z c) (int_of_z p) (int_of_z id)
            | EvA (c, p, _) -> Printf.sprintf "A client %d port %d" (int_of_z c) (int_of_z p)
            | EvR (c, h, _, _) -> Printf.sprintf "R client %d lookup %d" (int_of_z c) (int_of_z h)
            | EvX s -> Printf.sprintf "X site %d" (int_of_z s)
          in
          Printf.sprintf "REJECT label %d is not enabled in the model: %s" i d
      | st, None ->
          Printf.sprintf "REJECT trace replays but the ending does not match: all_returned=%b starved=%b dead=%s finals_ok=%b"
            (all_returned st) (starved cfg st)
            (match st.s_dead with Some s -> string_of_int (int_of_z s) | None -> "no")
            (finals_ok st fin)
    end
  with
  | Reject why -> "REJECT " ^ why
  | Failure why -> "REJECT malformed line: " ^ why
  | Invalid_argument why -> "REJECT malformed line: " ^ why

let () =
  let cap = ref (Some (z_of_int 80)) in
  let bw = ref true in
  Array.iteri
    (fun i a ->
      if i > 0 then
        match a with
        | "cap80" -> cap := Some (z_of_int 80)
        | "nocap" -> cap := None
        | "builtin-wins" -> bw := true
        | "registered-wins" -> bw := false
        | _ -> (prerr_endline ("unknown argument " ^ a); exit 2))
    Sys.argv;
  Conv.iter_lines (fun line -> print_endline (check !cap !bw line))
