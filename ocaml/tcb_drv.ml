(* Driver of the extracted two-endpoint TCP model: same case lines and the same
   record strings as harness/src/bin/tcb_lockstep.rs.  `--verbose` prints the
   records, otherwise their FNV-1a hashes. *)
open Tcb_model

let rec pos_of_int (n : int) : positive =
  if n = 1 then XH
  else if n land 1 = 0 then XO (pos_of_int (n lsr 1))
  else XI (pos_of_int (n lsr 1))

let z_of_int (n : int) : z =
  if n = 0 then Z0 else if n > 0 then Zpos (pos_of_int n) else Zneg (pos_of_int (-n))

let rec int_of_pos (p : positive) : int =
  match p with XH -> 1 | XO q -> 2 * int_of_pos q | XI q -> 2 * int_of_pos q + 1

let int_of_z (x : z) : int =
  match x with Z0 -> 0 | Zpos p -> int_of_pos p | Zneg p -> - (int_of_pos p)

let rec nat_of_int (n : int) : nat = if n <= 0 then O else S (nat_of_int (n - 1))

(* small table of byte values to avoid rebuilding them *)
let byte_z = Array.init 256 z_of_int

let pat side k = ((k * 131 + side * 7 + (k lsr 8)) land 0xff)

let verbose = Array.exists (fun a -> a = "--verbose") Sys.argv

let fnv (s : string) : int =
  let h = ref 0x811c9dc5 in
  String.iter (fun c ->
      h := !h lxor (Char.code c);
      h := (!h * 16777619) land 0xffffffff) s;
  !h

let st_code = function
  | SynSent -> 1 | SynReceived -> 2 | Established -> 3 | FinWait1 -> 4 | FinWait2 -> 5
  | CloseWait -> 6 | Closing -> 7 | LastAck -> 8 | TimeWait -> 9

let b2i b = if b then 1 else 0

let ctl_bits (c : ctl) =
  b2i c.c_fin lor (b2i c.c_syn lsl 1) lor (b2i c.c_rst lsl 2) lor (b2i c.c_psh lsl 3)
  lor (b2i c.c_ack lsl 4) lor (b2i c.c_urg lsl 5)

let thash (t : z list) =
  List.fold_left (fun h b -> (h * 31 + int_of_z b) mod 1_000_003) 7 t

let seg_str (s : segment) =
  let h = s.s_hdr in
  Printf.sprintf "<%d %d %d %d %d %d %d %d %d>" (int_of_z h.h_sport) (int_of_z h.h_dport)
    (int_of_z h.h_seq) (int_of_z h.h_ack) (ctl_bits h.h_ctl) (int_of_z h.h_wnd) (int_of_z h.h_urg)
    (List.length s.s_text) (thash s.s_text)

(* incremental hash of the delivered chunks, per side *)
let del_seen = [| 0; 0 |]
let del_len = [| 0; 0 |]
let del_hash = [| 7; 7 |]

let update_del (side : int) (chunks : z list list) =
  let rec skip n l = if n = 0 then l else match l with [] -> [] | _ :: r -> skip (n - 1) r in
  let fresh = skip del_seen.(side) chunks in
  List.iter (fun ch ->
      List.iter (fun b ->
          del_hash.(side) <- (del_hash.(side) * 31 + int_of_z b) mod 1_000_003;
          del_len.(side) <- del_len.(side) + 1) ch;
      del_seen.(side) <- del_seen.(side) + 1) fresh

let snap_str (e : endpoint) (side : int) =
  match e with
  | EClosed -> "closed"
  | EListen -> "listen"
  | EDead -> Printf.sprintf "dead %d %d" del_len.(side) del_hash.(side)
  | ELive t ->
    let b = Buffer.create 256 in
    Buffer.add_string b
      (Printf.sprintf "%d %d %d %d %d %d %d %d %d %d %d %d %d %d ["
         (st_code t.st) (b2i t.listen_init) (b2i t.fin_pending) (int_of_z t.snd_una) (int_of_z t.snd_nxt)
         (int_of_z t.snd_wnd) (int_of_z t.snd_wl1) (int_of_z t.snd_wl2) (int_of_z t.snd_iss)
         (int_of_z t.rcv_irs) (int_of_z t.rcv_nxt) (int_of_z t.rcv_wnd) (List.length t.out_text)
         (List.length t.oneshot));
    List.iter (fun tx ->
        let h = tx.t_seg.s_hdr in
        Buffer.add_string b
          (Printf.sprintf "%d:%d:%d%d%d," (int_of_z h.h_seq) (List.length tx.t_seg.s_text)
             (b2i h.h_ctl.c_syn) (b2i h.h_ctl.c_fin) (b2i tx.t_needs))) t.retx;
    Buffer.add_string b "] [";
    let ins = List.map (fun s -> (int_of_z s.s_hdr.h_seq, List.length s.s_text)) t.in_segs in
    let ins = List.sort compare ins in
    List.iter (fun (q, l) -> Buffer.add_string b (Printf.sprintf "%d:%d," q l)) ins;
    Buffer.add_string b
      (Printf.sprintf "] %d %d %d %d %d" (List.length t.in_text) (int_of_z t.rto)
         (match t.time_wait with None -> -1 | Some x -> int_of_z x) del_len.(side) del_hash.(side));
    Buffer.contents b

let side_of i = if i = 0 then SA else SB
let end_of (s : sys) i = if i = 0 then s.endA else s.endB
let is_live = function ELive _ -> true | _ -> false

let segs_str l = String.concat "" (List.map seg_str l)

let arrive_str (o : obs) =
  match o with
  | OArrive AOk -> "ok"
  | OArrive AClose -> "close"
  | OListenNone | OClosedNone -> "none"
  | OListenResp h | OClosedResp h -> "resp" ^ seg_str { s_hdr = h; s_text = [] }
  | OListenTcb -> "tcb"
  | ODeadDrop -> "dead"
  | OPanic _ -> "PANIC"
  | ONone -> "-"
  | _ -> "?"

let () =
  let timing = Sys.getenv_opt "TCB_TIMING" <> None in
  Conv.iter_lines (fun line ->
      let t0 = Sys.time () in
      let bar = String.index line '|' in
      let head = Conv.tokens (String.sub line 0 bar) in
      let body = String.sub line (bar + 1) (String.length line - bar - 1) in
      let hv = Array.of_list (List.map int_of_string head) in
      let cfg = { portA = z_of_int 1000; portB = z_of_int 2000; issA = z_of_int hv.(1); issB = z_of_int hv.(2);
                  mtuA = z_of_int hv.(3); mtuB = z_of_int hv.(4) } in
      let sys = ref (init_sys (hv.(0) = 0)) in
      let sub_len = [| 0; 0 |] in
      for i = 0 to 1 do del_seen.(i) <- 0; del_len.(i) <- 0; del_hash.(i) <- 7 done;
      let out = Buffer.create 4096 in
      let stop = ref false in
      List.iter (fun lab ->
          let t = Array.of_list (Conv.tokens lab) in
          if Array.length t > 0 && not !stop then begin
            let p i = int_of_string t.(i) in
            let rec_ = Buffer.create 256 in
            let add = Buffer.add_string rec_ in
            let step l =
              let (s1, o) = sys_step cfg !sys l in
              sys := s1;
              update_del 0 s1.delA; update_del 1 s1.delB;
              o in
            let snap i = add "|"; add (snap_str (end_of !sys i) i) in
            (match t.(0) with
             | "O" ->
               let s = p 1 in
               (match step (LOpen (side_of s)) with OOpen -> add "open" | _ -> add "-");
               snap s
             | "S" ->
               let s = p 1 and n = p 2 in
               let live = is_live (end_of !sys s) in
               let start = sub_len.(s) in
               let bytes = List.init n (fun k -> byte_z.(pat s (start + k))) in
               (match step (LSend (side_of s, bytes)) with
                | OSent true -> sub_len.(s) <- start + n; add "sent"
                | OSent false -> add "ignored"
                | _ -> add "-");
               ignore live;
               snap s
             | "R" ->
               let s = p 1 in
               (match step (LRecv (side_of s)) with ORecv n -> add (string_of_int (int_of_z n)) | _ -> add "-");
               snap s
             | "C" ->
               let s = p 1 in
               (match step (LClose (side_of s)) with
                | OClose CloseOk -> add "ok" | OClose CloseClosing -> add "closing" | _ -> add "-");
               snap s
             | "T" ->
               let s = p 1 in
               let live = is_live (end_of !sys s) in
               (match step (LTick (side_of s, z_of_int (p 2))) with
                | OTick (segs, TIgnore) -> add (segs_str segs); add "/"; add "ign"
                | OTick (segs, TCloseConnection) -> add (segs_str segs); add "/"; add "closeconn"
                | OPanic _ -> stop := true
                | _ -> add "-"; add "/"; add "-");
               ignore live;
               snap s
             | "E" ->
               let s = p 1 in
               (match step (LEmit (side_of s)) with
                | OEmit segs -> add (segs_str segs)
                | OPanic _ -> stop := true
                | _ -> add "-");
               snap s
             | "D" ->
               let d = p 1 in
               let o = step (LDeliver (side_of d, nat_of_int (p 2))) in
               (match o with OPanic _ -> stop := true | _ -> ());
               add (arrive_str o);
               snap (1 - d)
             | "X" ->
               (match step (LDrop (side_of (p 1), nat_of_int (p 2))) with ODropped -> add "x" | _ -> add "-")
             | "U" ->
               (match step (LDup (side_of (p 1), nat_of_int (p 2))) with ODuped -> add "u" | _ -> add "-")
             | "I" ->
               let d = p 1 in
               let c = p 4 in
               let bit k = (c lsr k) land 1 = 1 in
               let h = { h_sport = (if d = 0 then cfg.portA else cfg.portB);
                         h_dport = (if d = 0 then cfg.portB else cfg.portA);
                         h_seq = z_of_int (p 2); h_ack = z_of_int (p 3);
                         h_ctl = { c_urg = bit 5; c_ack = bit 4; c_psh = bit 3; c_rst = bit 2; c_syn = bit 1; c_fin = bit 0 };
                         h_wnd = z_of_int (p 5); h_urg = Z0 } in
               let text = List.init (p 6) (fun k -> byte_z.((k * 13 + 5) land 0xff)) in
               let o = step (LInject (side_of d, { s_hdr = h; s_text = text })) in
               (match o with OPanic _ -> stop := true | _ -> ());
               add (arrive_str o);
               snap (1 - d)
             | "F" ->
               ignore (step (LFair (nat_of_int (p 1))));
               if !sys.panicked then stop := true;
               add (snap_str !sys.endA 0); add "|"; add (snap_str !sys.endB 1);
               add (Printf.sprintf "|%d %d" (List.length !sys.netA) (List.length !sys.netB))
             | "G" | "H" ->
               ignore (step (LFairT (nat_of_int (p 1), z_of_int (p 2), (t.(0) = "H"))));
               if !sys.panicked then stop := true;
               add (snap_str !sys.endA 0); add "|"; add (snap_str !sys.endB 1);
               add (Printf.sprintf "|%d %d" (List.length !sys.netA) (List.length !sys.netB))
             | "Q" -> add "q"
             | _ -> failwith ("bad label " ^ lab));
            if !stop || !sys.panicked then begin
              stop := true;
              Buffer.add_string out "PANICKED;"
            end else begin
              add (Printf.sprintf "|%d,%d" (List.length !sys.netA) (List.length !sys.netB));
              if verbose then begin
                Buffer.add_buffer out rec_; Buffer.add_char out ';'
              end else
                Buffer.add_string out (Printf.sprintf "%08x" (fnv (Buffer.contents rec_)))
            end
          end) (String.split_on_char ';' body);
      if timing then Printf.eprintf "%.3f %s\n" (Sys.time () -. t0) (String.sub line 0 (min 50 (String.length line)));
      print_endline (Buffer.contents out))
