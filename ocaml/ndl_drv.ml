(* driver for the NDL parser model (Model/Ndl.v).
   usage: ndl [orig]      ("orig": the unchanged-tree get_type, default: the repaired one)
   case lines
     P <hex utf-8>        parse the text; result: canonical dump of the structure
                          "OK N[...] M[...]" | "ERR <class> <line|->" | "PANIC"
     FOLD <lo> <hi>       every scalar value c in lo..hi (not an ASCII letter) whose model
                          lower-casing is an ASCII lower-case letter: "c:l c:l ..." (hex) or "."
     REN <hex utf-8>      parse, sort the maps, render the result with the model's [render]
                          (tab form; also 4-space, CRLF and both) and parse each rendering again:
                          "REN <hex of the tab rendering> same=1111" | "ERR ..." | "PANIC"
     RUN <hex utf-8> ..   parse and print the exit status predicted by the reference evaluation
                          of part 2: "RUN Exited" | "RUN TimedOut" | "RUN Unknown" (outside the
                          modelled family) | "RUN None" (parse error) *)
open Ndl_model

let rec pos_of_int (x : int) : positive =
  if x = 1 then XH else if x land 1 = 0 then XO (pos_of_int (x lsr 1)) else XI (pos_of_int (x lsr 1))
let n_of_int (i : int) : n = if i = 0 then N0 else Npos (pos_of_int i)
let rec int_of_pos (p : positive) : int =
  match p with XH -> 1 | XO q -> 2 * int_of_pos q | XI q -> 2 * int_of_pos q + 1
let int_of_n (x : n) : int = match x with N0 -> 0 | Npos p -> int_of_pos p
let int_of_z (x : z) : int = match x with Z0 -> 0 | Zpos p -> int_of_pos p | Zneg p -> - (int_of_pos p)

(* small cache: almost every character is < 128 *)
let ncache = Array.init 256 n_of_int
let n_of_cp (c : int) : n = if c < 256 then ncache.(c) else n_of_int c

(* UTF-8 decoding of a valid byte sequence *)
let text_of_bytes (b : int list) : n list =
  let rec go acc = function
    | [] -> List.rev acc
    | c :: r when c < 0x80 -> go (n_of_cp c :: acc) r
    | c :: d :: r when c < 0xe0 -> go (n_of_cp (((c land 0x1f) lsl 6) lor (d land 0x3f)) :: acc) r
    | c :: d :: e :: r when c < 0xf0 ->
        go (n_of_cp (((c land 0x0f) lsl 12) lor ((d land 0x3f) lsl 6) lor (e land 0x3f)) :: acc) r
    | c :: d :: e :: f :: r ->
        go (n_of_cp (((c land 0x07) lsl 18) lor ((d land 0x3f) lsl 12) lor ((e land 0x3f) lsl 6)
                     lor (f land 0x3f)) :: acc) r
    | _ -> failwith "bad utf-8"
  in
  go [] b

let hex_of_text (t : n list) : string =
  if t = [] then "-"
  else begin
    let b = Buffer.create 64 in
    List.iter (fun c ->
        let c = int_of_n c in
        let p x = Buffer.add_string b (Printf.sprintf "%02x" x) in
        if c < 0x80 then p c
        else if c < 0x800 then (p (0xc0 lor (c lsr 6)); p (0x80 lor (c land 0x3f)))
        else if c < 0x10000 then
          (p (0xe0 lor (c lsr 12)); p (0x80 lor ((c lsr 6) land 0x3f)); p (0x80 lor (c land 0x3f)))
        else
          (p (0xf0 lor (c lsr 18)); p (0x80 lor ((c lsr 12) land 0x3f));
           p (0x80 lor ((c lsr 6) land 0x3f)); p (0x80 lor (c land 0x3f)))) t;
    Buffer.contents b
  end

let ty_name = function
  | Template -> "Template" | Networks -> "Networks" | Network -> "Network" | IP -> "IP"
  | Machines -> "Machines" | Machine -> "Machine" | Protocols -> "Protocols"
  | Protocol -> "Protocol" | Applications -> "Applications" | Application -> "Application"

let dump_params (p : (n list * n list) list) : string =
  if p = [] then "_"
  else
    let l = List.map (fun (k, v) -> (hex_of_text k, hex_of_text v)) p in
    let l = List.sort compare l in
    String.concat "," (List.map (fun (k, v) -> k ^ ":" ^ v) l)

let dump_item (i : item) : string = Printf.sprintf "%s(%s)" (ty_name i.it_ty) (dump_params i.it_opts)
let dump_items (l : item list) : string = String.concat ";" (List.map dump_item l)

let dump_sim (s : sim) : string =
  let nets =
    List.map (fun (id, nw) ->
        (hex_of_text id,
         Printf.sprintf "%s(%s){%s}" (ty_name nw.net_ty) (dump_params nw.net_opts) (dump_items nw.net_ips)))
      s.s_networks
  in
  let nets = List.sort compare nets in
  let ms =
    List.map (fun m ->
        Printf.sprintf "%s(%s){N:%s|P:%s|A:%s}" (ty_name m.m_ty) (dump_params m.m_opts)
          (dump_items m.m_nets) (dump_items m.m_protos) (dump_items m.m_apps))
      s.s_machines
  in
  Printf.sprintf "OK N[%s] M[%s]"
    (String.concat ";" (List.map (fun (k, v) -> k ^ "=" ^ v) nets))
    (String.concat ";" ms)

let dump_err (e : z) : string =
  let e = int_of_z e in
  let cls = e mod 100 and line = e / 100 - 1 in
  if line < 0 then Printf.sprintf "ERR %d -" cls else Printf.sprintf "ERR %d %d" cls line

let () =
  let orig = Array.length Sys.argv > 1 && Sys.argv.(1) = "orig" in
  let parse t = if orig then core_parse_orig t else core_parse t in
  let show = function
    | Ok s -> dump_sim s
    | Err e -> dump_err e
    | Panic _ -> "PANIC"
    | OutOfFuel -> "OUTOFFUEL"
  in
  Conv.iter_lines (fun line ->
      let t = Array.of_list (Conv.tokens line) in
      let out =
        match t.(0) with
        | "P" -> show (parse (text_of_bytes (Conv.hex_to_ints t.(1))))
        | "FOLD" ->
            let lo = int_of_string t.(1) and hi = int_of_string t.(2) in
            let b = Buffer.create 64 in
            for c = lo to hi do
              if not (c >= 0xd800 && c <= 0xdfff) then begin
                let l = int_of_n (fold (n_of_int c)) in
                if l >= 97 && l <= 122 && not (c >= 97 && c <= 122) then
                  Buffer.add_string b (Printf.sprintf "%x:%x " c l)
              end
            done;
            if Buffer.length b = 0 then "." else String.trim (Buffer.contents b)
        | "REN" -> (
            match parse (text_of_bytes (Conv.hex_to_ints t.(1))) with
            | Ok s ->
                (* maps have no order in the implementation: sort before rendering (by the hex of the key) *)
                let sortp (p : (n list * n list) list) =
                  List.sort (fun (a, _) (b, _) -> compare (hex_of_text a) (hex_of_text b)) p in
                let ni (i : item) = { i with it_opts = sortp i.it_opts } in
                let s =
                  { s_networks =
                      List.sort (fun (a, _) (b, _) -> compare (hex_of_text a) (hex_of_text b))
                        (List.map (fun (id, nw) ->
                             (id, { nw with net_opts = sortp nw.net_opts; net_ips = List.map ni nw.net_ips }))
                           s.s_networks);
                    s_machines =
                      List.map (fun m ->
                          { m with m_opts = sortp m.m_opts; m_nets = List.map ni m.m_nets;
                                   m_protos = List.map ni m.m_protos; m_apps = List.map ni m.m_apps })
                        s.s_machines } in
                let r = render s in
                let r4 = render4 s and rc = crlf r and rc4 = crlf (render4 s) in
                let d = dump_sim s in
                let same x = match parse x with Ok s' -> dump_sim s' = d | _ -> false in
                let b x = if same x then 1 else 0 in
                Printf.sprintf "REN %s same=%d%d%d%d" (hex_of_text r) (b r) (b r4) (b rc) (b rc4)
            | r -> show r)
        | "RUN" -> (
            match parse (text_of_bytes (Conv.hex_to_ints t.(1))) with
            | Ok s -> (
                match predict s with
                | RExited -> "RUN Exited"
                | RTimedOut -> "RUN TimedOut"
                | RUnknown -> "RUN Unknown")
            | Err _ -> "RUN None"
            | Panic _ -> "RUN PANIC"
            | OutOfFuel -> "OUTOFFUEL")
        | _ -> "BADCASE"
      in
      print_endline out)
