(* driver for the C11 reassembly model.
   case  = events separated by ';'
     R src dst proto id fo flags tl ihl ttl tos ck payloadhex
     C src dst proto id ref delta     cull with epoch = (epoch handed out by event #ref) + delta,
                                      or = delta when ref = -1 (0 when event #ref handed none out)
   result = one item per event, separated by ';'
     C ihl tos tl id fo flags ttl proto ck src dst payloadhex     Complete
     I timeout epoch                                              Incomplete
     c nbuffers present                                           after a cull
     PANIC                                                        (the rest of the case is not run)
   argv[1] = "orig" selects the model of the code before the repairs *)
open Reasm_model

let rec pos_of_int (n : int) : positive =
  if n = 1 then XH
  else if n land 1 = 0 then XO (pos_of_int (n lsr 1))
  else XI (pos_of_int (n lsr 1))

let z_of_int (n : int) : z =
  if n = 0 then Z0 else if n > 0 then Zpos (pos_of_int n) else Zneg (pos_of_int (-n))

let rec int_of_pos (p : positive) : int =
  match p with XH -> 1 | XO q -> 2 * int_of_pos q | XI q -> 2 * int_of_pos q + 1

let int_of_z (x : z) : int =
  match x with Z0 -> 0 | Zpos p -> int_of_pos p | Zneg p -> - (int_of_pos p)

let orig = Array.length Sys.argv > 1 && Sys.argv.(1) = "orig"

let () =
  Conv.iter_lines (fun line ->
      let evs = Array.of_list (String.split_on_char ';' line) in
      let n = Array.length evs in
      let handed = Array.make n 0 in
      let out = Buffer.create 256 in
      let r = ref reasm_new in
      let stop = ref false in
      let sep () = if Buffer.length out > 0 then Buffer.add_char out ';' in
      Array.iteri (fun idx ev ->
          if not !stop then begin
            let t = Array.of_list (Conv.tokens ev) in
            let zi i = z_of_int (int_of_string t.(i)) in
            sep ();
            match t.(0) with
            | "R" ->
              let h = { h_src = zi 1; h_dst = zi 2; h_proto = zi 3; h_id = zi 4; h_fo = zi 5;
                        h_flags = zi 6; h_tl = zi 7; h_ihl = zi 8; h_ttl = zi 9; h_tos = zi 10;
                        h_ck = zi 11 } in
              let body = Conv.hex_to_ints t.(12) in
              let res = if orig then receive_orig !r h body else receive !r h body in
              (match res with
               | Ok (r', Complete (hh, m)) ->
                 r := r';
                 Buffer.add_string out
                   (Printf.sprintf "C %d %d %d %d %d %d %d %d %d %d %d %s"
                      (int_of_z hh.h_ihl) (int_of_z hh.h_tos) (int_of_z hh.h_tl) (int_of_z hh.h_id)
                      (int_of_z hh.h_fo) (int_of_z hh.h_flags) (int_of_z hh.h_ttl)
                      (int_of_z hh.h_proto) (int_of_z hh.h_ck) (int_of_z hh.h_src)
                      (int_of_z hh.h_dst) (Conv.ints_to_hex m))
               | Ok (r', Incomplete (tm, _, e)) ->
                 r := r';
                 handed.(idx) <- int_of_z e;
                 Buffer.add_string out (Printf.sprintf "I %d %d" (int_of_z tm) (int_of_z e))
               | _ ->
                 Buffer.add_string out "PANIC";
                 stop := true)
            | "C" ->
              let k = (((zi 1, zi 2), zi 3), zi 4) in
              let rf = int_of_string t.(5) and delta = int_of_string t.(6) in
              let e = max 0 (if rf < 0 then delta else handed.(rf) + delta) in
              r := (if orig then maybe_cull_orig !r k (z_of_int e) else maybe_cull !r k (z_of_int e));
              let present = match find k !r.r_segs with Some _ -> 1 | None -> 0 in
              Buffer.add_string out (Printf.sprintf "c %d %d" (List.length !r.r_segs) present)
            | _ -> failwith "bad event"
          end) evs;
      print_endline (Buffer.contents out))
