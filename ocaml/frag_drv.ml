(* driver for C10 (fragmentation).
   default mode   : reads case lines, prints what the MODEL does, in the harness's format
   mode "validate": reads `case ||| impl_line`, rebuilds the implementation's fragments
                    (lossless payload encoding) and runs the EXTRACTED predicates of the
                    theorems on them: outcome_ok for every call, partition_ok of the
                    travelling pieces relative to the ORIGINAL datagram after every step.
   Formats: see harness/src/bin/c10_frag.rs. *)
open Frag_model

let rec pos_of_int (n : int) : positive =
  if n = 1 then XH
  else if n land 1 = 0 then XO (pos_of_int (n lsr 1))
  else XI (pos_of_int (n lsr 1))

let z_of_int (n : int) : z =
  if n = 0 then Z0 else if n > 0 then Zpos (pos_of_int n) else Zneg (pos_of_int (-n))

let rec int_of_pos (p : positive) : int =
  match p with XH -> 1 | XO q -> 2 * int_of_pos q | XI q -> 2 * int_of_pos q + 1

let int_of_z (x : z) : int =
  match x with Z0 -> 0 | Zpos p -> int_of_pos p | Zneg p -> - (int_of_pos p)

let pat (seed : int) (i : int) : int = (7 * i + i / 256 + seed) mod 256

type case = { h : hdr; blen : int; seed : int; mtus : int list; fo0 : int }

let parse_case (line : string) : case =
  let t = Array.of_list (Conv.tokens line) in
  let p i = int_of_string t.(i) in
  let zi i = z_of_int (p i) in
  let o = { tos = zi 1; ident = zi 3; ttl = zi 6; proto = zi 7; cksum = zi 8; src = zi 9; dst = zi 10 } in
  let h = { ihl = zi 0; total_length = zi 2; fragment_offset = zi 4; flags = zi 5; oth = o } in
  { h; blen = p 11; seed = p 12; fo0 = p 4;
    mtus = List.map int_of_string (String.split_on_char ',' t.(13)) }

let body_of (c : case) : int list = List.init c.blen (fun i -> pat c.seed i)

(* ---- rendering ---- *)

let render_frag (b : Buffer.t) (c : case) ((h, p) : int frag) : unit =
  let o = h.oth in
  let len = List.length p in
  let fo = int_of_z h.fragment_offset in
  Buffer.add_string b
    (Printf.sprintf "%d,%d,%d,%d,%d,%d,%d,%d,%d,%d,%d,%d," (int_of_z h.ihl) (int_of_z o.tos)
       (int_of_z h.total_length) (int_of_z o.ident) fo (int_of_z h.flags) (int_of_z o.ttl)
       (int_of_z o.proto) (int_of_z o.cksum) (int_of_z o.src) (int_of_z o.dst) len);
  let start = 8 * (fo - c.fo0) in
  let fits = start >= 0 && start + len <= c.blen in
  let rec matches i = function
    | [] -> true
    | x :: t -> x = pat c.seed (start + i) && matches (i + 1) t
  in
  if fits && matches 0 p then Buffer.add_string b (Printf.sprintf "P%d" start)
  else begin
    Buffer.add_char b 'L';
    Buffer.add_string b (Conv.ints_to_hex p)
  end

let panic_kind (site : z) : string =
  match int_of_z site with
  | 2 | 7 -> "sub"
  | 5 | 8 -> "add"
  | 1 | 4 -> "mul"
  | 3 -> "cut"
  | 6 -> "mul"
  | _ -> "other"

let render_result (b : Buffer.t) (c : case) (r : int fragments) : unit =
  match r with
  | DontFragment f -> Buffer.add_string b "D "; render_frag b c f
  | Discard -> Buffer.add_char b 'X'
  | Fragmented l ->
      Buffer.add_string b (Printf.sprintf "F %d" (List.length l));
      List.iter (fun f -> Buffer.add_char b ' '; render_frag b c f) l

let run_model (c : case) : string =
  let b = Buffer.create 1024 in
  let rec steps k mtus (inputs : int frag list) =
    match mtus with
    | [] -> ()
    | m :: ms ->
        if k > 0 then Buffer.add_string b " ; ";
        (match refrag_all (z_of_int m) inputs with
         | Panic s -> Buffer.add_string b ("PANIC " ^ panic_kind s)
         | OutOfFuel -> Buffer.add_string b "NONTERM"
         | Err _ -> Buffer.add_string b "ERR"
         | Ok rs ->
             List.iteri (fun j r -> if j > 0 then Buffer.add_string b " / "; render_result b c r) rs;
             (match flatten rs with
              | Some next -> steps (k + 1) ms next
              | None -> ()))
  in
  steps 0 c.mtus [ (c.h, body_of c) ];
  Buffer.contents b

(* ---- parsing the implementation's line ---- *)

exception Bad of string

let parse_frag (c : case) (s : string) : int frag =
  match String.split_on_char ',' s with
  | [ ihl; tos; tl; id; fo; fl; ttl; proto; ck; src; dst; len; enc ] ->
      let zi x = z_of_int (int_of_string x) in
      let o = { tos = zi tos; ident = zi id; ttl = zi ttl; proto = zi proto; cksum = zi ck; src = zi src; dst = zi dst } in
      let h = { ihl = zi ihl; total_length = zi tl; fragment_offset = zi fo; flags = zi fl; oth = o } in
      let len = int_of_string len in
      let payload =
        if String.length enc = 0 then raise (Bad "empty payload encoding")
        else if enc.[0] = 'P' then begin
          let start = int_of_string (String.sub enc 1 (String.length enc - 1)) in
          List.init len (fun i -> pat c.seed (start + i))
        end else begin
          let l = Conv.hex_to_ints (String.sub enc 1 (String.length enc - 1)) in
          if List.length l <> len then raise (Bad "literal payload length");
          l
        end
      in
      (h, payload)
  | _ -> raise (Bad ("fragment syntax: " ^ s))

type step = SPanic of string | SNonterm | SResults of int fragments list

let split_on (sep : string) (s : string) : string list =
  Str.split_delim (Str.regexp_string sep) s

let parse_result (c : case) (s : string) : int fragments =
  match Conv.tokens s with
  | [ "X" ] -> Discard
  | [ "D"; f ] -> DontFragment (parse_frag c f)
  | "F" :: k :: fs ->
      if int_of_string k <> List.length fs then raise (Bad "fragment count");
      Fragmented (List.map (parse_frag c) fs)
  | _ -> raise (Bad ("result syntax: " ^ s))

let parse_step (c : case) (s : string) : step =
  let s = String.trim s in
  if String.length s >= 5 && String.sub s 0 5 = "PANIC" then SPanic s
  else if s = "NONTERM" then SNonterm
  else SResults (List.map (parse_result c) (split_on " / " s))

let eq_int (a : int) (b : int) : bool = a = b

(* diagnostic only (the verdict is the extracted predicate's): which conjunct of partition_ok fails *)
let why_partition (o : hdr) (body : int list) (zm : z) (frs : int frag list) : string =
  if frs = [] then "no piece"
  else if not (list_eqb eq_int (List.concat (List.map snd frs)) body) then "payloads do not concatenate to the body"
  else if not (nondeg_ok frs) then "an empty piece among several"
  else begin
    let rec first_bad i acc = function
      | [] -> "?"
      | f :: rest ->
          let last = rest = [] in
          if not (piece_ok o zm (z_of_int acc) last f) then
            Printf.sprintf "piece %d (%s, %d payload bytes before it) violates piece_ok" i
              (if last then "final" else "non-final") acc
          else first_bad (i + 1) (acc + List.length (snd f)) rest
    in
    first_bad 0 0 frs
  end

let why_outcome (h : hdr) (p : int list) (zm : z) (r : int fragments) : string =
  match r with
  | DontFragment _ -> "DontFragment of a datagram that does not fit, or changed"
  | Discard -> "Discard of a datagram that fits or may be fragmented"
  | Fragmented frs ->
      if not (partition_ok eq_int h p zm frs) then "Fragmented: " ^ why_partition h p zm frs
      else "Fragmented a datagram that fits or has DF set"

let validate (c : case) (impl : string) : string =
  let body = body_of c in
  let o = c.h in
  let steps = List.map (parse_step c) (split_on " ; " impl) in
  let valid = valid_ok o body in
  let rec go k mtus steps (inputs : int frag list) (dom : bool) (checked : int) : string =
    match mtus, steps with
    | [], [] -> Printf.sprintf "ACCEPT %s steps=%d predicates=%d" (if dom then "in-domain" else "outside-domain") k checked
    | [], _ :: _ -> "REJECT more steps than MTUs"
    | _ :: _, [] -> "REJECT chain ended early without discard/panic"
    | m :: ms, st :: rest ->
        let zm = z_of_int m in
        let dom = dom && mtu_ok o zm in
        (match st with
         | SPanic s -> if dom then "REJECT " ^ s ^ " inside the proved domain" else
               if rest <> [] then "REJECT steps after a panic" else "ACCEPT outside-domain panic"
         | SNonterm -> if dom then "REJECT NONTERM inside the proved domain" else
               if rest <> [] then "REJECT steps after NONTERM" else "ACCEPT outside-domain nonterm"
         | SResults rs ->
             if List.length rs <> List.length inputs then "REJECT one result per input expected"
             else begin
               let bad = ref None in
               let n = ref checked in
               if dom then
                 List.iteri (fun j ((h, p), r) ->
                     incr n;
                     if !bad = None && not (outcome_ok eq_int h p zm r) then
                       bad := Some (Printf.sprintf "step %d input %d: outcome_ok is false (%s)" (k + 1) j
                                      (why_outcome h p zm r)))
                   (List.combine inputs rs);
               match !bad with
               | Some msg -> "REJECT " ^ msg
               | None ->
                   (match flatten rs with
                    | None ->
                        if rest <> [] then "REJECT steps after a discard"
                        else Printf.sprintf "ACCEPT %s discard steps=%d predicates=%d"
                            (if dom then "in-domain" else "outside-domain") (k + 1) !n
                    | Some next ->
                        if dom && not (partition_ok eq_int o body zm next) then
                          Printf.sprintf "REJECT after step %d: partition_ok (original, mtu %d) is false (%s)" (k + 1) m
                            (why_partition o body zm next)
                        else go (k + 1) ms rest next dom (!n + (if dom then 1 else 0)))
             end)
  in
  go 0 c.mtus steps [ (o, body) ] valid 0

let () =
  let validate_mode = Array.length Sys.argv > 1 && Sys.argv.(1) = "validate" in
  Conv.iter_lines (fun line ->
      if validate_mode then begin
        let sep = " ||| " in
        let i = try Str.search_forward (Str.regexp_string sep) line 0 with Not_found -> -1 in
        if i < 0 then print_endline "REJECT no separator"
        else begin
          let case = String.sub line 0 i in
          let impl = String.sub line (i + String.length sep) (String.length line - i - String.length sep) in
          let out = try validate (parse_case case) impl with
            | Bad m -> "REJECT malformed: " ^ m
            | Failure m -> "REJECT malformed: " ^ m
          in
          print_endline out
        end
      end else print_endline (run_model (parse_case line)))
