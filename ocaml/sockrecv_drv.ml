(* driver for C02 (socket receive side, stream/datagram validators).
   default mode        : unit-level lock-step: reads the script cases of harness/src/bin/c02_recv.rs and prints
                         what the MODEL (Model/SocketRecv.v, repaired recv) does, in the harness's token format
   mode "orig"         : the same with recv as it is in the repository (recv false)
   mode "validate"     : reads `case ||| impl_line` of harness/src/bin/c02_sock.rs (full stack), rebuilds the
                         writes from the case and the observed reads from the implementation's line and runs the
                         EXTRACTED validators validate_stream / validate_dgram on them
   mode "validate-orig": the same without the read bound (code as it is) *)
open Sockrecv_model

let rec pos_of_int (n : int) : positive =
  if n = 1 then XH
  else if n land 1 = 0 then XO (pos_of_int (n lsr 1))
  else XI (pos_of_int (n lsr 1))

let n_of_int (k : int) : n = if k = 0 then N0 else Npos (pos_of_int k)

let rec int_of_pos (p : positive) : int =
  match p with XH -> 1 | XO q -> 2 * int_of_pos q | XI q -> 2 * int_of_pos q + 1

let int_of_n (x : n) : int = match x with N0 -> 0 | Npos p -> int_of_pos p

let rec nat_of_int (k : int) : nat =
  let rec go acc k = if k <= 0 then acc else go (S acc) (k - 1) in
  go O k

let bytes_of_hex (h : string) : bytes = List.map n_of_int (Conv.hex_to_ints h)
let hex_of_bytes (b : bytes) : string = Conv.ints_to_hex (List.map int_of_n b)

(* ------------------------------------------------------------------ unit-level scripts *)
let split2 (s : string) (c : char) : string * string =
  let i = String.index s c in
  (String.sub s 0 i, String.sub s (i + 1) (String.length s - i - 1))

let run_script (fixed : bool) (line : string) : string =
  let head, ops_s = split2 line '|' in
  let h = Array.of_list (Conv.tokens head) in
  let backlog = int_of_string h.(1) in
  let out = Buffer.create 256 in
  let emit s = if Buffer.length out > 0 then Buffer.add_char out ' '; Buffer.add_string out s in
  (match listen (nat_of_int backlog) with
   | Panic _ -> emit "PANIC"
   | Ok a0 ->
       let a = ref a0 in
       let socks : n list ref = ref [] in (* remote of the k-th accepted socket *)
       let sock_of k = List.nth_opt !socks k in
       let get_sock r = match lookup r !a.sessions with Some (SActive s) -> Some s | _ -> None in
       let set_sock r s = a := { !a with sessions = update r (SActive s) !a.sessions } in
       (try
          List.iter
            (fun tok ->
              let k = String.sub tok 0 1 and rest = String.sub tok 1 (String.length tok - 1) in
              match k with
              | "D" ->
                  let r, hx = split2 rest ':' in
                  (match demux (n_of_int (int_of_string r)) (bytes_of_hex hx) !a with
                   | Ok a' -> a := a'; emit "ok"
                   | Err e -> emit (if e = e_CLOSED then "closed" else "missing")
                   | _ -> emit "?")
              | "N" -> a := notify (n_of_int (int_of_string rest)) !a; emit "n"
              | "A" ->
                  (match accept !a with
                   | AOk (r, a') -> a := a'; socks := !socks @ [r]; emit "a"
                   | ABlock -> emit "block"
                   | AErr a' -> a := a'; emit "aerr"
                   | APanic _ -> emit "PANIC"; raise Exit)
              | "R" ->
                  let ks, ns = split2 rest ':' in
                  (match sock_of (int_of_string ks) with
                   | None -> emit "nosock"
                   | Some r ->
                       (match get_sock r with
                        | None -> emit "nosock"
                        | Some s ->
                            (match recv fixed (nat_of_int (int_of_string ns)) s with
                             | RData (o, s') -> set_sock r s'; emit ("r=" ^ hex_of_bytes o)
                             | RBlock s' -> set_sock r s'; emit "block"
                             | RErr s' -> set_sock r s'; emit "rerr")))
              | "M" ->
                  (match sock_of (int_of_string rest) with
                   | None -> emit "nosock"
                   | Some r ->
                       (match get_sock r with
                        | None -> emit "nosock"
                        | Some s ->
                            (match recv_msg s with
                             | RData (o, s') -> set_sock r s'; emit ("m=" ^ hex_of_bytes o)
                             | RBlock s' -> set_sock r s'; emit "block"
                             | RErr s' -> set_sock r s'; emit "err")))
              | "B" ->
                  let ks, b = split2 rest ':' in
                  (match sock_of (int_of_string ks) with
                   | None -> emit "nosock"
                   | Some r ->
                       (match get_sock r with
                        | None -> emit "nosock"
                        | Some s -> set_sock r { s with blocking = (b = "1") }; emit "b"))
              | _ -> failwith "bad op")
            (Conv.tokens ops_s)
        with Exit -> ())
   | _ -> emit "?");
  Buffer.contents out

(* ------------------------------------------------------------------ full-stack validation *)
(* the byte at stream position p of sender c (harness/src/bin/c02_sock.rs `pat`) *)
let pat (c : int) (p : int) : int = (p * 7 + p / 251 * 13 + p / 63001 + c * 29 + 3) land 255

(* payload encoding used by the harness: `P<c>.<start>+<len>` = pattern bytes, `X<hex>` = literal bytes,
   segments joined by `,`; `-` = empty *)
let decode_payload (s : string) : int list =
  if s = "-" || s = "" then []
  else
    List.concat_map
      (fun seg ->
        if seg = "" then []
        else if seg.[0] = 'X' then Conv.hex_to_ints (String.sub seg 1 (String.length seg - 1))
        else begin
          let body = String.sub seg 1 (String.length seg - 1) in
          let c, rest = split2 body '.' in
          let st, ln = split2 rest '+' in
          let c = int_of_string c and st = int_of_string st and ln = int_of_string ln in
          List.init ln (fun i -> pat c (st + i))
        end)
      (String.split_on_char ',' s)

let to_bytes (l : int list) : bytes = List.map n_of_int l

(* case  : `<kind> ... | c<id> w=<len>:<gap>,... r=<n>,... ; c<id> ...`  (see c02_sock.rs); only the writes matter here
   impl  : `<status> | c<id> reads=<n>:<payload>/<n>:<payload>/... ; ...`  for streams
           `<status> | c<id> dgrams=<payload>/<payload>/... ; ...`        for datagrams *)
let validate (fixed : bool) (line : string) : string =
  match Str.split (Str.regexp_string " ||| ") line with
  | [ case; impl ] -> (
      try
        let ctoks = Array.of_list (Conv.tokens case) in
        let kind = ctoks.(0) in
        let _, cl = split2 case '|' in
        let _, il = split2 impl '|' in
        let status = String.trim (fst (split2 impl '|')) in
        if String.length status >= 5 && String.sub status 0 5 = "CRASH" then "REJECT crash"
        else if String.length status >= 4 && String.sub status 0 4 = "HANG" then "REJECT hang"
        else begin
          let clients = List.map String.trim (String.split_on_char ';' cl) in
          let impls = List.map String.trim (String.split_on_char ';' il) in
          let field (toks : string list) (name : string) : string =
            let pre = name ^ "=" in
            let l = String.length pre in
            match List.find_opt (fun t -> String.length t >= l && String.sub t 0 l = pre) toks with
            | Some t -> String.sub t l (String.length t - l)
            | None -> raise Not_found
          in
          let verdicts =
            List.map2
              (fun c i ->
                let ct = Conv.tokens c and it = Conv.tokens i in
                let id = int_of_string (String.sub (List.hd ct) 1 (String.length (List.hd ct) - 1)) in
                if List.hd it <> List.hd ct then "REJECT client order"
                else begin
                  let ws = List.filter (fun x -> x <> "") (String.split_on_char ',' (field ct "w")) in
                  let sizes = List.map (fun w -> int_of_string (fst (split2 w ':'))) ws in
                  if kind = "tcp" then begin
                    (* write k carries the pattern bytes of stream positions off_k .. off_k+len_k-1 *)
                    let _, writes =
                      List.fold_left
                        (fun (off, acc) len -> (off + len, acc @ [ to_bytes (List.init len (fun j -> pat id (off + j))) ]))
                        (0, []) sizes
                    in
                    let rs = field it "reads" in
                    let reads =
                      if rs = "-" then []
                      else
                        List.map
                          (fun r ->
                            let n, p = split2 r ':' in
                            (nat_of_int (int_of_string n), to_bytes (decode_payload p)))
                          (String.split_on_char '/' rs)
                    in
                    if validate_stream fixed writes reads then "ACCEPT" else "REJECT stream of client " ^ string_of_int id
                  end
                  else begin
                    (* datagram k of client id carries pattern positions k*65536 .. +len; `x=<copies>,...` in the impl
                       line = how many copies of each datagram the link layer delivered at most *)
                    let dgs = List.mapi (fun k len -> to_bytes (List.init len (fun j -> pat id (k * 65536 + j)))) sizes in
                    let copies = List.map int_of_string (String.split_on_char ',' (field it "x")) in
                    let sent = List.map2 (fun d c -> (d, nat_of_int c)) dgs copies in
                    let gs = field it "dgrams" in
                    let got =
                      if gs = "-" then [] else List.map (fun p -> to_bytes (decode_payload p)) (String.split_on_char '/' gs)
                    in
                    if validate_dgram sent got then "ACCEPT" else "REJECT datagrams of client " ^ string_of_int id
                  end
                end)
              clients impls
          in
          match List.find_opt (fun v -> v <> "ACCEPT") verdicts with Some v -> v | None -> "ACCEPT"
        end
      with e -> "REJECT unparsable (" ^ Printexc.to_string e ^ ")")
  | _ -> "REJECT malformed line"

let () =
  let mode = if Array.length Sys.argv > 1 then Sys.argv.(1) else "" in
  Conv.iter_lines (fun line ->
      print_endline
        (match mode with
         | "validate" -> validate true line
         | "validate-orig" -> validate false line
         | "orig" -> run_script false line
         | _ -> run_script true line))
