(* driver for C02 (socket receive side, stream/datagram validators).
   default mode        : unit-level lock-step: reads the script cases of harness/src/bin/c02_recv.rs and prints
                         what the MODEL (Model/SocketRecv.v, repaired recv) does, in the harness's token format
   mode "orig"         : the same with recv as it is in the repository (recv false)
   mode "validate"     : reads `case ||| impl_line` of harness/src/bin/c02_sock.rs (full stack), rebuilds the
                         writes from the case and the observed reads from the implementation's line and runs the
                         EXTRACTED validators validate_stream / validate_dgram on them
   mode "validate-strict": issue order required on every runtime flavour (for use once writes are handed over in order)
   mode "validate-orig": like validate, without the read bound (code as it is) *)
open Sockrecv_model

let rec pos_of_int (n : int) : positive =
  if n = 1 then XH
  else if n land 1 = 0 then XO (pos_of_int (n lsr 1))
  else XI (pos_of_int (n lsr 1))

let n_of_int (k : int) : n = if k = 0 then N0 else Npos (pos_of_int k)

let rec int_of_pos (p : positive) : int =
  match p with XH -> 1 | XO q -> 2 * int_of_pos q | XI q -> 2 * int_of_pos q + 1

let int_of_n (x : n) : int = match x with N0 -> 0 | Npos p -> int_of_pos p

let rec nat_of_int (k : int) : nat =
  let rec go acc k = if k <= 0 then acc else go (S acc) (k - 1) in
  go O k

let bytes_of_hex (h : string) : bytes = List.map n_of_int (Conv.hex_to_ints h)
let hex_of_bytes (b : bytes) : string = Conv.ints_to_hex (List.map int_of_n b)

(* ------------------------------------------------------------------ unit-level scripts *)
let split2 (s : string) (c : char) : string * string =
  let i = String.index s c in
  (String.sub s 0 i, String.sub s (i + 1) (String.length s - i - 1))

let run_script (fixed : bool) (line : string) : string =
  let head, ops_s = split2 line '|' in
  let h = Array.of_list (Conv.tokens head) in
  let backlog = int_of_string h.(1) in
  let out = Buffer.create 256 in
  let emit s = if Buffer.length out > 0 then Buffer.add_char out ' '; Buffer.add_string out s in
  (match listen (nat_of_int backlog) with
   | Panic _ -> emit "PANIC"
   | Ok a0 ->
       let a = ref a0 in
       let socks : n list ref = ref [] in (* remote of the k-th accepted socket *)
       let sock_of k = List.nth_opt !socks k in
       let get_sock r = match lookup r !a.sessions with Some (SActive s) -> Some s | _ -> None in
       let set_sock r s = a := { !a with sessions = update r (SActive s) !a.sessions } in
       (try
          List.iter
            (fun tok ->
              let k = String.sub tok 0 1 and rest = String.sub tok 1 (String.length tok - 1) in
              match k with
              | "D" ->
                  let r, hx = split2 rest ':' in
                  (match demux (n_of_int (int_of_string r)) (bytes_of_hex hx) !a with
                   | Ok a' -> a := a'; emit "ok"
                   | Err e -> emit (if e = e_CLOSED then "closed" else "missing")
                   | _ -> emit "?")
              | "N" -> a := notify (n_of_int (int_of_string rest)) !a; emit "n"
              | "A" ->
                  (match accept !a with
                   | AOk (r, a') -> a := a'; socks := !socks @ [r]; emit "a"
                   | ABlock -> emit "block"
                   | AErr a' -> a := a'; emit "aerr"
                   | APanic _ -> emit "PANIC"; raise Exit)
              | "R" ->
                  let ks, ns = split2 rest ':' in
                  (match sock_of (int_of_string ks) with
                   | None -> emit "nosock"
                   | Some r ->
                       (match get_sock r with
                        | None -> emit "nosock"
                        | Some s ->
                            (match recv fixed (nat_of_int (int_of_string ns)) s with
                             | RData (o, s') -> set_sock r s'; emit ("r=" ^ hex_of_bytes o)
                             | RBlock s' -> set_sock r s'; emit "block"
                             | RErr s' -> set_sock r s'; emit "rerr")))
              | "M" ->
                  (match sock_of (int_of_string rest) with
                   | None -> emit "nosock"
                   | Some r ->
                       (match get_sock r with
                        | None -> emit "nosock"
                        | Some s ->
                            (match recv_msg s with
                             | RData (o, s') -> set_sock r s'; emit ("m=" ^ hex_of_bytes o)
                             | RBlock s' -> set_sock r s'; emit "block"
                             | RErr s' -> set_sock r s'; emit "err")))
              | "B" ->
                  let ks, b = split2 rest ':' in
                  (match sock_of (int_of_string ks) with
                   | None -> emit "nosock"
                   | Some r ->
                       (match get_sock r with
                        | None -> emit "nosock"
                        | Some s -> set_sock r { s with blocking = (b = "1") }; emit "b"))
              | _ -> failwith "bad op")
            (Conv.tokens ops_s)
        with Exit -> ())
   | _ -> emit "?");
  Buffer.contents out

(* ------------------------------------------------------------------ full-stack validation *)
(* the byte at stream position p of sender c (harness/src/bin/c02_sock.rs `pat`) *)
let pat (c : int) (p : int) : int =
  if p mod 65536 = 0 then c land 255
  else begin
    let x = (p * 2654435 + c * 1000003 + 12345) land 0x3FFFFFFF in
    let x = x lxor (x lsr 13) in
    let x = (x * 40503) land 0x3FFFFFFF in
    let x = x lxor (x lsr 9) in
    (x lsr 7) land 255
  end

(* payload encoding used by the harness: `P<c>.<start>+<len>` = pattern bytes, `X<hex>` = literal bytes,
   segments joined by `,`; `-` = empty *)
let decode_payload (s : string) : int list =
  if s = "-" || s = "" then []
  else
    List.concat_map
      (fun seg ->
        if seg = "" then []
        else if seg.[0] = 'X' then Conv.hex_to_ints (String.sub seg 1 (String.length seg - 1))
        else begin
          let body = String.sub seg 1 (String.length seg - 1) in
          let c, rest = split2 body '.' in
          let st, ln = split2 rest '+' in
          let c = int_of_string c and st = int_of_string st and ln = int_of_string ln in
          List.init ln (fun i -> pat c (st + i))
        end)
      (String.split_on_char ',' s)

let to_bytes (l : int list) : bytes = List.map n_of_int l

(* case : `<tcp|udp> f=.. mtu=.. arp=.. plan=.. acc=.. srv=<W> sr=<R> | c<id> w=<W> r=<R> d=<ms> ; ...`
          W = `<len>:<gap>,...` | `-`   (only the write sizes matter to the prediction)
   impl : `<status> | c<id> sid=<k|-> x=<copies> dx=<copies> up=<reads> down=<reads> ; ...`
          reads: tcp `<n>:<payload>/...`, udp `<payload>/...`, `-` = nothing  (see c02_sock.rs)
   prediction: stream sockets - what the handler of client c read (up) is the concatenation of c's writes and what
   c read (down) is the concatenation of the server's writes with the handler's pattern; every recv(n) within n.
   datagram sockets - every datagram read is one of the datagrams written, each at most `copies` times. *)
let sizes_of (w : string) : int list =
  if w = "-" then []
  else List.map (fun x -> int_of_string (fst (split2 x ':'))) (String.split_on_char ',' w)

let stream_writes (sender : int) (sizes : int list) : bytes list =
  let _, ws =
    List.fold_left
      (fun (off, acc) len -> (off + len, to_bytes (List.init len (fun j -> pat sender (off + j))) :: acc))
      (0, []) sizes
  in
  List.rev ws

let dgram_writes (sender : int) (sizes : int list) : bytes list =
  List.mapi (fun k len -> to_bytes (List.init len (fun j -> pat sender (k * 65536 + j)))) sizes

let parse_stream_reads (rs : string) : (nat * bytes) list =
  if rs = "-" then []
  else
    List.map
      (fun r ->
        let n, p = split2 r ':' in
        (nat_of_int (int_of_string n), to_bytes (decode_payload p)))
      (String.split_on_char '/' rs)

let parse_dgram_reads (rs : string) : bytes list =
  if rs = "-" then [] else List.map (fun p -> to_bytes (decode_payload p)) (String.split_on_char '/' rs)

let field (toks : string list) (name : string) : string =
  let pre = name ^ "=" in
  let l = String.length pre in
  match List.find_opt (fun t -> String.length t >= l && String.sub t 0 l = pre) toks with
  | Some t -> String.sub t l (String.length t - l)
  | None -> raise Not_found

let starts_with (s : string) (p : string) : bool =
  String.length s >= String.length p && String.sub s 0 (String.length p) = p

let validate (fixed : bool) (strict : bool) (line : string) : string =
  match Str.split (Str.regexp_string " ||| ") line with
  | [ case; impl ] -> (
      try
        let head, cl = split2 case '|' in
        let htoks = Conv.tokens head in
        let kind = List.hd htoks in
        let srv = sizes_of (field htoks "srv") in
        (* f=0: current-thread runtime, spawned tasks run in spawn order: the FIFO hypothesis of C02_fifo_stream
           holds and the prediction is the concatenation in issue order.  f>=1: multi-thread runtime, the hypothesis
           is not available; the model then only guarantees a permutation of the writes (C02_unordered_is_permutation) *)
        let ordered = strict || field htoks "f" = "0" in
        let vstream = if ordered then validate_stream fixed else validate_stream_unordered fixed in
        let st, il = split2 impl '|' in
        let status = String.trim st in
        if starts_with status "CRASH" then "REJECT the simulation crashed"
        else if starts_with status "HANG" then "REJECT the simulation hung"
        else if status <> "Exited" then "REJECT status " ^ status
        else begin
          let clients = List.map String.trim (String.split_on_char ';' cl) in
          let impls = List.map String.trim (String.split_on_char ';' il) in
          if List.length clients <> List.length impls then "REJECT client sections"
          else begin
            let verdicts =
              List.map2
                (fun c i ->
                  let ct = Conv.tokens c and it = Conv.tokens i in
                  if List.hd it <> List.hd ct then "REJECT client order"
                  else begin
                    let id = int_of_string (String.sub (List.hd ct) 1 (String.length (List.hd ct) - 1)) in
                    let up_sizes = sizes_of (field ct "w") in
                    let sid = field it "sid" in
                    let down_sender = 50 + (if sid = "-" then 0 else int_of_string sid) in
                    if kind = "tcp" then begin
                      let up = parse_stream_reads (field it "up") and down = parse_stream_reads (field it "down") in
                      if not (vstream (stream_writes id up_sizes) up) then
                        Printf.sprintf "REJECT stream client %d -> server" id
                      else if not (vstream (stream_writes down_sender srv) down) then
                        Printf.sprintf "REJECT stream server -> client %d" id
                      else "ACCEPT"
                    end
                    else begin
                      let x = nat_of_int (int_of_string (field it "x")) and dx = nat_of_int (int_of_string (field it "dx")) in
                      let up = parse_dgram_reads (field it "up") and down = parse_dgram_reads (field it "down") in
                      if not (validate_dgram (List.map (fun d -> (d, x)) (dgram_writes id up_sizes)) up) then
                        Printf.sprintf "REJECT datagrams client %d -> server" id
                      else if not (validate_dgram (List.map (fun d -> (d, dx)) (dgram_writes down_sender srv)) down) then
                        Printf.sprintf "REJECT datagrams server -> client %d" id
                      else "ACCEPT"
                    end
                  end)
                clients impls
            in
            match List.find_opt (fun v -> v <> "ACCEPT") verdicts with Some v -> v | None -> "ACCEPT"
          end
        end
      with e -> "REJECT unparsable (" ^ Printexc.to_string e ^ ")")
  | _ -> "REJECT malformed line"

let () =
  let mode = if Array.length Sys.argv > 1 then Sys.argv.(1) else "" in
  Conv.iter_lines (fun line ->
      print_endline
        (match mode with
         | "validate" -> validate true false line
         | "validate-strict" -> validate true true line
         | "validate-orig" -> validate false false line
         | "orig" -> run_script false line
         | _ -> run_script true line))
