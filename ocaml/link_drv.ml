(* driver for C05 (link): trace validation.
   reads `case ||| impl_line` (formats: harness/src/bin/c05_link.rs), rebuilds the
   configuration and the recorded events and runs the EXTRACTED [validate] on them.
   prints ACCEPT or REJECT <which check> per line.
   mode "sched": reads `orig|fixed g thr lat len*` and prints the delivery instants of a burst
   handed over at 0 (used to look at the timing function by hand). *)
open Link_model

let rec pos_of_int (n : int) : positive =
  if n = 1 then XH
  else if n land 1 = 0 then XO (pos_of_int (n lsr 1))
  else XI (pos_of_int (n lsr 1))

let z_of_int (n : int) : z =
  if n = 0 then Z0 else if n > 0 then Zpos (pos_of_int n) else Zneg (pos_of_int (-n))

let rec int_of_pos (p : positive) : int =
  match p with XH -> 1 | XO q -> 2 * int_of_pos q | XI q -> 2 * int_of_pos q + 1

let int_of_z (x : z) : int =
  match x with Z0 -> 0 | Zpos p -> int_of_pos p | Zneg p -> - (int_of_pos p)

let rec nat_of_int (n : int) : nat = if n <= 0 then O else S (nat_of_int (n - 1))

let zs (s : string) : z = z_of_int (int_of_string s)

(* split "a ||| b" *)
let split_pair (line : string) : string * string =
  let sep = " ||| " in
  let n = String.length line and m = String.length sep in
  let rec go i = if i + m > n then None else if String.sub line i m = sep then Some i else go (i + 1) in
  match go 0 with
  | Some i -> (String.sub line 0 i, String.sub line (i + m) (n - i - m))
  | None -> (line, "")

let parse_case (case : string) : cfg * int =
  let t = Array.of_list (Conv.tokens case) in
  let p = ref 0 in
  let expect s = if t.(!p) <> s then failwith ("case syntax: expected " ^ s); incr p in
  let next () = let v = t.(!p) in incr p; v in
  let nexti () = int_of_string (next ()) in
  expect "F";
  let flavor = nexti () in
  expect "S";
  let _seed = nexti () in
  expect "N";
  let nn = nexti () in
  let nets = List.init nn (fun _ ->
      let mtu = zs (next ()) in
      let lb = zs (next ()) in
      let lr = zs (next ()) in
      let tb = zs (next ()) in
      let tr = zs (next ()) in
      { c_mtu = mtu; c_lb = lb; c_lr = lr; c_tb = tb; c_tr = tr }) in
  expect "M";
  let nm = nexti () in
  let machines = List.init nm (fun _ ->
      let k = nexti () in
      List.init k (fun _ -> nat_of_int (nexti ()))) in
  expect "X";
  let nx = nexti () in
  let sends = List.init nx (fun _ ->
      let st = zs (next ()) in
      let m = zs (next ()) in
      let s = zs (next ()) in
      let d = zs (next ()) in
      let l = zs (next ()) in
      { s_t = st; s_machine = m; s_slot = s; s_dst = d; s_len = l }) in
  (* virtual time (flavor 0): tokio's timer tick is one millisecond *)
  ({ c_nets = nets; c_machines = machines; c_sends = sends;
     c_tick = (if flavor = 0 then z_of_int 1_000_000 else Z0) }, flavor)

let parse_events (impl : string) : event list option =
  let parts = List.map String.trim (String.split_on_char ';' impl) in
  let parts = List.filter (fun s -> s <> "") parts in
  try
    Some (List.map (fun s ->
        match Conv.tokens s with
        | ["tap"; a; b; c; d; e] -> ETap (zs a, zs b, zs c, zs d, zs e)
        | ["tx"; a; b; c; d; e] -> ETx (zs a, zs b, zs c, zs d, zs e)
        | ["wire"; a; b; c; d; e] -> EWire (zs a, zs b, zs c, zs d, zs e)
        | ["dlv"; a; b; c; d; e; f] -> EDlv (zs a, zs b, zs c, zs d, zs e, zs f)
        | ["rx"; a; b; c; d; e; f; g] -> ERx (zs a, zs b, zs c, zs d, zs e, zs f, zs g)
        | _ -> failwith "event") parts)
  with _ -> None

let why (code : int) : string =
  match code with
  | 1 -> "taps: addresses/MTUs reported by the taps differ from the model's allocator"
  | 2 -> "keys: frames not identifiable, or a frame nobody sent is on the wire"
  | 3 -> "send: MTU test / routing / exactly-once / link info / latency differs from the model"
  | 4 -> "throughput: more bytes delivered in a window than the configured rate allows"
  | 5 -> "exact: delivery instants differ from the timing function (repaired code, FIFO, timer tick)"
  | 9 -> "config: the model cannot build this configuration"
  | _ -> "?"

let validate_line (line : string) : string =
  let case, impl = split_pair line in
  match (try Some (parse_case case) with _ -> None) with
  | None -> "REJECT unreadable case"
  | Some (c, _) ->
    if String.length impl >= 5 && String.sub impl 0 5 = "CRASH" then "REJECT the simulation died or hung; the model never does"
    else
      match parse_events impl with
      | None -> "REJECT unreadable trace"
      | Some tr ->
        if validate c tr then "ACCEPT"
        else
          let code = int_of_z (validate_code c tr) in
          (* for a failing send, say which one *)
          let detail =
            if code = 3 then
              match build c with
              | Ok (w, ts) ->
                let rec go i = function
                  | [] -> ""
                  | s :: r -> if check_send w ts tr (z_of_int i) s then go (i + 1) r else Printf.sprintf " (send #%d)" i
                in
                go 0 c.c_sends
              | _ -> ""
            else ""
          in
          Printf.sprintf "REJECT %d %s%s" code (why code) detail

let sched_line (line : string) : string =
  match Conv.tokens line with
  | which :: g :: thr :: lat :: lens ->
    let txf = if which = "orig" then tx_time_orig else tx_time in
    let js = List.map (fun l -> { j_arr = Z0; j_len = zs l; j_thr = zs thr; j_lat = zs lat; j_wait = Z0 }) lens in
    let ks = sched txf (zs g) Z0 js in
    String.concat " " (List.map (fun k -> string_of_int (int_of_z k.k_dlv)) ks)
  | _ -> "ERR"

let () =
  let mode = if Array.length Sys.argv > 1 then Sys.argv.(1) else "validate" in
  Conv.iter_lines (fun line ->
      print_endline (if mode = "sched" then sched_line line else validate_line line))
