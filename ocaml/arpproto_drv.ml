(* driver for the C06 model (Model/ArpProto.v): trace validation.
   stdin lines: `<case> ||| <impl line>` (grammar in harness/src/bin/c06_arp.rs);
   stdout: ACCEPT | REJECT <why> per line. *)
open Arpproto_model

let rec pos_of_int (n : int) : positive =
  if n = 1 then XH
  else if n land 1 = 0 then XO (pos_of_int (n lsr 1))
  else XI (pos_of_int (n lsr 1))
let n_of_int (n : int) : n = if n = 0 then N0 else Npos (pos_of_int n)
let z_of_int (n : int) : z = if n = 0 then Z0 else if n > 0 then Zpos (pos_of_int n) else Zneg (pos_of_int (-n))
let rec nat_of_int (n : int) : nat = if n <= 0 then O else S (nat_of_int (n - 1))
let rec int_of_pos = function XH -> 1 | XO p -> 2 * int_of_pos p | XI p -> 2 * int_of_pos p + 1
let int_of_n = function N0 -> 0 | Npos p -> int_of_pos p
let int_of_z = function Z0 -> 0 | Zpos p -> int_of_pos p | Zneg p -> - (int_of_pos p)
let rec int_of_nat = function O -> 0 | S k -> 1 + int_of_nat k

let ni s = n_of_int (int_of_string s)
let zi s = z_of_int (int_of_string s)
let nati s = nat_of_int (int_of_string s)

let split_on (sep : string) (s : string) : string list =
  Str.split_delim (Str.regexp_string sep) s

let mask_of_bits (b : int) : int =
  let b = if b > 32 then 32 else b in
  if b = 0 then 0 else (0xFFFFFFFF lsl (32 - b)) land 0xFFFFFFFF

(* case -> (mtu, [(claims, pre)], expects a documented panic) *)
let parse_case (c : string) =
  match List.map String.trim (String.split_on_char '|' c) with
  | [hd; ms; acts; _plan] ->
      let h = Conv.tokens hd in
      let mtu = int_of_string (List.nth h 1) in
      let mtu = if mtu = 0 then 65535 else mtu in
      let machines =
        List.map (fun m ->
            match String.split_on_char ':' (String.trim m) with
            | [cl; pre] ->
                let claims = List.map ni (List.filter (fun x -> x <> "") (String.split_on_char ',' cl)) in
                let pre =
                  if pre = "-" then []
                  else List.map (fun e ->
                      match String.split_on_char '/' e with
                      | [a; b; g] -> (ni a, { sn_mask = n_of_int (mask_of_bits (int_of_string b)); sn_gw = ni g })
                      | _ -> failwith "pre") (String.split_on_char ',' pre) in
                (claims, pre)
            | _ -> failwith "machine") (String.split_on_char ';' ms) in
      let slot_panic =
        List.exists (fun a ->
            match Conv.tokens a with
            | "R" :: _ :: _ :: _ :: _ :: _ :: slot :: via :: _ -> int_of_string slot > 0 && via = "0"
            | _ -> false) (String.split_on_char ';' acts) in
      (mtu, machines, slot_panic)
  | _ -> failwith "case"

let mk_cfg mtu machines (macs : string list) : config =
  if List.length macs <> List.length machines then failwith "mac count";
  { cfg_machs = List.map2 (fun (claims, pre) mac -> { mc_mac = ni mac; mc_claims = claims; mc_pre = pre }) machines macs;
    cfg_mtu = n_of_int mtu }

let parse_status (s : string) : status =
  if s = "err" then SFailed
  else match String.split_on_char ':' s with
    | ["ok"; m] -> SOk (ni m)
    | _ -> failwith "status"

let pkt oper smac sip tmac tip : packet =
  { pk_oper = (match oper with "1" -> Request | "2" -> Reply | _ -> failwith "oper");
    pk_smac = ni smac; pk_sip = ni sip; pk_tmac = ni tmac; pk_tip = ni tip }

let parse_label (l : string) : z * label =
  match Conv.tokens l with
  | ["l"; t; m; ip] -> (zi t, LListen (nati m, ni ip))
  | ["s"; t; m; ip; mask; gw] -> (zi t, LSetSubnet (nati m, ni ip, { sn_mask = ni mask; sn_gw = ni gw }))
  | ["b"; t; m; rid; local; remote; slot] ->
      (zi t, LStart (nati m, ni rid, { p_local = ni local; p_remote = ni remote }, ni slot))
  | ["p"; t; rid] -> (zi t, LPoll (ni rid))
  | [k; t; oper; smac; sip; tmac; tip; m] ->
      let p = pkt oper smac sip tmac tip in
      let lab = match k with
        | "d" -> LDeliver (p, nati m)
        | "x" -> LDrop (p, nati m)
        | "u" -> LDup (p, nati m)
        | _ -> failwith "label kind" in
      (zi t, lab)
  | _ -> failwith ("label: " ^ l)

let rec triples = function
  | a :: b :: c :: rest -> (a, b, c) :: triples rest
  | [] -> []
  | _ -> failwith "obs arity"

let rec sixes = function
  | a :: b :: c :: d :: e :: f :: rest -> (a, b, c, d, e, f) :: sixes rest
  | [] -> []
  | _ -> failwith "robs arity"

let verdict_string = function
  | Accept -> "ACCEPT"
  | RejectCfg -> "REJECT configuration is not well-formed"
  | RejectStep (n, e) -> Printf.sprintf "REJECT label %d is not a move of the model (guard %d)" (int_of_nat n) (int_of_z e)
  | RejectPanic (n, k) -> Printf.sprintf "REJECT model panics at label %d (site %d)" (int_of_nat n) (int_of_z k)
  | RejectObs r -> Printf.sprintf "REJECT observed result of resolver %d differs from the model's" (int_of_n r)
  | RejectMissing r -> Printf.sprintf "REJECT resolver %d has no observed result" (int_of_n r)
  | RejectLeftover (p, m) ->
      Printf.sprintf "REJECT a model frame (sender ip %d -> target ip %d, receiver %d) was never delivered or dropped"
        (int_of_n p.pk_sip) (int_of_n p.pk_tip) (int_of_nat m)

let handle (line : string) : string =
  match split_on " ||| " line with
  | [case; impl] ->
      let (mtu, machines, slot_panic) = parse_case case in
      let impl = String.trim impl in
      if impl = "HANG" then "REJECT the implementation hangs"
      else if String.length impl >= 5 && String.sub impl 0 5 = "CRASH" then
        (if slot_panic then "ACCEPT documented panic of Pci::open for a missing slot" else "REJECT the implementation crashed")
      else begin
        match split_on "#" impl with
        | [tr; os] ->
            let parts = List.map String.trim (String.split_on_char ';' tr) in
            let head = Conv.tokens (List.hd parts) in
            (match head with
             | "m" :: macs ->
                 let cfg = mk_cfg mtu machines macs in
                 let ostoks = Conv.tokens os in
                 if List.mem "?" ostoks then "REJECT unattributed frames in the trace"
                 else
                   let labels = List.map parse_label (List.filter (fun x -> x <> "") (List.tl parts)) in
                   let obs = List.map (fun (r, st, t) -> { o_rid = ni r; o_status = parse_status st; o_at = zi t }) (triples ostoks) in
                   verdict_string (validate cfg labels obs)
             | "M" :: macs ->
                 let cfg = mk_cfg mtu machines macs in
                 let robs =
                   List.map (fun (m, l, r, mk, gw, st) ->
                       { ro_mach = nati m; ro_pair = { p_local = ni l; p_remote = ni r };
                         ro_sub = (if mk = "-" then None else Some { sn_mask = ni mk; sn_gw = ni gw });
                         ro_status = parse_status st }) (sixes (Conv.tokens os)) in
                 if validate_results cfg robs then "ACCEPT" else "REJECT a returned MAC is not the owner's (results-only validation)"
             | _ -> "REJECT unreadable trace")
        | _ -> "REJECT unreadable impl line"
      end
  | _ -> "REJECT unreadable input"

let () =
  Conv.iter_lines (fun l ->
      let r = try handle l with Failure m -> "REJECT driver: " ^ m | Not_found -> "REJECT driver: not found" in
      print_endline r)
