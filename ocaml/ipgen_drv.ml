(* driver for the C15 generator model: one history per line.
   case:   <ctor> ; <op> ; <op> ...
     ctor: new S E | sub IP LEN | noends IP LEN | noends_orig IP LEN | all | none | blocked_out
     op:   b IP LEN | i | f LEN | r IP LEN | r1 IP | a IP LEN | R
           | rh K  (return the K-th block handed out so far and not yet returned this way; no-op if none)
   result: <state> | <ret> <state'> | ...     state = s-e,s-e,...  or {} ; "=" when unchanged
           ret = - | none | net:ID/BITS | ip:A | T | F ; a panic prints PANIC and ends the line *)
open Ipgen_model

let rec pos_of_int (n : int) : positive =
  if n = 1 then XH
  else if n land 1 = 0 then XO (pos_of_int (n lsr 1))
  else XI (pos_of_int (n lsr 1))

let z_of_int (n : int) : z =
  if n = 0 then Z0 else if n > 0 then Zpos (pos_of_int n) else Zneg (pos_of_int (-n))

let rec int_of_pos (p : positive) : int =
  match p with XH -> 1 | XO q -> 2 * int_of_pos q | XI q -> 2 * int_of_pos q + 1

let int_of_z (x : z) : int =
  match x with Z0 -> 0 | Zpos p -> int_of_pos p | Zneg p -> - (int_of_pos p)

let show_state (g : (z * z) list) : string =
  if g = [] then "{}"
  else String.concat "," (List.map (fun (s, e) -> Printf.sprintf "%d-%d" (int_of_z s) (int_of_z e)) g)

let show_out (o : out) : string =
  match o with
  | RUnit -> "-"
  | RNet None -> "none"
  | RNet (Some (id, bits)) -> Printf.sprintf "net:%d/%d" (int_of_z id) (int_of_z bits)
  | RIp None -> "none"
  | RIp (Some a) -> Printf.sprintf "ip:%d" (int_of_z a)
  | RBool true -> "T"
  | RBool false -> "F"

(* split the token list at ";" *)
let split_semis (toks : string list) : string list list =
  let rec go cur acc = function
    | [] -> List.rev (List.rev cur :: acc)
    | ";" :: t -> go [] (List.rev cur :: acc) t
    | x :: t -> go (x :: cur) acc t
  in
  go [] [] toks

let zi s = z_of_int (int_of_string s)

let parse_ctor = function
  | [ "new"; s; e ] -> KNew (zi s, zi e)
  | [ "sub"; ip; len ] -> KSub (zi ip, zi len)
  | [ "noends"; ip; len ] -> KNoEnds (zi ip, zi len)
  | [ "noends_orig"; ip; len ] -> KNoEndsOrig (zi ip, zi len)
  | [ "all" ] -> KAll
  | [ "none" ] -> KNone
  | [ "blocked_out" ] -> KBlockedOut
  | _ -> failwith "bad ctor"

let parse_op = function
  | [ "b"; ip; len ] -> OBlock (zi ip, zi len)
  | [ "i" ] -> OFetchIp
  | [ "f"; len ] -> OFetchNet (zi len)
  | [ "r"; ip; len ] -> OReturn (zi ip, zi len)
  | [ "r1"; ip ] -> OReturnIp (zi ip)
  | [ "a"; ip; len ] -> OIsAvail (zi ip, zi len)
  | [ "R" ] -> OBlockReserved
  | _ -> failwith "bad op"

let lockstep () =
  Conv.iter_lines (fun line ->
      let parts = split_semis (Conv.tokens line) in
      let buf = Buffer.create 256 in
      (match parts with
       | [] -> failwith "empty case"
       | c :: ops -> (
           match build (parse_ctor c) with
           | Ok g0 ->
               Buffer.add_string buf (show_state g0);
               (* `rh K`: return the K-th block handed out and not yet returned this way *)
               let rec remove_at k = function
                 | [] -> []
                 | x :: t -> if k = 0 then t else x :: remove_at (k - 1) t
               in
               let rec go g handed = function
                 | [] -> ()
                 | [ "rh"; k ] :: t when handed = [] -> Buffer.add_string buf " | - ="; go g handed t
                 | o :: t -> (
                     let o, handed =
                       match o with
                       | [ "rh"; k ] ->
                           let k = int_of_string k mod List.length handed in
                           let id, bits = List.nth handed k in
                           ([ "r"; string_of_int id; string_of_int bits ], remove_at k handed)
                       | _ -> (o, handed)
                     in
                     match apply_op g (parse_op o) with
                     | Ok (g', r) ->
                         Buffer.add_string buf " | ";
                         Buffer.add_string buf (show_out r);
                         Buffer.add_char buf ' ';
                         Buffer.add_string buf (if g' = g then "=" else show_state g');
                         let handed =
                           match r with
                           | RNet (Some (id, bits)) -> handed @ [ (int_of_z id, int_of_z bits) ]
                           | RIp (Some a) -> handed @ [ (int_of_z a, 32) ]
                           | _ -> handed
                         in
                         go g' handed t
                     | _ -> Buffer.add_string buf " | PANIC")
               in
               go g0 [] ops
           | _ -> Buffer.add_string buf "PANIC"));
      print_endline (Buffer.contents buf))

(* ------------------------------------------------------------------ DHCP trace validation
   usage: ipgen dhcp   reads `case ||| impl line` (see harness/src/bin/c15_dhcp.rs), prints ACCEPT | REJECT why.
   The observed events are turned into a label sequence of Model/DhcpProto.v:
     D (delivery to a tap) of a message that changes state without a reply  -> Deliver at once
     D of a Discover / Request / Offer                                      -> pending; its Deliver is placed where
                                                                               the reply it causes is handed to the network
     S (hand-over to the network) must be a message the model has created and not yet seen on the wire;
       fate 2 -> Dup, fate x -> Drop
   The server's processing order of concurrently delivered Discovers is not observable on a multi-thread runtime,
   so for an Offer the pending Discovers of other clients may be delivered first (backtracking search).
   At the end every pending message is delivered; then: nothing the model sent may be missing on the wire, the
   clients' ip_address fields and the server's generator must equal the model's, and `run (init n g0) labels`
   must give exactly that state (the hypothesis of C15_dhcp_distinct).  A crash at dhcp_server.rs:60 is accepted
   iff the model panics with site 60. *)
let rec nat_of_int n = if n <= 0 then O else S (nat_of_int (n - 1))
let rec int_of_nat = function O -> 0 | S n -> 1 + int_of_nat n

type key = bool * int * int * int (* up, client, type number, your_ip *)

let mtype_no = function Discover -> 1 | Offer -> 2 | Request -> 3 | Decline -> 4 | Ack -> 5 | Nack -> 6 | Release -> 7
let key_of (m : msg) : key = (m.m_up, int_of_nat m.m_cid, mtype_no m.m_type, int_of_z m.m_ip)
let show_key ((up, c, t, ip) : key) = Printf.sprintf "%s c%d type%d ip%d" (if up then "up" else "down") c t ip

let rec remove_one x = function [] -> [] | y :: t -> if y = x then t else y :: remove_one x t
let count x l = List.length (List.filter (fun y -> y = x) l)

let index_of (k : key) (st : state) : int option =
  let rec go i = function [] -> None | m :: t -> if key_of m = k then Some i else go (i + 1) t in
  go 0 st.net0

type vst = { st : state; unsent : key list; pending : key list; labels : label list (* reversed *) }

exception Reject of string

type stepres = Stepped of vst * key list | Crashed of int

(* apply a label that must be enabled *)
let apply (v : vst) (l : label) : stepres =
  let before = List.length v.st.net0 in
  match step v.st l with
  | Ok st' ->
      let removed = match l with Deliver _ -> 1 | _ -> 0 in
      let keep = before - removed in
      let rec drop n l = if n <= 0 then l else match l with [] -> [] | _ :: t -> drop (n - 1) t in
      let outs = match l with Deliver _ -> List.map key_of (drop keep st'.net0) | _ -> [] in
      Stepped ({ v with st = st'; labels = l :: v.labels }, outs)
  | Panic site -> Crashed (int_of_z site)
  | _ -> raise (Reject "model step failed")

let deliver (v : vst) (k : key) : stepres =
  match index_of k v.st with
  | None -> raise (Reject ("the model has no in-flight message " ^ show_key k))
  | Some i -> (
      match apply v (Deliver (nat_of_int i)) with
      | Stepped (v', outs) -> Stepped ({ v' with unsent = v'.unsent @ outs }, outs)
      | c -> c)

let deferred ((up, _, t, _) : key) = (up && (t = 1 || t = 3)) || ((not up) && t = 2)

let cause_of ((up, c, t, ip) : key) : key option =
  match (up, t) with
  | false, 2 -> Some (true, c, 1, 0)
  | false, 5 -> Some (true, c, 3, ip)
  | true, 3 -> Some (false, c, 2, ip)
  | _ -> None

type ev = ES of key * string | ED of key | EX of int * int option | EG of string | EEnd of string | EOther

let validate_dhcp (line : string) : string =
  let case, impl =
    match Str.bounded_split (Str.regexp_string " ||| ") line 2 with
    | [ a; b ] -> (a, b)
    | _ -> failwith "validate line"
  in
  let ct = Array.of_list (Conv.tokens case) in
  let n = int_of_string ct.(3) in
  let ctor =
    match ct.(5) with
    | "range" -> KNew (zi ct.(6), zi ct.(7))
    | "sub" -> KSub (zi ct.(6), zi ct.(7))
    | "noends" -> KNoEnds (zi ct.(6), zi ct.(7))
    | _ -> failwith "pool"
  in
  let g0 = match build ctor with Ok g -> g | _ -> failwith "pool constructor panics" in
  let parts = Str.split (Str.regexp_string " ; ") impl in
  let evs =
    List.map
      (fun p ->
        match Conv.tokens p with
        | [ "S"; d; c; t; ip; f ] -> ES ((d = "u", int_of_string c, int_of_string t, int_of_string ip), f)
        | [ "D"; d; c; t; ip ] -> ED (d = "u", int_of_string c, int_of_string t, int_of_string ip)
        | [ "X"; c; v ] -> EX (int_of_string c, if v = "-" then None else Some (int_of_string v))
        | "G" :: r -> EG (String.concat " " r)
        | "E" :: r -> EEnd (String.concat " " r)
        | "G0" :: r ->
            if String.concat " " r <> show_state g0 then raise (Reject ("initial pool: implementation " ^ String.concat " " r ^ " model " ^ show_state g0));
            EOther
        | _ -> EOther)
      parts
  in
  let finals = ref [] and gfinal = ref None in
  (* returns unit on ACCEPT, raises Reject otherwise; alternatives are tried at the Offer choice point *)
  let rec go (v : vst) (evs : ev list) : unit =
    match evs with
    | [] -> raise (Reject "trace without an end")
    | EOther :: t -> go v t
    | EX (c, x) :: t -> finals := (c, x) :: !finals; go v t
    | EG s :: t -> gfinal := Some s; go v t
    | ED k :: t ->
        let inflight = count k (List.map key_of v.st.net0) - count k v.unsent - count k v.pending in
        if inflight < 1 then raise (Reject ("delivered but not in flight in the model: " ^ show_key k));
        if deferred k then go { v with pending = v.pending @ [ k ] } t
        else (
          match deliver v k with
          | Stepped (v', _) -> go v' t
          | Crashed s -> raise (Reject (Printf.sprintf "model panics (site %d) on %s" s (show_key k))))
    | ES (k, f) :: t ->
        let after_sent (v : vst) =
          let v = { v with unsent = remove_one k v.unsent } in
          let v =
            match f with
            | "2" | "x" -> (
                match index_of k v.st with
                | None -> raise (Reject "sent message not in the model's network")
                | Some i -> (
                    let l = if f = "2" then Dup (nat_of_int i) else Drop (nat_of_int i) in
                    match apply v l with Stepped (v', _) -> v' | Crashed _ -> raise (Reject "dup/drop panics")))
            | _ -> v
          in
          go v t
        in
        if List.mem k v.unsent then after_sent v
        else (
          match cause_of k with
          | None -> raise (Reject ("the implementation sent what the model never creates: " ^ show_key k))
          | Some cz ->
              if not (List.mem cz v.pending) then
                raise (Reject ("the implementation sent " ^ show_key k ^ " without having received " ^ show_key cz));
              let step_pending (v : vst) (p : key) : vst =
                match deliver { v with pending = remove_one p v.pending } p with
                | Stepped (v', _) -> v'
                | Crashed s -> raise (Reject (Printf.sprintf "model panics (site %d) where the implementation answered %s" s (show_key k)))
              in
              let _, _, ty, _ = k in
              if ty <> 2 then (
                let v' = step_pending v cz in
                if not (List.mem k v'.unsent) then raise (Reject ("the model answers differently from " ^ show_key k));
                after_sent v')
              else
                (* Offer: which Discovers did the server process before this one? *)
                let rec search (v : vst) (depth : int) : unit =
                  let v1 = step_pending v cz in
                  if List.mem k v1.unsent then after_sent v1
                  else if depth = 0 then raise (Reject ("no processing order of the delivered Discovers explains " ^ show_key k))
                  else
                    let others = List.sort_uniq compare (List.filter (fun ((up, c', t', _) as p) -> up && t' = 1 && p <> cz) v.pending) in
                    let rec try_each last = function
                      | [] -> raise (Reject last)
                      | o :: rest -> ( try search (step_pending v o) (depth - 1) with Reject m -> try_each m rest)
                    in
                    try_each ("no processing order of the delivered Discovers explains " ^ show_key k) others
                in
                search v (List.length v.pending))
    | EEnd e :: _ ->
        (* deliver what is still pending, in arrival order *)
        let rec drain (v : vst) : vst * int option =
          match v.pending with
          | [] -> (v, None)
          | p :: _ -> (
              match deliver { v with pending = remove_one p v.pending } p with
              | Stepped (v', _) -> drain v'
              | Crashed s -> (v, Some s))
        in
        let v, crashed = drain v in
        let impl_crash = String.length e >= 5 && String.sub e 0 5 = "CRASH" in
        if impl_crash then (
          if e <> "CRASH dhcp_server.rs:60" then raise (Reject ("implementation ended with " ^ e));
          match crashed with
          | Some 60 -> ()
          | _ -> raise (Reject "the implementation crashed at dhcp_server.rs:60 but the model does not panic"))
        else (
          (match crashed with Some s -> raise (Reject (Printf.sprintf "the model panics (site %d) but the implementation went on" s)) | None -> ());
          if e <> "DONE" then raise (Reject ("run ended with " ^ e));
          if v.unsent <> [] then raise (Reject ("the model sends " ^ show_key (List.hd v.unsent) ^ " but the implementation never did"));
          List.iter
            (fun (c, x) ->
              let m = match List.nth_opt v.st.clients c with Some (Some a) -> Some (int_of_z a) | _ -> None in
              if m <> x then
                raise (Reject (Printf.sprintf "client %d ends with %s, model %s" c
                     (match x with Some a -> string_of_int a | None -> "-") (match m with Some a -> string_of_int a | None -> "-"))))
            !finals;
          if List.length !finals <> n then raise (Reject "final fields missing");
          (match !gfinal with
           | Some s when s = show_state v.st.srv -> ()
           | Some s -> raise (Reject ("server generator ends as " ^ s ^ ", model " ^ show_state v.st.srv))
           | None -> raise (Reject "final generator missing"));
          (* the label sequence is a run of the model from init: the hypothesis of the theorems *)
          match run (init (nat_of_int n) g0) (List.rev v.labels) with
          | Ok st when st = v.st -> ()
          | _ -> raise (Reject "internal: label sequence does not replay"))
  in
  let v0 =
    { st = init (nat_of_int n) g0; unsent = List.init n (fun c -> (true, c, 1, 0)); pending = []; labels = [] }
  in
  try
    go v0 evs;
    "ACCEPT"
  with
  | Reject m -> "REJECT " ^ m
  | Failure m -> "REJECT driver: " ^ m

let () =
  if Array.length Sys.argv > 1 && Sys.argv.(1) = "dhcp" then
    Conv.iter_lines (fun line -> print_endline (try validate_dhcp line with Reject m -> "REJECT " ^ m | Failure m -> "REJECT driver: " ^ m))
  else lockstep ()
