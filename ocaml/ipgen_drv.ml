(* driver for the C15 generator model: one history per line.
   case:   <ctor> ; <op> ; <op> ...
     ctor: new S E | sub IP LEN | noends IP LEN | noends_orig IP LEN | all | none | blocked_out
     op:   b IP LEN | i | f LEN | r IP LEN | r1 IP | a IP LEN | R
           | rh K  (return the K-th block handed out so far and not yet returned this way; no-op if none)
   result: <state> | <ret> <state'> | ...     state = s-e,s-e,...  or {} ; "=" when unchanged
           ret = - | none | net:ID/BITS | ip:A | T | F ; a panic prints PANIC and ends the line *)
open Ipgen_model

let rec pos_of_int (n : int) : positive =
  if n = 1 then XH
  else if n land 1 = 0 then XO (pos_of_int (n lsr 1))
  else XI (pos_of_int (n lsr 1))

let z_of_int (n : int) : z =
  if n = 0 then Z0 else if n > 0 then Zpos (pos_of_int n) else Zneg (pos_of_int (-n))

let rec int_of_pos (p : positive) : int =
  match p with XH -> 1 | XO q -> 2 * int_of_pos q | XI q -> 2 * int_of_pos q + 1

let int_of_z (x : z) : int =
  match x with Z0 -> 0 | Zpos p -> int_of_pos p | Zneg p -> - (int_of_pos p)

let show_state (g : (z * z) list) : string =
  if g = [] then "{}"
  else String.concat "," (List.map (fun (s, e) -> Printf.sprintf "%d-%d" (int_of_z s) (int_of_z e)) g)

let show_out (o : out) : string =
  match o with
  | RUnit -> "-"
  | RNet None -> "none"
  | RNet (Some (id, bits)) -> Printf.sprintf "net:%d/%d" (int_of_z id) (int_of_z bits)
  | RIp None -> "none"
  | RIp (Some a) -> Printf.sprintf "ip:%d" (int_of_z a)
  | RBool true -> "T"
  | RBool false -> "F"

(* split the token list at ";" *)
let split_semis (toks : string list) : string list list =
  let rec go cur acc = function
    | [] -> List.rev (List.rev cur :: acc)
    | ";" :: t -> go [] (List.rev cur :: acc) t
    | x :: t -> go (x :: cur) acc t
  in
  go [] [] toks

let zi s = z_of_int (int_of_string s)

let parse_ctor = function
  | [ "new"; s; e ] -> KNew (zi s, zi e)
  | [ "sub"; ip; len ] -> KSub (zi ip, zi len)
  | [ "noends"; ip; len ] -> KNoEnds (zi ip, zi len)
  | [ "noends_orig"; ip; len ] -> KNoEndsOrig (zi ip, zi len)
  | [ "all" ] -> KAll
  | [ "none" ] -> KNone
  | [ "blocked_out" ] -> KBlockedOut
  | _ -> failwith "bad ctor"

let parse_op = function
  | [ "b"; ip; len ] -> OBlock (zi ip, zi len)
  | [ "i" ] -> OFetchIp
  | [ "f"; len ] -> OFetchNet (zi len)
  | [ "r"; ip; len ] -> OReturn (zi ip, zi len)
  | [ "r1"; ip ] -> OReturnIp (zi ip)
  | [ "a"; ip; len ] -> OIsAvail (zi ip, zi len)
  | [ "R" ] -> OBlockReserved
  | _ -> failwith "bad op"

let () =
  Conv.iter_lines (fun line ->
      let parts = split_semis (Conv.tokens line) in
      let buf = Buffer.create 256 in
      (match parts with
       | [] -> failwith "empty case"
       | c :: ops -> (
           match build (parse_ctor c) with
           | Ok g0 ->
               Buffer.add_string buf (show_state g0);
               (* `rh K`: return the K-th block handed out and not yet returned this way *)
               let rec remove_at k = function
                 | [] -> []
                 | x :: t -> if k = 0 then t else x :: remove_at (k - 1) t
               in
               let rec go g handed = function
                 | [] -> ()
                 | [ "rh"; k ] :: t when handed = [] -> Buffer.add_string buf " | - ="; go g handed t
                 | o :: t -> (
                     let o, handed =
                       match o with
                       | [ "rh"; k ] ->
                           let k = int_of_string k mod List.length handed in
                           let id, bits = List.nth handed k in
                           ([ "r"; string_of_int id; string_of_int bits ], remove_at k handed)
                       | _ -> (o, handed)
                     in
                     match apply_op g (parse_op o) with
                     | Ok (g', r) ->
                         Buffer.add_string buf " | ";
                         Buffer.add_string buf (show_out r);
                         Buffer.add_char buf ' ';
                         Buffer.add_string buf (if g' = g then "=" else show_state g');
                         let handed =
                           match r with
                           | RNet (Some (id, bits)) -> handed @ [ (int_of_z id, int_of_z bits) ]
                           | RIp (Some a) -> handed @ [ (int_of_z a, 32) ]
                           | _ -> handed
                         in
                         go g' handed t
                     | _ -> Buffer.add_string buf " | PANIC")
               in
               go g0 [] ops
           | _ -> Buffer.add_string buf "PANIC"));
      print_endline (Buffer.contents buf))
