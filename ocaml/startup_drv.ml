(* driver for the C13 model (Model/Startup.v)
     startup table      prints builtin_table, one row per line, in the vocabulary of tools/c13_action_table.py
     startup validate   reads `case ||| impl line` (see harness/src/bin/c13_start.rs), runs the extracted
                        validator on the implementation's recorded trace: ACCEPT | REJECT <why> *)
open Startup_model

let rec pos_of_int (n : int) : positive =
  if n = 1 then XH else if n land 1 = 0 then XO (pos_of_int (n lsr 1)) else XI (pos_of_int (n lsr 1))

let n_of_int (n : int) : n = if n <= 0 then N0 else Npos (pos_of_int n)

let rec int_of_pos = function XH -> 1 | XO p -> 2 * int_of_pos p | XI p -> (2 * int_of_pos p) + 1
let int_of_n = function N0 -> 0 | Npos p -> int_of_pos p

let rec nat_of_int (n : int) : nat = if n <= 0 then O else S (nat_of_int (n - 1))

let protos : (string * proto) list =
  [ ("Arp", PArp); ("DhcpClient", PDhcpClient); ("DnsClient", PDnsClient); ("DnsServer", PDnsServer);
    ("Ipv4", PIpv4); ("Pci", PPci); ("SocketAPI", PSocketAPI); ("Tcp", PTcp); ("Udp", PUdp);
    ("ArpRouter", PArpRouter); ("BareBonesClient", PBareBonesClient); ("BareBonesServer", PBareBonesServer);
    ("BasicClient", PBasicClient); ("BasicServer", PBasicServer); ("Capture", PCapture);
    ("DhcpServer", PDhcpServer); ("DnsTestClient", PDnsTestClient); ("DnsTestServer", PDnsTestServer);
    ("Forward", PForward); ("OnReceive", POnReceive); ("PingPong", PPingPong); ("SendMessage", PSendMessage);
    ("SimpleWebClient", PSimpleWebClient); ("SocketClient", PSocketClient); ("SocketServer", PSocketServer);
    ("StreamingClient", PStreamingClient); ("VideoServer", PVideoServer);
    ("TcpListenerServer", PTcpListenerServer); ("TcpStreamClient", PTcpStreamClient);
    ("ThroughputTester", PThroughputTester); ("UserBehavior", PUserBehavior); ("WebServer", PWebServer) ]

let name_of (p : proto) : string = fst (List.find (fun (_, q) -> q = p) protos)

let status_str = function Exited -> "E" | TimedOut -> "T" | Status k -> "S" ^ string_of_int (int_of_n k)

let action_str = function
  | ATapStart -> "Tap"
  | AListen -> "Listen"
  | ANotifyInit -> "Notify"
  | ANewSocket -> "Socket"
  | AOpen -> "Open"
  | ASpawn true -> "Spawn+"
  | ASpawn false -> "Spawn-"
  | ABarrierWait -> "Wait"
  | ASend -> "Send"
  | AInput true -> "Input!"
  | AInput false -> "Input"
  | ASleep -> "Sleep"
  | AShutdown st -> "Shut:" ^ status_str st

let print_table () =
  List.iter
    (fun (p, acts) -> Printf.printf "%s: %s\n" (name_of p) (String.concat " " (List.map action_str acts)))
    builtin_table

let parse_status (s : string) : status =
  if s = "T" then TimedOut
  else if s = "E" then Exited
  else if String.length s > 1 && s.[0] = 'S' then Status (n_of_int (int_of_string (String.sub s 1 (String.length s - 1))))
  else failwith ("status " ^ s)

let is_happ (t : string) : bool =
  String.length t > 2 && t.[0] = 'h' && t.[1] >= '0' && t.[1] <= '9' && String.contains t ':'

let split_on (sep : string) (s : string) : string list = Str.split_delim (Str.regexp_string sep) s

(* st@t  ->  (status, time) *)
let st_at (s : string) : status * n =
  match String.split_on_char '@' s with
  | [ a; b ] -> (parse_status a, n_of_int (int_of_string b))
  | _ -> failwith ("st@t " ^ s)

let after_colon (s : string) : string =
  let i = String.index s ':' in
  String.sub s (i + 1) (String.length s - i - 1)

let machine_index (s : string) : nat =
  let k = int_of_string s in
  if k < 0 then nat_of_int 999 else nat_of_int k

let validate_line (line : string) : string =
  match split_on " ||| " line with
  | [ case; impl ] -> (
      let parts = List.map String.trim (String.split_on_char ';' case) in
      let head = Conv.tokens (List.hd parts) in
      let flavor = int_of_string (List.nth head 0) in
      let tmo = int_of_string (List.nth head 1) in
      let mac = int_of_string (List.nth head 2) <> 0 in
      let napps = ref 0 in
      let sts = ref [] in
      let machines =
        List.map
          (fun m ->
            let toks = List.tl (Conv.tokens m) in
            let names = List.filter (fun t -> not (is_happ t)) toks in
            napps := !napps + List.length (List.filter is_happ toks);
            let base t = List.hd (String.split_on_char ':' t) in
            List.iter
              (fun t ->
                match String.split_on_char ':' t with
                | [ "Capture"; _; st ] -> sts := (if int_of_string st < 0 then Exited else Status (n_of_int (int_of_string st))) :: !sts
                | "PingPong" :: _ | "ThroughputTester" :: _ | "TcpStreamClient" :: _ | "SocketServer" :: _ -> sts := Exited :: !sts
                | _ -> ())
              names;
            let has_arp = List.exists (fun t -> base t = "Arp") names in
            ((has_arp && not mac), List.map (fun t -> List.assoc (base t) protos) names))
          (List.tl parts)
      in
      let slack = ref 0 in
      let mk late =
        { v_napps = nat_of_int !napps; v_machines = machines;
          v_timeout = (if tmo >= 0 then Some (n_of_int (tmo * 1_000_000)) else None);
          v_paused = (flavor = 0); v_slack = n_of_int !slack; v_builtin_sts = !sts; v_late_seen = late }
      in
      let show = function Accept -> "ACCEPT" | Reject w ->
        let k = let rec f = function O -> 0 | S x -> 1 + f x in f w in
        "REJECT " ^ (match k with
          | 1 -> "barrier: network activity or a release before every harness application arrived, not excused by the model"
          | 2 -> "deadline: returned later than timeout + 1 s"
          | 3 -> "status/time differ from the run model (exact)"
          | 4 -> "status not among the first requests (multi-thread)"
          | 5 -> "crash in PciSession::receive but no machine of the case may frame before the barrier"
          | 6 -> "application crash but no start of the case unwraps an awaited input"
          | _ -> "unexpected crash")
      in
      match Conv.tokens impl with
      | "RET" :: st :: el :: rest ->
          let late = ref None in
          let evs =
            List.filter_map
              (fun t ->
                if t = ";" then None
                else
                  match t.[0] with
                  | 'a' -> Some (OArrive (nat_of_int (int_of_string (String.sub t 1 (String.length t - 1)))))
                  | 'r' -> Some (ORelease (nat_of_int (int_of_string (String.sub t 1 (String.length t - 1)))))
                  | 'd' -> Some (ODemux (nat_of_int (int_of_string (String.sub t 1 (String.length t - 1)))))
                  | 'v' -> Some (ODeliver (machine_index (String.sub t 1 (String.length t - 1))))
                  | 'f' ->
                      let i = String.index t ':' in
                      Some (OFrame (machine_index (String.sub t 1 (i - 1)), after_colon t = "arp"))
                  | 'q' -> let s, tm = st_at (after_colon t) in Some (OReq (s, tm))
                  | 's' -> Some OSent
                  | 'w' -> let s, tm = st_at (after_colon t) in Some (OSeen (s, tm))
                  | 'W' -> late := Some (parse_status (after_colon t)); None
                  | 'Z' -> slack := int_of_string (after_colon t); None
                  | _ -> failwith ("event " ^ t))
              rest
          in
          show (validate (mk !late) evs (parse_status st) (n_of_int (int_of_string el)))
      | [ "CRASH"; file ] ->
          let kind =
            if String.length file >= 15 && String.sub file 0 15 = "pci_session.rs:" then 0
            else if List.exists (fun p -> String.length file >= String.length p && String.sub file 0 (String.length p) = p)
                      [ "socket_server.rs:"; "tcp_listener_server.rs:"; "tcp_stream_client.rs:"; "dns_test_server.rs:"; "dns_test_client.rs:"; "dns_server.rs:" ]
            then 1
            else 2
          in
          show (validate_crash (mk None) (nat_of_int kind))
      | [ "HANG" ] -> "REJECT the run never returned"
      | _ -> "REJECT unparsable impl line")
  | _ -> "REJECT unparsable line"

let () =
  let mode = if Array.length Sys.argv > 1 then Sys.argv.(1) else "validate" in
  if mode = "table" then print_table ()
  else Conv.iter_lines (fun line -> print_endline (try validate_line line with e -> "REJECT driver: " ^ Printexc.to_string e))
