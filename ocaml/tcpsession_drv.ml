(* Driver of the extracted session-task validator (Model/TcpSession.v).
   stdin: lines `case ||| impl_line` as written by harness/src/bin/c01_session.rs
   stdout: one line per case, `ACCEPT ...` or `REJECT <why>`.
   With --explain the model's expected event is printed next to a rejected one. *)
open Tcpsession_model

let rec pos_of_int (n : int) : positive =
  if n = 1 then XH
  else if n land 1 = 0 then XO (pos_of_int (n lsr 1))
  else XI (pos_of_int (n lsr 1))

let z_of_int (n : int) : z =
  if n = 0 then Z0 else if n > 0 then Zpos (pos_of_int n) else Zneg (pos_of_int (-n))

let rec int_of_pos (p : positive) : int =
  match p with XH -> 1 | XO q -> 2 * int_of_pos q | XI q -> 2 * int_of_pos q + 1

let int_of_z (x : z) : int =
  match x with Z0 -> 0 | Zpos p -> int_of_pos p | Zneg p -> - (int_of_pos p)

let rec int_of_nat (n : nat) : int = match n with O -> 0 | S m -> 1 + int_of_nat m

let byte_z = Array.init 256 z_of_int

let hexval c =
  match c with
  | '0' .. '9' -> Char.code c - 48
  | 'a' .. 'f' -> Char.code c - 87
  | 'A' .. 'F' -> Char.code c - 55
  | _ -> failwith "hex"

let bytes_of_hex (s : string) : z list =
  if s = "-" then []
  else begin
    let n = String.length s / 2 in
    let r = ref [] in
    for i = n - 1 downto 0 do
      r := byte_z.(hexval s.[2 * i] * 16 + hexval s.[2 * i + 1]) :: !r
    done;
    !r
  end

let hex_of_bytes (l : z list) : string =
  if l = [] then "-"
  else begin
    let b = Buffer.create 64 in
    List.iter (fun x -> Buffer.add_string b (Printf.sprintf "%02x" (int_of_z x))) l;
    Buffer.contents b
  end

let zs s = z_of_int (int_of_string s)

let state_of_code = function
  | 1 -> SynSent | 2 -> SynReceived | 3 -> Established | 4 -> FinWait1 | 5 -> FinWait2
  | 6 -> CloseWait | 7 -> Closing | 8 -> LastAck | 9 -> TimeWait
  | _ -> failwith "state"

let seg_of_tok (s : string) : segment =
  match String.split_on_char '.' s with
  | [sp; dp; seq; ack; ctl; wnd; urg; text] ->
    let c = int_of_string ctl in
    let bit k = (c lsr k) land 1 = 1 in
    { s_hdr = { h_sport = zs sp; h_dport = zs dp; h_seq = zs seq; h_ack = zs ack;
                h_ctl = { c_urg = bit 5; c_ack = bit 4; c_psh = bit 3; c_rst = bit 2; c_syn = bit 1; c_fin = bit 0 };
                h_wnd = zs wnd; h_urg = zs urg };
      s_text = bytes_of_hex text }
  | _ -> failwith ("segment " ^ s)

let b2i b = if b then 1 else 0

let tok_of_seg (s : segment) : string =
  let h = s.s_hdr in
  let c = h.h_ctl in
  let bits = b2i c.c_fin lor (b2i c.c_syn lsl 1) lor (b2i c.c_rst lsl 2) lor (b2i c.c_psh lsl 3)
             lor (b2i c.c_ack lsl 4) lor (b2i c.c_urg lsl 5) in
  Printf.sprintf "%d.%d.%d.%d.%d.%d.%d.%s" (int_of_z h.h_sport) (int_of_z h.h_dport) (int_of_z h.h_seq)
    (int_of_z h.h_ack) bits (int_of_z h.h_wnd) (int_of_z h.h_urg)
    (let t = hex_of_bytes s.s_text in if String.length t > 40 then String.sub t 0 40 ^ ".." ^ string_of_int (List.length s.s_text) else t)

let snap_of_tok (s : string) : snapshot =
  match String.split_on_char '.' s with
  | [st; li; una; nxt; wnd; wl1; wl2; iss; irs; rnxt; rwnd; outl; retx; one; insegs; inl; rto; tw; finp] ->
    let retx_l =
      if retx = "-" then []
      else List.map (fun e ->
          match String.split_on_char ':' e with
          | [q; l; sy; fi; n] -> ((zs q, zs l), ((sy = "1", fi = "1"), n = "1"))
          | _ -> failwith "retx") (String.split_on_char '/' retx) in
    let in_l =
      if insegs = "-" then []
      else List.map (fun e ->
          match String.split_on_char ':' e with
          | [q; l] -> (zs q, zs l)
          | _ -> failwith "insegs") (String.split_on_char '/' insegs) in
    { sn_state = state_of_code (int_of_string st); sn_listen = (li = "1");
      sn_una = zs una; sn_nxt = zs nxt; sn_wnd = zs wnd; sn_wl1 = zs wl1; sn_wl2 = zs wl2; sn_iss = zs iss;
      sn_irs = zs irs; sn_rnxt = zs rnxt; sn_rwnd = zs rwnd; sn_out_len = zs outl; sn_retx = retx_l;
      sn_oneshot_len = zs one; sn_in_segs = in_l; sn_in_len = zs inl; sn_rto_ns = zs rto;
      sn_tw_ns = (if tw = "-1" then None else Some (zs tw)); sn_fin_pending = (finp = "1") }
  | _ -> failwith ("snapshot " ^ s)

let idle_round = [EvAdvance (z_of_int 5000000); EvFlushed []]

let events_of_toks (toks : string list) : oevent list =
  let out = ref [] in
  List.iter (fun t ->
      let k = t.[0] and rest = String.sub t 1 (String.length t - 1) in
      match k with
      | 'C' -> out := EvConnected :: !out
      | 'I' -> out := EvIncoming (seg_of_tok rest) :: !out
      | 'O' -> out := EvOutgoing (bytes_of_hex rest) :: !out
      | 'A' -> out := EvAdvance (zs rest) :: !out
      | 'E' -> out := EvEmitted (seg_of_tok rest) :: !out
      | 'F' -> out := EvFlushed (bytes_of_hex rest) :: !out
      | 'X' -> out := EvEnded (snap_of_tok rest) :: !out
      | 'Z' -> for _ = 1 to int_of_string rest do out := List.rev_append idle_round !out done
      | _ -> failwith ("event " ^ t)) toks;
  List.rev !out

let str_of_oevent = function
  | EvConnected -> "Connected"
  | EvIncoming s -> "Incoming " ^ tok_of_seg s
  | EvOutgoing b -> Printf.sprintf "Outgoing %d bytes" (List.length b)
  | EvAdvance n -> Printf.sprintf "AdvanceTime %d ns" (int_of_z n)
  | EvEmitted s -> "Emitted " ^ tok_of_seg s
  | EvFlushed b -> Printf.sprintf "Flushed %d bytes" (List.length b)
  | EvEnded _ -> "Ended"

let str_of_sout = function
  | OCall (CArrives s) -> "Incoming " ^ tok_of_seg s
  | OCall (CSend b) -> Printf.sprintf "Outgoing %d bytes" (List.length b)
  | OCall (CAdvance ms) -> Printf.sprintf "AdvanceTime %d ms" (int_of_z ms)
  | OCall _ -> "call"
  | OConnected -> "Connected"
  | OEmitted s -> "Emitted " ^ tok_of_seg s
  | OFlushed b -> Printf.sprintf "Flushed %d bytes" (List.length b)
  | OEnded _ -> "Ended"
  | OPanicked p -> Printf.sprintf "PANIC site %d" (int_of_z p)

let find_tok (prefix : string) (toks : string list) : string option =
  let n = String.length prefix in
  List.find_map (fun t -> if String.length t > n && String.sub t 0 n = prefix then Some (String.sub t n (String.length t - n)) else None) toks

let split_on_str (sep : string) (s : string) : string list =
  Str.split_delim (Str.regexp_string sep) s

let () =
  Conv.iter_lines (fun line ->
      let res =
        try
          match split_on_str " ||| " line with
          | [case; impl] ->
            let mtu = match find_tok "mtu=" (Conv.tokens case) with Some m -> int_of_string m | None -> failwith "mtu" in
            (match split_on_str " ;; " impl with
             | status :: sessions when status = "ok" ->
               if sessions = [] then "REJECT no session trace"
               else begin
                 let n_ev = ref 0 in
                 let verdicts = List.map (fun sl ->
                     match Conv.tokens sl with
                     | "S" :: ep :: start :: evs ->
                       if start = "nostart" then "events without a Start for " ^ ep
                       else begin
                         let lport, rport =
                           match String.split_on_char '-' ep with
                           | [l; r] ->
                             (match String.split_on_char ':' l, String.split_on_char ':' r with
                              | [_; lp], [_; rp] -> (int_of_string lp, int_of_string rp)
                              | _ -> failwith "endpoints")
                           | _ -> failwith "endpoints" in
                         let init = { ii_lport = z_of_int lport; ii_rport = z_of_int rport; ii_mtu = z_of_int mtu;
                                      ii_snap = snap_of_tok start } in
                         let tr = events_of_toks evs in
                         n_ev := !n_ev + List.length tr;
                         match sess_validate init tr with
                         | Accept -> ""
                         | RejectInit f ->
                           Printf.sprintf "session %s: the Start snapshot is not the TCB the constructors of tcp.rs build (field %d; 0 = no TCB)" ep (int_of_z f)
                         | RejectOrder ->
                           (match init_tcb init with
                            | None -> "session " ^ ep ^ ": order"
                            | Some t0 ->
                              let (s0, _) = sess_start t0 in
                              let ins = inputs_of RTop tr in
                              let (_, left) = sess_exec_partial s0 ins in
                              Printf.sprintf "session %s: the call sequence is not one the loop can produce (model input %d of %d is not enabled)"
                                ep (List.length ins - int_of_nat left) (List.length ins))
                         | RejectEvent k ->
                           let k = int_of_nat k in
                           let obs = List.nth tr k in
                           let expd =
                             match init_tcb init with
                             | None -> "?"
                             | Some t0 ->
                               let (s0, o0) = sess_start t0 in
                               let (outs, _) = sess_exec_partial s0 (inputs_of RTop tr) in
                               let vis = List.filter visible (o0 @ outs) in
                               (match List.nth_opt vis k with Some o -> str_of_sout o | None -> "nothing more") in
                           Printf.sprintf "session %s: event %d observed [%s] model [%s]" ep k (str_of_oevent obs) expd
                       end
                     | _ -> "malformed session record") sessions in
                 let bad = List.filter (fun v -> v <> "") verdicts in
                 if bad = [] then Printf.sprintf "ACCEPT sessions=%d events=%d" (List.length sessions) !n_ev
                 else "REJECT " ^ String.concat " || " bad
               end
             | status :: _ -> "ACCEPT no trace (" ^ status ^ ")"
             | [] -> "REJECT empty")
          | _ -> "REJECT malformed line"
        with
        | Failure m -> "REJECT parse " ^ m
        | Not_found -> "REJECT parse"
        | Invalid_argument m -> "REJECT parse " ^ m
      in
      print_endline res)
