(* driver for the C07 message model.
   case  : ops separated by ';' over a pool of 8 slots (all Message::default() at start)
             N d hex | C d i | H i hex | K i j | S i rg a b | S i rf a | S i ru | S i ri a b
             | S i rt b | S i rti b | X d i n | R i n | E i j
   result: one segment per op, joined by " | ":
             the slots whose dump (len:hex of to_vec) changed, "k=len:hex ..." or "." if none;
             "eq=0/1" for E; "PANIC" ends the case; "ERR" for a malformed op. *)
open Message_model

let rec pos_of_u64 (x : int64) : positive =
  if Int64.equal x 1L then XH
  else
    let r = pos_of_u64 (Int64.shift_right_logical x 1) in
    if Int64.equal (Int64.logand x 1L) 0L then XO r else XI r

let n_of_u64 (x : int64) : n = if Int64.equal x 0L then N0 else Npos (pos_of_u64 x)
let n_of_dec (s : string) : n = n_of_u64 (Int64.of_string ("0u" ^ s))
let n_of_int (i : int) : n = n_of_u64 (Int64.of_int i)

let rec int_of_pos (p : positive) : int =
  match p with XH -> 1 | XO q -> 2 * int_of_pos q | XI q -> 2 * int_of_pos q + 1

let int_of_n (x : n) : int = match x with N0 -> 0 | Npos p -> int_of_pos p
let rec nat_of_int (i : int) : nat = if i <= 0 then O else S (nat_of_int (i - 1))
let bytes_of_hex (h : string) : n list = List.map n_of_int (Conv.hex_to_ints h)

let dump (m : msg) : string =
  let body =
    match msg_to_vec m with
    | Ok l -> Conv.ints_to_hex (List.map int_of_n l)
    | _ -> "PANIC"
  in
  let it = match msg_iter m with Ok l -> Conv.ints_to_hex (List.map int_of_n l) | _ -> "PANIC" in
  let body = if it = body then body else body ^ "/iter:" ^ it in
  let e = if msg_is_empty m then (if int_of_n (msg_len m) = 0 then "" else "!empty") else (if int_of_n (msg_len m) = 0 then "!nonempty" else "") in
  Printf.sprintf "%d:%s%s" (int_of_n (msg_len m)) body e

type parsed = Op of op | Eq of int * int | Bad

let parse (t : string array) : parsed =
  let nat i = nat_of_int (int_of_string t.(i)) in
  let num i = n_of_dec t.(i) in
  try
    match t.(0) with
    | "N" -> Op (ONew (nat 1, bytes_of_hex t.(2)))
    | "C" -> Op (OClone (nat 1, nat 2))
    | "H" -> Op (OHeader (nat 1, bytes_of_hex t.(2)))
    | "K" -> Op (OConcat (nat 1, nat 2))
    | "S" ->
        let r =
          match t.(2) with
          | "rg" -> RRange (num 3, num 4)
          | "rf" -> RFrom (num 3)
          | "ru" -> RFull
          | "ri" -> RIncl (num 3, num 4)
          | "rt" -> RTo (num 3)
          | "rti" -> RToIncl (num 3)
          | _ -> failwith "range"
        in
        Op (OSlice (nat 1, r))
    | "X" -> Op (OCut (nat 1, nat 2, num 3))
    | "R" -> Op (ORemoveFront (nat 1, num 2))
    | "E" -> Eq (int_of_string t.(1), int_of_string t.(2))
    | _ -> Bad
  with _ -> Bad

let split_ops (line : string) : string array list =
  List.filter_map
    (fun s ->
      let t = Conv.tokens s in
      if t = [] then None else Some (Array.of_list t))
    (String.split_on_char ';' line)

let () =
  Conv.iter_lines (fun line ->
      let pool = ref (List.init 8 (fun _ -> msg_default)) in
      let dumps = ref (Array.of_list (List.map dump !pool)) in
      let segs = ref [] in
      let stop = ref false in
      List.iter
        (fun t ->
          if not !stop then
            match parse t with
            | Bad ->
                segs := "ERR" :: !segs;
                stop := true
            | Eq (i, j) -> (
                match (List.nth_opt !pool i, List.nth_opt !pool j) with
                | Some a, Some b -> (
                    match msg_eq a b with
                    | Ok r -> segs := (if r then "eq=1" else "eq=0") :: !segs
                    | _ ->
                        segs := "PANIC" :: !segs;
                        stop := true)
                | _ ->
                    segs := "ERR" :: !segs;
                    stop := true)
            | Op o -> (
                match step o !pool with
                | Ok p ->
                    pool := p;
                    let nd = Array.of_list (List.map dump p) in
                    let ch = ref [] in
                    Array.iteri (fun k d -> if d <> !dumps.(k) then ch := Printf.sprintf "%d=%s" k d :: !ch) nd;
                    dumps := nd;
                    segs := (if !ch = [] then "." else String.concat " " (List.rev !ch)) :: !segs
                | Panic _ ->
                    segs := "PANIC" :: !segs;
                    stop := true
                | _ ->
                    segs := "ERR" :: !segs;
                    stop := true))
        (split_ops line);
      print_endline (String.concat " | " (List.rev !segs)))
