#!/bin/sh
# build every model driver: ocaml/<name>_drv.ml + ocaml/gen/<name>_model.ml -> ocaml/bin/<name>
# usage: build.sh [name ...]   (default: all drivers)
set -e
cd "$(dirname "$0")"
mkdir -p bin gen
names="$@"
[ -n "$names" ] || names=$(ls *_drv.ml | sed 's/_drv.ml$//')
for n in $names; do
  [ -f "gen/${n}_model.ml" ] || { echo "missing gen/${n}_model.ml (run the Coq build first)" >&2; exit 2; }
  if [ ! -x "bin/$n" ] || [ "gen/${n}_model.ml" -nt "bin/$n" ] || [ "${n}_drv.ml" -nt "bin/$n" ] || [ conv.ml -nt "bin/$n" ]; then
    d=$(mktemp -d ../.cache/ocamlbuild.XXXXXX)
    cp conv.ml "gen/${n}_model.ml" "gen/${n}_model.mli" "${n}_drv.ml" "$d/"
    (cd "$d" && ocamlfind ocamlopt -O2 -w -a -package str -linkpkg conv.ml "${n}_model.mli" "${n}_model.ml" "${n}_drv.ml" -o out 2>/dev/null \
       || ocamlfind ocamlopt -w -a -package str -linkpkg conv.ml "${n}_model.mli" "${n}_model.ml" "${n}_drv.ml" -o out)
    mv "$d/out" "bin/$n"
    rm -rf "$d"
  fi
done
