(* driver for the C12 primitives: reads case lines, prints the model's result *)
open U32_model

let rec pos_of_int (n : int) : positive =
  if n = 1 then XH
  else if n land 1 = 0 then XO (pos_of_int (n lsr 1))
  else XI (pos_of_int (n lsr 1))

let z_of_int (n : int) : z =
  if n = 0 then Z0 else if n > 0 then Zpos (pos_of_int n) else Zneg (pos_of_int (-n))

let () =
  Conv.iter_lines (fun line ->
      let t = Array.of_list (Conv.tokens line) in
      let p i = z_of_int (int_of_string t.(i)) in
      let k i = if t.(i) = "0" then CLt else CLeq in
      let r =
        match t.(0) with
        | "lt" -> mod_lt (p 1) (p 2)
        | "leq" -> mod_leq (p 1) (p 2)
        | "gt" -> mod_gt (p 1) (p 2)
        | "geq" -> mod_geq (p 1) (p 2)
        | "bnd" -> mod_bounded (p 1) (k 2) (p 3) (k 4) (p 5)
        | _ -> failwith "bad case"
      in
      print_endline (if r then "1" else "0"))
