(* driver for the ARP / DNS / DHCP codec models (kit codecapp).
   One case per line on stdin, one result line per case on stdout; the lines
   must be string-equal to those of harness/src/bin/c08_codecapp.rs.
   `codecapp orig` runs the DHCP decoder and query_name as they were before the
   repair (panics rendered as PANIC). *)
open Codecapp_model

let orig = Array.length Sys.argv > 1 && Sys.argv.(1) = "orig"

let rec pos_of_int (n : int) : positive =
  if n = 1 then XH
  else if n land 1 = 0 then XO (pos_of_int (n lsr 1))
  else XI (pos_of_int (n lsr 1))

let z_of_int (n : int) : z =
  if n = 0 then Z0 else if n > 0 then Zpos (pos_of_int n) else Zneg (pos_of_int (-n))

let rec int_of_pos = function
  | XH -> 1
  | XO p -> 2 * int_of_pos p
  | XI p -> 2 * int_of_pos p + 1

let int_of_z = function Z0 -> 0 | Zpos p -> int_of_pos p | Zneg p -> - (int_of_pos p)

(* a u64 given as hex digits, most significant first (may exceed OCaml's int) *)
let z_of_hex (s : string) : z =
  let acc = ref None in
  String.iter
    (fun ch ->
      let d = int_of_string ("0x" ^ String.make 1 ch) in
      for k = 3 downto 0 do
        let bit = (d lsr k) land 1 = 1 in
        acc :=
          (match !acc with
          | None -> if bit then Some XH else None
          | Some p -> Some (if bit then XI p else XO p))
      done)
    s;
  match !acc with None -> Z0 | Some p -> Zpos p

let zs_of_hex s = List.map z_of_int (Conv.hex_to_ints s)
let hex_of_zs l = Conv.ints_to_hex (List.map int_of_z l)
let zi = int_of_z

let arp_err e = match zi e with 1 -> "HeaderTooShort" | 2 -> "InvalidOperation" | n -> string_of_int n
let dns_err e = match zi e with 1 -> "HeaderTooShort" | 2 -> "InvalidName" | n -> string_of_int n
let dhcp_err e =
  match zi e with
  | 1 -> "HeaderTooShort" | 2 -> "InvalidDhcpType" | 3 -> "InvalidString" | n -> string_of_int n

let consumed bs rest = List.length bs - List.length rest

(* ---- ARP ---- *)
let arp_dec_line (bs : z list) : string =
  match arp_from_bytes bs with
  | Ok (h, rest) ->
      Printf.sprintf "OK c=%d %d %d %d %d %d %d %d %d %d re=%s" (consumed bs rest)
        (zi h.a_htype) (zi h.a_ptype) (zi h.a_hlen) (zi h.a_plen) (zi (oper_u16 h.a_oper))
        (zi h.a_smac) (zi h.a_sip) (zi h.a_tmac) (zi h.a_tip)
        (hex_of_zs (arp_build h))
  | Err e -> "ERR " ^ arp_err e
  | Panic _ -> "PANIC"
  | OutOfFuel -> "FUEL"

(* ---- DNS ---- *)
let dns_dec_line (bs : z list) : string =
  match dns_from_bytes bs with
  | Ok (m, rest) ->
      let qn =
        match (if orig then dns_query_name_orig else dns_query_name) m.m_question with
        | Ok _ -> "ok"
        | Err e -> dns_err e
        | Panic _ -> "PANIC"
        | OutOfFuel -> "FUEL"
      in
      let h = m.m_header and q = m.m_question and a = m.m_answer in
      Printf.sprintf "OK c=%d %d %d %d %d %d %d %s %s %d %d %s re=%s qn=%s" (consumed bs rest)
        (zi h.d_id) (zi h.d_properties) (zi h.d_qdcount) (zi h.d_ancount) (zi h.d_nscount)
        (zi h.d_arcount) (hex_of_zs q.q_qname) (hex_of_zs a.r_name) (zi a.r_rec_type)
        (zi a.r_ttl) (hex_of_zs a.r_rdata)
        (hex_of_zs (dns_to_message m)) qn
  | Err e -> "ERR " ^ dns_err e
  | Panic _ -> "PANIC"
  | OutOfFuel -> "FUEL"

(* ---- DHCP ---- *)
let mt_of_int = function
  | 1 -> Discover | 2 -> Offer | 3 -> MRequest | 4 -> Decline | 5 -> Ack | 6 -> Nack | 7 -> Release
  | _ -> raise Exit

let dhcp_dec_line (bs : z list) : string =
  match (if orig then dhcp_from_bytes_orig else dhcp_from_bytes) bs with
  | Ok (h, rest) ->
      Printf.sprintf "OK c=%d %d %d %d %d %d %d %d %d %d %d %d %d %d %s %s re=%s" (consumed bs rest)
        (zi h.h_op) (zi h.h_htype) (zi h.h_hlen) (zi h.h_hops) (zi h.h_xid) (zi h.h_secs)
        (zi h.h_flags) (zi h.h_cip) (zi h.h_yip) (zi h.h_sip) (zi h.h_rip) (zi h.h_chaddr)
        (zi (mt_u8 h.h_mt)) (hex_of_zs h.h_sname) (hex_of_zs h.h_bfile)
        (hex_of_zs (dhcp_to_message h))
  | Err e -> "ERR " ^ dhcp_err e
  | Panic _ -> "PANIC"
  | OutOfFuel -> "FUEL"

let () =
  Conv.iter_lines (fun line ->
      let t = Array.of_list (Conv.tokens line) in
      let p i = z_of_int (int_of_string t.(i)) in
      let out =
        try
        match t.(0) with
        | "utf8" -> if utf8_valid (zs_of_hex t.(1)) then "U 1" else "U 0"
        | "arp-dec" -> arp_dec_line (zs_of_hex t.(1))
        | "arp-enc" ->
            (* htype ptype hlen plen oper smac(hex16) sip tmac(hex16) tip *)
            let h =
              { a_htype = p 1; a_ptype = p 2; a_hlen = p 3; a_plen = p 4;
                a_oper = (if t.(5) = "1" then Request else Reply);
                a_smac = z_of_hex t.(6); a_sip = p 7; a_tmac = z_of_hex t.(8); a_tip = p 9 }
            in
            let enc = arp_build h in
            "ENC " ^ hex_of_zs enc ^ " DEC " ^ arp_dec_line enc
        | "dns-dec" -> dns_dec_line (zs_of_hex t.(1))
        | "dns-fields" ->
            (* id props qd an ns ar qname qtype qclass name rtype class ttl rdata *)
            let rdata = zs_of_hex t.(14) in
            let m =
              { m_header = { d_id = p 1; d_properties = p 2; d_qdcount = p 3; d_ancount = p 4;
                             d_nscount = p 5; d_arcount = p 6 };
                m_question = { q_qname = zs_of_hex t.(7); q_qtype = p 8; q_qclass = p 9 };
                m_answer = { r_name = zs_of_hex t.(10); r_rec_type = p 11; r_class = p 12;
                             r_ttl = p 13; r_rdlength = z_of_int (List.length rdata);
                             r_rdata = rdata } }
            in
            let enc = dns_to_message m in
            "ENC " ^ hex_of_zs enc ^ " DEC " ^ dns_dec_line enc
        | "dns-new" ->
            (* id props qd an ns ar qname name ttl ip : the public constructors
               DnsQuestion::new (l.202-208), DnsResourceRecord::new (l.246-259) *)
            let ip = int_of_string t.(10) in
            let m =
              { m_header = { d_id = p 1; d_properties = p 2; d_qdcount = p 3; d_ancount = p 4;
                             d_nscount = p 5; d_arcount = p 6 };
                m_question = { q_qname = zs_of_hex t.(7); q_qtype = z_of_int 1; q_qclass = z_of_int 1 };
                m_answer = { r_name = zs_of_hex t.(8); r_rec_type = z_of_int 1; r_class = z_of_int 1;
                             r_ttl = p 9; r_rdlength = z_of_int 4;
                             r_rdata = List.map z_of_int
                                 [ (ip lsr 24) land 255; (ip lsr 16) land 255; (ip lsr 8) land 255; ip land 255 ] } }
            in
            let enc = dns_to_message m in
            "ENC " ^ hex_of_zs enc ^ " DEC " ^ dns_dec_line enc
        | "dhcp-dec" -> dhcp_dec_line (zs_of_hex t.(1))
        | "dhcp-fields" ->
            (* op htype hlen hops xid secs flags cip yip sip rip chaddr mt sname bfile *)
            let h =
              { h_op = p 1; h_htype = p 2; h_hlen = p 3; h_hops = p 4; h_xid = p 5; h_secs = p 6;
                h_flags = p 7; h_cip = p 8; h_yip = p 9; h_sip = p 10; h_rip = p 11;
                h_chaddr = p 12; h_mt = mt_of_int (int_of_string t.(13));
                h_sname = zs_of_hex t.(14); h_bfile = zs_of_hex t.(15) }
            in
            let enc = dhcp_to_message h in
            "ENC " ^ hex_of_zs enc ^ " DEC " ^ dhcp_dec_line enc
        | "dhcp-default" ->
            (* op yip mt : DhcpMessage::default() (l.165-185) with the three pub fields set *)
            let z0 = z_of_int 0 and z50 = z_of_int 50 in
            let str s = List.init (String.length s) (fun i -> z_of_int (Char.code s.[i])) in
            let h =
              { h_op = p 1; h_htype = z50; h_hlen = z50; h_hops = z50; h_xid = z0; h_secs = z0;
                h_flags = z0; h_cip = z0; h_yip = p 2; h_sip = z0; h_rip = z0; h_chaddr = z0;
                h_mt = mt_of_int (int_of_string t.(3)); h_sname = str "Null"; h_bfile = str "BootFile" }
            in
            let enc = dhcp_to_message h in
            "ENC " ^ hex_of_zs enc ^ " DEC " ^ dhcp_dec_line enc
        | _ -> failwith ("bad case: " ^ line)
        with Exit -> "REJECT message type outside 1..=7"
      in
      print_endline out)
