# Kit translate: second, deterministic tie for C18 by TRANSLATION of the Checksum accumulator (utility.rs).
# The coordinator merges PART into checks/C18.py: props / theorems / trusted_base / assumptions appended and
# SPEC["pre"] = [regenerate_checksum_gen] (import the function from this file).
import os
import subprocess


def regenerate_checksum_gen(ctx):
    """Regenerate coq/Gen/ChecksumGen.v from the CURRENT utility.rs (written only when its content changes)."""
    tool = os.path.join(os.path.dirname(os.path.abspath(__file__)), "..", "tools", "translate_checksum.py")
    p = subprocess.run(["python3", tool], capture_output=True, text=True)
    if p.returncode != 0:
        return ["translator tools/translate_checksum.py no longer translates utility.rs (Checksum): "
                + (p.stdout + p.stderr).strip()[:400]]
    return []


THEOREMS = [
    "C18gen_on_is_model", "C18gen_add_u32_bytes", "C18gen_add_u16_checked", "C18gen_off_is_model",
    "C18gen_range_kept",
]

PART = {
    "props": ["Props/C18gen.v"],
    "theorems": THEOREMS,
    "pre": "regenerate_checksum_gen",
    "trusted_base": [
        "translator tools/rs2gallina.py + tools/translate_checksum.py (Rust subset -> Gallina, rerun on every check; "
        "coq/Gen/ChecksumGen.v is never edited by hand): trusted to parse the subset stated in the header of the "
        "generated file and to map each operator to its definition in coq/Model/RsSem.v (checked + -> ck_add with a "
        "panic site, overflowing_add -> ovf_add, `as u16` of a bool -> b2u, ! -> u_not, from_be_bytes -> from_be, "
        "value[k] -> arr_get, the while-let loop over the iterator -> a fuelled Fixpoint); anything else in the six "
        "functions makes the translator exit 2 and the check fail",
        "coq/Model/RsSem.v as the semantics of those operators in the dev profile (overflow of + on u16 panics)",
    ],
    "assumptions": [
        "an `impl Iterator<Item = u8>` argument is a finite, fused iterator, modelled by the list of the bytes it yields",
        "accumulator and 16-bit arguments in 0..65535, bytes in 0..255 (C18gen_range_kept: the accumulator range is "
        "an invariant from new() = 0); add_u32 is pinned on any four bytes and on the big-endian bytes of a u32",
        "both cargo configurations of utility.rs are translated (cfg(feature = \"compute_checksum\") and its negation); "
        "a third cfg variant of one of the functions would make the translator fail",
    ],
}
