SPEC = {
    "id": "C15",
    "level": "proof",
    "coq": {
        "props": "Props/C15.v",
        "extract": ["Extract/ExtIpGen.v"],
        "theorems": [
            "C15_block_spec", "C15_return_spec", "C15_fetch_spec", "C15_fetch_none_spec", "C15_fetch_ip_spec",
            "C15_fetch_net_incomplete_witness", "C15_no_panic", "C15_build_ok", "C15_no_double", "C15_set_sorted",
            "C15_no_ends", "C15_no_ends_orig_refuted",
            "C15_dhcp_distinct", "C15_dhcp_dup_release_refuted", "C15_dhcp_exhaustion_panics",
            "C15_dhcp_no_panic", "C15_dhcp_no_panic_range", "C15_dhcp_release_returns", "C15_dhcp_all_learn",
        ],
        "allow_axioms": [],
    },
    "stages": [
        {"name": "ipgen_lockstep", "bin": "c15_ipgen", "model": "ipgen", "n_quick": 6000, "n_thorough": 600000,
         "shards": 4, "shards_thorough": 16},
        # SLOT (coordinator): full-stack DHCP runs - 1..N DhcpClient machines started simultaneously on a paused
        # runtime against one DhcpServer, hook-driven duplication/reordering; observed Offer/Request/Ack events
        # and every DhcpClient::ip_address are to be validated against Model/DhcpProto.v
        # (step/run/init are already extracted into ocaml/gen/ipgen_model.ml).
        # {"name": "dhcp_fullstack", "bin": "c15_dhcp", "model": "ipgen", "kind": "validate", ...},
    ],
    "rule": "cases = operation histories (constructor + 1..40 of block_subnet / fetch_ip / fetch_net / return_subnet / "
            "return_ip / return of a block handed out earlier / is_available / block_reserved_ips) over pools that are "
            "subnets of every mask, ranges (also inverted), subnets minus ends, none + unions made by returns, all, "
            "blocked_out, with pools at 0.0.0.0 and 255.255.255.255 over-weighted; compared after every operation: "
            "return value and the stored range set in set order; distinct = distinct case line; non-trivial = the "
            "constructor did not panic",
    "trusted_base": [
        "Coq 8.16.1 kernel (coqc; vm_compute only for the three closed witnesses)",
        "hand transcription ip_generator.rs / subnetting.rs (from_bitcount, Ipv4Net::new/new_1/id/broadcast) -> "
        "Model/IpGen.v, checked by lock-step on sampled histories; a mask is modelled by its bit count "
        "(ip & mask = ip - ip mod 2^(32-m))",
        "hand transcription dhcp_server.rs / dhcp_client.rs demux -> Model/DhcpProto.v (protocol level: messages "
        "are (direction, client MAC, type, your_ip)); NOT tied to the code by runs yet (full-stack stage pending)",
        "the stored ranges of IpGenerator are read through its public Debug impl and cross-checked by draining "
        "into_ip_iter() at the end of every history",
        "extraction (ExtrOcamlBasic only) + OCaml driver ocaml/ipgen_drv.ml + Rust harness c15_ipgen",
    ],
    "assumptions": [
        "Model/IpGen.v new_sub_no_ends follows the REPAIRED code (.cache/c15/fix.patch: end = broadcast - 1); on the "
        "unpatched tree every `noends` case is an oracle failure and a model disagreement (C15_no_ends_orig_refuted)",
        "addresses are u32 (gen_u32 / op_wf); mask lengths above 32 are clamped as from_bitcount does",
        "DHCP: distinctness is proved for traces without Release (any duplication) and for traces without duplication "
        "(any release); both together are refuted (C15_dhcp_dup_release_refuted); the real client never sends Release",
        "DHCP: Notify-based waiting in DhcpClient::ip_address (lost-wakeup window) is runtime behaviour outside the model",
    ],
}
