SPEC = {
    "id": "C15",
    "level": "proof",
    "coq": {
        "props": "Props/C15.v",
        "extract": ["Extract/ExtIpGen.v"],
        "theorems": [
            "C15_block_spec", "C15_return_spec", "C15_fetch_spec", "C15_fetch_none_spec", "C15_fetch_ip_spec",
            "C15_fetch_net_incomplete_witness", "C15_no_panic", "C15_build_ok", "C15_no_double", "C15_set_sorted",
            "C15_no_ends", "C15_no_ends_orig_refuted",
            "C15_dhcp_distinct", "C15_dhcp_dup_release_refuted", "C15_dhcp_exhaustion_panics",
            "C15_dhcp_no_panic", "C15_dhcp_no_panic_range", "C15_dhcp_release_returns", "C15_dhcp_all_learn",
        ],
        "allow_axioms": [],
    },
    "stages": [
        {"name": "ipgen_lockstep", "bin": "c15_ipgen", "model": "ipgen", "n_quick": 6000, "n_thorough": 600000,
         "shards": 4, "shards_thorough": 16},
        # the real DhcpServer / DhcpClient / Udp / Ipv4 / Arp / Pci in a child process per scenario (wired as
        # dhcp_basic.rs); the recorded DHCP frames (hand-over to the network with its fate, hand-over to the tap),
        # the clients' final ip_address fields and the server's final generator are replayed through the extracted
        # Model/DhcpProto.v `step` (ocaml/ipgen_drv.ml, mode `dhcp`): the observation must be a run of the model
        {"name": "dhcp_validate", "bin": "c15_dhcp", "model": "ipgen", "kind": "validate", "model_args": "dhcp",
         "n_quick": 160, "n_thorough": 8000, "shards": 8, "shards_thorough": 16,
         "trivial_re": r"(^(ERR|PANIC|REJECT))|( ; E (CRASH|HANG))", "timeout_quick": 600},
    ],
    "rule": "stage ipgen_lockstep: cases = operation histories (constructor + 1..40 of block_subnet / fetch_ip / "
            "fetch_net / return_subnet / return_ip / return of a block handed out earlier / is_available / "
            "block_reserved_ips) over pools that are subnets of every mask, ranges (also inverted), subnets minus ends, "
            "none + unions made by returns, all, blocked_out, with pools at 0.0.0.0 and 255.255.255.255 over-weighted; "
            "compared after every operation: return value and the stored range set in set order; non-trivial = the "
            "constructor did not panic. "
            "stage dhcp_validate: case = 1..6 DhcpClient machines + one DhcpServer on one Network::basic(), pool = "
            "IpRange of 1..8 addresses | the range of a /29../32 subnet | IpGenerator::new_sub_no_ends of a /28../30 "
            "(pools also at 0.0.0.16 and at 255.255.255.240..255), all clients started simultaneously, every client's "
            "ip_address() awaited by a harness application (started 0..300 ms after the barrier, deadline 30 s virtual "
            "/ 2 s real = HANG), per-frame plan from the case line: IPv4 frames duplicated (at most 0..2 per run), "
            "dropped (0/4/8 %) or delayed (none | 40 % up to 20 ms | 80 % up to 150 ms | all up to 80 us = "
            "reordering), ARP frames only delayed; 7 of 8 on the paused current-thread runtime, 1 of 8 on Multi(1|2|4) "
            "(no duplication there); pool >= clients + duplications except in the hostile stream (1 of 14: pool "
            "smaller than the number of clients), where the server's fetch_ip().unwrap() (dhcp_server.rs:60) kills the "
            "process: that crash is only counted (stat crash_hostile_exhaustion), not judged - the DHCP clause "
            "quantifies over pools that can serve the clients and 'reports exhaustion' is a clause about the generator; "
            "the validator still requires that the model panics at exactly those runs (C15_dhcp_exhaustion_panics / "
            "C15_dhcp_no_panic). Oracle on the trace alone: addresses offered/acknowledged to distinct clients are "
            "disjoint and inside the pool, final fields pairwise distinct, ip_address() returned an address that an "
            "Ack had carried to that client, the final field is the last Ack received, a client none of whose frames "
            "was lost learns an address. distinct = distinct case line; non-trivial = the run ended DONE",
    "trusted_base": [
        "Coq 8.16.1 kernel (coqc; vm_compute only for the three closed witnesses)",
        "hand transcription ip_generator.rs / subnetting.rs (from_bitcount, Ipv4Net::new/new_1/id/broadcast) -> "
        "Model/IpGen.v, checked by lock-step on sampled histories; a mask is modelled by its bit count "
        "(ip & mask = ip - ip mod 2^(32-m))",
        "hand transcription dhcp_server.rs / dhcp_client.rs demux -> Model/DhcpProto.v (protocol level: messages "
        "are (direction, client MAC, type, your_ip)); tied to the code by trace validation on sampled scenarios "
        "(stage dhcp_validate): every DHCP frame handed to the network must be a message the model created, every "
        "frame handed to a tap must be in flight in the model, the final ip_address fields and the final generator "
        "must equal the model's, and the reconstructed label sequence must replay from `init` (the hypothesis of "
        "C15_dhcp_distinct); the OCaml driver (not Coq) reconstructs the labels, searching over the unobservable "
        "processing order of concurrently delivered Discovers",
        "frames are decoded in the harness (IPv4/UDP by hand, the payload with the real DhcpMessage::from_bytes); a "
        "client is identified by the MAC of its machine (Pci::mac_addresses)",
        "the stored ranges of IpGenerator are read through its public Debug impl and cross-checked by draining "
        "into_ip_iter() at the end of every history",
        "extraction (ExtrOcamlBasic only) + OCaml driver ocaml/ipgen_drv.ml + Rust harness c15_ipgen",
    ],
    "assumptions": [
        "Model/IpGen.v new_sub_no_ends follows the REPAIRED code (.cache/c15/fix.patch: end = broadcast - 1); on the "
        "unpatched tree every `noends` case is an oracle failure and a model disagreement (C15_no_ends_orig_refuted)",
        "addresses are u32 (gen_u32 / op_wf); mask lengths above 32 are clamped as from_bitcount does",
        "DHCP: distinctness is proved for traces without Release (any duplication) and for traces without duplication "
        "(any release); both together are refuted (C15_dhcp_dup_release_refuted); the real client never sends Release",
        "partial for the DHCP clause: proof of the protocol logic + trace validation. UDP/IPv4/ARP/Pci underneath are "
        "not modelled (a reply reaches exactly the machine whose MAC sent the request: C04/C06); ARP frames are never "
        "dropped by the plan (a failed resolution makes DhcpClient::start's unwrap kill the process - outside C15)",
        "DHCP: tokio scheduling and the Notify-based waiting in DhcpClient::ip_address (check the field, then "
        "notified().await: a lost-wake-up window on multi-thread runtimes) are runtime behaviour the model cannot "
        "exhibit; the oracle reports a client that received an Ack but whose ip_address() never returned",
    ],
}
