SPEC = {
    "id": "C09",
    "level": "proof",
    "coq": {
        "props": "Props/C09.v",
        "extract": ["Extract/ExtIpTable.v"],
        "theorems": [
            "C09_mask_valid_iff", "C09_mask_valid_bits", "C09_address_order", "C09_constructors_are_blocks", "C09_broadcast_block", "C09_contains_iff_range", "C09_overlaps_iff_ranges_meet", "C09_range_to_net_iff", "C09_range_cases", "C09_range_of_net_roundtrip", "C09_cidr_denotes", "C09_from_cidr_sound", "C09_cidr_leniencies_observed", "C09_ops_denote_map", "C09_history_order_irrelevant", "C09_remove_cidr_malformed_panics", "C09_lpm", "C09_winner_unique", "C09_lpm_history",
        ],
        "allow_axioms": [],
    },
    "stages": [
        {"name": "iptable_lockstep", "bin": "c09_iptable", "model": "iptable",
         "n_quick": 10000, "n_thorough": 1000000, "shards": 4, "shards_thorough": 16},
    ],
    "rule": "cases = one call group per line: table histories (3-28 random add/remove/add_direct/remove_direct/"
            "add_cidr/remove_cidr/default_gateway steps over a pool of nested, sibling, adjacent, duplicate "
            "(same network written with other host bits) and unrelated networks of every length 0..32, lookups "
            "interleaved and, at the end, at id-1, id, broadcast, broadcast+1 of every network ever added plus "
            "uniform addresses); single networks with one probe address (lengths 0..32 and clamped >32); pairs "
            "for overlaps (same / nested / adjacent / apart); ranges (aligned blocks, shifted, size+-1, full, "
            "inverted, single, random); CIDR text (about half valid, the rest: missing parts, >32, overflow, "
            "sign, non-digits, extra parts, bad octets, non-ASCII, empty); mask values; from_bitcount arguments; "
            "address byte order.  distinct = distinct case line; trivial = result line starts with ERR / PANIC "
            "(rejected range or text, remove_cidr on malformed text).  Oracle: block arithmetic on u64 by "
            "division, a BTreeMap<(len,id),value> mirror of the history, brute-force longest-prefix match over "
            "both iter() and the mirror, strict CIDR reader.",
    "trusted_base": [
        "Coq 8.16.1 kernel (coqc; vm_compute used only for finite sweeps over the 33 mask lengths and the 256 "
        "octet values, lifted with forallb_forall)",
        "hand transcription subnetting.rs / ip_table.rs / ipv4_address.rs -> Model/Subnet.v, Model/IpTable.v, "
        "checked by lock-step on sampled inputs",
        "MODELLED, not verified against their source: std's Ipv4Addr::from_str and u32::from_str (a plain "
        "dotted-quad / decimal reader in Model/Subnet.v: parse_ipv4, parse_u32), str::split('/'), "
        "u32::count_ones (popcount), and BTreeMap<Obm,T> insert/remove/iter (sorted association list under "
        "Obm::cmp, which is proved to be a lawful order); validated only by the lock-step",
        "an Ipv4Address is modelled by its u32 (C09_address_order / C09_address_roundtrip justify this for "
        "the model of to_be_bytes / derived Ord)",
        "extraction (ExtrOcamlBasic only) + OCaml driver ocaml/iptable_drv.ml + Rust harness c09_iptable",
    ],
    "assumptions": [
        "u32 values are N below 2^32; a &str is the list of its UTF-8 bytes",
        "table theorems quantify over Ipv4Net values that the public constructors can build (wf_net): the "
        "struct fields are private, and every constructor is proved to return such a value",
        "remove_cidr on malformed text panics by documented contract; histories in the theorems give it "
        "well-formed text (the panic itself is C09_remove_cidr_malformed_panics and is exercised in lock-step)",
        "cidr_to_ip is lenient beyond CIDR notation (length > 32 clamped to 32, '+' sign, leading zeros, "
        "anything after a second '/' ignored): outside the property, recorded as "
        "C09_cidr_leniencies_observed and counted in the input distribution (ci_lenient_*)",
    ],
}

import vlib  # noqa: E402
vlib.merge_part(SPEC, "C09gen_part")
