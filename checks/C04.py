SPEC = {
    "id": "C04",
    # proof of the decision logic (binding tables, lookup, listen, send-size tests, receive pipeline) for all
    # inputs of the model + validation of the running stack's traces; partial w.r.t. runtime scheduling
    "level": "proof",
    "coq": {
        "props": "Props/C04.v",
        "extract": ["Extract/ExtDemux.v"],
        "theorems": [
            "C04_lookup_exact_wins", "C04_lookup_sound", "C04_lookup_binding_key", "C04_lookup_ignores_other",
            "C04_lookup_none", "C04_rebind_refused", "C04_bind_vacant", "C04_reachable_wf",
            "C04_end_to_end", "C04_end_to_end_wire", "C04_send_limit", "C04_unbound_dropped",
            "C04_order_insensitive", "C04_validate_sound", "C04_validate_link_dst", "C04_example_validate", "C04_remark_as_coded",
        ],
        "allow_axioms": [],
    },
    "stages": [
        # every case = one full-stack scenario in a child process; the recorded trace (bind results, send results,
        # IPv4 frames on the link, recorder events) is judged by the Rust property oracle and, independently, by the
        # extracted validator (C04_validate_sound)
        {"name": "stack_validate", "bin": "c04_udp", "model": "demux", "kind": "validate",
         "n_quick": 480, "n_thorough": 40000, "shards": 8, "shards_thorough": 16,
         "trivial_re": r"^(ERR|PANIC|REJECT|CRASH)"},
    ],
    "rule": "case = one scenario: 2..5 machines on one network (MTU 68/100/576/1500/65535, link latency 0/0.5/2 ms), "
            "ARP on none / all / some machines (a quarter of the ARP machines with subnet info and a gateway), 1..4 "
            "recording applications per machine, 0..7 bind operations per machine through Udp::listen (and "
            "Udp::open_and_listen; in 6% of the cases also Ipv4::listen for protocol 17 by a non-UDP upstream) on own, "
            "shared, foreign, unbound, loopback, wildcard 0.0.0.0 and limited-broadcast 255.255.255.255 addresses with "
            "ports {5000,5001,5002,0,65535}, one third of the machines with a deliberate second bind of a bound "
            "endpoint; 1..8 send operations (every fifth case: additionally every ordered sender/receiver pair) to "
            "bound endpoints, the same address with another port, an unbound address with a bound port, the wildcard "
            "and broadcast addresses and loopback, through IP-table routes without MAC (all taps, or ARP), with the MAC "
            "of an arbitrary machine (the frame reaches a machine that may hold other bindings of the port) or of no "
            "machine; payload 0, 1, small, typical, MTU limit-1, MTU limit, limit+1, beyond, > 65507; start delays "
            "0..3 ms; in 35% the recorders answer through the session they were handed; 88% on the paused "
            "current-thread runtime (deterministic), 12% on the multi-thread runtime (2/4 workers, order-insensitive "
            "comparison, repeated up to twice before a failure is reported). distinct = distinct case line; "
            "non-trivial = the child neither crashed nor hung",
    "trusted_base": [
        "Coq 8.16.1 kernel (coqc; vm_compute only in the closed example/remark computations)",
        "hand transcription of udp.rs, udp_session.rs, ipv4.rs, ipv4_session.rs, pci_session.rs (MTU test), "
        "arp.rs (Arp::listen key set), network.rs (who gets a frame) -> Model/Demux.v, checked by trace validation "
        "on sampled scenarios",
        "datagrams are records in the model; header encode/decode enter only as a decode-after-encode assumption "
        "(C04_end_to_end_wire); the byte-level round trips are the codec properties C08/C18",
        "extraction (ExtrOcamlBasic only) + OCaml driver ocaml/demux_drv.ml (recomputes payload digests from "
        "(seed, length)) + Rust harness c04_udp (own link observer, own byte-level reading of the frames, recorder "
        "applications reading Control{Ipv4Header, UdpHeader} and answering through the caller session)",
        "harness/src/stack.rs child-process scaffolding; the elvis-core `verif` link observer",
    ],
    "assumptions": [
        "the runtime is not modelled: tokio scheduling, Notify/watch wake-ups, real time, ARP resolution "
        "(ip_open answers ONeedsArp and the validator accepts success or ARP failure there); arrival order is "
        "irrelevant in the model because the receive pipeline is a pure function of static bindings "
        "(C04_order_insensitive) - on the real code this is sampled (start delays, link latency, two runtimes), not proved",
        "bindings are installed before the start barrier and are static while datagrams are in flight",
        "the machines a frame reaches are taken from the trace (link destination of the frame; network.rs routing "
        "is property C05); machine i owns MAC i (checked in the child)",
        "IpTable lookup modelled for /32 entries only (general table: C09); every machine has Udp, Ipv4 and Pci; "
        "bindings name applications that exist on the machine (otherwise UdpSession::receive panics: PanicNoProto, "
        "excluded by `udp_op`, not exercised by the generator because it kills the child)",
        "scenarios with a raw IPv4 binding of protocol 17 are outside the property's universe: the Rust oracle only "
        "checks that no UDP application gets a datagram its bindings do not name; the validator predicts them exactly",
        "absence of wrong deliveries is judged on the complete event list after quiescence (all announced frames "
        "seen by the link observer, every frame handed to all its taps, no activity for two polls)",
    ],
}
