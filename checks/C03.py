import importlib.util
import os

_D = os.path.dirname(os.path.abspath(__file__))
_s = importlib.util.spec_from_file_location("C03c_part", os.path.join(_D, "C03c_part.py"))
_m = importlib.util.module_from_spec(_s)
_s.loader.exec_module(_m)
_c = _m.PART

SPEC = {
    "id": "C03",
    "level": "proof",
    "coq": {
        "props": ["Props/C03a.v", "Props/C03b.v"] + _c["props"],
        "extract": ["Extract/ExtTcb.v"] + _c["extract"],
        "theorems": "auto",
        "allow_axioms": [],
    },
    "stages": [
        # same closed-system schedules as C01 with other seeds: active/passive and simultaneous opens, closes by either
        # or both sides at every reachable state with data queued or in flight, drops / duplicates / reordering of
        # SYN, SYN-ACK, ACK, FIN; oracle: every observed state pair is an RFC 9293 edge, synchronisation of sequence
        # numbers, data before FIN, release of both endpoints after the loss-free tail, no reset in a closed system
        {"name": "tcb_open_close", "bin": "tcb_lockstep", "model": "tcb", "extra_args": "--conformant",
         "n_quick": 560, "n_thorough": 40000, "shards": 8, "shards_thorough": 16, "seed_salt": 3},
    ] + _c["stages"],
    "rule": "see C01; oracle additionally checks rfc_edge for every (state before, state after) pair, RCV.IRS = peer ISS "
            "and ISS+1 <= RCV.NXT <= peer SND.NXT when both sides are synchronised, and the final states after closes",
    "trusted_base": _c["trusted_base"] + [
        "Coq 8.16.1 kernel",
        "hand transcription tcb.rs -> Model/Tcb.v, checked by lock-step; TcpNet composition mirrors the harness",
        "the session table / listen bindings of tcp.rs are modelled in Model/TcpDemux.v (Props/C03c.v) and tied by "
        "full-stack trace validation; the TCB inside a session is opaque there",
    ],
    "assumptions": _c["assumptions"] + [
        "old duplicate SYNs from an earlier incarnation are covered by the per-step edge theorems (arbitrary segments) "
        "but not by the closed-system theorems (C03_sync, C03_data_before_fin)",
        "release after closes is checked by the harness on loss-free tails (not a theorem); runs in which a 2*MSL wait "
        "expired while the network was still lossy are excluded from the release check",
    ],
}

import vlib  # noqa: E402
vlib.merge_part(SPEC, "C03gen_part")
