# NDL part of C14, to be merged by the coordinator into checks/C14.py:
#   props -> append to coq.props, extract -> coq.extract, theorems -> coq.theorems, stages -> stages, ...
PART = {
    "props": ["Props/C14ndl.v"],
    "extract": ["Extract/ExtNdl.v"],
    "theorems": [
        "C14_ndl_total", "C14_ndl_never_panics",
        "C14_ndl_orig_refuted_iptype", "C14_ndl_orig_refuted_kelvin", "C14_ndl_fixed_on_witnesses",
    ],
    "stages": [
        # same family as C19 part 1 with another seed salt: the oracle fails on any PANIC of core_parser
        {"name": "ndl_no_panic", "bin": "c19_ndl", "model": "ndl", "n_quick": 12000, "n_thorough": 1200000,
         "shards": 4, "shards_thorough": 16, "seed_salt": 1414, "extra_args": "--panic-only"},
    ],
    "rule": "ndl_no_panic: texts given to core_parser (repository NDL files, rendered generated trees in tab / 4-space / "
            "CRLF renderings, trees with one structural error, 1..3-fold mutants of the repository files: token "
            "insertion/deletion, truncation, indentation changes, non-ASCII characters incl. U+212A); the oracle fails "
            "on a panic; the result line is compared with the model",
    "trusted_base": [
        "hand transcription of the NDL parser and of the nom 7.1.3 combinators it uses -> Model/Ndl.v (see C19)",
        "ocaml/ndl_drv.ml, harness c19_ndl",
    ],
    "assumptions": [
        "texts are valid UTF-8 (fs::read_to_string(..).expect(..) panics on other files and on a missing file; outside the model)",
        "C14_ndl_total is about the repaired get_type (.cache/ndl/fix.patch); the unchanged tree is refuted by "
        "C14_ndl_orig_refuted_iptype / _kelvin",
    ],
}
