"""C08: header codecs round-trip and match the RFC formats.  Merged from the two codec kits."""
import importlib.util
import os

_D = os.path.dirname(os.path.abspath(__file__))


def _part(name):
    s = importlib.util.spec_from_file_location(name, os.path.join(_D, name + ".py"))
    m = importlib.util.module_from_spec(s)
    s.loader.exec_module(m)
    return m.PART


_ip = _part("C08ip_part")
_app = _part("C08app_part")

SPEC = {
    "id": "C08",
    "level": "proof",
    "coq": {
        "props": _ip["props_C08"] + _app["props_C08"],
        "extract": _ip["extract"] + _app["extract"],
        "theorems": "auto",
        "allow_axioms": [],
    },
    "stages": _ip["stages"] + _app["stages"],
    "rule": _ip["rule"] + " || " + _app["rule"],
    "trusted_base": _ip["trusted_base"] + _app["trusted_base"],
    "assumptions": _ip["assumptions"] + _app["assumptions"],
}

import vlib  # noqa: E402
vlib.merge_part(SPEC, "C08gen_part")
