# Kit translate: second, deterministic tie by TRANSLATION for the TCP flag byte `Control(u8)` of tcp_parsing.rs
# (used by the codec models of C08 / C14 / C18 through the ctl functions of Model/TcpHdr.v).
# The coordinator merges PART into checks/C08.py (or C18.py): props / theorems / trusted_base / assumptions appended and
# SPEC["pre"] gets regenerate_control_gen (import the function from this file).
import os
import subprocess


def regenerate_control_gen(ctx):
    """Regenerate coq/Gen/ControlGen.v from the CURRENT tcp_parsing.rs (written only when its content changes)."""
    tool = os.path.join(os.path.dirname(os.path.abspath(__file__)), "..", "tools", "translate_control.py")
    p = subprocess.run(["python3", tool], capture_output=True, text=True)
    if p.returncode != 0:
        return ["translator tools/translate_control.py no longer translates tcp_parsing.rs (Control): "
                + (p.stdout + p.stderr).strip()[:400]]
    return []


THEOREMS = ["C08gen_control_is_model", "C08gen_bit_panics_from_8", "C08gen_control_range_and_roundtrip"]

PART = {
    "props": ["Props/C08gen.v"],
    "theorems": THEOREMS,
    "pre": "regenerate_control_gen",
    "trusted_base": [
        "translator tools/rs2gallina.py + tools/translate_control.py (rerun on every check; coq/Gen/ControlGen.v is never "
        "edited by hand): trusted to parse the subset stated in the header of the generated file and to map `bool as u8` "
        "-> b2u, << by a literal -> shl_k 8, << / >> by a u8 variable -> ck_shl / ck_shr with a panic site, | & ! -> "
        "Z.lor / Z.land / u_not 8, == -> =?",
        "coq/Model/RsSem.v as the semantics of those operators; vm_compute for the finite sweeps 256 bytes x 8 bit "
        "indices x 2 bools and 2^6 flag combinations (lifted with forallb_forall)",
    ],
    "assumptions": [
        "a flag byte is a Z in 0..255, a bit index a Z in 0..7 (C08gen_bit_panics_from_8 covers 8..255 for `bit`)",
        "NOT translated: impl Debug for Control, TcpHeader::from_bytes / serialize and TcpHeaderBuilder (iterator "
        "adaptors with `?`, Vec, closures are outside the subset) - they stay with the hand model and the lock-step",
    ],
}
