SPEC = {
    "id": "C11",
    "level": "proof",
    "coq": {
        "props": "Props/C11.v",
        "extract": ["Extract/ExtReasm.v"],
        "theorems": [
            "C11_returns_original_orig_refuted", "C11_expiry_orig_refuted",
            "C11_invariant_init", "C11_receive_step", "C11_complete_iff", "C11_returns_original",
            "C11_cull_step", "C11_trace_returns_original", "C11_hypotheses_satisfiable",
            "C11_isolation_receive_frame", "C11_isolation_cull_frame", "C11_isolation_local",
            "C11_expiry", "C11_unwrap_never_panics",
            "C11_binary_heap_push", "C11_binary_heap_drain",
            "C11_bitvec_set_range_is_loop", "C11_bitvec_complete_is_loop",
        ],
        "allow_axioms": [],
    },
    "stages": [
        {"name": "reasm_lockstep", "bin": "c11_reasm", "model": "reasm", "n_quick": 2000, "n_thorough": 60000,
         "shards": 4, "shards_thorough": 16},
    ],
    "rule": "a case is a whole history on one Reassembly: 1..4 datagrams (distinct keys, the same datagram again, "
            "a reused key one after the other, or colliding keys interleaved), each fragmented by the real "
            "fragmentation::fragment through a chain of 1..3 MTUs >= 68 with later hops applied to a random subset of "
            "pieces, optionally joined by pieces of the same datagram from a second chain (overlapping), 0..2 pieces "
            "lost, 0..3 duplicated, order kept/reversed/shuffled, datagrams interleaved, 0..4 expiry callbacks that "
            "reuse the epoch handed out by an earlier event (right away or later, also stale ones and +-1/absolute "
            "values); a quarter of the cases are key-reuse scenarios (2..3 keys whose buffers see different numbers of arrivals and are freed - by completion, by an unfragmented datagram, by their own callback - heaviest first, last or at random, once or twice; then a new datagram arrives under one or two of the keys and after each of its fragments every callback armed so far, for every key, is fired); every fifth case is hostile (fields outside what fragmentation produces: every panic site, "
            "same-offset pieces with different content, lengths disagreeing with the header). Compared per event: "
            "the ReceivePacketResult (all header fields and payload octets; timer and epoch) and after each "
            "callback the number of buffers and the presence of its key. Oracle: an independent byte-map "
            "reference per key. distinct = distinct case line; non-trivial = first event does not panic",
    "trusted_base": [
        "Coq 8.16.1 kernel (coqc; vm_compute only for the concrete witnesses)",
        "hand transcription reassembly.rs, reassembly/{segment,fragment,bitvec,buf_id}.rs and the push/pop of "
        "std::collections::BinaryHeap -> Model/Reasm.v, checked by lock-step on sampled histories (ties included)",
        "extraction (ExtrOcamlBasic only) + OCaml driver ocaml/reasm_drv.ml + Rust harness c11_reasm",
        "buffer presence is read off the Debug rendering of Reassembly (its map is private)",
    ],
    "assumptions": [
        "payload octets are an abstract type; header fields are modelled as Z holding the u8/u16/u32 value",
        "BitVec is modelled as one bool per bit (its Vec<u8> is observed through get() only)",
        "the moving Hole of BinaryHeap is modelled by swapping the travelling element along",
        "fewer than 2^64-1 fragments are buffered by one Reassembly (u64 epochs, Panic site 9 otherwise; hypothesis EB n r, n < 2^64-1)",
        "Piece fixes TTL and checksum field of every fragment to those of the original header, as the simulator's "
        "fragmentation does",
    ],
}
