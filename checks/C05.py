SPEC = {
    "id": "C05",
    "level": "proof",
    "coq": {
        "props": "Props/C05.v",
        "extract": ["Extract/ExtLink.v"],
        "theorems": [
            "C05_unicast_only_owner", "C05_unicast_at_most_one", "C05_unknown_address_nobody",
            "C05_broadcast_all_others", "C05_remark_broadcast_reaches_sender",
            "C05_payload_sender_unchanged", "C05_exactly_once",
            "C05_mtu_refused", "C05_mtu_accepted",
            "C05_attach_step", "C05_new_network_inv", "C05_macs_distinct", "C05_attach_total",
            "C05_latency_lb", "C05_serialised", "C05_throughput_window", "C05_throughput_bound",
            "C05_throughput_bound_orig_refuted", "C05_throughput_bound_orig_refuted_minimal",
            "C05_throughput_bound_orig_refuted_999",
            "C05_variable_settings", "C05_example_hypotheses",
            "C05_validate_sound", "C05_trace_recipients", "C05_trace_throughput_total",
        ],
        "allow_axioms": [],
    },
    "stages": [
        # every scenario runs the REAL Network/Pci in a child process; the recorded trace (tap addresses, send_pci
        # results, frames on the wire, hand-overs, demux calls with DemuxInfo, virtual time stamps) is checked
        # (a) by the Rust oracle = the property's own predicate, and (b) by the extracted Coq validator = the model
        # (allocator, MTU test, routing function, latency, throughput windows, and exact delivery instants for
        # constant settings under paused time).  The main model follows the REPAIRED transmission time
        # (.cache/c05/fix.patch): on the code as it stands both (a) and (b) report the throughput violation.
        {"name": "link_trace", "bin": "c05_link", "model": "link", "kind": "validate", "model_args": "validate",
         "n_quick": 400, "n_thorough": 24000, "shards": 8, "shards_thorough": 16,
         "trivial_re": r"^(CRASH)"},
    ],
    "rule": "case = one scenario: 1..3 networks (MTU unset/0..3/4..40/41..600/1500/255..257/65534/65535; latency zero / "
            "constant whole ms / constant sub-ms (1 ns, 999999, 1000001, 1.5 ms ..) / variable; throughput unlimited / "
            "constant (1..50 B/s, 999/1000/1001/1500/2000, k*MTU so that an MTU frame takes whole ms, MTU*1000+-1, "
            "12.5 MB/s .. 2^61) / variable), 1..4 machines with 1..3 slots each (<= 6 taps per network, machines on "
            "several networks and twice on one network), 1..9 sends (one case in six: a burst of 8..20 short frames "
            "mostly from one tap at the same instant) from random (machine, slot) at 0 / a few ms / seconds offsets, "
            "destination = a tap of that network (incl. the sender's own) 35%, an address just beyond the allocator "
            "or far away (BROADCAST-1, BROADCAST+1, 2^40, 2^61) 15%, Some(BROADCAST) 25%, None 25%; length mtu-1 / mtu "
            "/ mtu+1 70%, 0..mtu 20%, 2*mtu+3 10%. Seven cases in eight run on a paused current-thread runtime "
            "(exact virtual time stamps, exact comparison with the timing function for constant settings), one in "
            "eight on a multi-thread runtime with 2..4 workers and real time (bounds and order-insensitive counts only). "
            "corpus/C05/link_trace.txt replays the Coq refutation witnesses (one 1-byte frame at 1001 B/s; 40 of them; "
            "1500-byte frames at 12.5 MB/s) and the repo's own 34 B/s test. distinct = distinct case line; "
            "non-trivial = the child ran to completion",
    "trusted_base": [
        "Coq 8.16.1 kernel (coqc; vm_compute only in the closed witness computations of the refutation and the example)",
        "hand transcription network.rs / pci.rs / pci_session.rs -> Model/Link.v, checked by validating recorded "
        "traces of the real simulation against it (tap addresses, send_pci results, recipients, link info, delivery "
        "instants)",
        "extraction (ExtrOcamlBasic only) + OCaml driver ocaml/link_drv.ml + Rust harness c05_link; the link "
        "observer (elvis_core::network::verif, feature `verif`) and harness/src/stack.rs Recorder that log frames",
        "frames are identified by key = len*1000003 + hash(payload); the harness makes keys pairwise distinct per "
        "scenario (the validator checks that they are)",
        "tokio's paused clock and timer wheel (1 ms tick) give the virtual time stamps; tokio::sync::Notify hands the "
        "permit on in FIFO order (assumed by the exact comparison, not by any theorem)",
    ],
    "assumptions": [
        "level: proof of the decision logic (allocator, MTU test, routing, DemuxInfo, timing function for every "
        "permit order, tick, scheduler delay and drawn rate/latency) + trace validation of the running simulation "
        "(partial: tokio scheduling, real time and Notify wake-ups are not modelled; concurrent interleavings are "
        "covered in the model by the arbitrary permit order and the per-frame delay j_wait >= 0, on the "
        "implementation by the sampled multi-thread runs)",
        "the timing model follows the repaired code (ceil(len*10^9/rate) ns per frame); the code as it stands "
        "(floor(len*1000/rate) ms, network.rs:107) is tx_time_orig, for which the throughput clause is refuted",
        "loss_rate = 0 everywhere (the property's loss-free network); the loss branch is not modelled",
        "the target protocol of a frame is registered on every receiving machine (otherwise PciSession::receive "
        "drops the frame with an error log; not modelled)",
        "variable settings: only the bounds (latency >= base, rate <= base+randomness-1) are claimed; "
        "Throughput::variable with base 0 can draw the rate 0 = unlimited and is outside the throughput theorem "
        "(hypothesis 0 < j_thr); base+randomness > u64::MAX panics (Panic 2 in the model, not generated)",
        "a broadcast also reaches the sender's own tap (as coded); the property says 'every other tap', so the "
        "oracle neither requires nor forbids it",
        "fewer than 2^64-1 taps per network (Panic 1 otherwise) and fewer than 2^48-1, so that no tap is given the "
        "broadcast address (unicast theorems carry d <> BROADCAST_MAC)",
    ],
}
