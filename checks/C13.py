import os
import subprocess
import sys

ROOT = os.path.dirname(os.path.dirname(os.path.abspath(__file__)))


def action_table_matches_sources(ctx):
    """Structural correspondence of Model/Startup.v `builtin_table` with the Rust sources: re-extract, from every
    `impl Protocol ... async fn start` body under elvis-core/src/protocols and elvis/src/applications, the ordered
    list of barrier-relevant calls (tools/c13_action_table.py) and compare it with the table printed by the
    EXTRACTED model (ocaml/bin/startup table).  A changed start body, a new awaited call the script cannot
    classify, a barrier wait that is no longer a top-level statement, a new or removed impl Protocol: all are
    reported here."""
    sys.path.insert(0, os.path.join(ROOT, "lib"))
    import vlib
    if not vlib.ocaml_build(ctx, "startup"):
        return ["C13 structural: the model driver could not be built"]
    work = os.path.join(ROOT, ".cache", "c13")
    os.makedirs(work, exist_ok=True)
    tab = os.path.join(work, "model_table.txt")
    p = subprocess.run([os.path.join(ROOT, "ocaml", "bin", "startup"), "table"], stdout=subprocess.PIPE, text=True)
    if p.returncode != 0 or not p.stdout.strip():
        return ["C13 structural: `startup table` failed"]
    open(tab, "w").write(p.stdout)
    q = subprocess.run([sys.executable, os.path.join(ROOT, "tools", "c13_action_table.py"), "--check", tab],
                       stdout=subprocess.PIPE, stderr=subprocess.PIPE, text=True)
    probs = [l[len("PROBLEM "):] for l in q.stderr.split("\n") if l.startswith("PROBLEM ")]
    if q.returncode != 0 and not probs:
        probs = ["c13_action_table.py failed: " + q.stderr[-500:]]
    ctx.cov["structural_rows_compared"] = len([l for l in p.stdout.split("\n") if l.strip()])
    return ["C13 structural: " + x for x in probs]


SPEC = {
    "id": "C13",
    "level": "proof",
    "coq": {
        "props": "Props/C13.v",
        "extract": ["Extract/ExtStartup.v"],
        "theorems": [
            "C13_barrier", "C13_barrier_hypothesis_satisfiable",
            "C13_builtin_discipline_refuted", "C13_forward_refuted", "C13_builtin_discipline",
            "C13_barrier_builtin", "C13_paths",
            "C13_once", "C13_status", "C13_status_lag_orig_refuted", "C13_status_lag_plain_and_explicit", "C13_status_timeout", "C13_deadline",
            "C13_remark_starts_that_panic_on_shutdown",
            "C13_validate_sound", "C13_validate_predict", "C13_predict_is_run_model",
        ],
        "allow_axioms": [],
    },
    "structural": [action_table_matches_sources],
    "stages": [
        # every case = one whole simulation run in a child process on the real run_internet*; the Rust oracle judges
        # the recorded trace against the property, the extracted validator judges it against the model
        {"name": "start_validate", "bin": "c13_start", "model": "startup", "kind": "validate", "model_args": "validate",
         "n_quick": 320, "n_thorough": 16000, "shards": 8, "shards_thorough": 16,
         "trivial_re": r"^(ERR|HANG)"},
    ],
    "rule": "case = one machine set + timeout + runtime flavour, run for real in a child process. 60% on a "
            "current-thread runtime with paused time (exact: log order = real order, virtual time), 40% on "
            "multi-thread runtimes with 2/3/8/16 workers (order-insensitive checks). Streams: 40% harness-centric "
            "(0..4 machines incl. zero machines, machines without protocols, 0..4 harness applications each: "
            "prompt / slow to initialise / never reaching the barrier / start never returning; shutdown requests "
            "before the barrier, at the release, concurrently with different statuses incl. 0 and u32::MAX, at "
            "timeout-1/timeout/timeout+1/+999/+1000/+1500 ms, or never; timeouts 0..60 s and run_internet without "
            "timeout), 40% mixes of built-in protocols on one network (Udp Tcp Ipv4 Arp Pci DnsClient SendMessage "
            "Capture Forward OnReceive BasicServer ThroughputTester DhcpServer PingPong ArpRouter; all four "
            "Arp x MAC-in-table combinations) with slow harness applications that hold the barrier shut, 10% "
            "SocketAPI server/client pairs (pre-barrier new_socket().await), 12% bursts of 5..40 requests made by one "
            "application without yielding or by as many applications, plain shut_down() and shut_down_with_status(k) "
            "mixed (first plain then explicit, first explicit then plain, plain last, random, all explicit). "
            "distinct = distinct case line; non-trivial = the child returned or crashed (not HANG)",
    "trusted_base": [
        "Coq 8.16.1 kernel (coqc; vm_compute only over the finite 32-row table and in closed witness runs)",
        "hand transcription of the 32 `Protocol::start` bodies -> Model/Startup.v `row`, re-extracted from the Rust "
        "text and diffed on every check (tools/c13_action_table.py; lexical call lists, every `.await` must be classified)",
        "hand transcription of internet.rs / shutdown.rs / machine.rs -> barrier semantics (`step`) and run machine "
        "(`rstep`), validated on recorded traces of the real run_internet* (trace validation, not lock-step)",
        "tokio 1.x Barrier (n = 0 behaves as 1, generations), broadcast::channel(16) (Lagged when > 16 behind, "
        "Closed only when empty), time::timeout (inner future polled first), the scheduler: transcribed from their "
        "documentation, not verified",
        "extraction (ExtrOcamlBasic only) + OCaml driver ocaml/startup_drv.ml + Rust harness c13_start + "
        "harness/src/stack.rs (link observer of the `verif` feature)",
    ],
    "assumptions": [
        "level: proof of the decision logic + trace validation (partial): the theorems quantify over all action-list "
        "configurations, all interleavings and all event orders of the MODEL; the real scheduler is sampled",
        "the barrier theorem needs `frame_free_before_wait` of every start; for user-written protocols that is an "
        "assumption (Protocol::start documentation), for the 32 built-in ones it is C13_builtin_discipline "
        "(all but Forward on a machine that resolves through ARP)",
        "what a protocol does after start (demux-triggered sends, timers) is not part of the start rows; it cannot "
        "precede the first frame",
        "built-in protocols do not log: their barrier arrival is observed only through harness applications that are "
        "slow to initialise (everything before the last harness arrival is early) and through the release itself",
        "configuration errors (a start returning Err or panicking in `open(..).await.unwrap()` because ARP gets no "
        "answer) are outside the property; the generator builds resolvable configurations",
        "multi-thread runs use real time: the deadline is checked with 250 ms slack",
    ],
}
