SPEC = {
    "id": "C19",
    "level": "proof",
    "coq": {
        "props": "Props/C19.v",
        "extract": ["Extract/ExtNdl.v"],
        "theorems": [
            "C19_line", "C19_roundtrip", "C19_roundtrip_spaces", "C19_roundtrip_crlf", "C19_wf_satisfiable",
            "C19_roundtrip_refuted", "C19_accept_sound", "C19_parse_render_idempotent", "C19_prefix",
            "C19_reject_duplicate_argument", "C19_reject_unknown_type", "C19_reject_line_error_propagates",
            "C19_reject_wrong_nesting", "C19_reject_missing_section", "C19_reject_duplicate_network_id",
        ],
        "allow_axioms": [],
    },
    "stages": [
        # part 1: core_parser in lock-step with Model/Ndl.v (repaired get_type) + round-trip / reject oracle
        {"name": "ndl_parser_lockstep", "bin": "c19_ndl", "model": "ndl", "n_quick": 12000, "n_thorough": 1200000,
         "shards": 4, "shards_thorough": 16},
        # part 2: generated valid descriptions run through generate_and_run_sim in a child process
        {"name": "ndl_run", "bin": "c19_run", "model": "ndl", "n_quick": 400, "n_thorough": 12000,
         "shards": 4, "shards_thorough": 16, "trivial_re": r"^(ERR|PANIC|REJECT|RUN \S+ TimedOut)"},
    ],
    "rule": "ndl_parser_lockstep: cases = texts given to core_parser through a scratch file: the 58 NDL files of the "
            "repository, the case-folding sweep over all scalar values, rendered generated trees (0..3 networks with "
            "ip/range lines, 0..4 machines with counts, names, auto-protocol, ARP, the four application kinds, random "
            "extra arguments with non-ASCII / escaped-quote / '[' / '=' / newline values) in tab, 4-space, CRLF and "
            "'fancy' renderings (keyword case, several separators, blank lines, Template lines, split and reordered "
            "sections), the same trees with one injected structural error of each of the five classes, and 1..3-fold "
            "mutants of the repository files (token insertion/deletion, truncation, indentation, non-ASCII, Kelvin "
            "sign, type word / key / value replacement); result = canonical dump of the structure or ERR class line; "
            "distinct = distinct case line; non-trivial = result is a structure (not ERR/PANIC). "
            "ndl_run: cases = generated valid descriptions (named and unnamed machines in any order, prefix-related names, senders with counts, send_message / capture / forward / "
            "ping_pong wired by name or address, ARP, auto-protocol) run in a child process; result = exit status and "
            "the model's reference evaluation of who sends what to whom; non-trivial = run ended with Exited.",
    "trusted_base": [
        "Coq 8.16.1 kernel (coqc; vm_compute only for the concrete witnesses C19_roundtrip_refuted and the C14 ones; C19_wf_satisfiable is a tactic proof)",
        "hand transcription parser.rs / parser_util.rs / network_parser.rs / machine_parser.rs / parsing_data.rs -> "
        "Model/Ndl.v, and of the nom 7.1.3 combinators (tag/tag_no_case/take_until/take_while1/char/none_of/escaped/"
        "alt/many0/delimited/preceded/separated_pair) from nom's source; checked by lock-step on sampled inputs",
        "the error MESSAGE text is not modelled: only its class (which message) and the last 'Line n:' before it are compared",
        "extraction (ExtrOcamlBasic only) + OCaml driver ocaml/ndl_drv.ml (UTF-8 decoding, sorting of maps) + Rust harness "
        "c19_ndl / c19_run (scratch files under .cache/ndl, child processes)",
        "part 2 is testing only: machine_generator / run_internet are not modelled; the model only predicts the deliveries",
    ],
    "assumptions": [
        "texts are valid UTF-8 (a non-UTF-8 file makes fs::read_to_string(..).expect(..) panic; outside the model)",
        "HashMaps are modelled as association lists in insertion order; equality of parsed structures is equality of "
        "these lists (the harness dumps maps sorted by key)",
        "line numbers are unbounded integers (i32 in Rust: no file has 2^31 lines)",
        "the main model follows the repaired get_type (.cache/ndl/fix.patch); core_parse_orig follows the unchanged tree",
    ],
}
