SPEC = {
    "id": "C10",
    "level": "proof",
    "coq": {
        "props": "Props/C10.v",
        "extract": ["Extract/ExtFrag.v"],
        "theorems": [
            "C10_partition_ok_is_spec", "C10_flags_reading", "C10_domain",
            "C10_fragment", "C10_fits", "C10_discard", "C10_outcome", "C10_outcome_ok_is_spec",
            "C10_domain_ok_is_spec",
            "C10_refragment", "C10_refragment_step", "C10_chain", "C10_partition_mtu_monotone", "C10_chain_df",
            "C10_offsets_fit_13_bits",
            "C10_example_hypotheses", "C10_example_fragment", "C10_example_refragment_middle",
            "C10_remark_nfb0_does_not_terminate", "C10_remark_mtu_below_header_panics",
            "C10_remark_offset_overflow_panics", "C10_remark_short_body_panics", "C10_remark_reserved_bit_dropped",
        ],
        "allow_axioms": [],
    },
    "stages": [
        # the model computes the same Fragments as fragmentation::fragment, step by step along MTU chains
        {"name": "frag_lockstep", "bin": "c10_frag", "model": "frag",
         "n_quick": 1800, "n_thorough": 60000, "shards": 4, "shards_thorough": 16},
        # the extracted predicates of the theorems (outcome_ok, partition_ok relative to the ORIGINAL datagram)
        # evaluated on the implementation's own fragments
        {"name": "frag_validate", "bin": "c10_frag", "model": "frag", "kind": "validate", "model_args": "validate",
         "seed_salt": 424243, "n_quick": 1200, "n_thorough": 30000, "shards": 4, "shards_thorough": 16},
    ],
    "rule": "case = one datagram (11 header fields, payload length, payload pattern seed) and a chain of 1..4 MTUs "
            "applied successively to the implementation's own output; 85% inside the property's quantifier "
            "(payload 0..65515 incl. {0,1,7,8,9,mtu-21..mtu-19,k*NFB*8+-1,65515}, MTU 68..65535 with (mtu-20) mod 8 "
            "uniform in 0..7, DF/MF set or clear, offset 0 or any 13-bit value, 2% maximal datagrams through "
            "MTU<=120 = >1000 pieces), 15% hostile (inconsistent total_length, ihl != 5, offsets near 2^16, reserved flag "
            "bits, MTU < 68 incl. the non-terminating 20..27 and the underflowing < 20); distinct = distinct case line; "
            "non-trivial = first step did not panic",
    "trusted_base": [
        "Coq 8.16.1 kernel (coqc; vm_compute only in the four closed witness/remark computations)",
        "hand transcription fragmentation.rs + ControlFlags -> Model/Frag.v, checked by lock-step on sampled inputs",
        "Message::cut modelled as list cut with its length assertion (refinement Message -> byte list is property C07)",
        "extraction (ExtrOcamlBasic only) + OCaml driver ocaml/frag_drv.ml + Rust harness c10_frag; payloads travel "
        "as a lossless pattern-relative encoding (P<start> | L<hex>) that both sides compute from the actual bytes",
    ],
    "assumptions": [
        "u8/u16 header fields are Z; dev-profile overflow checks are explicit Panic values",
        "theorem domain: total_length = 4*ihl + |payload|, offset + |payload|/8 <= 65535, 4*ihl+8 <= mtu <= 65535 "
        "(contains the property's quantifier: C10_domain); outside it the model is still compared in lock-step",
        "the non-terminating corner 4*ihl <= mtu < 4*ihl+8 is never executed on the implementation (it would not "
        "return); the harness prints NONTERM from the guard condition and the model prints it from OutOfFuel",
    ],
}
