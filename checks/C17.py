import os, sys
sys.path.insert(0, os.path.join(os.path.dirname(os.path.abspath(__file__)), "..", "lib"))
import panic_inventory

C17_FILES = ["sim/elvis-core/src/protocols/tcp/tcb.rs", "sim/elvis-core/src/protocols/tcp/tcp_parsing.rs",
             "sim/elvis-core/src/protocols/tcp.rs"]


def panic_sites(ctx):
    return panic_inventory.check("C17", C17_FILES)


SPEC = {
    "id": "C17",
    "level": "proof",
    "coq": {
        "props": ["Props/C17.v"],
        "extract": ["Extract/ExtTcb.v"],
        "theorems": "auto",
        "allow_axioms": [],
    },
    "structural": [panic_sites],
    "stages": [
        # forged segments (all 64 flag combinations, seq at/just below/above/far from the window edges, ack around
        # SND.UNA/SND.NXT, windows 0..65535 incl. shrinking, lengths 0..1450) injected at states reached by legitimate
        # traffic; lock-step against the model + no-crash / window / inertness oracles on the implementation
        {"name": "tcb_hostile", "bin": "tcb_lockstep", "model": "tcb", "extra_args": "--hostile",
         "n_quick": 640, "n_thorough": 40000, "shards": 8, "shards_thorough": 16, "seed_salt": 17},
        # release profile (overflow checks off): the same sites must not wrap either
        {"name": "tcb_hostile_release", "bin": "tcb_lockstep", "model": "tcb", "extra_args": "--hostile", "release": True,
         "n_quick": 640, "n_thorough": 40000, "shards": 8, "shards_thorough": 16, "seed_salt": 170, "thorough_only": True},
    ],
    "rule": "cases = label schedules over two real Tcb objects (open, send, receive, close, tick, emit, deliver/drop/dup "
            "of in-flight segments) with forged segments placed relative to the receiver's live RCV.NXT/RCV.WND/SND.UNA/"
            "SND.NXT; every label's return value, full TCB snapshot and emitted segments are compared with the model "
            "(FNV hash per label); distinct = distinct case line; non-trivial = the case did not end in a panic",
    "trusted_base": [
        "Coq 8.16.1 kernel; vm_compute only in witness lemmas",
        "hand transcription tcb.rs -> Model/Tcb.v (incl. std BinaryHeap sift_up / sift_down_to_bottom), checked by lock-step",
        "Model/TcpNet.v composition (two endpoints, in-flight lists, tick = flush + advance_time, last read at deletion) mirrors harness/src/bin/tcb_lockstep.rs, not tcp.rs/tcp_session.rs",
        "extraction (ExtrOcamlBasic only), ocaml/tcb_drv.ml, Rust harness tcb_lockstep, panic-site inventory checks/panic_sites.json",
    ],
    "assumptions": [
        "syntactically valid segment = header fields in range, text at most 65535 bytes; MTU >= 50 (property: >= 100)",
        "'entirely outside the receive window' is judged against the window [RCV.NXT-1, RCV.NXT+RCV.WND) that tcb.rs uses "
        "(sequence-validation revision cited there, RFC 9293 appendix A.2)",
    ],
}
