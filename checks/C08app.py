# Development-only spec that runs the codecapp kit alone (the coordinator merges
# checks/C08app_part.py into C08 / C14 and deletes this file).
import importlib.util
import os

_p = os.path.join(os.path.dirname(os.path.abspath(__file__)), "C08app_part.py")
_s = importlib.util.spec_from_file_location("c08app_part", _p)
_m = importlib.util.module_from_spec(_s)
_s.loader.exec_module(_m)
PART = _m.PART

SPEC = {
    "id": "C08app",
    "level": "proof",
    "coq": {
        "props": PART["props"],
        "extract": PART["extract"],
        "theorems": PART["theorems"],
        "allow_axioms": [],
    },
    "stages": PART["stages"],
    "rule": PART["rule"],
    "trusted_base": PART["trusted_base"],
    "assumptions": PART["assumptions"],
}
