# Kit translate: second, deterministic tie for C09 by TRANSLATION of the pure integer functions of subnetting.rs
# (Ipv4Mask, Ipv4Net, SubnetInfo, clamp) and of the conversions of ipv4_address.rs they call.
# The coordinator merges PART into checks/C09.py: props / theorems / trusted_base / assumptions appended and
# SPEC["pre"] = [regenerate_subnet_gen] (import the function from this file).
import os
import subprocess


def regenerate_subnet_gen(ctx):
    """Regenerate coq/Gen/SubnetGen.v from the CURRENT subnetting.rs / ipv4_address.rs (written only on change)."""
    tool = os.path.join(os.path.dirname(os.path.abspath(__file__)), "..", "tools", "translate_subnetting.py")
    p = subprocess.run(["python3", tool], capture_output=True, text=True)
    if p.returncode != 0:
        return ["translator tools/translate_subnetting.py no longer translates subnetting.rs / ipv4_address.rs: "
                + (p.stdout + p.stderr).strip()[:400]]
    return []


THEOREMS = [
    "C09gen_address_is_u32", "C09gen_mask_is_model", "C09gen_from_bitcount_total", "C09gen_net_is_model",
    "C09gen_try_from_range_is_model", "C09gen_subnet_info_new",
]

PART = {
    "props": ["Props/C09gen.v"],
    "theorems": THEOREMS,
    "pre": "regenerate_subnet_gen",
    "trusted_base": [
        "translator tools/rs2gallina.py + tools/translate_subnetting.py (Rust subset -> Gallina, rerun on every check; "
        "coq/Gen/SubnetGen.v is never edited by hand): trusted to parse the subset stated in the header of the generated "
        "file and to map each operator to its definition in coq/Model/RsSem.v (checked + - -> ck_add / ck_sub, << by a "
        "computed amount -> ck_shl, assert! -> ck_assert, ! -> u_not, count_ones, to_be_bytes / from_be_bytes, & -> "
        "Z.land, derived == / <= on Ipv4Address([u8; 4]) -> list_eqb / lexicographic lex_leb, ? and .or(Err(e)) -> bind "
        "/ or_err, early return -> if/else); anything else in the translated functions makes the translator exit 2",
        "coq/Model/RsSem.v as the semantics of those operators in the dev profile",
        "vm_compute only for the finite sweep over the 33 clamped mask lengths (gen_from_bitcount_small, lifted by "
        "sweep33 / forallb_forall) and the closed examples",
    ],
    "assumptions": [
        "u32 values are Z (generated) / N (hand model) below 2^32; an Ipv4Address is the list of its four bytes in the "
        "generated code and its u32 in the hand model (C09gen_address_is_u32 relates the two, order and equality "
        "included)",
        "RangeInclusive<Ipv4Address> is the pair of its ends (a range that has not been iterated)",
        "`ip: impl Into<Ipv4Address>` of Ipv4Net::new_short is translated at the instance Ipv4Address",
        "NOT translated, left to the hand model and the lock-step: cidr_to_ip / Ipv4Net::from_cidr (string parsing, "
        "std parsers), Debug / Display, TryFrom<Ipv4Address> for Ipv4Mask (error value is an address), the associated "
        "constant Ipv4Net::LOOPBACK (its initialiser is the translated from_bitcount(8))",
    ],
}
