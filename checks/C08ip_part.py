# Kit codecip: the IPv4 / UDP / TCP part of C08 (round trips, equality with the RFC 791 / 768 /
# 9293 layouts, agreement with etherparse) and of C14 part 1 (decoders never panic).  The
# coordinator merges PART into the C08 / C14 specs.
#
# Models follow /repo after the repairs 590cc7ad (IPv4 total_length < 20 rejected) and
# c999f3a6 (checksum 0x0000 / 0xffff); `model_args` "ck0" = default build.  To compare with a
# tree WITHOUT the repairs pass "ck0 orig" (or "ftl0" / "fck0" for one of them).

C08_THEOREMS = [
    "C08_ipv4_decode_encode", "C08_ipv4_wf_example", "C08_ipv4_encode_decode",
    "C08_ipv4_encode_decode_orig_refuted", "C08_ipv4_encode_decode_orig",
    "C08_ipv4_matches_rfc", "C08_ipv4_decode_rfc", "C08_ipv4_tos_new", "C08_ipv4_cf_new", "C08_ipv4_decode_fields_rfc",
    "C08_ipv4_build_long", "C08_ipv4_build_frag",
    "C08_udp_decode_encode_rfc", "C08_udp_encode_decode", "C08_udp_decode_fields_rfc", "C08_udp_build_long",
    "C08_tcp_decode_encode", "C08_tcp_fields_ok_example",
    "C08_tcp_encode_decode_refuted", "C08_tcp_encode_decode", "C08_tcp_encode_decode_iff",
    "C08_tcp_encode_decode_masked", "C08_tcp_matches_rfc", "C08_tcp_decode_rfc", "C08_tcp_decode_fields_rfc",
    "C08_tcp_ctl_new_spec", "C08_tcp_ctl_all_64", "C08_tcp_ctl_set_bit", "C08_tcp_build_long",
]
C14_THEOREMS = [
    "C14_ipv4_decode_total", "C14_ipv4_decode_no_fuel", "C14_ipv4_decode_short",
    "C14_udp_decode_total", "C14_udp_decode_no_fuel", "C14_udp_decode_short",
    "C14_tcp_decode_total", "C14_tcp_decode_no_fuel", "C14_tcp_decode_short",
    "C14_checksum_adder_no_panic", "C14_udp_build_panics_iff", "C14_tcp_build_panics_iff",
]

STAGE = {
    "name": "codecip_lockstep", "bin": "c08_codecip", "model": "codecip", "model_args": "ck0",
    "n_quick": 40000, "n_thorough": 1000000, "shards": 4, "shards_thorough": 16,
}

RULE = ("codecip (default build, checksum field 0): cases = builder / serialize calls with every field at "
        "0/max/edge/random (ports, seq/ack, windows, urgent pointers, all 64 TCP control-bit combinations through the "
        "builder methods in random order, TOS from the typed constructor and raw, all 4 flag pairs and raw, fragment "
        "offsets 0..8191 and beyond, TTL/protocol/identification, addresses, payloads 0..48 bytes plus the 16-bit "
        "limits 65515/65527/65535 given as (len, seed), text_len different from the payload and near usize::MAX); "
        "decode of packets in reference encoding assembled by plain arithmetic (trailing bytes, reserved TCP bits set) "
        "and of hostile strings (truncation at every length, bit flips, extreme 16-bit words, version/IHL/data-offset/"
        "reserved-bit surgery, packet_len too small/large/2^40, random bytes); each decode is followed by the "
        "re-encoding of the result; Control/ControlFlags/TypeOfService constructors and setters; the Checksum "
        "accumulator (constant 0 here); impl vs extracted model (string-equal lines) and impl vs etherparse 0.10 in "
        "both directions as property oracle; distinct = distinct case line; non-trivial = result line does not start "
        "with ERR/PANIC")

TRUSTED = [
    "Coq 8.16.1 kernel (coqc; vm_compute only for the closed witnesses and the finite sweeps: 64 control-bit "
    "combinations, 256x6x2 set_bit cases, 256 byte masks, 8x2x2x2 TOS values)",
    "hand transcription ipv4_parsing.rs / udp_parsing.rs / tcp_parsing.rs / utility.rs -> "
    "Model/{Bytes,Checksum,Ipv4Hdr,UdpHdr,TcpHdr}.v, checked by lock-step on sampled inputs",
    "uN::to_be_bytes / from_be_bytes and the u8/u16 shifts modelled arithmetically (characterising lemmas in "
    "Proofs/BytesFacts.v)",
    "rfc791_bytes / rfc768_bytes / rfc9293_bytes as a faithful reading of the RFC header diagrams; etherparse 0.10 as "
    "the independent implementation in the harness oracle",
    "extraction (ExtrOcamlBasic only) + OCaml driver ocaml/codecip_drv.ml + Rust harness c08_codecip "
    "(harness/src/bin/codecip_common/mod.rs)",
]

ASSUMPTIONS = [
    "a byte string is a list of Z; theorems about re-encoding assume every element in 0..255 (`bytes bs`), the "
    "totality theorems do not",
    "Ipv4Address is modelled by the u32 of its big-endian bytes; TypeOfService / ControlFlags / Control by their u8",
    "header value = the Rust struct; encode = Ipv4Header::serialize (via Ipv4HeaderBuilder::build), build_udp_header, "
    "TcpHeaderBuilder::build + TcpHeader::serialize; the UDP / TCP decoders are given packet_len = length of the "
    "byte string, as udp.rs:115 and tcp.rs:120 do (other packet_len values are modelled and lock-stepped too)",
    "representable TCP Control = the 6 flag bits (0..63); Control::from(u8) with bit 6/7 set is outside the property's "
    "64 combinations (serialize would emit the bits, the decoder masks them: same class as tcp-reserved-bits)",
    "IPv4 decoder as repaired by 590cc7ad; the witness for the tree before it is C08_ipv4_encode_decode_orig_refuted",
]

KNOWN = [
    {"property": "C08", "class": "tcp-reserved-bits",
     "coq_class": "TcpHdr.tcp_reserved_bits bs = true",
     "witness": "C08_tcp_encode_decode_refuted",
     "what": "TcpHeader::from_bytes masks the reserved bits (low nibble of byte 12, top two bits of byte 13) away, so "
             "re-encoding an accepted segment with such a bit set does not reproduce it; nothing else changes "
             "(C08_tcp_encode_decode_masked) and outside the class the clause holds (C08_tcp_encode_decode_iff)",
     "replay": "tcpd 0 0 20 0001000200000003000000045fc2000500000006"},
]

PART = {
    "props": ["Props/C08ip.v", "Props/C14ip.v"],
    "props_C08": ["Props/C08ip.v"],
    "props_C14": ["Props/C14ip.v"],
    "extract": ["Extract/ExtCodecIp.v"],
    "theorems": C08_THEOREMS + C14_THEOREMS,
    "theorems_C08": C08_THEOREMS,
    "theorems_C14": C14_THEOREMS,
    "stages": [STAGE],
    "rule": RULE,
    "trusted_base": TRUSTED,
    "assumptions": ASSUMPTIONS,
    "known_findings": KNOWN,
}
