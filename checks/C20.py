import os
import re


def _variant():
    """Which variant of the model is the tree: recv(80) or the whole datagram; built-in records inserted
    over registered ones or only when absent.  Read from the two places of dns_server.rs the model cites."""
    src = ""
    try:
        src = open("/repo/sim/elvis-core/src/protocols/dns/dns_server.rs").read()
    except OSError:
        pass
    code = "\n".join(l for l in src.splitlines() if not l.strip().startswith("//"))
    cap = "cap80" if re.search(r"\.recv\(\s*80\s*\)", code) else "nocap"
    over = "builtin-wins" if re.search(r'self\.add_mapping\(\s*"google\.com"', code) else "registered-wins"
    return cap + " " + over


SPEC = {
    "id": "C20",
    "level": "proof",
    "coq": {
        "props": "Props/C20.v",
        "extract": ["Extract/ExtDnsProto.v"],
        "theorems": [
            "C20_answer", "C20_answer_registered", "C20_no_crash", "C20_fits_threshold", "C20_fits_repaired",
            "C20_server_respond", "C20_server_respond_too_long", "C20_progress", "C20_progress_example",
            "C20_answer_refuted_long_name", "C20_long_name_never_resolved", "C20_answer_refuted_builtin",
            "C20_answer_example", "C20_echo", "C20_echo_reply", "C20_cache_silent", "C20_cache_silent_hit",
            "C20_validate_sound", "C20_validate_run", "C20_validate_example",
            "C20_ephemeral_port", "C20_remark_port_counter_overflow_panics",
        ],
        "allow_axioms": [],
    },
    "stages": [
        # the real DnsServer / DnsClient / SocketAPI / Udp / Ipv4 / Arp / Pci in a child process per scenario; the
        # recorded trace (lookups, DNS datagrams with their bytes, returns, final caches, ending) is replayed
        # through the extracted transition system: every label must be enabled, replies byte-equal to the model's
        {"name": "dns_validate", "bin": "c20_dns", "model": "dnsproto", "kind": "validate", "model_args": _variant(),
         "n_quick": 360, "n_thorough": 12000, "shards": 6, "shards_thorough": 16,
         "trivial_re": r"(^(ERR|PANIC|REJECT))|( ; E (CRASH|HANG))", "timeout_quick": 600},
    ],
    "rule": "case = 1..4 records (name lengths 1, 2..22, 23, 24, 25, 26, 40, 60, 200, 27..120; host-like / any printable "
            "ASCII but the delimiter / 2- and 3-byte UTF-8; the two built-in names; a name registered twice; addresses "
            "0, 255.255.255.255, 32.32.32.32, the built-in google.com address, DNS_AUTH, uniform), 1..4 client machines "
            "+ the server on one Network::basic() wired as dns_basic.rs, each client 1..3 batches of 1..3 concurrent "
            "lookups (get_host_by_name, 1/6 Socket::connect_by_name) of the records, DnsServer::new(one per lookup | "
            "exactly the predicted cache misses | one more), per-frame delays from the case line (none | 30% up to 5 ms "
            "| 70% up to 200 ms | all up to 50 us; ARP frames included) = reordering of queries and replies; 9 of 10 on "
            "the paused current-thread runtime (exact oracle), 1 of 10 on Multi(1|2|4) (order-insensitive oracle); "
            "one case in five: 2..4 ALMOST EQUAL names with different addresses (differing only in ASCII case, in "
            "trailing dots, by being prefixes of each other, or in one byte of a non-ASCII character), resolved by the "
            "same client one after the other and concurrently and then again from the cache: each lookup must "
            "return the address of its own name and each first lookup must put its own query on the wire; "
            "12% hostile: a name without record is looked up, a registered name contains the delimiter, the server "
            "accepts one connection too few. Result = trace + ending (DONE | CRASH file:line:kind | HANG). "
            "distinct = distinct case line; non-trivial = run ended DONE",
    "trusted_base": [
        "Coq 8.16.1 kernel (coqc; vm_compute only in the closed witness computations C20_*_refuted_*, "
        "C20_answer_example, C20_validate_example)",
        "hand transcription dns_client.rs / dns_server.rs / Socket::recv / recv_msg -> Model/DnsProto.v on top of the "
        "DNS codec model Model/Dns.v (kit codecapp, C08/C14); checked by trace validation on sampled scenarios: "
        "query datagrams must be exactly create_request, reply datagrams byte-equal to the model's server_respond, "
        "every return, the caches after the run and the way the run ended must be what the model admits",
        "extraction (ExtrOcamlBasic only) + OCaml driver ocaml/dnsproto_drv.ml (event parsing, crash site = file:line "
        "of the panic -> site number) + Rust harness c20_dns (child processes, Recorder plan, own IPv4/UDP/DNS "
        "reading of the frames for the oracle)",
        "checks/C20.py selects the model variant (recv(80) | whole datagram; built-ins over | under registered "
        "records) by looking at the two cited lines of dns_server.rs; the theorems cover both variants",
        "multi-thread cases: the driver may re-linearise a cache-hit lookup (L moved in front of its R when an answer for the same "
        "client lies between them; the harness logs L at call time, the cache check is later) before validating",
    ],
    "assumptions": [
        "partial: proof of the protocol logic + trace validation. The sockets/UDP/IPv4/ARP stack underneath is not "
        "modelled: a reply reaches exactly the socket whose (address, port) it is addressed to (C04), datagrams are "
        "neither lost, duplicated nor corrupted (C02/C05; the harness plan only delays), Network::basic() has no MTU",
        "tokio scheduling, Notify/mpsc wake-ups and real time are not modelled: the model is a labelled transition "
        "system whose labels (lookup start, query/reply datagram handed to the network, lookup return, panic) may "
        "occur in any order the guards admit; liveness is proved as enabledness (C20_progress: a waiting "
        "lookup can always be completed by at most two further labels), not as fairness of the scheduler; that "
        "every lookup does return is observed by the oracle on every scenario",
        "which of several concurrent lookups of one name on one client owns which socket is not observable; the "
        "model lets a returning lookup take any answered socket opened for its name",
        "ports: the model asks for a port not used before by that client in 49152..65535; the counter of "
        "SocketAPI::get_ephemeral_port is modelled separately (distinct until its u16 overflow panics at the "
        "16384th socket of a machine: C20_remark_port_counter_overflow_panics) and its read-then-increment race "
        "on a multi-thread runtime is not modelled",
        "DnsServer::new(n): the accept loop ends after max(1,n) connections; later queries are dropped (modelled; "
        "the harness gives at least the number of cache misses except in the hostile stream)",
        "the harness stops observing when every client has finished; the simulation is never told to shut down "
        "(on shutdown the accept loop's unwrap of Err(Shutdown) would panic - outside the property)",
    ],
}
