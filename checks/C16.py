SPEC = {
    "id": "C16",
    "level": "proof",
    "coq": {
        "props": "Props/C16.v",
        "extract": ["Extract/ExtRouter.v"],
        "theorems": [
            "C16_ttl_decrements_hop", "C16_ttl_decrements", "C16_one_in_one_out", "C16_bounded",
            "C16_follows_route", "C16_follows_lpm", "C16_payload_unchanged", "C16_only_destination",
            "C16_delivered", "C16_example_ranked", "C16_example_line_delivers", "C16_example_loop_falls_silent",
            "C16_validate_sound", "C16_example_validate",
            "C16_only_destination_refuted", "C16_example_validate_polluted",
            "C16_remark_ttl0_panics", "C16_remark_ttl1_dropped", "C16_remark_mtu_panics", "C16_remark_slot_panics",
            "C16_accepts_own_address",
        ],
        "allow_axioms": [],
    },
    "stages": [
        # every scenario runs the real simulation in a child process; the extracted validator must ACCEPT the
        # recorded trace (all IPv4 frames on all networks + all deliveries to the hosts' applications)
        {"name": "router_traces", "bin": "c16_router", "model": "router", "kind": "validate",
         "n_quick": 640, "n_thorough": 16000, "shards": 8, "shards_thorough": 16},
    ],
    "rule": "case = one generated internet: line (1-3 routers), star (1 router, 2-4 networks), star of 2-3 routers "
            "round a hub network, ring of 2-3 routers (+ optional stub network); 1-2 hosts per network (<= 6), "
            "subnet masks /24, /30, /32; shortest-path static routes per network, optionally collapsed into a default "
            "route, with redundant /32 host routes and a never-winning /16 route to nowhere, inserted in random order; "
            "42% correct, the rest: a missing route, a two-router loop (/24 or /32), a route to the router itself, a "
            "gateway nobody owns, a local network on the wrong slot, a host with a bad default gateway, and 10% outside "
            "the quantifier (forged TTL 0, MTU smaller than the datagram, slot beyond local_ips / beyond the Pci slots); "
            "1-5 datagrams between random hosts (80% host to host, else unowned address, unknown network, a router's "
            "address), 60% through Udp/Ipv4 (TTL 30), 40% raw frames with TTL 1,2,3,4,5,8,30,64,255 and non-default TOS / identification / DF; 0-5 frames "
            "(ARP or data) delayed by 1-450 ms (reorders arrivals, forces ARP retries); paused current-thread runtime, "
            "a sixth of the loss-free correct scenarios on the 2-thread runtime.  distinct = distinct case line; "
            "trivial = the process died (PANIC) or hung.",
    "trusted_base": [
        "Coq 8.16.1 kernel (coqc; vm_compute only in the closed example/remark computations)",
        "hand transcription ArpRouter::demux + the deciding lines of Ipv4::demux, Arp::resolve, send_pci, "
        "Ipv4Header::serialize -> Model/Router.v; IpTable lookup imported from kit C09",
        "extraction (ExtrOcamlBasic only) + OCaml driver ocaml/router_drv.ml (parses case and trace, builds the "
        "table with the model's tbl_insert in the harness's insertion order)",
        "Rust harness c16_router: builds the machines, translates MAC addresses to machine names, parses frames "
        "with Ipv4Header::from_bytes, groups frames by the tag in the payload; link observer of elvis-core "
        "(feature verif)",
    ],
    "assumptions": [
        "ARP is the topology: a function from (hop number, router, slot, next-hop address) to the machine that gets "
        "the frame; every theorem holds for ALL such functions.  ARP as it should be = the machine attached to the "
        "outgoing network that has the address among its local IPs (cfg_topo).  The validator follows the OBSERVED "
        "receivers (obs_topo), demands the ideal answer where a router stays silent, and reports whether every hop "
        "was ideal (`ACCEPT` vs `ACCEPT arp-divergent`); the Rust oracle fails on any non-ideal hop.  ARP "
        "requests/replies/retries and the ARP table (keyed by IP only, shared by all slots, negative entries kept "
        "for ever) are not modelled",
        "tokio::spawn per packet, task interleaving, timers: not modelled; the validator compares per datagram, "
        "so any interleaving of different datagrams is accepted; silence = no frame during the last 4 s of 14 s "
        "virtual time (500 ms of 1500 ms on the multi-thread runtime)",
        "claimed level: proof of the decision logic + trace validation (partial for the running system)",
        "fragments (MF / offset) are outside: every Ipv4::demux creates a fresh reassembly buffer, so a fragment "
        "never reaches ArpRouter::demux",
        "u8 TTL arithmetic of the dev profile; in the release profile TTL 0 wraps to 255 instead of panicking",
    ],
}
