# Kit tcpdemux: part c of C03 - the session table of tcp.rs (sessions keyed by endpoint pair, listen
# bindings create sessions), which the TCB model of C03a/b leaves out.  The coordinator merges PART into
# checks/C03.py (props / extract appended, stage appended; theorems are "auto" there).
#
# History: on the tree before b7a73ede / ba8dc528 this kit found (a) the self-deadlock of Tcp::demux (second
# `listen_bindings.entry` on a shard whose write lock the vacant entry of the exact key still held) and (b) the
# closed-port reset acknowledging SEG.SEQ + text length without SYN/FIN.  Both are repaired; the model follows the
# repaired code, the old behaviour survives only in C03c_lookup_deadlock_orig_refuted / C03c_closed_reply_orig_refuted,
# and the oracle now FAILS on any hang and on any reset that is not the one of RFC 9293 3.10.7.1.

THEOREMS = [
    "C03c_existing_session", "C03c_sessions_unique", "C03c_demux_effect", "C03c_syn_creates_one",
    "C03c_later_segments", "C03c_exact_wins", "C03c_no_binding", "C03c_rst_ack_never_create",
    "C03c_open_existing_refused", "C03c_sessions_never_removed", "C03c_listen_overwrites",
    "C03c_closed_reply_rfc", "C03c_closed_reply_orig_refuted", "C03c_lookup_deadlock_orig_refuted",
    "C03c_validate_sound", "C03c_step_frame", "C03c_step_arrival", "C03c_step_app", "C03c_examples",
]

PART = {
    "props": ["Props/C03c.v"],
    "extract": ["Extract/ExtTcpDemux.v"],
    "theorems": THEOREMS,
    "stages": [
        # every case = one full-stack scenario in a child process, driven by one sequential script of real
        # Tcp::listen / Tcp::open / Session::send calls and raw segments injected with PciSession::send_pci; the
        # recorded event list (script results, every IPv4/TCP frame given to the link and handed to a tap,
        # NewConnection notifications, bytes) is judged by the Rust property oracle and, independently, by the
        # extracted validator (C03c_validate_sound)
        {"name": "tcp_session_table", "bin": "c03_tcpdemux", "model": "tcpdemux", "kind": "validate",
         "n_quick": 320, "n_thorough": 30000, "shards": 8, "shards_thorough": 16, "seed_salt": 33,
         "trivial_re": r"^(ERR|PANIC|REJECT|CRASH)"},
    ],
    "rule": "tcp_session_table: case = one scenario: 2..4 machines on one network (Tcp/Ipv4/Pci, no ARP; link latency "
            "0/0.3/1.5 ms), 1..4 recording applications per machine, IP-table routes without MAC (every tap sees the "
            "frame), with the MAC of an arbitrary machine or of no machine; a script of 4..14 steps: Tcp::listen on own, "
            "foreign, unowned and wildcard 0.0.0.0 endpoints (15% re-listens of a bound endpoint by another "
            "application), Tcp::open to bound endpoints / unbound ports / nowhere (20% repeats of an earlier pair, 10% "
            "without a route), Session::send on an opened session, and injected raw segments (SYN 40%, ACK, RST, "
            "SYN|ACK, FIN, no flags, RST|ACK, PSH|ACK with text, FIN|ACK, SYN|FIN, SYN|RST, SYN with text; seq/ack "
            "from {0, 2^31-1, 2^32-1, random}) from spoofed or real source endpoints to bound endpoints, to ports bound "
            "only by the wildcard on arbitrary addresses, to unbound ports of accepted addresses, to addresses the "
            "machine does not accept, and to pairs that already have a session (later segments, forged answers to "
            "clients); 20% of the steps without a settle phase (bursts); 40% of the cases start with a built constellation "
            "(exact and wildcard binding of one port by two applications, two spoofed SYNs from one address, real clients to "
            "the exact endpoint and to another address of the machine, each sending bytes; or an exact binding plus a SYN "
            "to another accepted address with the bound port). Ports are unrestricted; 8% of the cases add a probe of the "
            "old lock collision (a SYN to 0.0.0.0:unbound, or to an address/port pair that shares a DashMap shard with the "
            "wildcard key, found by asking a real FxDashMap<Endpoint,_> in the process), which must be processed like any "
            "other segment. 92% on the paused current-thread runtime (deterministic, exact event "
            "order), 8% on the multi-thread runtime (repeated up to twice before a failure is reported). distinct = "
            "distinct case line; non-trivial = the child did not crash",
    "trusted_base": [
        "Coq 8.16.1 kernel (coqc; vm_compute only in the closed example/refutation computations)",
        "hand transcription of tcp.rs (open, listen, demux), the three-way result of "
        "tcb.rs segment_arrives_listen and the reply of segment_arrives_closed, Ipv4::listen / the Ipv4::demux lookup "
        "-> Model/TcpDemux.v (on top of Model/Demux.v of C04), checked by trace validation on sampled scenarios",
        "segments are records in the model (header bytes / checksums: C08, C18); what a session does with a segment "
        "is opaque here (TCB: C01, C03a/b) - frames of a pair for which the sending machine has a session are accepted "
        "as they come",
        "extraction (ExtrOcamlBasic only) + OCaml driver ocaml/tcpdemux_drv.ml + Rust harness c03_tcpdemux (own link "
        "observer reading the frames byte by byte, events printed as they happen so that a hung child leaves its trace)",
        "harness/src/stack.rs child-process scaffolding; the elvis-core `verif` link observer",
    ],
    "assumptions": [
        "the runtime is not modelled: the validator follows the order of the recorded events, which is the processing "
        "order on the paused current-thread runtime; on the multi-thread runtime steps are separated by settle phases "
        "and a failing run is repeated",
        "no ARP on the machines (Tcp::open holds the session-table entry across the await of Ipv4::open_and_listen; "
        "with ARP that await suspends while a shard of the session table is locked - not exercised)",
        "any hang or crash of the child fails the oracle; the generator avoids the LAND segment (source endpoint = "
        "destination endpoint), which makes the created session exchange ACKs with itself for ever at one virtual "
        "instant (TCB behaviour, outside this part)",
        "the oracle requires a SYN-ACK (ACK = SEG.SEQ+1, one initial sequence number per pair) from a session created "
        "by a SYN only if no further segment of the pair reached it; NewConnection / bytes must go to the application "
        "that owned the binding when the session was created, at most one NewConnection per pair",
        "sessions are never removed from the table (C03c_sessions_never_removed): the model keeps them for ever, and "
        "so does the code",
    ],
}
