SPEC = {
    "id": "C01",
    "level": "proof",
    "coq": {
        "props": ["Props/C01.v"],
        "extract": ["Extract/ExtTcb.v"],
        "theorems": "auto",
        "allow_axioms": [],
    },
    "stages": [
        # closed system: open / simultaneous open, writes (also before the handshake completes, sizes around the MSS and
        # above the 64 KiB window), eager and late reads, closes, timer ticks, per-segment deliver / drop / duplicate /
        # reorder, then a loss-free tail (ticks above the RTO, or short ticks with traffic spread over several ticks)
        # after which everything must be delivered, acknowledged and silent
        {"name": "tcb_conformant", "bin": "tcb_lockstep", "model": "tcb", "extra_args": "--conformant",
         "n_quick": 560, "n_thorough": 40000, "shards": 8, "shards_thorough": 16, "seed_salt": 1},
        # writes up to 200 000 bytes at MSS 50 (thousands of segments): implementation-side oracle only
        {"name": "tcb_heavy_oracle", "bin": "tcb_lockstep", "extra_args": "--conformant --heavy",
         "n_quick": 400, "n_thorough": 40000, "shards": 8, "shards_thorough": 16, "seed_salt": 101},
    ],
    "rule": "cases = label schedules over two real Tcb objects; after every label the return value, the full TCB snapshot "
            "and the emitted segments are compared with the model (FNV hash per label); oracle on the implementation: "
            "delivered is a prefix of submitted in both directions after every label, every emitted data segment is a "
            "slice of the submitted stream, and after the loss-free tail delivered = submitted, nothing unacknowledged, "
            "nothing more to transmit; distinct = distinct case line; non-trivial = no panic",
    "trusted_base": [
        "Coq 8.16.1 kernel; vm_compute only in the example",
        "hand transcription tcb.rs -> Model/Tcb.v, checked by lock-step",
        "Model/TcpNet.v composition (two endpoints, in-flight lists, tick = flush + advance_time, last read at deletion, "
        "a deleted endpoint swallows segments) mirrors harness/src/bin/tcb_lockstep.rs, not tcp.rs/tcp_session.rs",
        "extraction (ExtrOcamlBasic only), ocaml/tcb_drv.ml, Rust harness tcb_lockstep",
    ],
    "assumptions": [
        "each direction's submitted stream is shorter than 2^31 - 2^17 bytes (false otherwise for a 32-bit sequence space "
        "under unbounded delay and duplication)",
        "one incarnation per endpoint pair",
        "liveness is proved for the handshake, writes of any size from a quiescent state (one 65535-byte flight per fair "
        "round), loss of the tail of a flight repaired by the retransmission timer, and the sequential / simultaneous "
        "close (all `_partial`: loss in the middle of a flight, lost ACKs and arbitrary fair schedules from arbitrary "
        "reachable states are explored by the harness' fair tails, not proved)",
    ],
}

import vlib  # noqa: E402
vlib.merge_part(SPEC, "C01s_part")
