"""C14: malformed input is an error, never a crash.  Part 1 (decoders / NDL parser total) merged from three kits;
part 2 (undecodable frames are dropped at their layer, the simulation keeps running) by frame injection."""
import importlib.util
import os
import sys

_D = os.path.dirname(os.path.abspath(__file__))
sys.path.insert(0, os.path.join(_D, "..", "lib"))
import panic_inventory  # noqa: E402


def _part(name):
    s = importlib.util.spec_from_file_location(name, os.path.join(_D, name + ".py"))
    m = importlib.util.module_from_spec(s)
    s.loader.exec_module(m)
    return m.PART


_ip = _part("C08ip_part")
_app = _part("C08app_part")
_ndl = _part("C14ndl_part")

C14_FILES = [
    "sim/elvis-core/src/protocols/ipv4/ipv4_parsing.rs", "sim/elvis-core/src/protocols/udp/udp_parsing.rs",
    "sim/elvis-core/src/protocols/tcp/tcp_parsing.rs", "sim/elvis-core/src/protocols/arp/arp_parsing.rs",
    "sim/elvis-core/src/protocols/dns/dns_parsing.rs", "sim/elvis-core/src/protocols/dhcp/dhcp_parsing.rs",
    "sim/elvis-core/src/protocols/ipv4.rs", "sim/elvis-core/src/protocols/udp.rs", "sim/elvis-core/src/protocols/tcp.rs",
    "sim/elvis-core/src/protocols/arp.rs", "sim/elvis/src/ndl/parsing/parser.rs", "sim/elvis/src/ndl/parsing/parser_util.rs",
    "sim/elvis/src/ndl/parsing/parsing_data.rs", "sim/elvis/src/ndl/parsing/machine_parser.rs",
    "sim/elvis/src/ndl/parsing/network_parser.rs", "sim/elvis-core/src/internet.rs",
]


def panic_sites(ctx):
    """A new unwrap/expect/unreachable!/assert!/index in the anchored files makes the correspondence no longer check."""
    return panic_inventory.check("C14", C14_FILES)


SPEC = {
    "id": "C14",
    "level": "proof",
    "coq": {
        "props": _ip["props_C14"] + _app["props_C14"] + _ndl["props"],
        "extract": _ip["extract"] + _app["extract"] + _ndl["extract"],
        "theorems": "auto",
        "allow_axioms": [],
    },
    "structural": [panic_sites],
    "stages": [dict(st, n_quick=max(2000, st["n_quick"] // 4), known_from=["C08"]) for st in (_ip["stages"] + _app["stages"])] + _ndl["stages"] + [
        # part 2: raw frames (random, truncations of valid packets at every length, single-field mutations, extreme
        # length fields, crafted fragments, malformed ARP) injected into a running simulation with an established TCP
        # connection and recording applications; oracle only (the classification of a frame uses the real decoders)
        {"name": "frame_injection", "bin": "c14_inject", "n_quick": 240, "n_thorough": 20000, "shards": 8,
         "shards_thorough": 16, "seed_salt": 14, "timeout_quick": 1500},
    ],
    "rule": "part 1: see C08 (same families; the oracle fails on any panic of a decoder) and the NDL family; part 2: "
            "cases = 1..4 raw frames handed to B's tap for Ipv4 or Arp while A and B hold a TCP connection; non-trivial "
            "= the child process ended cleanly",
    "trusted_base": _ip["trusted_base"] + _app["trusted_base"] + _ndl["trusted_base"] + [
        "part 2 is trace validation only: harness/src/bin/c14_inject.rs classifies each frame with the real decoders "
        "and checks the recorded events (no application event, no reply, TCP stream intact, simulation alive)",
        "panic-site inventory checks/panic_sites.json (unchecked + - * on integers are not inventoried)",
    ],
    "assumptions": _ip["assumptions"] + _app["assumptions"] + _ndl["assumptions"],
}
