# Kit codecapp: the ARP / DNS / DHCP part of C08 (round trips) and of C14 part 1
# (decoders never panic).  The coordinator merges PART into the C08 / C14 specs.
#
# The DHCP decoder model and DnsQuestion::query_name follow the code after
# .cache/codecapp/fix-dhcp.patch and .cache/codecapp/fix-dns.patch; on a tree
# without them the stage reports PANIC lines and oracle failures (C14 violated).

C08_THEOREMS = [
    "C08_Arp_decode_encode", "C08_Arp_encode_decode", "C08_Arp_encode_decode_firstn",
    "C08_Arp_decode_encode_any_u64_mac", "C08_Arp_wide_mac_truncated",
    "C08_Dns_decode_encode", "C08_Dns_encode_decode", "C08_Dns_encode_decode_firstn",
    "C08_Dns_delimiter_in_name_refuted", "C08_Dns_rdlength_mismatch_refuted",
    "C08_Dhcp_decode_encode", "C08_Dhcp_encode_decode", "C08_Dhcp_encode_decode_firstn",
    "C08_Dhcp_terminator_in_string_refuted",
]
C14_THEOREMS = [
    "C14_arp_total", "C14_arp_value_or_error",
    "C14_dns_total", "C14_dns_value_or_error", "C14_dns_query_name_total",
    "C14_dhcp_total", "C14_dhcp_value_or_error",
    "C14_dhcp_orig_refuted", "C14_dhcp_orig_sites", "C14_dhcp_repair_conservative",
    "C14_dns_query_name_orig_refuted", "C14_dns_query_name_repair_conservative",
]

STAGE = {
    "name": "codecapp_lockstep", "bin": "c08_codecapp", "model": "codecapp",
    "n_quick": 20000, "n_thorough": 400000, "shards": 4, "shards_thorough": 16,
}

RULE = ("codecapp: cases = ARP/DNS/DHCP encode-then-decode of structured values (every field at 0/max/edge/random, "
        "names of arbitrary bytes without the delimiter incl. empty and up to 3000 bytes, rdata up to 65535 bytes, all 7 "
        "DHCP message types, u64 MACs above 2^48) and decode of hostile byte strings (truncation of valid packets at "
        "every length, single-byte and single-field mutations, operation / message-type / rdlength at extreme values, "
        "missing or extra delimiters, trailing bytes, random bytes, invalid UTF-8 at every range edge) plus direct "
        "std::str::from_utf8 comparisons; distinct = distinct case line; non-trivial = the decoder accepted (result "
        "line does not start with ERR/PANIC/REJECT)")

TRUSTED = [
    "Coq 8.16.1 kernel (coqc; vm_compute only for closed witnesses and examples)",
    "hand transcription arp_parsing.rs / dns_parsing.rs / dhcp_parsing.rs / utility.rs(BytesExt) -> "
    "Model/{AppBytes,Arp,Dns,Dhcp}.v, checked by lock-step on sampled inputs",
    "Model/AppBytes.utf8_valid as the acceptance set of core::str::from_utf8 (Unicode table 3-7), checked by the "
    "`utf8` lock-step cases",
    "uN::to_be_bytes / from_be_bytes modelled arithmetically (div/mod 256)",
    "extraction (ExtrOcamlBasic only) + OCaml driver ocaml/codecapp_drv.ml + Rust harness c08_codecapp "
    "(private DhcpMessage fields are read through the derived Debug output)",
]

ASSUMPTIONS = [
    "a byte string is a list of Z with every element in 0..255 (hypothesis `bytes bs = true` where needed)",
    "Rust Strings are modelled by their UTF-8 bytes; Ipv4Address by its big-endian u32",
    "DHCP decoder and DnsQuestion::query_name as repaired by fix-dhcp.patch / fix-dns.patch",
]

PART = {
    "props": ["Props/C08app.v", "Props/C14app.v"],
    "props_C08": ["Props/C08app.v"],
    "props_C14": ["Props/C14app.v"],
    "extract": ["Extract/ExtCodecApp.v"],
    "theorems": C08_THEOREMS + C14_THEOREMS,
    "theorems_C08": C08_THEOREMS,
    "theorems_C14": C14_THEOREMS,
    "stages": [STAGE],
    "rule": RULE,
    "trusted_base": TRUSTED,
    "assumptions": ASSUMPTIONS,
}
