SPEC = {
    "id": "C12",
    "level": "proof",
    "coq": {
        "props": ["Props/C12.v", "Props/C12eq.v"],
        "extract": ["Extract/ExtU32.v", "Extract/ExtTcb.v"],
        "theorems": "auto",
        "allow_axioms": [],
    },
    "stages": [
        {"name": "cmp_lockstep", "bin": "c12_cmp", "model": "u32", "n_quick": 40000, "n_thorough": 2000000,
         "shards": 4, "shards_thorough": 16},
        # the same closed-system schedules run on the real Tcb with both ISNs shifted (random, and landing just below
        # 2^32 / 2^31 so that the sequence space wraps during handshake or transfer); traces relative to the ISNs must
        # be identical (oracle), and the unshifted run is lock-stepped against the TCB model
        {"name": "tcb_isn_shift", "bin": "tcb_lockstep", "model": "tcb", "extra_args": "--shift",
         "n_quick": 320, "n_thorough": 16000, "shards": 8, "shards_thorough": 16, "seed_salt": 12},
    ],
    "rule": "cases = calls of mod_lt/leq/gt/geq/bounded on pairs drawn from edge values, edge distances "
            "(0,1,2^31-1,2^31,2^31+1,2^32-1), +-35000 neighbourhoods and uniform u32; distinct = distinct case "
            "line; non-trivial = every case (no error path exists)",
    "trusted_base": [
        "Coq 8.16.1 kernel (coqc; vm_compute not used here)",
        "hand transcription modular_cmp.rs -> Model/U32.v, checked by lock-step on sampled inputs",
        "extraction (ExtrOcamlBasic only) + OCaml driver ocaml/u32_drv.ml + Rust harness c12_cmp",
    ],
    "assumptions": ["u32 values are modelled as Z reduced mod 2^32"],
}
