import os
import subprocess


def regenerate_modular_cmp(ctx):
    """Second tie for the primitives: regenerate coq/Gen/ModularCmpGen.v from modular_cmp.rs (translator)."""
    tool = os.path.join(os.path.dirname(os.path.abspath(__file__)), "..", "tools", "translate_modular_cmp.py")
    p = subprocess.run(["python3", tool], capture_output=True, text=True)
    if p.returncode != 0:
        return ["translator tools/translate_modular_cmp.py no longer translates modular_cmp.rs: " + (p.stdout + p.stderr).strip()[:300]]
    return []


SPEC = {
    "pre": [regenerate_modular_cmp],
    "id": "C12",
    "level": "proof",
    "coq": {
        "props": ["Props/C12.v", "Props/C12gen.v", "Props/C12eq.v"],
        "extract": ["Extract/ExtU32.v", "Extract/ExtTcb.v"],
        "theorems": "auto",
        "allow_axioms": [],
    },
    "stages": [
        {"name": "cmp_lockstep", "bin": "c12_cmp", "model": "u32", "n_quick": 40000, "n_thorough": 2000000,
         "shards": 4, "shards_thorough": 16},
        # the same closed-system schedules run on the real Tcb with both ISNs shifted (random, and landing just below
        # 2^32 / 2^31 so that the sequence space wraps during handshake or transfer); traces relative to the ISNs must
        # be identical (oracle), and the unshifted run is lock-stepped against the TCB model
        {"name": "tcb_isn_shift", "bin": "tcb_lockstep", "model": "tcb", "extra_args": "--shift",
         "n_quick": 320, "n_thorough": 16000, "shards": 8, "shards_thorough": 16, "seed_salt": 12},
    ],
    "rule": "cases = calls of mod_lt/leq/gt/geq/bounded on pairs drawn from edge values, edge distances "
            "(0,1,2^31-1,2^31,2^31+1,2^32-1), +-35000 neighbourhoods and uniform u32; distinct = distinct case "
            "line; non-trivial = every case (no error path exists)",
    "trusted_base": [
        "Coq 8.16.1 kernel (coqc; vm_compute not used here)",
        "hand transcription modular_cmp.rs -> Model/U32.v, checked by lock-step on sampled inputs AND by the translator "
        "tools/translate_modular_cmp.py (Rust subset -> Gallina, regenerated on every run; Proofs/U32Gen.v proves the "
        "generated definitions equal to the hand model) - the translator is trusted to map wrapping_add/sub, comparisons, "
        "&&, ||, literal shifts and let-bindings faithfully",
        "extraction (ExtrOcamlBasic only) + OCaml driver ocaml/u32_drv.ml + Rust harness c12_cmp",
    ],
    "assumptions": ["u32 values are modelled as Z reduced mod 2^32"],
}
