# Development-only spec that runs the codecip kit alone (the coordinator merges
# checks/C08ip_part.py into C08 / C14 and deletes this file).
import importlib.util
import os

import vlib

_p = os.path.join(os.path.dirname(os.path.abspath(__file__)), "C08ip_part.py")
_s = importlib.util.spec_from_file_location("c08ip_part", _p)
_m = importlib.util.module_from_spec(_s)
_s.loader.exec_module(_m)
PART = _m.PART

# the class `tcp-reserved-bits` is recorded under property C08; make it visible under the
# development id as well (this file only)
_orig_load_known = vlib.load_known


def _load_known():
    d = _orig_load_known()
    have = {k["class"] for k in d.get("C08ip", [])}
    for k in PART["known_findings"]:
        if k["class"] not in have:
            d.setdefault("C08ip", []).append(dict(k, property="C08ip"))
    return d


vlib.load_known = _load_known

SPEC = {
    "id": "C08ip",
    "level": "proof",
    "coq": {
        "props": PART["props"],
        "extract": PART["extract"],
        "theorems": PART["theorems"],
        "allow_axioms": [],
    },
    "stages": PART["stages"],
    "rule": PART["rule"],
    "trusted_base": PART["trusted_base"],
    "assumptions": PART["assumptions"],
}
