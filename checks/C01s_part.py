# Kit tcpsession: part s of C01 - the session task of tcp_session.rs (the glue between the channel of
# instructions, the TCB, IPv4 below and the application above), which Model/TcpNet.v leaves out (its
# composition mirrors the lock-step harness).  The coordinator merges PART into checks/C01.py
# (props / extract appended, stage appended; theorems are "auto" there).

THEOREMS = [
    "C01s_validate_sound", "C01s_init_tcb", "C01s_session_safety", "C01s_session_invariant",
    "C01s_nothing_after_close", "C01s_end_cause", "C01s_advance_5ms", "C01s_validated_advance_5ms",
    "C01s_round_ends_with_receive", "C01s_round_starts_after_receive", "C01s_example",
]

PART = {
    "props": ["Props/C01s.v"],
    "extract": ["Extract/ExtTcpSession.v"],
    "theorems": THEOREMS,
    "stages": [
        # every case = one full-stack scenario in a child process: two machines (Tcp / Ipv4 / [Arp] / Pci + a recording
        # application), A opens, B listens, both write pattern streams on their own schedules, the link observer
        # drops / duplicates / delays selected TCP frames (first n frames by hash + targeted SYN / SYN-ACK / data / ACK
        # frames), then a fault-free tail.  The session observer (elvis-core feature verif) records, per session task,
        # the Start snapshot and every call the task makes on its TCB in order.  The traces are judged by the Rust
        # oracle (prefix / exactly-once / liveness after the tail / quiescence / hook vs application) and,
        # independently, replayed on the extracted model by the validator (C01s_validate_sound).
        {"name": "session_validate", "bin": "c01_session", "model": "tcpsession", "kind": "validate",
         "n_quick": 240, "n_thorough": 20000, "shards": 8, "shards_thorough": 16, "seed_salt": 41,
         "known_from": ["C02"],
         "trivial_re": r"^(ERR|PANIC|REJECT|CRASH|HANG)"},
    ],
    "rule": "session_validate: corpus/C01/session_validate.txt first; case = `f mtu arp lat tail inj plan tgt wa wb` (harness/src/bin/c01_session.rs): MTU from "
            "{100, 101, 150, 576, 1500, 30000, 65535, random}; ARP or static MAC routes; link latency 0..7 ms; write "
            "schedules per side: none / a few writes around the segment size (mss-1, mss, mss+1, 2*mss) / 5..40 small "
            "back-to-back writes / one write of 64..150 KiB (above the window; only with a large segment size, to bound "
            "the trace) / the window boundary 65534..65537 / mixed gaps up to 250 ms; A's first write often directly "
            "after Tcp::open (before the handshake completes), B writes from its NewConnection notification on; faults: "
            "per-TCP-frame hash plan (drop / duplicate / delay up to 250 ms) on the first 0..200 TCP frames plus up to two "
            "targeted fates on the k-th SYN / SYN-ACK / data / ACK frame, then 2.5 s (virtual) without faults; one paused case "
            "in seven additionally forges a duplicate ACK followed by a RST (or FIN|ACK) carrying the sequence number the "
            "receiving side expects, 8..400 ms after Tcp::open (the task must end on the reset - Ended snapshot compared "
            "with the model TCB - or go on in CLOSE-WAIT where Tcb::send ignores text; no liveness expected then); 15 of 16 "
            "cases on the paused current-thread runtime (virtual time, deterministic), 1 of 16 on the multi-thread "
            "runtime with 2 workers (real time, short schedules). impl line = per session `S endpoints start-snapshot "
            "events` (C connected, I/E segments with all header fields and text, O/F bytes, A nanoseconds, X final "
            "snapshot, Zn = n idle rounds); the validator rebuilds the initial TCB with Tcb::open / "
            "segment_arrives_listen of the model from the snapshot (ISS, and for the listen path the SYN's SEQ / WND / "
            "ACK) and the case's MTU, compares it with the snapshot field by field, replays the observed instructions "
            "and timeouts on the model loop and compares every Emitted segment, every Flushed byte string, the "
            "Connected point, the 5 ms of each advance_time and (if the task ended) the final snapshot, and rejects any "
            "call order the loop cannot produce. Oracle (Rust, independent of the model): bytes handed to each "
            "application are a prefix of the peer's stream; the task's receive() results concatenated = what the "
            "application was given, no empty demux; handled Outgoing instructions = the application's writes in order; "
            "one NewConnection per side, matching the task's Connected; after the tail everything submitted was "
            "delivered and both tasks spent their last 60 (multi: 30) rounds idle (a non-empty retransmission queue "
            "re-emits within 21 idle rounds). distinct = distinct case line; non-trivial = the child did not crash",
    "trusted_base": [
        "Coq 8.16.1 kernel; vm_compute only in C01s_example",
        "hand transcription of the loop of tcp_session.rs (l.44-136, handle_instruction l.152-163) and of the two TCB "
        "constructors' call sites in tcp.rs -> Model/TcpSession.v, on top of Model/Tcb.v (lock-step checked, C01); "
        "checked by trace validation on sampled scenarios under the real runtime",
        "the elvis-core `verif` session observer (commit 82d1c349) reports the calls in the order the task makes them; "
        "Tcb::verif_snapshot",
        "extraction (ExtrOcamlBasic only) + ocaml/tcpsession_drv.ml + Rust harness c01_session; "
        "harness/src/stack.rs child-process scaffolding and the `verif` link observer",
        "Proofs/TcbSafety*.v (the invariant SysInv and its per-operation preservation lemmas) are reused unchanged",
    ],
    "assumptions": [
        "each direction's submitted stream is shorter than 2^31 - 2^17 bytes (as in C01_safety)",
        "the channel of instructions is modelled as an unbounded FIFO queue: the bounded mpsc channel (8 slots) with "
        "one spawned sender task per instruction delivers in hand-over order on the current-thread runtime; on the "
        "multi-thread runtime the spawned tasks raced (former finding c02-write-reorder-multithread, repaired by 3d926256: the channel is unbounded and written synchronously now, exactly the model's FIFO) "
        "(application writes reach the task in another order) - the oracle reports exactly that class as known and "
        "fails on any other reordering; C01s_session_safety is about the stream in the order the writes enter the "
        "channel",
        "tokio scheduling, real time and the wake-up of timeout(recv) are not modelled: the model lets the 5 ms "
        "timeout fire whatever the channel holds (a superset of the runtime's behaviour), and the validator follows the "
        "recorded order of calls; a trace may stop anywhere (the simulation is torn down while the tasks run), the "
        "validator accepts a prefix of a model execution",
        "try_recv Disconnected / recv None (l.79, l.97) cannot happen: the task itself holds a Sender through `me`",
        "an instruction taken by the timed receive (l.85) is indistinguishable, in the trace, from one taken by "
        "try_recv in a round with a single instruction; the validator attributes it to the drain loop",
        "a SYN carrying text is not rebuilt by the validator (the Start snapshot has its length only): such a start "
        "would be rejected; the stack never sends one",
        "liveness and quiescence after the fault-free tail are checked by the harness oracle only (not a theorem here; "
        "see C01_liveness_* for the TCB-level statements)",
    ],
}
