SPEC = {
    "id": "C06",
    "level": "proof",   # proof of the decision logic + trace validation of the running simulation (partial: runtime wake-ups)
    "coq": {
        "props": "Props/C06.v",
        "extract": ["Extract/ExtArpProto.v"],
        "theorems": [
            "C06_target_rule", "C06_target_rule_contains", "C06_start_records",
            "C06_table_truthful", "C06_never_wrong",
            "C06_succeeds_if_one_exchange",
            "C06_bounded_failure", "C06_cached_failure_origin", "C06_never_hangs",
            "C06_same_answer_ok", "C06_same_answer_refuted", "C06_same_answer", "C06_same_answer_unflipped",
            "C06_same_answer_concurrent", "C06_example_concurrent_hypotheses",
            "C06_validate_sound", "C06_validate_property", "C06_validate_results_sound",
            "C06_example_hypotheses", "C06_example_unclaimed",
        ],
        "allow_axioms": [],
    },
    "stages": [
        # the REAL Arp/Ipv4/Pci/Network stack in a child process per scenario; the recorded run is rendered as a
        # labelled trace of Model/ArpProto.v and replayed by the extracted validator (paused runtime: full timed
        # trace; multi-thread runtime: results-only validator); the property oracle is computed from the recorded
        # events and Pci's real MACs, without the model
        {"name": "arp_validate", "bin": "c06_arp", "model": "arpproto", "kind": "validate",
         "n_quick": 320, "n_thorough": 20000, "shards": 8, "shards_thorough": 16,
         "trivial_re": r"^(HANG|CRASH)"},
    ],
    "rule": "case = one network of 2..6 machines with 1..3 claimed addresses each (three /24s of 10.0.0.0/16 plus far "
            "addresses), preconfigured subnets on 40% of the claimed addresses (mask length from {0,8,16,20,23,24,28,30,"
            "31,32} or uniform 0..32; gateway = another machine's address 80%, an unclaimed address, or the machine's "
            "own), 1/6 of the addresses listened on late (1..2100 ms incl. the retry instants +-1 ms), optional run-time "
            "set_subnet, 1..6 resolvers (half of them repeat an earlier (machine, local, remote): concurrent resolvers "
            "of one address) started at 0..2300 ms incl. 199/200/201 and 1999/2000/2001, remote = another machine's / "
            "own / unclaimed / off-subnet / broadcast address, 1/6 through Ipv4::open_for_sending (MAC read off the "
            "datagram's frame), frame-fate plan over the running ARP frame index: none, drop first k, Bernoulli drop "
            "0.1/0.3/0.6, drop all, drop all but 1..3, mixed drop/duplicate/delay {1,50,199,200,201,400,1000,1800,"
            "2000} ms, all-dropped-but-delayed, duplicates; every 16th case is the failure-cache race template "
            "(answer arriving at the instant a sibling's budget runs out, +-1 ms); 4% on the multi-thread runtime "
            "(2/4/8 workers, results-only validation); 4% with MTU in {1,27,28,29,1500}; 1% with a tap slot the "
            "machine does not have (documented Pci::open panic). distinct = distinct case line; non-trivial = the "
            "child finished (no crash/hang)",
    "trusted_base": [
        "Coq 8.16.1 kernel (coqc; vm_compute only in the three closed witness computations)",
        "hand transcription arp.rs (resolve, demux, listen, set_subnet, ArpTable) + the delivery rule of "
        "network.rs / pci_session.rs -> Model/ArpProto.v, checked by replaying recorded runs of the implementation",
        "trace reconstruction in harness/src/bin/c06_arp.rs: polls of a resolver are inferred from its retry "
        "request frames (placed at the start of their instant) and from its return; a wrong attribution can only "
        "make the validator reject",
        "extraction (ExtrOcamlBasic only) + OCaml driver ocaml/arpproto_drv.ml; link observer of the verif feature "
        "(harness/src/stack.rs) for frame fates and delivery events",
    ],
    "assumptions": [
        "one network, one tap per machine (slot 0); packets are the parsed ArpPacket fields (wire codec: property "
        "C08), MACs below 2^48-1 so that the 6-byte wire field is lossless",
        "tokio runtime behaviour is not modelled, only assumed in the shape of the labels: a poll of "
        "timeout(RESEND_DELAY, get_mac) checks the table first and the deadline second; the watch channel wakes "
        "every waiter after set_mac/fail_mac (no lost wake-up); virtual time does not advance while a task is "
        "runnable. The validator enforces these on every recorded paused-runtime run (a late or missing wake-up, a "
        "hang, a wrong retry instant are rejected); multi-thread runs are validated on results only",
        "C06_same_answer needs the hypothesis no_late_answer (no ARP packet of an address reaches a machine holding a "
        "cached failure for it), C06_same_answer_concurrent the weaker no_late_answer_to_waiter (not while a resolver "
        "of that address still waits there); without it the statement is refuted on model and implementation "
        "(C06_same_answer_refuted, oracle class c06-failed-cache-race)",
        "theorem domain: wf_cfg = claimed addresses pairwise distinct, MACs distinct, subnets only on claimed "
        "addresses; resolvers use a local address their machine may claim",
    ],
}
