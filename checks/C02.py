SPEC = {
    "id": "C02",
    "level": "proof",
    "coq": {
        "props": "Props/C02.v",
        "extract": ["Extract/ExtSocketRecv.v"],
        "theorems": [
            "C02_recv_bound", "C02_recv_bound_refuted", "C02_recv_bound_refuted_long",
            "C02_recv_conserves", "C02_recv_msg_conserves", "C02_reads_conserve", "C02_reads_bounded",
            "C02_fifo_stream", "C02_fifo_stream_satisfiable", "C02_fifo_needed", "C02_unordered_is_permutation",
            "C02_datagram", "C02_datagram_peer_only", "C02_demux_whole", "C02_accept_replays",
            "C02_validate_stream_sound", "C02_validate_stream_unordered_sound", "C02_validate_dgram_sound",
            "C02_remark_queue_overflow", "C02_remark_accept_overflow_panics",
        ],
        "allow_axioms": [],
    },
    "stages": [
        # unit level: the receive side of the Sockets API (listen / demux / notify / accept with replay /
        # recv(n) / recv_msg / set_blocking) driven through its public interface, in lock-step with the model
        # (the repaired recv; `ocaml/bin/sockrecv orig` is the model of the unchanged tree)
        {"name": "recv_lockstep", "bin": "c02_recv", "model": "sockrecv",
         "n_quick": 6000, "n_thorough": 600000, "shards": 4, "shards_thorough": 16},
        # full stack: real simulations in child processes; the property oracle judges the bytes, the extracted
        # validators (validate_stream / validate_stream_unordered / validate_dgram) judge the same trace
        {"name": "sock_validate", "bin": "c02_sock", "model": "sockrecv", "kind": "validate", "model_args": "validate",
         "seed_salt": 20202, "n_quick": 320, "n_thorough": 16000, "shards": 8, "shards_thorough": 16,
         "trivial_re": r"^(ERR|PANIC|REJECT|CRASH|HANG|TimedOut)"},
    ],
    "rule": "recv_lockstep: case = a script on one listening socket (stream or datagram, bound to the exact address "
            "or to 0.0.0.0, backlog 0..6): messages of 0..40 bytes demultiplexed for 1..4 remote endpoints before and "
            "after accept (so that accept replays stored messages), NewConnection notifications, accept, recv(n) with "
            "n in {0,1,2..6,7..14,15..50,1000,drain}, recv_msg, blocking / non-blocking; 5% scripts overflow the "
            "255-message channel before or after accept (incl. the accept panic); every byte names its remote "
            "endpoint and carries a running counter; result = one token per call; distinct = distinct case line; "
            "non-trivial = listen did not panic. "
            "sock_validate: case = one network (MTU 100..1500), server + 1..4 clients (SocketAPI, TCP|UDP, IPv4, "
            "ARP or broadcast delivery, PCI), per client an upstream schedule of 0..20 writes of 1..20000 bytes "
            "back-to-back or spaced by sleeps, one downstream schedule written by every accepted socket, read sizes "
            "1 / small / the peer's write sizes / large / mixed, delayed accept, per-frame fate plan (jitter up to "
            "40 ms, 5..30% drops with at most k<=3 consecutive per direction, 5..20% duplicates), 88% on the paused "
            "current-thread runtime, 12% on multi-thread runtimes with 2,3,4,8,16 workers (no faults, real time); "
            "5% of the datagram scenarios contain datagrams larger than the link carries; result = status and the "
            "reads of both directions of every connection in a lossless pattern-relative encoding; non-trivial = the "
            "simulation exited normally.",
    "trusted_base": [
        "Coq 8.16.1 kernel (coqc; vm_compute only in the closed witnesses: the refutations, the satisfiability "
        "example and the two overflow remarks)",
        "hand transcription socket.rs (recv, recv_msg, accept, set_blocking), socket_session.rs, socket_api.rs "
        "(get_socket_session, listen, demux, notify) -> Model/SocketRecv.v, checked by lock-step on sampled scripts "
        "through the public API (SocketAPI::demux/notify stand in for the transport session)",
        "Message modelled as its byte list (refinement: property C07); tokio mpsc channels modelled as lists with "
        "their capacity (255 messages; the backlog given to listen)",
        "extraction (ExtrOcamlBasic only) + OCaml driver ocaml/sockrecv_drv.ml (payload pattern, parsing of the "
        "pattern-relative encoding) + Rust harnesses c02_recv / c02_sock (child processes, harness/src/stack.rs, "
        "the verif link observer of elvis-core)",
        "full stack: testing + trace validation only. The model cannot exhibit tokio task scheduling, real time, "
        "channel wake-ups or the TCP/IP layers; C02_fifo_stream takes the in-order hand-off of the writes to the "
        "TCP session (Socket::send and TcpSession::send spawn one task per write) and the in-order transfer by "
        "TCP (property C01) as explicit hypotheses",
    ],
    "assumptions": [
        "the main model follows the repair /verif/.cache/c02/fix-recv.patch (recv uses bytes - buf.len() inside the "
        "loop); `recv false` is the unchanged code and is what C02_recv_bound_refuted speaks about",
        "on the current-thread runtime spawned tasks run in spawn order (the FIFO hypothesis holds: strict validation); "
        "on multi-thread runtimes the validator checks the permutation guarantee only "
        "(C02_unordered_is_permutation); the reordering it used to show (class c02-write-reorder-multithread) was repaired by 3d926256 and is a violation again",
        "usize lengths are nat (no overflow: a Vec cannot exceed isize::MAX); bytes - buf.len() cannot underflow "
        "inside `while buf.len() < bytes`",
        "no socket is closed during a script / scenario (close only removes the session mapping); the accept of an "
        "already active session (model branch SActive) is unreachable without close",
        "datagram sockets are read with recv_msg; recv(n) on a datagram socket has stream semantics in this code "
        "(it merges and splits datagrams) and is covered by the stream theorems only",
        "readers stop after 30 s of virtual silence (paused runtime) or 300 ms after an expected total / 8 s of "
        "real silence (multi-thread runtime)",
    ],
}
