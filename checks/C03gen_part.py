# Kit translate: second, deterministic tie for C03 by TRANSLATION of the enum State (state.rs) and of the state
# dispatch of impl Tcb (tcb.rs: arm groups of every `match self.state`, comparisons with a literal state).
# The coordinator merges PART into checks/C03.py: props / theorems / trusted_base / assumptions appended and
# SPEC["pre"] = [regenerate_state_gen] (import the function from this file).
import os
import subprocess


def regenerate_state_gen(ctx):
    """Regenerate coq/Gen/StateGen.v from the CURRENT state.rs / tcb.rs (written only when its content changes)."""
    tool = os.path.join(os.path.dirname(os.path.abspath(__file__)), "..", "tools", "translate_state.py")
    p = subprocess.run(["python3", tool], capture_output=True, text=True)
    if p.returncode != 0:
        return ["translator tools/translate_state.py no longer translates state.rs / the state dispatch of tcb.rs: "
                + (p.stdout + p.stderr).strip()[:400]]
    return []


THEOREMS = [
    "C03gen_state_is_model", "C03gen_calls_follow_tables", "C03gen_process_segment_follows_tables",
    "C03gen_comparisons", "C03gen_tables_complete",
]

PART = {
    "props": ["Props/C03gen.v"],
    "theorems": THEOREMS,
    "pre": "regenerate_state_gen",
    "trusted_base": [
        "translator tools/rs2gallina.py + tools/translate_state.py (rerun on every check; coq/Gen/StateGen.v is never "
        "edited by hand): trusted to read the variant list of `enum State` in declaration order, derive(PartialEq) as "
        "equality of discriminants, and from tcb.rs the PATTERNS (`State::A | State::B`, `_`) of every `match "
        "self.state` in impl Tcb with first-match semantics, plus every `self.state ==/!= State::V`; any other pattern "
        "form, a guard, a non-exhaustive or unreachable arm, or another use of self.state makes it exit 2",
        "arm BODIES of tcb.rs are not translated: they remain the hand transcription Model/Tcb.v (checked by the "
        "lock-step of C01/C03); the tie is that the hand model selects its per-arm code by exactly the generated arm "
        "index (the *_arm restatements in Proofs/StateGen.v are proved equal to the model functions)",
    ],
    "assumptions": [
        "state.rs declares only the enum (no predicate methods exist); the state predicates of the TCB are the arm "
        "groups of tcb.rs, identified by function name and ordinal of the match inside the function",
        "Tcb::abort is not in the hand model; its dispatch table is recorded (C03gen_tables_complete) so that a change is noticed",
        "functions of impl Tcb under a cfg attribute (verif_snapshot) are skipped",
    ],
}
