# C18 - checksums (cargo feature compute_checksum).  Kit codecip.
# Model switch ck = true ("ck1"); the models follow /repo after repair c999f3a6 (IPv4 / TCP
# decoders accept the conforming field 0x0000 when the computed value is 0xffff).  Against a
# tree without it pass model_args "ck1 fck0": the lock-step then agrees and the oracle reports
# the rejected conforming packets (the defect).
SPEC = {
    "id": "C18",
    "level": "proof",
    "coq": {
        "props": "Props/C18.v",
        "extract": ["Extract/ExtCodecIp.v"],
        "theorems": [
            "C18_add16_is_code", "C18_oc_sum_norm", "C18_acc_congr", "C18_oc_sum_zero_iff", "C18_fold32",
            "C18_as_u16_conforming", "C18_emitted_sum_verifies",
            "C18_ipv4_emitted_verifies", "C18_udp_emitted_verifies", "C18_tcp_emitted_verifies",
            "C18_ipv4_accept_iff", "C18_udp_accept_iff", "C18_tcp_accept_iff",
            "C18_ipv4_accepts_reference", "C18_udp_accepts_reference", "C18_tcp_accepts_reference",
            "C18_ipv4_accepts_reference_orig_refuted", "C18_tcp_accepts_reference_orig_refuted",
            "C18_ipv4_corruption_detected", "C18_udp_corruption_detected", "C18_tcp_corruption_detected",
            "C18_single_flip_changes_sum",
            "C18_ipv4_single_flip_rejected", "C18_udp_single_flip_rejected", "C18_tcp_single_flip_rejected",
            "C18_double_flip_unchanged_iff",
            "C18_ipv4_double_flip_rejected", "C18_udp_double_flip_rejected", "C18_tcp_double_flip_rejected",
        ],
        "allow_axioms": [],
    },
    "stages": [
        {"name": "cksum_lockstep", "bin": "c18_cksum", "features": "compute_checksum", "model": "codecip",
         "model_args": "ck1", "n_quick": 20000, "n_thorough": 600000, "shards": 4, "shards_thorough": 16},
    ],
    "rule": "compute_checksum build: cases = builder calls (IPv4 header, UDP, TCP) with random / edge fields and "
            "payloads empty, 1..3, odd and even up to 48 bytes and the maxima 65515 / 65527 (given as (len, seed)); "
            "the same with one 16-bit field solved so that the one's-complement sum of the other words is 0xffff, "
            "0xfffe, 0x0001, 0x8000, 0x00ff (half of them 0xffff); decode of packets in reference encoding (conforming "
            "checksum computed by plain u64 arithmetic, asserted equal to etherparse's calc_checksum_* on every case), "
            "incl. the constructed sums; hostile strings (truncation, flips, surgery, wrong packet_len) with and "
            "without a repaired checksum; the Checksum accumulator on arbitrary add_u16 / add_u8 / add_u32 / "
            "accumulate_remainder sequences incl. all-zero input (sum 0x0000) and sums closed on 0xffff; single-bit "
            "flips (the header swept systematically, the last byte of odd payloads over-weighted) and double-bit flips "
            "(half of them at the same bit position of two words = the compensating candidates) of accepted packets. "
            "Oracle: emitted packet verifies (sum incl. pseudo header = 0xffff) and equals etherparse's bytes (up to "
            "0xffff for 0x0000 in the field); reference packets accepted with etherparse's fields; every accepted "
            "packet verifies; a flip is rejected iff it changes the covered sum modulo 65535, single flips always. "
            "distinct = distinct case line; non-trivial = result line does not start with ERR/PANIC",
    "trusted_base": [
        "Coq 8.16.1 kernel (coqc; vm_compute only for closed witnesses and the finite sweeps: 256x8 bit flips of a byte, "
        "16 powers of two, 16x16x4 flip pairs)",
        "hand transcription utility.rs (Checksum) and the three *_parsing.rs -> Model/{Checksum,Ipv4Hdr,UdpHdr,TcpHdr}.v, "
        "checked by lock-step on sampled inputs",
        "rfc1071_verifies / rfc1071_checksum / pseudo as a faithful reading of RFC 1071 sections 1-2, RFC 768 and "
        "RFC 9293 3.1; etherparse 0.10 as the independent conforming implementation in the harness",
        "extraction (ExtrOcamlBasic only) + OCaml driver ocaml/codecip_drv.ml + Rust harness c18_cksum "
        "(harness/src/bin/codecip_common/mod.rs), built with --features compute_checksum",
    ],
    "assumptions": [
        "byte strings are lists of Z with every element in 0..255; addresses are u32, packet_len >= 0",
        "'altered in a way the Internet checksum can detect' is read as: the sum of the covered 16-bit words changes "
        "modulo 65535 (C18_*_corruption_detected); single- and double-bit flips are then characterised exactly",
        "the decoders are given the same packet_len and addresses for the intact and the corrupted packet (corruption "
        "of header or payload bits, as the property says; the pseudo header comes from the IPv4 layer)",
        "UDP: a field of 0x0000 (sender computed no checksum) is rejected when checksums are enabled "
        "(C18_udp_accept_iff); conforming senders never emit it (RFC 768)",
        "IPv4 / TCP decoders as repaired by c999f3a6; witnesses for the tree before: C18_*_accepts_reference_orig_refuted",
    ],
}

import vlib  # noqa: E402
vlib.merge_part(SPEC, "C18gen_part")
