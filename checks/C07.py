import os
import re

MSG_SOURCES = [
    "/repo/sim/elvis-core/src/message.rs",
    "/repo/sim/elvis-core/src/message/chunk.rs",
]
# anything that could write through a shared Arc<Vec<u8>> buffer
MUTATION_RE = re.compile(r"\bunsafe\b|get_mut\b|make_mut\b|as_mut\b|borrow_mut\b|get_mut_unchecked|as_mut_ptr|"
                         r"\bRefCell\b|\bCell\b|\bMutex\b|\bRwLock\b|\bAtomic\w*|try_unwrap|into_inner")


def no_buffer_mutation(ctx):
    """The Coq model gives every chunk its own copy of the buffer; that is only faithful if the shared
    Arc<Vec<u8>> is never written.  Structural side condition: the two source files contain no API that
    could obtain mutable access to (or interior mutability inside) the shared storage, the buffer field keeps
    its type, and every assignment to a chunk field is to start/end only."""
    out = []
    for p in MSG_SOURCES:
        if not os.path.exists(p):
            out.append("C07 structural: missing source file " + p)
            continue
        in_tests = False
        for i, line in enumerate(open(p, errors="replace").read().split("\n"), 1):
            if re.match(r"\s*#\[cfg\(test\)\]", line):
                in_tests = True   # unit tests at the end of message.rs are not part of the library
            code = line.split("//")[0]
            if in_tests:
                continue
            m = MUTATION_RE.search(code)
            if m:
                out.append("C07 structural: %s:%d uses `%s`: shared chunk storage may be mutated: %s"
                           % (p, i, m.group(0), line.strip()[:100]))
            if re.search(r"\.bytes\s*(=[^=]|\+=|\.push|\.extend|\.insert|\.clear|\.truncate|\.drain|\.remove)", code):
                out.append("C07 structural: %s:%d writes to a chunk buffer: %s" % (p, i, line.strip()[:100]))
    chunk = open(MSG_SOURCES[1], errors="replace").read() if os.path.exists(MSG_SOURCES[1]) else ""
    if not re.search(r"bytes:\s*Arc<Vec<u8>>", chunk):
        out.append("C07 structural: Chunk.bytes is no longer Arc<Vec<u8>> (model assumes an immutable shared Vec)")
    if re.search(r"pub\s+bytes\s*:", chunk):
        out.append("C07 structural: Chunk.bytes became fully public")
    return out


SPEC = {
    "id": "C07",
    "level": "proof",
    "coq": {
        "props": "Props/C07.v",
        "extract": ["Extract/ExtMessage.v"],
        "theorems": [
            "C07_default_refines", "C07_new_refines", "C07_header_refines", "C07_concat_refines",
            "C07_slice_refines", "C07_slice_out_of_range_panics", "C07_slice_range_forms",
            "C07_inverted_range_remark", "C07_range_sum_no_overflow",
            "C07_cut_refines", "C07_remove_front_refines",
            "C07_observations_refine", "C07_eq_refines",
            "C07_step_refines", "C07_history", "C07_history_observed",
            "C07_frame", "C07_frame_history", "C07_clone_independent", "C07_history_example",
        ],
        "allow_axioms": [],
    },
    "structural": [no_buffer_mutation],
    "stages": [
        {"name": "pool_lockstep", "bin": "c07_message", "model": "message", "n_quick": 5000, "n_thorough": 200000,
         "shards": 4, "shards_thorough": 16},
    ],
    "rule": "case = one whole op sequence (1..60 ops + prologue) over a pool of 8 Message slots: new / clone / header / "
            "concatenate(clone) / slice by all six range forms / cut / remove_front / ==; buffers of 0..40 bytes incl. "
            "empty chunks; cut and slice points from {0, every chunk edge and edge+-1, len, uniform}; one case in three "
            "contains a must-panic op (len+1, len+k, usize::MAX, usize::MAX-k, inverted ranges, ..=usize::MAX). After "
            "every op the dump (len, to_vec, iter, is_empty) of EVERY slot is compared with the extracted model "
            "(delta-encoded) and with a pool of plain Vec<u8> (property oracle), and == of all 64 slot pairs with Vec "
            "equality. distinct = distinct case line; non-trivial = the case's first op does not panic",
    "trusted_base": [
        "Coq 8.16.1 kernel (coqc; vm_compute only in the satisfiability example)",
        "hand transcription message.rs / chunk.rs / slice_range.rs -> Model/Message.v, checked by lock-step on sampled op sequences",
        "extraction (ExtrOcamlBasic only) + OCaml driver ocaml/message_drv.ml + Rust harness c07_message",
        "the model copies buffers: absence of writes to the shared Arc<Vec<u8>> is checked by the all-slots lock-step and "
        "the structural grep (no unsafe / get_mut / make_mut / as_mut / interior mutability in message.rs, chunk.rs)",
    ],
    "assumptions": [
        "usize is 64 bit; byte vectors handed to new/header have len <= usize::MAX (is_vec)",
        "`s..e` with s > e is outside the property (Vec indexing panics, Message::slice yields the empty message when "
        "s <= len): stated as C07_inverted_range_remark, counted as remark_inverted_range_gives_empty in the stats",
        "header/concatenate: the reference panics when the total length exceeds usize::MAX (a real Vec fails earlier, at isize::MAX)",
        "a RangeInclusive that was partially iterated (exhausted flag) is not modelled",
    ],
}
