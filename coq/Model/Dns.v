(* Model of sim/elvis-core/src/protocols/dns/dns_parsing.rs
   (DnsMessage::from_bytes l.26-94, DnsMessage::to_message l.116-123,
    DnsHeader::build l.177-186, DnsQuestion::build l.210-221,
    DnsQuestion::query_name l.223-226, DnsResourceRecord::build l.261-275). *)
From Elvis Require Import Model.Base Model.AppBytes.
Local Open Scope Z_scope.

(* struct DnsHeader (l.127-145), six u16 *)
Record dns_header := mkDnsHeader {
  d_id : Z; d_properties : Z; d_qdcount : Z; d_ancount : Z; d_nscount : Z; d_arcount : Z }.
(* struct DnsQuestion (l.192-196) *)
Record dns_question := mkDnsQuestion { q_qname : list Z; q_qtype : Z; q_qclass : Z }.
(* struct DnsResourceRecord (l.232-240) *)
Record dns_rr := mkDnsRr {
  r_name : list Z; r_rec_type : Z; r_class : Z; r_ttl : Z; r_rdlength : Z; r_rdata : list Z }.
(* struct DnsMessage (l.19-23) *)
Record dns_message := mkDnsMessage {
  m_header : dns_header; m_question : dns_question; m_answer : dns_rr }.

(* error codes: 1 = ParseError::HeaderTooShort,
   2 = ParseError::InvalidName (added by the repair of query_name) *)

Definition SP : Z := 32.   (* b' ', the name delimiter *)

Definition dns_header_build (h : dns_header) : list Z :=            (* l.177-186 *)
  be16 (d_id h) ++ be16 (d_properties h) ++ be16 (d_qdcount h) ++
  be16 (d_ancount h) ++ be16 (d_nscount h) ++ be16 (d_arcount h).
Definition dns_question_build (q : dns_question) : list Z :=        (* l.210-221 *)
  q_qname q ++ [SP] ++ be16 (q_qtype q) ++ be16 (q_qclass q).
Definition dns_rr_build (r : dns_rr) : list Z :=                    (* l.261-275 *)
  r_name r ++ [SP] ++ be16 (r_rec_type r) ++ be16 (r_class r) ++ be32 (r_ttl r) ++
  be16 (r_rdlength r) ++ r_rdata r.
(* to_message (l.116-123): always Ok *)
Definition dns_to_message (m : dns_message) : list Z :=
  dns_header_build (m_header m) ++ dns_question_build (m_question m) ++ dns_rr_build (m_answer m).

(* l.59-63:  let mut i: u16 = 0;
             while i < rdlength { rdata.push(bytes.next_u8().ok_or(HTS)?); i += 1; }
   `i += 1` on a u16 is a checked addition in the dev profile: site 20. *)
Fixpoint rdata_loop (i rdlength : Z) (bs : list Z) {struct bs} : result (list Z * list Z) :=
  if i <? rdlength then
    match bs with
    | [] => Err 1
    | c :: r =>
        if 65535 <? i + 1 then Panic 20
        else do (l, r') <- rdata_loop (i + 1) rdlength r; Ok (c :: l, r')
    end
  else Ok ([], bs).

Definition dns_from_bytes (bs : list Z) : result (dns_message * list Z) :=
  do (id, bs) <- rd (next_u16 bs);                          (* l.29 *)
  do (properties, bs) <- rd (next_u16 bs);                  (* l.30 *)
  do (qdcount, bs) <- rd (next_u16 bs);                     (* l.31 *)
  do (ancount, bs) <- rd (next_u16 bs);                     (* l.32 *)
  do (nscount, bs) <- rd (next_u16 bs);                     (* l.33 *)
  do (arcount, bs) <- rd (next_u16 bs);                     (* l.34 *)
  do (qname, bs) <- read_until SP bs;                       (* l.37-42 *)
  do (qtype, bs) <- rd (next_u16 bs);                       (* l.43 *)
  do (qclass, bs) <- rd (next_u16 bs);                      (* l.44 *)
  do (name, bs) <- read_until SP bs;                        (* l.47-53 *)
  do (rec_type, bs) <- rd (next_u16 bs);                    (* l.54 *)
  do (class, bs) <- rd (next_u16 bs);                       (* l.55 *)
  do (ttl, bs) <- rd (next_u32 bs);                         (* l.56 *)
  do (rdlength, bs) <- rd (next_u16 bs);                    (* l.57 *)
  do (rdata, bs) <- rdata_loop 0 rdlength bs;               (* l.59-63 *)
  Ok (mkDnsMessage (mkDnsHeader id properties qdcount ancount nscount arcount)
                   (mkDnsQuestion qname qtype qclass)
                   (mkDnsRr name rec_type class ttl rdlength rdata), bs).

(* query_name (l.223-226), used by the server on every decoded request.
   As it is: String::from_utf8(self.qname.clone()).unwrap()  -> site 21.
   Repaired: .map_err(|_| ParseError::InvalidName). The String is modelled by
   its bytes. *)
Definition dns_query_name_orig (q : dns_question) : result (list Z) :=
  if utf8_valid (q_qname q) then Ok (q_qname q) else Panic 21.
Definition dns_query_name (q : dns_question) : result (list Z) :=
  if utf8_valid (q_qname q) then Ok (q_qname q) else Err 2.

Definition dns_header_wf (h : dns_header) : bool :=
  rng 65536 (d_id h) && rng 65536 (d_properties h) && rng 65536 (d_qdcount h) &&
  rng 65536 (d_ancount h) && rng 65536 (d_nscount h) && rng 65536 (d_arcount h).
Definition dns_question_wf (q : dns_question) : bool :=
  bytes (q_qname q) && free_of SP (q_qname q) && rng 65536 (q_qtype q) && rng 65536 (q_qclass q).
(* rdlength = |rdata| holds for every value the public API can build
   (DnsResourceRecord::new l.246-259 and from_bytes); the field is private *)
Definition dns_rr_wf (r : dns_rr) : bool :=
  bytes (r_name r) && free_of SP (r_name r) && rng 65536 (r_rec_type r) && rng 65536 (r_class r) &&
  rng 4294967296 (r_ttl r) && rng 65536 (r_rdlength r) &&
  (r_rdlength r =? Z.of_nat (length (r_rdata r))) && bytes (r_rdata r).
Definition dns_wf (m : dns_message) : bool :=
  dns_header_wf (m_header m) && dns_question_wf (m_question m) && dns_rr_wf (m_answer m).
