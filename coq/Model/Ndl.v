(* Executable model of the network description (NDL) parser:
     sim/elvis/src/ndl/parsing/{parser.rs, parser_util.rs, network_parser.rs,
     machine_parser.rs, parsing_data.rs}
   and of the nom 7.1.3 combinators those files use (bytes/complete.rs,
   character/complete.rs, multi/mod.rs, traits.rs), transcribed by hand.

   Characters are Unicode scalar values (N); a text is a list of them.  The
   Rust code works on UTF-8 [&str]; wherever a BYTE offset matters (slicing,
   [take_split], [len]) the model computes UTF-8 lengths with [u8len] and a
   split that does not fall on a character boundary is a [Panic].

   Two parsers are defined from one generic stack (Section Parser):
     core_parse       - follows the REPAIRED get_type (patch .cache/ndl/fix.patch:
                        ASCII keyword match, no "IPtype" alternative)
     core_parse_orig  - the unchanged tree (tag_no_case + DecType::from with its
                        unimplemented!() arm)
   Error values: [Err e] with e = class + 100 * (line + 1), line = -1 when the
   message carries no line of its own (see [ecode]); the text of the message is
   NOT modelled. *)
From Elvis Require Import Model.Base.
From Coq Require Import NArith.
Local Open Scope N_scope.

Definition text := list N.

(* ---- characters ------------------------------------------------------- *)
Definition c_tab : N := 9.
Definition c_nl : N := 10.
Definition c_cr : N := 13.
Definition c_sp : N := 32.
Definition c_quote : N := 39.    (* ' *)
Definition c_eq : N := 61.       (* = *)
Definition c_lbr : N := 91.      (* [ *)
Definition c_bslash : N := 92.   (* \ *)
Definition c_rbr : N := 93.      (* ] *)
Definition c_kelvin : N := 8490. (* U+212A KELVIN SIGN, lower-cases to 'k' *)

(* char::len_utf8 *)
Definition u8len (c : N) : N :=
  if c <? 128 then 1 else if c <? 2048 then 2 else if c <? 65536 then 3 else 4.

Fixpoint bytelen (s : text) : N :=
  match s with [] => 0 | c :: r => u8len c + bytelen r end.

(* str::split_at / slicing at a byte offset: None = offset beyond the end or
   inside a character (both panic in Rust) *)
Fixpoint split_bytes (fuel : nat) (n : N) (s : text) : option (text * text) :=
  if n =? 0 then Some ([], s) else
  match fuel with
  | O => None
  | S f =>
    match s with
    | [] => None
    | c :: r =>
      if u8len c <=? n then
        match split_bytes f (n - u8len c) r with
        | Some (a, b) => Some (c :: a, b)
        | None => None
        end
      else None
    end
  end.

(* ---- the global rewrites of core_parser (parser.rs:14-17) -------------- *)
(* .replace('\r', "") *)
Fixpoint remove_cr (s : text) : text :=
  match s with
  | [] => []
  | c :: r => if c =? c_cr then remove_cr r else c :: remove_cr r
  end.

(* .replace("    ", "\t"): leftmost, non-overlapping *)
Fixpoint sp4 (s : text) : text :=
  match s with
  | [] => []
  | c1 :: r1 =>
    match r1 with
    | c2 :: (c3 :: (c4 :: r4)) =>
      if (c1 =? c_sp) && (c2 =? c_sp) && (c3 =? c_sp) && (c4 =? c_sp)
      then c_tab :: sp4 r4 else c1 :: sp4 r1
    | _ => c1 :: sp4 r1
    end
  end.

Definition rewrite (s : text) : text := sp4 (remove_cr s).

(* ---- DecType (parsing_data.rs:8-19) ------------------------------------ *)
Inductive dectype :=
| Template | Networks | Network | IP | Machines | Machine
| Protocols | Protocol | Applications | Application.

Definition dectype_eqb (a b : dectype) : bool :=
  match a, b with
  | Template, Template | Networks, Networks | Network, Network | IP, IP
  | Machines, Machines | Machine, Machine | Protocols, Protocols
  | Protocol, Protocol | Applications, Applications | Application, Application => true
  | _, _ => false
  end.

(* the lower-case spellings matched by DecType::from (parsing_data.rs:117-128)
   and, capitalised, by get_type (parser_util.rs:113-125) *)
Definition t_template : text := [116;101;109;112;108;97;116;101].
Definition t_networks : text := [110;101;116;119;111;114;107;115].
Definition t_network : text := [110;101;116;119;111;114;107].
Definition t_iptype : text := [105;112;116;121;112;101].
Definition t_ip : text := [105;112].
Definition t_machines : text := [109;97;99;104;105;110;101;115].
Definition t_machine : text := [109;97;99;104;105;110;101].
Definition t_protocols : text := [112;114;111;116;111;99;111;108;115].
Definition t_protocol : text := [112;114;111;116;111;99;111;108].
Definition t_applications : text := [97;112;112;108;105;99;97;116;105;111;110;115].
Definition t_application : text := [97;112;112;108;105;99;97;116;105;111;110].

Definition tag_name (d : dectype) : text :=
  match d with
  | Template => t_template | Networks => t_networks | Network => t_network | IP => t_ip
  | Machines => t_machines | Machine => t_machine | Protocols => t_protocols
  | Protocol => t_protocol | Applications => t_applications | Application => t_application
  end.

(* ---- panic sites and error classes ------------------------------------ *)
Definition SITE_UNIMPL : Z := 1.   (* parsing_data.rs:128 unimplemented!() *)
Definition SITE_SPLIT : Z := 2.    (* nom tag_no_case -> take_split -> str::split_at off a char boundary *)
Definition SITE_SLICE : Z := 3.    (* &remaining_string[num_tabs as usize..] *)
Definition SITE_UNWRAP : Z := 4.   (* machine_parser.rs:151 position(..).unwrap() *)

Definition E_SECTION : Z := 1.     (* nom error of [section] *)
Definition E_DECTYPE : Z := 2.     (* nom error of [get_type] *)
Definition E_EXTRA : Z := 3.       (* "extra argument at" *)
Definition E_DUPARG : Z := 4.      (* "duplicate argument" *)
Definition E_CANNOT : Z := 5.      (* "Cannot declare ... here" *)
Definition E_DUPID : Z := 6.       (* "due to duplicate id" *)
Definition E_TABCOUNT : Z := 7.    (* "Invalid tab count" *)
Definition E_MISSINGID : Z := 8.   (* "due to missing id" *)
Definition E_EXPECTED : Z := 9.    (* "expected type X and got type Y" *)
Definition E_TABSGOT : Z := 10.    (* "expected n tabs and got m tabs" *)
Definition E_REQUIRED : Z := 11.   (* "Failed to include all required types" *)
Definition E_FORMAT : Z := 12.     (* "Invalid formatting" *)
Definition E_UNEXPECTED : Z := 13. (* "Unexpected type" *)
Definition E_ARGS : Z := 14.       (* "unable to parse arguments" (many0 no-progress; unreachable) *)

(* line = -1: the message has no "Line n:" of its own; the first enclosing
   general_error supplies one ([wrapline]) *)
Definition ecode (cls line : Z) : Z := (cls + 100 * (line + 1))%Z.
Definition ecls (e : Z) : Z := (e mod 100)%Z.
Definition eline (e : Z) : Z := (e / 100 - 1)%Z.
Definition wrapline (l e : Z) : Z := if (e <? 100)%Z then ecode e l else e.

(* ---- nom combinators on &str ------------------------------------------- *)
(* take_until(p) for a one-character pattern: (before, from p on) *)
Fixpoint take_until (p : N) (s : text) : option (text * text) :=
  match s with
  | [] => None
  | c :: r =>
    if c =? p then Some ([], s)
    else match take_until p r with
         | Some (a, b) => Some (c :: a, b)
         | None => None
         end
  end.

(* section (parser_util.rs:130-132): delimited(char('['), take_until("]"), char(']'))
   returns (content, remaining) *)
Definition section (s : text) : option (text * text) :=
  match s with
  | [] => None
  | c :: r =>
    if c =? c_lbr then
      match take_until c_rbr r with
      | Some (content, _ :: rest) => Some (content, rest)
      | _ => None
      end
    else None
  end.

(* check_space_or_newline (parser_util.rs:151-153): [chr as u8] keeps the low
   eight bits of the scalar value *)
Definition is_ws (c : N) : bool :=
  let b := c mod 256 in (b =? c_sp) || (b =? c_tab) || (b =? c_nl).

Fixpoint span_ws (s : text) : text * text :=
  match s with
  | [] => ([], [])
  | c :: r => if is_ws c then let (a, b) := span_ws r in (c :: a, b) else ([], s)
  end.

(* escaped(none_of("\\'"), '\\', tag("'")) (bytes/complete.rs:509-588).
   [first] = no character consumed yet (index == 0).  None = Err::Error. *)
Fixpoint escaped (first : bool) (i : text) : option (text * text) :=
  match i with
  | [] => Some ([], [])
  | c :: r =>
    if c =? c_bslash then
      match r with
      | [] => None                                   (* next >= input_len *)
      | d :: r' =>
        if d =? c_quote then
          match escaped false r' with
          | Some (v, rest) => Some (c :: d :: v, rest)
          | None => None
          end
        else None                                    (* escapable failed *)
      end
    else if c =? c_quote then
      (if first then None else Some ([], i))         (* index == 0 -> Escaped error *)
    else
      match escaped false r with
      | Some (v, rest) => Some (c :: v, rest)
      | None => None
      end
  end.

(* alt((escaped(..), tag(""))) *)
Definition value_body (i : text) : text * text :=
  match escaped true i with
  | Some x => x
  | None => ([], i)
  end.

(* one element of [arguments] (parser_util.rs:139-147):
   separated_pair(preceded(take_while1(ws), take_until("=")), char('='),
                  delimited(tag("'"), alt(..), tag("'"))) *)
Definition arg1 (i : text) : option ((text * text) * text) :=
  let (ws, r) := span_ws i in
  match ws with
  | [] => None
  | _ :: _ =>
    match take_until c_eq r with
    | None => None
    | Some (key, r2) =>
      match r2 with
      | [] => None
      | _ :: r3 =>                                   (* the '=' found by take_until *)
        match r3 with
        | [] => None
        | q :: r4 =>
          if q =? c_quote then
            let (v, r5) := value_body r4 in
            match r5 with
            | [] => None
            | q2 :: r6 => if q2 =? c_quote then Some ((key, v), r6) else None
            end
          else None
        end
      end
    end
  end.

(* many0 (multi/mod.rs): stops at the first Err::Error and returns what it has;
   an element that consumes nothing is an error (ErrorKind::Many0) *)
Fixpoint arguments (fuel : nat) (i : text) : result (list (text * text) * text) :=
  match fuel with
  | O => OutOfFuel
  | S f =>
    match arg1 i with
    | None => Ok ([], i)
    | Some (kv, r) =>
      if Nat.eqb (length r) (length i) then Err E_ARGS
      else match arguments f r with
           | Ok (l, r') => Ok (kv :: l, r')
           | Err e => Err e
           | Panic s => Panic s
           | OutOfFuel => OutOfFuel
           end
    end
  end.

Fixpoint text_eqb (a b : text) : bool :=
  match a, b with
  | [], [] => true
  | x :: a', y :: b' => (x =? y) && text_eqb a' b'
  | _, _ => false
  end.

Definition params := list (text * text).

Fixpoint lookup (k : text) (m : params) : option text :=
  match m with
  | [] => None
  | (k', v) :: r => if text_eqb k k' then Some v else lookup k r
  end.

Definition has_key (k : text) (m : params) : bool :=
  match lookup k m with Some _ => true | None => false end.

(* parser_util.rs:44-55: insert in order, error on a key already present *)
Fixpoint dupcheck (seen : params) (l : list (text * text)) : bool :=
  match l with
  | [] => true
  | (k, v) :: r => if has_key k seen then false else dupcheck ((k, v) :: seen) r
  end.

Fixpoint count_leading (p : N) (s : text) : nat :=
  match s with
  | c :: r => if c =? p then S (count_leading p r) else O
  | [] => O
  end.

(* &s[n..] where n counts bytes; every caller has checked that s starts with n tabs *)
Definition str_from (n : nat) (s : text) : result text :=
  match split_bytes (S n) (N.of_nat n) s with
  | Some (_, r) => Ok r
  | None => Panic SITE_SLICE
  end.

(* ---- get_type, unchanged tree ------------------------------------------ *)
(* char::to_lowercase restricted to what can equal the lower-case of an ASCII
   letter: ASCII upper case, and U+212A.  (Checked against Rust for every
   scalar value by the FOLD cases of the lock-step.) *)
Definition fold (c : N) : N :=
  if (65 <=? c) && (c <=? 90) then c + 32
  else if c =? c_kelvin then 107 else c.

(* Compare<&str> for &str :: compare_no_case (traits.rs:845-861): zip of chars *)
Fixpoint zip_fold_ok (i tag : text) : bool :=
  match i, tag with
  | a :: i', b :: t' => (fold a =? fold b) && zip_fold_ok i' t'
  | _, _ => true
  end.

(* tag_no_case (bytes/complete.rs:74-94): Ok -> i.take_split(tag.len()) *)
Definition tag_no_case (tag i : text) : result (option (text * text)) :=
  if zip_fold_ok i tag && (bytelen tag <=? bytelen i) then
    match split_bytes (S (length i)) (bytelen tag) i with
    | Some pr => Ok (Some pr)
    | None => Panic SITE_SPLIT
    end
  else Ok None.

(* DecType::from(&str) (parsing_data.rs:114-130) on the matched slice *)
Definition dectype_from (p : text) : result dectype :=
  let l := map fold p in
  if text_eqb l t_template then Ok Template
  else if text_eqb l t_networks then Ok Networks
  else if text_eqb l t_network then Ok Network
  else if text_eqb l t_ip then Ok IP
  else if text_eqb l t_machines then Ok Machines
  else if text_eqb l t_machine then Ok Machine
  else if text_eqb l t_protocols then Ok Protocols
  else if text_eqb l t_protocol then Ok Protocol
  else if text_eqb l t_applications then Ok Applications
  else if text_eqb l t_application then Ok Application
  else Panic SITE_UNIMPL.

Definition tags_orig : list text :=
  [t_template; t_networks; t_network; t_iptype; t_ip; t_machines; t_machine;
   t_protocols; t_protocol; t_applications; t_application].

Fixpoint get_type_orig_alt (tags : list text) (i : text) : result (dectype * text) :=
  match tags with
  | [] => Err E_DECTYPE
  | t :: ts =>
    match tag_no_case t i with
    | Ok (Some (p, r)) => match dectype_from p with
                          | Ok d => Ok (d, r)
                          | Err e => Err e
                          | Panic s => Panic s
                          | OutOfFuel => OutOfFuel
                          end
    | Ok None => get_type_orig_alt ts i
    | Err e => Err e
    | Panic s => Panic s
    | OutOfFuel => OutOfFuel
    end
  end.

Definition get_type_orig (i : text) : result (dectype * text) := get_type_orig_alt tags_orig i.

(* ---- get_type, repaired -------------------------------------------------- *)
(* kw(t): i.get(..t.len()) is Some(p) and p.eq_ignore_ascii_case(t); for an
   ASCII t that is: the first |t| characters of i are ASCII and equal t up to
   ASCII case *)
Definition ascii_lower (c : N) : N := if (65 <=? c) && (c <=? 90) then c + 32 else c.

Fixpoint kw (tag i : text) : option text :=
  match tag with
  | [] => Some i
  | b :: t' =>
    match i with
    | [] => None
    | a :: i' => if ascii_lower a =? b then kw t' i' else None
    end
  end.

Definition tags_fixed : list dectype :=
  [Template; Networks; Network; IP; Machines; Machine; Protocols; Protocol; Applications; Application].

Fixpoint get_type_alt (tags : list dectype) (i : text) : result (dectype * text) :=
  match tags with
  | [] => Err E_DECTYPE
  | d :: ts =>
    match kw (tag_name d) i with
    | Some r => Ok (d, r)
    | None => get_type_alt ts i
    end
  end.

Definition get_type (i : text) : result (dectype * text) := get_type_alt tags_fixed i.

(* ---- parsed structures (parsing_data.rs:21-112) --------------------------- *)
(* HashMaps are association lists in insertion order; keys are unique by construction *)
Record item := { it_ty : dectype; it_opts : params }.
Record network := { net_ty : dectype; net_opts : params; net_ips : list item }.
Record machine := { m_ty : dectype; m_opts : params;
                    m_nets : list item; m_protos : list item; m_apps : list item }.
Record sim := { s_networks : list (text * network); s_machines : list machine }.

Definition k_id : text := [105; 100].   (* "id" *)

Fixpoint has_id (k : text) (m : list (text * network)) : bool :=
  match m with
  | [] => false
  | (k', _) :: r => text_eqb k k' || has_id k r
  end.

Fixpoint req_remove (d : dectype) (req : list dectype) : option (list dectype) :=
  match req with
  | [] => None
  | x :: r => if dectype_eqb x d then Some r
              else match req_remove d r with Some r' => Some (x :: r') | None => None end
  end.

Fixpoint req_contains (d : dectype) (req : list dectype) : bool :=
  match req with [] => false | x :: r => dectype_eqb x d || req_contains d r end.

Definition is_nil {A} (l : list A) : bool := match l with [] => true | _ => false end.

Local Open Scope Z_scope.

Section Parser.
  Variable gt : text -> result (dectype * text).

  (* general_parser (parser_util.rs:21-84): (type, args, remaining, new line number) *)
  Definition general_parser (s : text) (ln : Z) : result (dectype * params * text * Z) :=
    match section s with
    | None => Err (ecode E_SECTION (-1))
    | Some (content, rem) =>
      match gt content with
      | Err _ => Err (ecode E_DECTYPE (-1))
      | Panic p => Panic p
      | OutOfFuel => OutOfFuel
      | Ok (ty, r) =>
        match arguments (S (length r)) r with
        | Err _ => Err (ecode E_ARGS ln)
        | Panic p => Panic p
        | OutOfFuel => OutOfFuel
        | Ok (args, r2) =>
          if negb (is_nil r2) then Err (ecode E_EXTRA ln)
          else if negb (dupcheck [] args) then Err (ecode E_DUPARG ln)
          else
            let k := count_leading c_nl rem in
            Ok (ty, args, skipn k rem, ln + Z.of_nat k)
        end
      end
    end.

  (* the loop of network_parser (network_parser.rs:147-206), entered after the
     tab count of the first line has been checked *)
  Fixpoint network_loop (fuel : nat) (nt : nat) (l0 : Z) (acc : list item) (s : text) (ln : Z)
    : result (list item * text * Z) :=
    match fuel with
    | O => OutOfFuel
    | S f =>
      if is_nil s then Ok (acc, s, ln) else
      match str_from nt s with
      | Err e => Err e | Panic p => Panic p | OutOfFuel => OutOfFuel
      | Ok s1 =>
        match general_parser s1 ln with
        | Err e => Err (wrapline l0 e)
        | Panic p => Panic p
        | OutOfFuel => OutOfFuel
        | Ok (ty, opts, rem, ln1) =>
          if negb (dectype_eqb ty IP) then Err (ecode E_EXPECTED ln)   (* cur_line_num *)
          else
            let acc' := acc ++ [{| it_ty := ty; it_opts := opts |}] in
            let t := count_leading c_tab rem in
            if Nat.ltb t nt then Ok (acc', rem, ln1)
            else if Nat.ltb nt t then Err (ecode E_TABCOUNT ln1)
            else network_loop f nt l0 acc' rem ln1
        end
      end
    end.

  (* network_parser (network_parser.rs:118-216) *)
  Definition network_parser (dec : dectype) (args : params) (s : text) (nt : nat) (ln : Z)
    : result (network * text * Z) :=
    let l0 := ln - 1 in
    if negb (Nat.eqb (count_leading c_tab s) nt) then Err (ecode E_TABSGOT ln)
    else
      match network_loop (S (length s)) nt l0 [] s ln with
      | Ok (ips, rem, ln') => Ok ({| net_ty := dec; net_opts := args; net_ips := ips |}, rem, ln')
      | Err e => Err e | Panic p => Panic p | OutOfFuel => OutOfFuel
      end.

  (* networks_parser (network_parser.rs:10-114) *)
  Fixpoint networks_loop (fuel : nat) (nt : nat) (l0 : Z) (acc : list (text * network))
           (s : text) (ln : Z) : result (list (text * network) * text * Z) :=
    match fuel with
    | O => OutOfFuel
    | S f =>
      if is_nil s then Ok (acc, s, ln) else
      let t := count_leading c_tab s in
      if Nat.ltb t nt then Ok (acc, s, ln)
      else if Nat.ltb nt t then Err (ecode E_TABCOUNT ln)
      else
        match str_from nt s with
        | Err e => Err e | Panic p => Panic p | OutOfFuel => OutOfFuel
        | Ok s1 =>
          match general_parser s1 ln with
          | Err e => Err (wrapline l0 e)
          | Panic p => Panic p
          | OutOfFuel => OutOfFuel
          | Ok (ty, opts, rem, ln1) =>
            if dectype_eqb ty Network then
              match network_parser ty opts rem (S nt) ln1 with
              | Err e => Err e | Panic p => Panic p | OutOfFuel => OutOfFuel
              | Ok (net, rem2, ln2) =>
                match lookup k_id opts with
                | Some id =>
                  if has_id id acc then Err (ecode E_DUPID l0)
                  else networks_loop f nt l0 (acc ++ [(id, net)]) rem2 ln2
                | None => Err (ecode E_MISSINGID l0)
                end
              end
            else Err (ecode E_EXPECTED ln1)
          end
        end
    end.

  Definition networks_parser (s : text) (nt : nat) (ln : Z)
    : result (list (text * network) * text * Z) :=
    networks_loop (S (length s)) nt (ln - 1) [] s ln.

  (* the loop shared (textually, up to the expected type) by machine_networks_parser,
     machine_protocols_parser and machine_applications_parser
     (machine_parser.rs:293-365, 369-445, 450-523) *)
  Fixpoint items_loop (fuel : nat) (expect : dectype) (nt : nat) (l0 : Z) (acc : list item)
           (s : text) (ln : Z) : result (list item * text * Z) :=
    match fuel with
    | O => OutOfFuel
    | S f =>
      if is_nil s then Ok (acc, s, ln) else
      match str_from nt s with
      | Err e => Err e | Panic p => Panic p | OutOfFuel => OutOfFuel
      | Ok s1 =>
        match general_parser s1 ln with
        | Err e => Err (wrapline l0 e)
        | Panic p => Panic p
        | OutOfFuel => OutOfFuel
        | Ok (ty, opts, rem, ln1) =>
          if negb (dectype_eqb ty expect) then Err (ecode E_EXPECTED (ln1 - 1))
          else
            let acc' := acc ++ [{| it_ty := ty; it_opts := opts |}] in
            let t := count_leading c_tab rem in
            if Nat.ltb t nt then Ok (acc', rem, ln1)
            else if Nat.ltb nt t then Err (ecode E_TABCOUNT ln1)
            else items_loop f expect nt l0 acc' rem ln1
        end
      end
    end.

  Definition items_parser (expect : dectype) (s : text) (nt : nat) (ln : Z)
    : result (list item * text * Z) :=
    if negb (Nat.eqb (count_leading c_tab s) nt) then Err (ecode E_FORMAT (-1))
    else items_loop (S (length s)) expect nt (ln - 1) [] s ln.

  Definition item_type_of (section_ty : dectype) : dectype :=
    match section_ty with
    | Networks => Network | Protocols => Protocol | _ => Application
    end.

  (* machine_parser (machine_parser.rs:105-289) *)
  Fixpoint machine_loop (fuel : nat) (nt : nat) (l0 : Z) (req : list dectype)
           (nets protos apps : list item) (s : text) (ln : Z)
    : result (list dectype * list item * list item * list item * text * Z) :=
    match fuel with
    | O => OutOfFuel
    | S f =>
      if is_nil s then Ok (req, nets, protos, apps, s, ln) else
      let t := count_leading c_tab s in
      if Nat.ltb t nt then Ok (req, nets, protos, apps, s, ln)
      else if Nat.ltb nt t then Err (ecode E_TABCOUNT ln)
      else
        match str_from nt s with
        | Err e => Err e | Panic p => Panic p | OutOfFuel => OutOfFuel
        | Ok s1 =>
          match general_parser s1 ln with
          | Err e => Err (wrapline l0 e)
          | Panic p => Panic p
          | OutOfFuel => OutOfFuel
          | Ok (ty, opts, rem, ln1) =>
            if req_contains ty req then
              match req_remove ty req with
              | None => Panic SITE_UNWRAP
              | Some req' =>
                match items_parser (item_type_of ty) rem (S nt) ln1 with
                | Err e => Err (wrapline l0 e)
                | Panic p => Panic p
                | OutOfFuel => OutOfFuel
                | Ok (its, rem2, ln2) =>
                  match ty with
                  | Networks => machine_loop f nt l0 req' (nets ++ its) protos apps rem2 ln2
                  | Protocols => machine_loop f nt l0 req' nets (protos ++ its) apps rem2 ln2
                  | _ => machine_loop f nt l0 req' nets protos (apps ++ its) rem2 ln2
                  end
                end
              end
            else Err (ecode E_UNEXPECTED (ln1 - 1))
          end
        end
    end.

  Definition machine_parser (args : params) (s : text) (nt : nat) (ln : Z)
    : result (machine * text * Z) :=
    let l0 := ln - 1 in
    match machine_loop (S (length s)) nt l0 [Networks; Protocols; Applications] [] [] [] s ln with
    | Err e => Err e | Panic p => Panic p | OutOfFuel => OutOfFuel
    | Ok (req, nets, protos, apps, rem, ln') =>
      if negb (is_nil req) then Err (ecode E_REQUIRED l0)
      else Ok ({| m_ty := Machine; m_opts := args; m_nets := nets; m_protos := protos;
                  m_apps := apps |}, rem, ln')
    end.

  (* machines_parser (machine_parser.rs:12-99) *)
  Fixpoint machines_loop (fuel : nat) (nt : nat) (l0 : Z) (acc : list machine) (s : text) (ln : Z)
    : result (list machine * text * Z) :=
    match fuel with
    | O => OutOfFuel
    | S f =>
      if is_nil s then Ok (acc, s, ln) else
      let t := count_leading c_tab s in
      if Nat.ltb t nt then Ok (acc, s, ln)
      else if Nat.ltb nt t then Err (ecode E_TABCOUNT ln)
      else
        match str_from nt s with
        | Err e => Err e | Panic p => Panic p | OutOfFuel => OutOfFuel
        | Ok s1 =>
          match general_parser s1 ln with
          | Err e => Err (wrapline l0 e)
          | Panic p => Panic p
          | OutOfFuel => OutOfFuel
          | Ok (ty, opts, rem, ln1) =>
            if dectype_eqb ty Machine then
              match machine_parser opts rem (S nt) ln1 with
              | Err e => Err e | Panic p => Panic p | OutOfFuel => OutOfFuel
              | Ok (m, rem2, ln2) => machines_loop f nt l0 (acc ++ [m]) rem2 ln2
              end
            else Err (ecode E_EXPECTED ln1)
          end
        end
    end.

  Definition machines_parser (s : text) (nt : nat) (ln : Z) : result (list machine * text * Z) :=
    machines_loop (S (length s)) nt (ln - 1) [] s ln.

  (* merging one [Networks] section into the file-level map (parser.rs:46-51) *)
  Fixpoint merge_networks (acc new : list (text * network)) : option (list (text * network)) :=
    match new with
    | [] => Some acc
    | (id, n) :: r => if has_id id acc then None else merge_networks (acc ++ [(id, n)]) r
    end.

  (* the loop of core_parser (parser.rs:26-95) *)
  Fixpoint core_loop (fuel : nat) (nets : list (text * network)) (ms : list machine)
           (s : text) (ln : Z) : result sim :=
    match fuel with
    | O => OutOfFuel
    | S f =>
      if is_nil s then Ok {| s_networks := nets; s_machines := ms |} else
      match general_parser s ln with
      | Err e => Err e
      | Panic p => Panic p
      | OutOfFuel => OutOfFuel
      | Ok (ty, opts, rem, ln1) =>
        match ty with
        | Template => core_loop f nets ms rem ln1
        | Networks =>
          match networks_parser rem 1 ln1 with
          | Err e => Err e | Panic p => Panic p | OutOfFuel => OutOfFuel
          | Ok (new, rem2, ln2) =>
            match merge_networks nets new with
            | None => Err (ecode E_DUPID ln2)
            | Some nets' => core_loop f nets' ms rem2 ln2
            end
          end
        | Machines =>
          match machines_parser rem 1 ln1 with
          | Err e => Err e | Panic p => Panic p | OutOfFuel => OutOfFuel
          | Ok (new, rem2, ln2) => core_loop f nets (ms ++ new) rem2 ln2
          end
        | _ => Err (ecode E_CANNOT (ln1 - 1))
        end
      end
    end.

  (* core_parser on the file contents *)
  Definition core_parse_gen (txt : text) : result sim :=
    let s := rewrite txt in
    core_loop (S (length s)) [] [] s 1.
End Parser.

Definition core_parse : text -> result sim := core_parse_gen get_type.
Definition core_parse_orig : text -> result sim := core_parse_gen get_type_orig.

(* ---- rendering (the canonical tab-indented form) -------------------------- *)
Local Open Scope N_scope.

(* capitalised spellings used by the renderer: first letter upper case, "IP" *)
Definition render_name (d : dectype) : text :=
  match d with
  | IP => [73; 80]
  | _ => match tag_name d with c :: r => (c - 32) :: r | [] => [] end
  end.

Definition render_arg (kv : text * text) : text :=
  c_sp :: fst kv ++ [c_eq; c_quote] ++ snd kv ++ [c_quote].

Definition render_args (a : params) : text := flat_map render_arg a.

(* "[Type k='v' ...]" without indentation and newline *)
Definition render_sec (d : dectype) (a : params) : text :=
  c_lbr :: render_name d ++ render_args a ++ [c_rbr].

Definition tabs (n : nat) : text := repeat c_tab n.

Definition render_line (n : nat) (d : dectype) (a : params) : text :=
  tabs n ++ render_sec d a ++ [c_nl].

Definition render_item (n : nat) (i : item) : text := render_line n (it_ty i) (it_opts i).

Definition render_network (kn : text * network) : text :=
  render_line 1 (net_ty (snd kn)) (net_opts (snd kn)) ++ flat_map (render_item 2) (net_ips (snd kn)).

Definition render_machine (m : machine) : text :=
  render_line 1 (m_ty m) (m_opts m)
  ++ render_line 2 Networks [] ++ flat_map (render_item 3) (m_nets m)
  ++ render_line 2 Protocols [] ++ flat_map (render_item 3) (m_protos m)
  ++ render_line 2 Applications [] ++ flat_map (render_item 3) (m_apps m).

Definition render (s : sim) : text :=
  render_line 0 Networks [] ++ flat_map render_network (s_networks s)
  ++ render_line 0 Machines [] ++ flat_map render_machine (s_machines s).

(* the same text as a list of (depth, "[...]") lines, to state the 4-space rendering *)
Definition item_lines (n : nat) (l : list item) : list (nat * text) :=
  map (fun i => (n, render_sec (it_ty i) (it_opts i))) l.
Definition network_lines (kn : text * network) : list (nat * text) :=
  (1%nat, render_sec (net_ty (snd kn)) (net_opts (snd kn))) :: item_lines 2 (net_ips (snd kn)).
Definition machine_lines (m : machine) : list (nat * text) :=
  (1%nat, render_sec (m_ty m) (m_opts m))
  :: (2%nat, render_sec Networks []) :: item_lines 3 (m_nets m)
  ++ (2%nat, render_sec Protocols []) :: item_lines 3 (m_protos m)
  ++ (2%nat, render_sec Applications []) :: item_lines 3 (m_apps m).
Definition lines_of (s : sim) : list (nat * text) :=
  (0%nat, render_sec Networks []) :: flat_map network_lines (s_networks s)
  ++ (0%nat, render_sec Machines []) :: flat_map machine_lines (s_machines s).
Definition render_lines (ind : nat -> text) (l : list (nat * text)) : text :=
  flat_map (fun nb => ind (fst nb) ++ snd nb ++ [c_nl]) l.
Definition spaces4 (n : nat) : text := repeat c_sp (4 * n).
(* indentation by four spaces per level instead of one tab *)
Definition render4 (s : sim) : text := render_lines spaces4 (lines_of s).

(* the two other renderings of the property's quantifier *)
Fixpoint tabs_to_spaces (s : text) : text :=     (* every tab becomes four spaces *)
  match s with
  | [] => []
  | c :: r => if c =? c_tab then c_sp :: c_sp :: c_sp :: c_sp :: tabs_to_spaces r
              else c :: tabs_to_spaces r
  end.

Fixpoint crlf (s : text) : text :=               (* every LF becomes CR LF *)
  match s with
  | [] => []
  | c :: r => if c =? c_nl then c_cr :: c_nl :: crlf r else c :: crlf r
  end.

(* ---- part 2: who is told to send what to whom ----------------------------- *)
(* Reference evaluation used by the run check (harness c19_run); no theorem is
   about it.  It follows machine_generator.rs / application_generator.rs /
   generator_utils.rs for the scenario family the harness generates (UDP,
   send_message / forward / capture / ping_pong) and answers RUnknown outside it:
     - names: for every machine copy (name, or name-i when count > 1) the address
       of its last addressed application (send_message without ip: 127.0.0.1);
     - a destination is an address if it has four u8 sections, else a name;
     - every send_message copy sends its message to (dest, port); a forward at
       (ip, local_port) passes what it receives on to (to, remote_port);
     - a capture (no type: 1 message, type count: message_count messages, type
       message: the concatenation equals the text) finishes when satisfied; the
       run ends with Exited when all captures of one factory (a capture without
       factory is its own) have finished, with TimedOut when nothing ends it;
     - ping_pong machines end the run when one of them is a starter. *)
Definition k_name : text := [110;97;109;101].
Definition k_count : text := [99;111;117;110;116].
Definition k_to : text := [116;111].
Definition k_ip : text := [105;112].
Definition k_port : text := [112;111;114;116].
Definition k_message : text := [109;101;115;115;97;103;101].
Definition k_type : text := [116;121;112;101].
Definition k_factory : text := [102;97;99;116;111;114;121].
Definition k_message_count : text := [109;101;115;115;97;103;101;95;99;111;117;110;116].
Definition k_local_port : text := [108;111;99;97;108;95;112;111;114;116].
Definition k_remote_port : text := [114;101;109;111;116;101;95;112;111;114;116].
Definition k_starter : text := [115;116;97;114;116;101;114].
Definition v_send_message : text := [115;101;110;100;95;109;101;115;115;97;103;101].
Definition v_capture : text := [99;97;112;116;117;114;101].
Definition v_forward : text := [102;111;114;119;97;114;100].
Definition v_ping_pong : text := [112;105;110;103;95;112;111;110;103].
Definition v_count : text := [99;111;117;110;116].
Definition v_true : text := [116;114;117;101].
Definition v_t : text := [116].

Inductive run_status := RExited | RTimedOut | RUnknown.

Fixpoint split_on (c : N) (t : text) : list text :=
  match t with
  | [] => [[]]
  | x :: r =>
    if x =? c then [] :: split_on c r
    else match split_on c r with h :: tl => (x :: h) :: tl | [] => [[x]] end
  end.

Fixpoint dec_val (t : text) (acc : N) : option N :=
  match t with
  | [] => Some acc
  | c :: r => if (48 <=? c) && (c <=? 57) then dec_val r (acc * 10 + (c - 48)) else None
  end.

Definition hex_digit (c : N) : option N :=
  if (48 <=? c) && (c <=? 57) then Some (c - 48)
  else if (97 <=? c) && (c <=? 102) then Some (c - 87)
  else if (65 <=? c) && (c <=? 70) then Some (c - 55) else None.

Fixpoint hex_val (t : text) (acc : N) : option N :=
  match t with
  | [] => Some acc
  | c :: r => match hex_digit c with Some d => hex_val r (acc * 16 + d) | None => None end
  end.

(* str::parse::<uN>() / from_str_radix: optional '+', at least one digit, no overflow *)
Definition parse_num (hex : bool) (mx : N) (t : text) : option N :=
  let t' := match t with 43 :: r => r | _ => t end in
  match t' with
  | [] => None
  | _ => match (if hex then hex_val t' 0 else dec_val t' 0) with
         | Some v => if v <=? mx then Some v else None
         | None => None
         end
  end.

(* string_to_port (generator_utils.rs:12-20) *)
Definition parse_port (t : text) : option N :=
  match t with
  | 48 :: 120 :: r => parse_num true 65535 r
  | _ => parse_num false 65535 t
  end.

(* ip_or_name + ip_string_to_ip (generator_utils.rs:26-61) *)
Definition ip_of (t : text) : option N :=
  match map (parse_num false 255) (split_on 46 t) with
  | [Some a; Some b; Some c; Some d] => Some (((a * 256 + b) * 256 + c) * 256 + d)
  | _ => None
  end.

Definition LOCALHOST : N := 2130706433.

Fixpoint dec_digits (fuel : nat) (n : N) (acc : text) : text :=
  match fuel with
  | O => acc
  | S f => let acc' := (48 + n mod 10) :: acc in
           if n / 10 =? 0 then acc' else dec_digits f (n / 10) acc'
  end.
Definition dec_string (n : N) : text := dec_digits 40 n [].

Definition machine_count (m : machine) : option N :=
  match lookup k_count (m_opts m) with
  | Some c => match parse_num false 18446744073709551615 c with
              | Some n => if n =? 0 then None else Some n
              | None => None
              end
  | None => Some 1
  end.

Definition opt_text_eqb (o : option text) (t : text) : bool :=
  match o with Some x => text_eqb x t | None => false end.

Definition app_is (a : item) (nm : text) : bool := opt_text_eqb (lookup k_name (it_opts a)) nm.

(* the address an application registers for the name of its machine *)
Definition app_local_ip (a : item) : option N :=
  if app_is a v_send_message then
    match lookup k_ip (it_opts a) with Some t => ip_of t | None => Some LOCALHOST end
  else if app_is a v_capture || app_is a v_forward || app_is a v_ping_pong then
    match lookup k_ip (it_opts a) with Some t => ip_of t | None => None end
  else None.

Definition machine_names (m : machine) (cnt : N) : list text :=
  match lookup k_name (m_opts m) with
  | None => [[]]
  | Some nm =>
    if 1 <? cnt
    then map (fun i => nm ++ [45] ++ dec_string (N.of_nat i)) (seq 0 (N.to_nat cnt))
    else [nm]
  end.

(* latest insertion first *)
Fixpoint name_table (ms : list machine) (tbl : list (text * N)) : list (text * N) :=
  match ms with
  | [] => tbl
  | m :: r =>
    let cnt := match machine_count m with Some n => n | None => 1 end in
    let tbl' :=
      fold_left (fun tb nm =>
        fold_left (fun tb2 a => match app_local_ip a with Some ip => (nm, ip) :: tb2 | None => tb2 end)
                  (m_apps m) tb)
        (machine_names m cnt) tbl in
    name_table r tbl'
  end.

Fixpoint lookup_ip (k : text) (m : list (text * N)) : option N :=
  match m with
  | [] => None
  | (k', v) :: r => if text_eqb k k' then Some v else lookup_ip k r
  end.

Definition resolve (tbl : list (text * N)) (to : text) : option N :=
  match ip_of to with Some a => Some a | None => lookup_ip to tbl end.

Record msg_send := { ms_ip : N; ms_port : N; ms_msg : text }.
Record fwd := { fw_ip : N; fw_port : N; fw_to : N; fw_rport : N }.
Record cap := { cp_ip : N; cp_port : N; cp_type : option text; cp_count : option N;
                cp_msg : option text; cp_factory : option text }.

Definition opt_bind {A B} (o : option A) (f : A -> option B) : option B :=
  match o with Some x => f x | None => None end.

(* None = outside the modelled family (the generator would panic) *)
Definition sends_of (tbl : list (text * N)) (m : machine) : option (list msg_send) :=
  opt_bind (machine_count m) (fun cnt =>
  fold_right (fun a acc =>
    opt_bind acc (fun l =>
      if app_is a v_send_message then
        match lookup k_to (it_opts a), lookup k_port (it_opts a), lookup k_message (it_opts a) with
        | Some to, Some port, Some msg =>
          match resolve tbl to, parse_port port with
          | Some ip, Some p =>
            Some (repeat {| ms_ip := ip; ms_port := p; ms_msg := msg |} (N.to_nat cnt) ++ l)
          | _, _ => None
          end
        | _, _, _ => None
        end
      else Some l)) (Some []) (m_apps m)).

Definition fwds_of (tbl : list (text * N)) (m : machine) : option (list fwd) :=
  fold_right (fun a acc =>
    opt_bind acc (fun l =>
      if app_is a v_forward then
        match lookup k_ip (it_opts a), lookup k_to (it_opts a),
              lookup k_local_port (it_opts a), lookup k_remote_port (it_opts a) with
        | Some ip, Some to, Some lp, Some rp =>
          match ip_of ip, resolve tbl to, parse_port lp, parse_port rp with
          | Some i, Some t, Some l', Some r' =>
            Some ({| fw_ip := i; fw_port := l'; fw_to := t; fw_rport := r' |} :: l)
          | _, _, _, _ => None
          end
        | _, _, _, _ => None
        end
      else Some l)) (Some []) (m_apps m).

Definition caps_of (m : machine) : option (list cap) :=
  fold_right (fun a acc =>
    opt_bind acc (fun l =>
      if app_is a v_capture then
        match lookup k_ip (it_opts a), lookup k_port (it_opts a) with
        | Some ip, Some port =>
          match ip_of ip, parse_port port with
          | Some i, Some p =>
            Some ({| cp_ip := i; cp_port := p; cp_type := lookup k_type (it_opts a);
                     cp_count := opt_bind (lookup k_message_count (it_opts a)) (parse_num false 4294967295);
                     cp_msg := lookup k_message (it_opts a);
                     cp_factory := lookup k_factory (it_opts a) |} :: l)
          | _, _ => None
          end
        | _, _ => None
        end
      else Some l)) (Some []) (m_apps m).

Fixpoint concat_opt {A} (l : list (option (list A))) : option (list A) :=
  match l with
  | [] => Some []
  | None :: _ => None
  | Some x :: r => match concat_opt r with Some y => Some (x ++ y) | None => None end
  end.

Fixpoint route (fuel : nat) (fs : list fwd) (ip port : N) : N * N :=
  match fuel with
  | O => (ip, port)
  | S f =>
    match find (fun x => (fw_ip x =? ip) && (fw_port x =? port)) fs with
    | Some x => route f fs (fw_to x) (fw_rport x)
    | None => (ip, port)
    end
  end.

Definition delivered (fs : list fwd) (sends : list msg_send) (c : cap) : list text :=
  map ms_msg
    (filter (fun s => let (i, p) := route 8 fs (ms_ip s) (ms_port s) in (i =? cp_ip c) && (p =? cp_port c))
            sends).

Fixpoint is_power (m target : text) (j : nat) : bool :=
  match j with
  | O => false
  | S j' => text_eqb (concat (repeat m j)) target || is_power m target j'
  end.

(* Some true = finishes, Some false = never finishes, None = depends on arrival order / not modelled *)
Definition cap_done (got : list text) (c : cap) : option bool :=
  match cp_type c with
  | None => Some (negb (is_nil got))
  | Some ty =>
    if text_eqb ty v_count then
      match cp_count c with
      | Some n => if n =? 0 then None else Some (n <=? N.of_nat (length got))
      | None => None
      end
    else if text_eqb ty k_message then
      match cp_msg c with
      | Some m =>
        match got with
        | [] => Some false
        | g :: r => if forallb (text_eqb g) r then Some (is_power g m (length got)) else None
        end
      | None => None
      end
    else None
  end.

Definition same_factory (a b : cap) : bool :=
  match cp_factory a, cp_factory b with
  | Some x, Some y => text_eqb x y
  | _, _ => false
  end.

Definition predict (s : sim) : run_status :=
  let ms := s_machines s in
  let tbl := name_table ms [] in
  let apps := flat_map m_apps ms in
  let pings := filter (fun a => app_is a v_ping_pong) apps in
  match concat_opt (map (sends_of tbl) ms), concat_opt (map (fwds_of tbl) ms), concat_opt (map caps_of ms) with
  | Some sends, Some fs, Some caps =>
    match pings, caps with
    | [], [] => RTimedOut
    | _ :: _, _ :: _ => RUnknown
    | _ :: _, [] =>
      if existsb (fun a => match lookup k_starter (it_opts a) with
                           | Some v => text_eqb (map fold v) v_true || text_eqb (map fold v) v_t
                           | None => false end) pings
      then RExited else RTimedOut
    | [], _ :: _ =>
      let done := map (fun c => cap_done (delivered fs sends c) c) caps in
      if existsb (fun d => match d with None => true | _ => false end) done then RUnknown
      else
        let cd := combine caps done in
        (* a factory group is complete when all its captures are done; a capture without factory is its own group *)
        if existsb (fun x : cap * option bool =>
              let (c, d) := x in
              match cp_factory c with
              | None => match d with Some true => true | _ => false end
              | Some _ => forallb (fun y : cap * option bool =>
                            let (c', d') := y in
                            negb (same_factory c c') || match d' with Some true => true | _ => false end) cd
              end) cd
        then RExited else RTimedOut
    end
  | _, _, _ => RUnknown
  end.
