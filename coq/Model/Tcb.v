(* Executable model of sim/elvis-core/src/protocols/tcp/tcb.rs (after the fix
   commits recorded in known_findings.json), one Gallina function per Rust
   method, same branch structure, same order of side effects.  Rust line
   numbers refer to tcb.rs.  u32 values are Z reduced mod 2^32; durations are
   whole milliseconds; payloads are lists of byte values. *)
From Elvis Require Import Model.Base Model.U32.
Local Open Scope Z_scope.

Inductive state :=
| SynSent | SynReceived | Established | FinWait1 | FinWait2 | CloseWait | Closing | LastAck | TimeWait.

Definition state_eqb (a b : state) : bool :=
  match a, b with
  | SynSent, SynSent | SynReceived, SynReceived | Established, Established
  | FinWait1, FinWait1 | FinWait2, FinWait2 | CloseWait, CloseWait
  | Closing, Closing | LastAck, LastAck | TimeWait, TimeWait => true
  | _, _ => false
  end.

(* tcp_parsing.rs Control: six flag bits *)
Record ctl := mkCtl { c_urg : bool; c_ack : bool; c_psh : bool; c_rst : bool; c_syn : bool; c_fin : bool }.
Definition ctl0 : ctl := mkCtl false false false false false false.

Record header := mkHdr {
  h_sport : Z; h_dport : Z; h_seq : Z; h_ack : Z; h_ctl : ctl; h_wnd : Z; h_urg : Z }.

Record segment := mkSeg { s_hdr : header; s_text : list Z }.
Record transmit := mkTx { t_seg : segment; t_needs : bool }.

Definition b2z (b : bool) : Z := if b then 1 else 0.
Definition zlen {A} (l : list A) : Z := Z.of_nat (length l).

(* Segment::seg_len *)
Definition seg_len (s : segment) : Z :=
  zlen (s_text s) + b2z (c_syn (h_ctl (s_hdr s))) + b2z (c_fin (h_ctl (s_hdr s))).

Definition RTO : Z := 100.          (* RETRANSMISSION_TIMEOUT, ms *)
Definition MSL2 : Z := 2000.        (* 2 * MSL, ms *)
Definition DEFAULT_WND : Z := 65535. (* ReceiveSequenceSpace::default().wnd *)
Definition SPACE_FOR_HEADERS : Z := 50.

Record tcb := mkTcb {
  lport : Z; rport : Z; mtu : Z; listen_init : bool;
  st : state;
  snd_una : Z; snd_nxt : Z; snd_wnd : Z; snd_wl1 : Z; snd_wl2 : Z; snd_iss : Z;
  rcv_irs : Z; rcv_nxt : Z; rcv_wnd : Z;
  out_text : list Z;
  retx : list transmit;
  oneshot : list header;
  fin_pending : bool;
  in_segs : list segment;     (* the BinaryHeap's backing vector *)
  in_text : list Z;
  rto : Z;
  time_wait : option Z }.

(* ---- field updates ---- *)
Definition set_st (t : tcb) v := mkTcb (lport t) (rport t) (mtu t) (listen_init t) v (snd_una t) (snd_nxt t) (snd_wnd t) (snd_wl1 t) (snd_wl2 t) (snd_iss t) (rcv_irs t) (rcv_nxt t) (rcv_wnd t) (out_text t) (retx t) (oneshot t) (fin_pending t) (in_segs t) (in_text t) (rto t) (time_wait t).
Definition set_snd_una (t : tcb) v := mkTcb (lport t) (rport t) (mtu t) (listen_init t) (st t) v (snd_nxt t) (snd_wnd t) (snd_wl1 t) (snd_wl2 t) (snd_iss t) (rcv_irs t) (rcv_nxt t) (rcv_wnd t) (out_text t) (retx t) (oneshot t) (fin_pending t) (in_segs t) (in_text t) (rto t) (time_wait t).
Definition set_snd_nxt (t : tcb) v := mkTcb (lport t) (rport t) (mtu t) (listen_init t) (st t) (snd_una t) v (snd_wnd t) (snd_wl1 t) (snd_wl2 t) (snd_iss t) (rcv_irs t) (rcv_nxt t) (rcv_wnd t) (out_text t) (retx t) (oneshot t) (fin_pending t) (in_segs t) (in_text t) (rto t) (time_wait t).
Definition set_snd_window (t : tcb) wnd wl1 wl2 := mkTcb (lport t) (rport t) (mtu t) (listen_init t) (st t) (snd_una t) (snd_nxt t) wnd wl1 wl2 (snd_iss t) (rcv_irs t) (rcv_nxt t) (rcv_wnd t) (out_text t) (retx t) (oneshot t) (fin_pending t) (in_segs t) (in_text t) (rto t) (time_wait t).
Definition set_rcv_irs (t : tcb) v := mkTcb (lport t) (rport t) (mtu t) (listen_init t) (st t) (snd_una t) (snd_nxt t) (snd_wnd t) (snd_wl1 t) (snd_wl2 t) (snd_iss t) v (rcv_nxt t) (rcv_wnd t) (out_text t) (retx t) (oneshot t) (fin_pending t) (in_segs t) (in_text t) (rto t) (time_wait t).
Definition set_rcv_nxt (t : tcb) v := mkTcb (lport t) (rport t) (mtu t) (listen_init t) (st t) (snd_una t) (snd_nxt t) (snd_wnd t) (snd_wl1 t) (snd_wl2 t) (snd_iss t) (rcv_irs t) v (rcv_wnd t) (out_text t) (retx t) (oneshot t) (fin_pending t) (in_segs t) (in_text t) (rto t) (time_wait t).
Definition set_out_text (t : tcb) v := mkTcb (lport t) (rport t) (mtu t) (listen_init t) (st t) (snd_una t) (snd_nxt t) (snd_wnd t) (snd_wl1 t) (snd_wl2 t) (snd_iss t) (rcv_irs t) (rcv_nxt t) (rcv_wnd t) v (retx t) (oneshot t) (fin_pending t) (in_segs t) (in_text t) (rto t) (time_wait t).
Definition set_retx (t : tcb) v := mkTcb (lport t) (rport t) (mtu t) (listen_init t) (st t) (snd_una t) (snd_nxt t) (snd_wnd t) (snd_wl1 t) (snd_wl2 t) (snd_iss t) (rcv_irs t) (rcv_nxt t) (rcv_wnd t) (out_text t) v (oneshot t) (fin_pending t) (in_segs t) (in_text t) (rto t) (time_wait t).
Definition set_oneshot (t : tcb) v := mkTcb (lport t) (rport t) (mtu t) (listen_init t) (st t) (snd_una t) (snd_nxt t) (snd_wnd t) (snd_wl1 t) (snd_wl2 t) (snd_iss t) (rcv_irs t) (rcv_nxt t) (rcv_wnd t) (out_text t) (retx t) v (fin_pending t) (in_segs t) (in_text t) (rto t) (time_wait t).
Definition set_fin_pending (t : tcb) v := mkTcb (lport t) (rport t) (mtu t) (listen_init t) (st t) (snd_una t) (snd_nxt t) (snd_wnd t) (snd_wl1 t) (snd_wl2 t) (snd_iss t) (rcv_irs t) (rcv_nxt t) (rcv_wnd t) (out_text t) (retx t) (oneshot t) v (in_segs t) (in_text t) (rto t) (time_wait t).
Definition set_in_segs (t : tcb) v := mkTcb (lport t) (rport t) (mtu t) (listen_init t) (st t) (snd_una t) (snd_nxt t) (snd_wnd t) (snd_wl1 t) (snd_wl2 t) (snd_iss t) (rcv_irs t) (rcv_nxt t) (rcv_wnd t) (out_text t) (retx t) (oneshot t) (fin_pending t) v (in_text t) (rto t) (time_wait t).
Definition set_in_text (t : tcb) v := mkTcb (lport t) (rport t) (mtu t) (listen_init t) (st t) (snd_una t) (snd_nxt t) (snd_wnd t) (snd_wl1 t) (snd_wl2 t) (snd_iss t) (rcv_irs t) (rcv_nxt t) (rcv_wnd t) (out_text t) (retx t) (oneshot t) (fin_pending t) (in_segs t) v (rto t) (time_wait t).
Definition set_rto (t : tcb) v := mkTcb (lport t) (rport t) (mtu t) (listen_init t) (st t) (snd_una t) (snd_nxt t) (snd_wnd t) (snd_wl1 t) (snd_wl2 t) (snd_iss t) (rcv_irs t) (rcv_nxt t) (rcv_wnd t) (out_text t) (retx t) (oneshot t) (fin_pending t) (in_segs t) (in_text t) v (time_wait t).
Definition set_time_wait (t : tcb) v := mkTcb (lport t) (rport t) (mtu t) (listen_init t) (st t) (snd_una t) (snd_nxt t) (snd_wnd t) (snd_wl1 t) (snd_wl2 t) (snd_iss t) (rcv_irs t) (rcv_nxt t) (rcv_wnd t) (out_text t) (retx t) (oneshot t) (fin_pending t) (in_segs t) (in_text t) (rto t) v.

(* ---- header builder (tcp_parsing.rs TcpHeaderBuilder) ---- *)
Definition hb (t : tcb) (seq : Z) : header := mkHdr (lport t) (rport t) seq 0 ctl0 0 0.
Definition hb_ack (h : header) (a : Z) : header :=
  mkHdr (h_sport h) (h_dport h) (h_seq h) a
        (mkCtl (c_urg (h_ctl h)) true (c_psh (h_ctl h)) (c_rst (h_ctl h)) (c_syn (h_ctl h)) (c_fin (h_ctl h)))
        (h_wnd h) (h_urg h).
Definition hb_wnd (h : header) (w : Z) : header :=
  mkHdr (h_sport h) (h_dport h) (h_seq h) (h_ack h) (h_ctl h) w (h_urg h).
Definition hb_flag (h : header) (rst syn fin : bool) : header :=
  mkHdr (h_sport h) (h_dport h) (h_seq h) (h_ack h)
        (mkCtl (c_urg (h_ctl h)) (c_ack (h_ctl h)) (c_psh (h_ctl h))
               (rst || c_rst (h_ctl h)) (syn || c_syn (h_ctl h)) (fin || c_fin (h_ctl h)))
        (h_wnd h) (h_urg h).
Definition hb_rst h := hb_flag h true false false.
Definition hb_syn h := hb_flag h false true false.
Definition hb_fin h := hb_flag h false false true.

(* the plain ACK the code sends in many places: seq=SND.NXT, ack=RCV.NXT, wnd=RCV.WND *)
Definition ack_hdr (t : tcb) : header := hb_wnd (hb_ack (hb t (snd_nxt t)) (rcv_nxt t)) (rcv_wnd t).

(* Tcb::enqueue (l.700): SYN and FIN go to the retransmission queue, others are one-shot.
   build() cannot fail for an empty text (20 <= 65535). *)
Definition enqueue (t : tcb) (h : header) : tcb :=
  if c_syn (h_ctl h) || c_fin (h_ctl h)
  then set_retx t (retx t ++ [mkTx (mkSeg h []) true])
  else set_oneshot t (oneshot t ++ [h]).

(* ---- std::collections::BinaryHeap<Segment> (binary_heap/mod.rs), Ord for Segment (segment.rs) ---- *)
(* a <= b  <->  cmp a b <> Greater ; cmp = Equal on equal seq, Greater if mod_lt a.seq b.seq *)
Definition seg_le (a b : segment) : bool :=
  let sa := h_seq (s_hdr a) in let sb := h_seq (s_hdr b) in
  if sa =? sb then true else negb (mod_lt sa sb).

Fixpoint set_nth {A} (l : list A) (i : nat) (x : A) : list A :=
  match l, i with
  | [], _ => []
  | _ :: r, O => x :: r
  | y :: r, S j => y :: set_nth r j x
  end.
(* reading through the hole: an invalid index (never happens) yields the element in hand *)
Definition get_or {A} (l : list A) (i : nat) (x : A) : A :=
  match nth_error l i with Some y => y | None => x end.

(* sift_up(start = 0, pos): the hole at pos carries x *)
Fixpoint sift_up (fuel : nat) (v : list segment) (pos : nat) (x : segment) : list segment :=
  match fuel with
  | O => set_nth v pos x
  | S f =>
    match pos with
    | O => set_nth v pos x
    | S _ =>
      let parent := Nat.div (pos - 1) 2 in
      let p := get_or v parent x in
      if seg_le x p then set_nth v pos x
      else sift_up f (set_nth v pos p) parent x
    end
  end.

Definition heap_push (v : list segment) (x : segment) : list segment :=
  let old_len := length v in
  sift_up (S old_len) (v ++ [x]) old_len x.

(* sift_down_to_bottom(0) followed by sift_up(0, pos); the hole carries x *)
Fixpoint sift_down (fuel : nat) (v : list segment) (pos : nat) (x : segment) : list segment * nat :=
  let endn := length v in
  let child := (2 * pos + 1)%nat in
  match fuel with
  | O => (v, pos)
  | S f =>
    if Nat.leb child (endn - 2) && Nat.leb 2 endn then
      let c := if seg_le (get_or v child x) (get_or v (S child) x) then S child else child in
      sift_down f (set_nth v pos (get_or v c x)) c x
    else if Nat.eqb child (endn - 1) && Nat.leb 1 endn then
      (set_nth v pos (get_or v child x), child)
    else (v, pos)
  end.

Definition heap_pop (v : list segment) : option (segment * list segment) :=
  match rev v with
  | [] => None
  | last :: rinit =>
    let init := rev rinit in
    match init with
    | [] => Some (last, [])
    | top :: _ =>
      (* swap(&mut item, &mut data[0]); sift_down_to_bottom(0) *)
      let '(v1, pos) := sift_down (S (length init)) init O last in
      Some (top, sift_up (S (length init)) v1 pos last)
    end
  end.

Definition heap_peek (v : list segment) : option segment :=
  match v with [] => None | x :: _ => Some x end.

(* ---- sequence acceptability (l.728-756) ---- *)
Definition is_in_rcv_window (t : tcb) (n : Z) : bool :=
  mod_bounded (wsub (rcv_nxt t) 1) CLeq n CLt (wadd (rcv_nxt t) (rcv_wnd t)).

Definition is_seq_ok (t : tcb) (data_len seq : Z) (syn fin : bool) : bool :=
  let seg_len := data_len + b2z fin + b2z syn in
  if seg_len =? 0 then
    if rcv_wnd t =? 0
    then mod_bounded (wsub (rcv_nxt t) 1) CLeq seq CLeq (rcv_nxt t)
    else is_in_rcv_window t seq
  else if rcv_wnd t =? 0 then false
  else is_in_rcv_window t seq || is_in_rcv_window t (wsub (wadd seq seg_len) 1).

(* ---- ProcessSegmentResult ---- *)
Inductive psr := PSuccess | PDiscard | PInvalidAck | PReturnToListen | PConnectionReset
               | PConnectionRefused | PFinalizeClose | PBlindReset.
Definition should_delete (r : psr) : bool :=
  match r with
  | PReturnToListen | PConnectionReset | PConnectionRefused | PFinalizeClose | PBlindReset => true
  | _ => false
  end.

(* remove_acked_from_retransmission (l.642) *)
Definition remove_acked (t : tcb) (una : Z) : tcb :=
  set_retx t (filter (fun tx => mod_lt una (wadd (h_seq (s_hdr (t_seg tx))) (seg_len (t_seg tx)))) (retx t)).

Definition is_fin_acked (t : tcb) : bool :=
  negb (fin_pending t) && (snd_nxt t =? snd_una t).

(* ack_established_processing (l.665) *)
Definition ack_est (t : tcb) (h : header) : tcb * psr :=
  if mod_leq (h_ack h) (snd_una t) then (t, PSuccess)
  else if mod_gt (h_ack h) (snd_nxt t) then (enqueue t (ack_hdr t), PInvalidAck)
  else
    let t1 := remove_acked (set_snd_una t (h_ack h)) (h_ack h) in
    let t2 := if mod_lt (snd_wl1 t1) (h_seq h)
                 || ((snd_wl1 t1 =? h_seq h) && mod_leq (snd_wl2 t1) (h_ack h))
              then set_snd_window t1 (h_wnd h) (h_seq h) (h_ack h) else t1 in
    (t2, PSuccess).

(* ---- process_segment (l.357), split into its consecutive stages ---- *)
Definition rst_hdr (t : tcb) (seq : Z) : header := hb_wnd (hb_rst (hb t seq)) (rcv_wnd t).

(* stage 2: ACK bit; None = continue, Some r = return r *)
Definition ps_ack (t : tcb) (h : header) : tcb * option psr :=
  if negb (c_ack (h_ctl h)) then (t, None) else
  match st t with
  | SynSent =>
    if mod_bounded (snd_nxt t) CLt (h_ack h) CLeq (snd_iss t) then
      if c_rst (h_ctl h) then (t, Some PDiscard)
      else (enqueue t (rst_hdr t (h_ack h)), Some PInvalidAck)
    else if mod_bounded (snd_una t) CLt (h_ack h) CLeq (snd_nxt t) then
      if c_syn (h_ctl h)
      then (remove_acked (set_snd_una t (h_ack h)) (h_ack h), None)
      else (t, None)
    else (enqueue t (rst_hdr t (h_ack h)), Some PInvalidAck)
  | SynReceived =>
    if mod_bounded (snd_una t) CLt (h_ack h) CLeq (snd_nxt t) then
      let t1 := set_snd_window (set_st t Established) (h_wnd h) (h_seq h) (h_ack h) in
      let '(t2, r) := ack_est t1 h in
      match r with PSuccess => (t2, None) | other => (t2, Some other) end
    else (enqueue t (rst_hdr t (h_ack h)), None)
  | Established | FinWait2 | CloseWait =>
    let '(t2, r) := ack_est t h in
    match r with PSuccess => (t2, None) | other => (t2, Some other) end
  | FinWait1 =>
    let '(t2, r) := ack_est t h in
    let t3 := if is_fin_acked t2 then set_st t2 FinWait2 else t2 in
    match r with PSuccess => (t3, None) | other => (t3, Some other) end
  | Closing =>
    let '(t2, r) := ack_est t h in
    let t3 := if is_fin_acked t2 then set_time_wait (set_st t2 TimeWait) (Some MSL2) else t2 in
    match r with PSuccess => (t3, None) | other => (t3, Some other) end
  | LastAck =>
    let '(t2, r) := ack_est t h in
    if is_fin_acked t2 then (t2, Some PFinalizeClose)
    else match r with PSuccess => (t2, None) | other => (t2, Some other) end
  | TimeWait =>
    (* only a retransmitted FIN is acknowledged and restarts the 2*MSL wait *)
    if c_fin (h_ctl h) then
      let a := hb_wnd (hb_ack (hb t (snd_nxt t)) (wadd (h_seq h) 1)) (rcv_wnd t) in
      (set_time_wait (enqueue t a) (Some MSL2), None)
    else (t, None)
  end.

(* stage 3: RST bit *)
Definition ps_rst (t : tcb) (h : header) : option psr :=
  if negb (c_rst (h_ctl h)) then None else
  match st t with
  | SynSent => if h_seq h =? rcv_nxt t then Some PConnectionReset else Some PBlindReset
  | SynReceived => if listen_init t then Some PReturnToListen else Some PConnectionRefused
  | Established | FinWait1 | FinWait2 | CloseWait => Some PConnectionReset
  | Closing | LastAck | TimeWait => Some PFinalizeClose
  end.

(* stage 4: SYN bit *)
Definition ps_syn (t : tcb) (h : header) : tcb * option psr :=
  if negb (c_syn (h_ctl h)) then (t, None) else
  match st t with
  | SynSent =>
    let t1 := set_snd_window (set_rcv_nxt (set_rcv_irs t (h_seq h)) (wadd (h_seq h) 1))
                             (h_wnd h) (h_seq h) (h_ack h) in
    if mod_gt (snd_una t1) (snd_iss t1) then
      let t2 := set_st t1 Established in
      (enqueue t2 (ack_hdr t2), None)
    else
      let t2 := set_st t1 SynReceived in
      (enqueue t2 (hb_wnd (hb_ack (hb_syn (hb t2 (snd_iss t2))) (rcv_nxt t2)) (rcv_wnd t2)), Some PSuccess)
  | _ => (enqueue t (ack_hdr t), Some PDiscard)
  end.

(* stage 6: segment text (l.556-591), after the fix commits *)
Definition ps_text (t : tcb) (h : header) (text : list Z) : result tcb :=
  let text_len := zlen text in
  if text_len =? 0 then Ok t else
  match st t with
  | Established | SynSent | SynReceived | FinWait1 | FinWait2 =>
    if negb (is_in_rcv_window t (h_seq h) || is_in_rcv_window t (wadd (h_seq h) text_len))
    then Panic 2                                   (* assert! l.565 *)
    else
      let already := Z.min (wsub (wsub (rcv_nxt t) (h_seq h)) (b2z (c_syn (h_ctl h)))) text_len in
      let unreceived := text_len - already in
      if rcv_wnd t <? zlen (in_text t) then Panic 3   (* u32 subtraction l.576 *)
      else
        let space := rcv_wnd t - zlen (in_text t) in
        let accept := Z.min unreceived space in
        let t1 := set_rcv_nxt t (wadd (rcv_nxt t) accept) in
        let piece := firstn (Z.to_nat accept) (skipn (Z.to_nat already) text) in
        let t2 := set_in_text t1 (in_text t1 ++ piece) in
        Ok (enqueue t2 (ack_hdr t2))
  | _ => Ok t
  end.

(* stage 7: FIN bit (l.593-636) *)
Definition ps_fin (t : tcb) (h : header) (text_len : Z) : tcb :=
  if negb (c_fin (h_ctl h)) then t else
  let t1 :=
    if state_eqb (st t) SynSent then t else
    let last := wadd (h_seq h) text_len in
    if (rcv_nxt t =? last) || (rcv_nxt t =? wadd last 1) then
      let t' := set_rcv_nxt t (wadd last 1) in enqueue t' (ack_hdr t')
    else t in
  match st t1 with
  | SynReceived | Established => set_st t1 CloseWait
  | FinWait1 =>
    if is_fin_acked t1 then set_time_wait (set_st t1 TimeWait) (Some MSL2) else set_st t1 Closing
  | FinWait2 => set_rto (set_time_wait (set_st t1 TimeWait) (Some MSL2)) RTO
  | TimeWait => set_time_wait t1 (Some MSL2)
  | _ => t1
  end.

Definition process_segment (t : tcb) (s : segment) : result (tcb * psr) :=
  let h := s_hdr s in
  let text := s_text s in
  let text_len := zlen text in
  (* stage 1: sequence check *)
  let seq_bad :=
    match st t with
    | SynSent => false
    | _ => negb (is_seq_ok t text_len (h_seq h) (c_syn (h_ctl h)) (c_fin (h_ctl h)))
    end in
  if seq_bad then Ok (enqueue t (ack_hdr t), PDiscard) else
  let '(t2, r2) := ps_ack t h in
  match r2 with Some r => Ok (t2, r) | None =>
  match ps_rst t2 h with Some r => Ok (t2, r) | None =>
  let '(t4, r4) := ps_syn t2 h in
  match r4 with Some r => Ok (t4, r) | None =>
  (* 3.10.7.3 fifth: still in SYN-SENT means neither SYN nor RST *)
  if state_eqb (st t4) SynSent then Ok (t4, PDiscard) else
  match ps_text t4 h text with
  | Ok t6 => Ok (ps_fin t6 h text_len, PSuccess)
  | Err e => Err e | Panic p => Panic p | OutOfFuel => OutOfFuel
  end end end end.

(* ---- segment_arrives (l.335) ---- *)
Inductive arrives_result := AOk | AClose.

Fixpoint arrives_loop (fuel : nat) (t : tcb) : result (tcb * arrives_result) :=
  match fuel with
  | O => OutOfFuel
  | S f =>
    match heap_peek (in_segs t) with
    | None => Ok (t, AOk)
    | Some top =>
      if negb (state_eqb (st t) SynSent) && mod_gt (h_seq (s_hdr top)) (rcv_nxt t) then Ok (t, AOk)
      else
        match heap_pop (in_segs t) with
        | None => Panic 4                            (* pop().unwrap() l.344 - after peek, unreachable *)
        | Some (s, rest) =>
          match process_segment (set_in_segs t rest) s with
          | Ok (t1, r) => if should_delete r then Ok (t1, AClose) else arrives_loop f t1
          | Err e => Err e | Panic p => Panic p | OutOfFuel => OutOfFuel
          end
        end
    end
  end.

Definition segment_arrives (t : tcb) (s : segment) : result (tcb * arrives_result) :=
  let v := heap_push (in_segs t) s in
  arrives_loop (S (length v)) (set_in_segs t v).

(* ---- open (l.100) ---- *)
Definition tcb_open (lp rp iss mtu0 : Z) : tcb :=
  let t := mkTcb lp rp mtu0 false SynSent iss (wadd iss 1) 0 0 0 iss 0 0 DEFAULT_WND
                 [] [] [] false [] [] RTO None in
  enqueue t (hb_wnd (hb_syn (hb t iss)) DEFAULT_WND).

(* ---- segment_arrives_listen (l.790) ---- *)
Inductive listen_result := LNone | LResponse (h : header) | LTcb (t : tcb).

Definition arrives_listen (s : segment) (iss mtu0 : Z) : listen_result :=
  let h := s_hdr s in
  if c_rst (h_ctl h) then LNone
  else if c_ack (h_ctl h) then
    LResponse (hb_rst (mkHdr (h_dport h) (h_sport h) (h_ack h) 0 ctl0 0 0))
  else if c_syn (h_ctl h) then
    let rn := wadd (h_seq h) 1 in
    let t := mkTcb (h_dport h) (h_sport h) mtu0 true SynReceived iss (wadd iss 1)
                   (h_wnd h) (h_seq h) (h_ack h) iss (h_seq h) rn DEFAULT_WND
                   [] [] [] false [] [] RTO None in
    let t1 := enqueue t (hb_wnd (hb_ack (hb_syn (hb t iss)) rn) DEFAULT_WND) in
    let h' := mkHdr (h_sport h) (h_dport h) (h_seq h) (h_ack h)
                    (mkCtl (c_urg (h_ctl h)) false (c_psh (h_ctl h)) (c_rst (h_ctl h)) false (c_fin (h_ctl h)))
                    (h_wnd h) (h_urg h) in
    LTcb (set_in_segs t1 (heap_push (in_segs t1) (mkSeg h' (s_text s))))
  else LNone.

(* ---- segment_arrives_closed (l.763) ---- *)
Definition arrives_closed (h : header) (text_len : Z) : option header :=
  if c_rst (h_ctl h) then None
  else if c_ack (h_ctl h) then Some (hb_rst (mkHdr (h_dport h) (h_sport h) (h_ack h) 0 ctl0 0 0))
  else
    (* ACK = SEG.SEQ + SEG.LEN, SEG.LEN counting SYN and FIN (three wrapping_add calls) *)
    let seg_len := wadd (wadd text_len (b2z (c_syn (h_ctl h)))) (b2z (c_fin (h_ctl h))) in
    Some (hb_ack (hb_rst (mkHdr (h_dport h) (h_sport h) 0 0 ctl0 0 0)) (wadd (h_seq h) seg_len)).

(* ---- send (l.150), receive (l.174) ---- *)
Definition accepts_send (s : state) : bool :=
  match s with SynSent | SynReceived | Established => true | _ => false end.
Definition tcb_send (t : tcb) (bytes : list Z) : tcb :=
  if accepts_send (st t) then set_out_text t (out_text t ++ bytes) else t.
Definition tcb_receive (t : tcb) : tcb * list Z := (set_in_text t [], in_text t).

(* ---- close (l.203) with the deferred FIN ---- *)
Definition queue_pending_fin (t : tcb) : tcb :=
  if fin_pending t && (match out_text t with [] => true | _ => false end) then
    let t1 := set_fin_pending t false in
    let t2 := enqueue t1 (hb_wnd (hb_ack (hb_fin (hb t1 (snd_nxt t1))) (rcv_nxt t1)) (rcv_wnd t1)) in
    set_snd_nxt t2 (wadd (snd_nxt t2) 1)
  else t.

Inductive close_result := CloseOk | CloseClosing.
Definition tcb_close (t : tcb) : tcb * close_result :=
  match st t with
  | SynReceived | Established => (queue_pending_fin (set_st (set_fin_pending t true) FinWait1), CloseOk)
  | CloseWait => (queue_pending_fin (set_st (set_fin_pending t true) LastAck), CloseOk)
  | _ => (t, CloseClosing)
  end.

(* ---- advance_time (l.126) ---- *)
Inductive time_result := TIgnore | TCloseConnection.
Definition advance_time (t : tcb) (dt : Z) : tcb * time_result :=
  let t1 := if rto t <? dt
            then set_retx (set_rto t RTO) (map (fun tx => mkTx (t_seg tx) true) (retx t))
            else set_rto t (rto t - dt) in
  match time_wait t1 with
  | Some tw => if tw <? dt then (t1, TCloseConnection) else (set_time_wait t1 (Some (tw - dt)), TIgnore)
  | None => (t1, TIgnore)
  end.

(* ---- segments (l.270) ---- *)
Definition segmentizes (s : state) : bool :=
  match s with
  | SynSent | SynReceived | Established | CloseWait | FinWait1 | Closing | LastAck => true
  | _ => false
  end.

(* the loop at l.284; [remaining] = out_text.len(), carried to avoid recomputing it *)
Fixpoint seg_loop (fuel : nat) (t : tcb) (mss remaining : Z) : result tcb :=
  match fuel with
  | O => OutOfFuel
  | S f =>
    let in_flight := wsub (snd_nxt t) (snd_una t) in
    let max_bytes := Z.max 0 (snd_wnd t - in_flight) in
    let bytes := Z.min (Z.min mss max_bytes) remaining in
    if bytes =? 0 then Ok t else
    if 65535 <? bytes + 20 then Panic 1              (* .expect("Unexpectedly large MTU and message") *)
    else
      let text := firstn (Z.to_nat bytes) (out_text t) in
      let h := hb_wnd (hb_ack (hb t (snd_nxt t)) (rcv_nxt t)) (rcv_wnd t) in
      let t1 := set_out_text t (skipn (Z.to_nat bytes) (out_text t)) in
      let t2 := set_snd_nxt t1 (wadd (snd_nxt t1) bytes) in
      let t3 := set_retx t2 (retx t2 ++ [mkTx (mkSeg h text) true]) in
      seg_loop f t3 mss (remaining - bytes)
  end.

Definition tcb_segments (t : tcb) : result (tcb * list segment) :=
  let out0 := map (fun h => mkSeg h []) (oneshot t) in
  let t0 := set_oneshot t [] in
  let r1 :=
    if segmentizes (st t0) then
      if mtu t0 <? SPACE_FOR_HEADERS then Panic 5     (* u16 subtraction l.282 *)
      else
        match seg_loop (S (length (out_text t0))) t0 (mtu t0 - SPACE_FOR_HEADERS) (zlen (out_text t0)) with
        | Ok t1 => Ok (queue_pending_fin t1)
        | other => other
        end
    else Ok t0 in
  match r1 with
  | Ok t1 =>
    let out1 := map t_seg (filter t_needs (retx t1)) in
    let t2 := set_retx t1 (map (fun tx => mkTx (t_seg tx) false) (retx t1)) in
    let out := out0 ++ out1 in
    (* the timer restarts only when a retransmittable segment went out *)
    let t3 := match out1 with [] => t2 | _ => set_rto t2 RTO end in
    Ok (t3, out)
  | Err e => Err e | Panic p => Panic p | OutOfFuel => OutOfFuel
  end.
