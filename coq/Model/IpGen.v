(* Executable model of sim/elvis/src/ip_generator.rs (IpGenerator, IpRange, add, next)
   together with the three Ipv4Net operations it uses
   (sim/elvis-core/src/protocols/arp/subnetting.rs: from_bitcount, Ipv4Net::new/new_1/id/broadcast).

   Addresses are Z (the u32 value of an Ipv4Address; its derived Ord on [u8;4]
   is the numeric order of the big-endian u32).  A mask is represented by its
   number of one bits m (an Ipv4Mask can only be built as a prefix mask), so
   `ip & mask` is `ip - ip mod 2^(32-m)` and `!mask` is `2^(32-m) - 1`.

   NOTE: [new_sub_no_ends] follows the REPAIRED code (.cache/c15/fix.patch:
   end = broadcast - 1); the code as it is in the tree is [new_sub_no_ends_orig]
   (end = id - 1), refuted in Proofs/IpGenFacts.v. *)
From Elvis Require Import Model.Base.
Local Open Scope Z_scope.

Definition MAXIP : Z := 4294967295.          (* 255.255.255.255 *)

(* ---- IpRange (ip_generator.rs:236-258); derive(PartialOrd, Ord) = lexicographic (start, end) *)
Definition range := (Z * Z)%type.
Definition rstart (r : range) : Z := fst r.
Definition rend (r : range) : Z := snd r.

(* :247  self.start <= other.end && self.end >= other.start *)
Definition overlaps (self other : range) : bool :=
  (rstart self <=? rend other) && (rend self >=? rstart other).
(* :251  self.start <= other.start && other.end <= self.end *)
Definition contains (self other : range) : bool :=
  (rstart self <=? rstart other) && (rend other <=? rend self).
(* :255  self.end < self.start *)
Definition is_empty (r : range) : bool := rend r <? rstart r.

Definition range_ltb (a b : range) : bool :=
  (rstart a <? rstart b) || ((rstart a =? rstart b) && (rend a <? rend b)).
Definition range_eqb (a b : range) : bool :=
  (rstart a =? rstart b) && (rend a =? rend b).

(* ---- BTreeSet<IpRange>: a strictly sorted list *)
Definition gen := list range.

Fixpoint set_insert (r : range) (g : gen) : gen :=
  match g with
  | [] => [r]
  | x :: t =>
      if range_ltb r x then r :: x :: t
      else if range_eqb r x then x :: t     (* already present: insert is a no-op *)
      else x :: set_insert r t
  end.
Definition set_remove (r : range) (g : gen) : gen :=
  filter (fun x => negb (range_eqb x r)) g.

(* ---- Ipv4Mask / Ipv4Net (subnetting.rs) *)
Definition net := (Z * Z)%type.               (* (network_id, number of mask bits) *)
(* :70 from_bitcount clamps to 0..32 (the argument is a u32) *)
Definition from_bitcount (size : Z) : Z := if size >? 32 then 32 else size.
Definition hostsize (m : Z) : Z := 2 ^ (32 - m).           (* !mask + 1 *)
(* :202 Ipv4Net::new : network_id = ip & mask *)
Definition net_new (ip m : Z) : net := (ip - ip mod hostsize m, m).
(* :222 new_short *)
Definition net_new_short (ip len : Z) : net := net_new ip (from_bitcount len).
(* :227 new_1 *)
Definition net_new_1 (ip : Z) : net := (ip, 32).
Definition net_id (n : net) : Z := fst n.
Definition net_bits (n : net) : Z := snd n.
(* :271 broadcast : id + !mask, an unchecked u32 addition (panics on overflow in the dev profile) *)
Definition net_broadcast (n : net) : result Z :=
  let s := net_id n + (hostsize (net_bits n) - 1) in
  if s >? MAXIP then Panic 3 else Ok s.
(* ip_generator.rs:260 From<Ipv4Net> for IpRange *)
Definition range_of_net (n : net) : result range :=
  do b <- net_broadcast n; Ok (net_id n, b).

(* ---- ip_generator.rs:217 add : checked_add_signed *)
Definition add (ip n : Z) : option Z :=
  let s := ip + n in
  if (0 <=? s) && (s <=? MAXIP) then Some s else None.

(* :224 next *)
Definition next (ip m : Z) : result (option net) :=
  let n := net_new ip m in
  if net_id n =? ip then Ok (Some n)
  else
    do b <- net_broadcast n;
    match add b 1 with
    | None => Ok None                       (* the `?` *)
    | Some ip' => Ok (Some (net_new ip' m))
    end.

(* ---- IpGenerator *)
(* :58 *)
Definition gen_none : gen := [].
(* :148 return_range : BTreeSet::insert, no merging *)
Definition return_range (g : gen) (r : range) : gen := set_insert r g.
(* :22 *)
Definition gen_new (r : range) : gen := return_range gen_none r.
(* :29 *)
Definition new_sub (n : net) : result gen :=
  do b <- net_broadcast n; Ok (gen_new (net_id n, b)).
(* :37-47 AS IT IS in the tree: end = add(net.id(), -1) *)
Definition new_sub_no_ends_orig (n : net) : gen :=
  match add (net_id n) 1, add (net_id n) (-1) with
  | Some s, Some e => gen_new (s, e)
  | _, _ => gen_none
  end.
(* :37-47 after fix.patch: end = add(net.broadcast(), -1) *)
Definition new_sub_no_ends (n : net) : result gen :=
  do b <- net_broadcast n;
  Ok (match add (net_id n) 1, add b (-1) with
      | Some s, Some e => gen_new (s, e)
      | _, _ => gen_none
      end).
(* :50 *)
Definition gen_all : gen := gen_new (0, MAXIP).

(* :162-196 block_range.  One iteration of the `for av_range in overlapping` loop: *)
Definition split_one (rg av : range) (g : gen) : result gen :=
  let g := set_remove av g in                                     (* :176 *)
  do g <- (if rstart rg >? 0 then                                  (* :179 *)
             match add (rstart rg) (-1) with
             | None => Panic 1                                     (* :180 expect *)
             | Some left_end =>
                 let left := (rstart av, left_end) in
                 Ok (if is_empty left then g else set_insert left g)
             end
           else Ok g);
  do g <- (if rend rg <? MAXIP then                                (* :188 *)
             match add (rend rg) 1 with
             | None => Panic 2                                     (* :189 expect *)
             | Some right_start =>
                 let right := (right_start, rend av) in
                 Ok (if is_empty right then g else set_insert right g)
             end
           else Ok g);
  Ok g.

Fixpoint split_all (rg : range) (ovl : list range) (g : gen) : result gen :=
  match ovl with
  | [] => Ok g
  | av :: t => do g' <- split_one rg av g; split_all rg t g'
  end.

Definition block_range (g : gen) (rg : range) : result gen :=
  let g1 := filter (fun av => negb (contains rg av)) g in          (* :164 retain *)
  let ovl := filter (fun av => overlaps av rg) g1 in               (* :168-173 *)
  split_all rg ovl g1.                                             (* :175-195 *)

(* :158 *)
Definition block_subnet (g : gen) (n : net) : result gen :=
  do r <- range_of_net n; block_range g r.
(* :144 *)
Definition return_subnet (g : gen) (n : net) : result gen :=
  do r <- range_of_net n; Ok (return_range g r).
(* :153 *)
Definition return_ip (g : gen) (ip : Z) : result gen := return_subnet g (net_new_1 ip).
(* :136 is_available: NOT any(av.contains(net)) - true when NO stored range contains the net *)
Definition is_available (g : gen) (n : net) : result bool :=
  do r <- range_of_net n; Ok (negb (existsb (fun av => contains av r) g)).

(* :116-133 fetch_net: the loop runs over a copy of the ranges taken at entry *)
Fixpoint fetch_loop (ranges : list range) (g : gen) (m : Z) : result (option net * gen) :=
  match ranges with
  | [] => Ok (None, g)
  | av :: t =>
      do nx <- next (rstart av) m;
      match nx with
      | None => fetch_loop t g m                                   (* :124 continue *)
      | Some n =>
          do r <- range_of_net n;
          if contains av r then                                    (* :127 *)
            do g' <- block_range g r; Ok (Some n, g')              (* :128 block_subnet *)
          else fetch_loop t g m
      end
  end.
Definition fetch_net (g : gen) (m : Z) : result (option net * gen) := fetch_loop g g m.
(* :107 *)
Definition fetch_ip (g : gen) : result (option Z * gen) :=
  do r <- fetch_net g (from_bitcount 32);
  Ok (option_map net_id (fst r), snd r).

(* :76-101 block_reserved_ips *)
Definition ip4 (a b c d : Z) : Z := ((a * 256 + b) * 256 + c) * 256 + d.
Definition reserved : list (Z * Z) :=
  [ (ip4 0 0 0 0, 8); (ip4 10 0 0 0, 8); (ip4 100 64 0 0, 10); (ip4 127 0 0 0, 8);
    (ip4 169 254 0 0, 16); (ip4 172 16 0 0, 12); (ip4 192 0 0 0, 24); (ip4 192 0 2 0, 24);
    (ip4 192 88 99 0, 24); (ip4 192 168 0 0, 16); (ip4 198 18 0 0, 15); (ip4 198 51 100 0, 24);
    (ip4 203 0 113 0, 24); (ip4 224 0 0 0, 4); (ip4 233 252 0 0, 24); (ip4 240 0 0 0, 4);
    (ip4 255 255 255 255, 32) ].
Fixpoint block_list (g : gen) (l : list (Z * Z)) : result gen :=
  match l with
  | [] => Ok g
  | (ip, len) :: t => do g' <- block_subnet g (net_new ip (from_bitcount len)); block_list g' t
  end.
Definition block_reserved_ips (g : gen) : result gen := block_list g reserved.
(* :67 *)
Definition blocked_out : result gen := block_reserved_ips gen_all.

(* ---- operation histories (the public API as the harness drives it) *)
Inductive op :=
| OBlock (ip len : Z)        (* block_subnet(Ipv4Net::new_short(ip, len)) *)
| OFetchIp                   (* fetch_ip() *)
| OFetchNet (len : Z)        (* fetch_net(Ipv4Mask::from_bitcount(len)) *)
| OReturn (ip len : Z)       (* return_subnet(Ipv4Net::new_short(ip, len)) *)
| OReturnIp (ip : Z)         (* return_ip(ip) *)
| OIsAvail (ip len : Z)      (* is_available(Ipv4Net::new_short(ip, len)) *)
| OBlockReserved.            (* block_reserved_ips() *)

Inductive out :=
| RUnit
| RNet (n : option net)
| RIp (a : option Z)
| RBool (b : bool).

Definition apply_op (g : gen) (o : op) : result (gen * out) :=
  match o with
  | OBlock ip len => do g' <- block_subnet g (net_new_short ip len); Ok (g', RUnit)
  | OFetchIp => do r <- fetch_ip g; Ok (snd r, RIp (fst r))
  | OFetchNet len => do r <- fetch_net g (from_bitcount len); Ok (snd r, RNet (fst r))
  | OReturn ip len => do g' <- return_subnet g (net_new_short ip len); Ok (g', RUnit)
  | OReturnIp ip => do g' <- return_ip g ip; Ok (g', RUnit)
  | OIsAvail ip len => do b <- is_available g (net_new_short ip len); Ok (g, RBool b)
  | OBlockReserved => do g' <- block_reserved_ips g; Ok (g', RUnit)
  end.

(* constructors as the harness names them *)
Inductive ctor :=
| KNew (s e : Z)             (* IpGenerator::new(IpRange::new(s, e)) *)
| KSub (ip len : Z)          (* new_sub(new_short(ip, len)) *)
| KNoEnds (ip len : Z)       (* new_sub_no_ends(new_short(ip, len)) *)
| KNoEndsOrig (ip len : Z)   (* the unrepaired new_sub_no_ends, for the refutation / replay *)
| KAll | KNone | KBlockedOut.

Definition build (k : ctor) : result gen :=
  match k with
  | KNew s e => Ok (gen_new (s, e))
  | KSub ip len => new_sub (net_new_short ip len)
  | KNoEnds ip len => new_sub_no_ends (net_new_short ip len)
  | KNoEndsOrig ip len => Ok (new_sub_no_ends_orig (net_new_short ip len))
  | KAll => Ok gen_all
  | KNone => Ok gen_none
  | KBlockedOut => blocked_out
  end.
