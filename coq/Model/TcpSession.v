(* Executable model of the TCP session task,
   sim/elvis-core/src/protocols/tcp/tcp_session.rs (the glue between the channel of
   instructions, the TCB, the IPv4 session below and the application above).
   Line numbers refer to tcp_session.rs.  The TCB is Model/Tcb.v.

   Part 1: the task's loop as a state machine over the calls it makes on its TCB.
   Part 2: the observable trace (the `verif` session observer) and the validator.
   Part 3: the closed system of two session tasks joined by a lossy network. *)
From Elvis Require Import Model.Base Model.U32 Model.Tcb Model.TcpNet.
Local Open Scope Z_scope.

(* ================================================================== *)
(* Part 1: the loop                                                    *)
(* ================================================================== *)

Definition TIMEOUT_MS : Z := 5.      (* l.49  const TIMEOUT: Duration = Duration::from_millis(5) *)

(* every call the task makes on its TCB *)
Inductive tcall :=
| CStatus                         (* l.57  tcb.status() *)
| CArrives (seg : segment)        (* l.154 tcb.segment_arrives(segment) *)
| CSend (bytes : list Z)          (* l.159 tcb.send(message) *)
| CAdvance (ms : Z)               (* l.103 tcb.advance_time(TIMEOUT) *)
| CSegments                       (* l.112 tcb.segments() *)
| CReceive.                       (* l.122 tcb.receive() *)

(* what a step of the task does, in order *)
Inductive sout :=
| OCall (c : tcall)
| OConnected                      (* l.58-63 upstream.notify(NewConnection) *)
| OEmitted (seg : segment)        (* l.115-116 header serialised, downstream.send *)
| OFlushed (bytes : list Z)       (* l.122-132 result of receive(); upstream.demux iff non-empty *)
| OEnded (t : tcb)                (* the task left 'outer (l.134) with this TCB; nothing follows *)
| OPanicked (site : Z).           (* a call on the TCB panicked: the tokio task dies *)

(* where the task is *)
Inductive sphase :=
| PDrain (needs_timeout : bool)   (* l.66-82  at `recv.try_recv()` *)
| PWait                           (* l.85     at `timeout(TIMEOUT, recv.recv()).await` *)
| PReady                          (* l.112    about to call segments() *)
| PEmitted                        (* l.122    about to call receive() *)
| PEnded                          (* left the loop *)
| PCrashed.

Record sess := mkSess { ss_tcb : tcb; ss_conn : bool; ss_phase : sphase }.

(* what the environment / the queue decides *)
Inductive sevent :=
| SIncoming (seg : segment)       (* an Instruction::Incoming is received (try_recv l.67 or recv l.85) *)
| SOutgoing (bytes : list Z)      (* an Instruction::Outgoing is received *)
| SEmpty                          (* try_recv returned Empty (l.78) *)
| SAdvance                        (* the timeout elapsed (l.100) *)
| SEmit                           (* l.112-120 *)
| SFlush.                         (* l.122-132, then the top of the next round l.55-64 *)

(* l.55-64: top of a round.  `!connected && tcb.status() == Established` short-circuits. *)
Definition sess_top (t : tcb) (conn : bool) : bool * list sout :=
  if conn then (true, [])
  else if state_eqb (st t) Established then (true, [OCall CStatus; OConnected])
  else (false, [OCall CStatus]).

(* l.44-48: the task starts (Start event), first round top *)
Definition sess_start (t : tcb) : sess * list sout :=
  let '(c, o) := sess_top t false in (mkSess t c (PDrain true), o).

(* l.152-163 handle_instruction + the two match sites l.71-75 / l.91-94.
   [next] = the phase after InstructionResult::Ok: PDrain false in the drain loop
   (needs_timeout = false, l.75), PReady after the timed receive. *)
Definition sess_handle (s : sess) (e : sevent) (next : sphase) : option (sess * list sout) :=
  let t := ss_tcb s in
  match e with
  | SIncoming seg =>
    match segment_arrives t seg with
    | Ok (t1, AOk) => Some (mkSess t1 (ss_conn s) next, [OCall (CArrives seg)])
    (* SegmentArrivesResult::Close -> InstructionResult::Close -> break 'outer (l.73) / break (l.93):
       neither segments() nor receive() is called any more *)
    | Ok (t1, AClose) => Some (mkSess t1 (ss_conn s) PEnded, [OCall (CArrives seg); OEnded t1])
    | Panic p => Some (mkSess t (ss_conn s) PCrashed, [OCall (CArrives seg); OPanicked p])
    | _ => Some (mkSess t (ss_conn s) PCrashed, [OCall (CArrives seg); OPanicked 99])
    end
  | SOutgoing bytes =>
    Some (mkSess (tcb_send t bytes) (ss_conn s) next, [OCall (CSend bytes)])
  | _ => None
  end.

Definition sess_step (s : sess) (e : sevent) : option (sess * list sout) :=
  let t := ss_tcb s in
  match ss_phase s with
  | PDrain nt =>
    match e with
    | SIncoming _ | SOutgoing _ => sess_handle s e (PDrain false)          (* l.68-76 *)
    | SEmpty => Some (mkSess t (ss_conn s) (if nt then PWait else PReady), [])   (* l.78, l.84 *)
    | _ => None
    end
  | PWait =>
    match e with
    | SIncoming _ | SOutgoing _ => sess_handle s e PReady                   (* l.86-95 *)
    | SAdvance =>                                                           (* l.100-108 *)
      match advance_time t TIMEOUT_MS with
      | (t1, TIgnore) => Some (mkSess t1 (ss_conn s) PReady, [OCall (CAdvance TIMEOUT_MS)])
      | (t1, TCloseConnection) =>
        Some (mkSess t1 (ss_conn s) PEnded, [OCall (CAdvance TIMEOUT_MS); OEnded t1])
      end
    | _ => None
    end
  | PReady =>
    match e with
    | SEmit =>                                                              (* l.112-120 *)
      match tcb_segments t with
      | Ok (t1, segs) => Some (mkSess t1 (ss_conn s) PEmitted, OCall CSegments :: map OEmitted segs)
      | Panic p => Some (mkSess t (ss_conn s) PCrashed, [OCall CSegments; OPanicked p])
      | _ => Some (mkSess t (ss_conn s) PCrashed, [OCall CSegments; OPanicked 98])
      end
    | _ => None
    end
  | PEmitted =>
    match e with
    | SFlush =>                                                             (* l.122-132, l.55-64 *)
      let '(t1, bytes) := tcb_receive t in
      let '(c, o) := sess_top t1 (ss_conn s) in
      Some (mkSess t1 c (PDrain true), OCall CReceive :: OFlushed bytes :: o)
    | _ => None
    end
  | PEnded | PCrashed => None
  end.

(* an execution: the concatenated outputs, or None if an event is not enabled *)
Fixpoint sess_exec (s : sess) (es : list sevent) : option (sess * list sout) :=
  match es with
  | [] => Some (s, [])
  | e :: r =>
    match sess_step s e with
    | None => None
    | Some (s1, o1) =>
      match sess_exec s1 r with
      | None => None
      | Some (s2, o2) => Some (s2, o1 ++ o2)
      end
    end
  end.

(* ================================================================== *)
(* Part 2: observed traces and the validator                           *)
(* ================================================================== *)

(* Tcb::verif_snapshot() (tcb.rs, bottom) *)
Record snapshot := mkSnap {
  sn_state : state; sn_listen : bool;
  sn_una : Z; sn_nxt : Z; sn_wnd : Z; sn_wl1 : Z; sn_wl2 : Z; sn_iss : Z;
  sn_irs : Z; sn_rnxt : Z; sn_rwnd : Z;
  sn_out_len : Z;
  sn_retx : list (Z * Z * (bool * bool * bool));   (* seq, text length, (syn, fin, needs_transmit) *)
  sn_oneshot_len : Z;
  sn_in_segs : list (Z * Z);                       (* (seq, text length), sorted *)
  sn_in_len : Z;
  sn_rto_ns : Z;
  sn_tw_ns : option Z;
  sn_fin_pending : bool }.

(* the session observer's events after Start, in the order the task produces them *)
Inductive oevent :=
| EvConnected
| EvIncoming (seg : segment)
| EvOutgoing (bytes : list Z)
| EvAdvance (ns : Z)
| EvEmitted (seg : segment)
| EvFlushed (bytes : list Z)
| EvEnded (sn : snapshot).

Fixpoint bytes_eqb (a b : list Z) : bool :=
  match a, b with
  | [], [] => true
  | x :: a', y :: b' => (x =? y) && bytes_eqb a' b'
  | _, _ => false
  end.

Definition ctl_eqb (a b : ctl) : bool :=
  Bool.eqb (c_urg a) (c_urg b) && Bool.eqb (c_ack a) (c_ack b) && Bool.eqb (c_psh a) (c_psh b) &&
  Bool.eqb (c_rst a) (c_rst b) && Bool.eqb (c_syn a) (c_syn b) && Bool.eqb (c_fin a) (c_fin b).

Definition hdr_eqb (a b : header) : bool :=
  (h_sport a =? h_sport b) && (h_dport a =? h_dport b) && (h_seq a =? h_seq b) && (h_ack a =? h_ack b) &&
  ctl_eqb (h_ctl a) (h_ctl b) && (h_wnd a =? h_wnd b) && (h_urg a =? h_urg b).

Definition seg_eqb (a b : segment) : bool := hdr_eqb (s_hdr a) (s_hdr b) && bytes_eqb (s_text a) (s_text b).

(* (u32, usize) tuples as Rust's derived Ord compares them *)
Definition pair_leb (a b : Z * Z) : bool :=
  (fst a <? fst b) || ((fst a =? fst b) && (snd a <=? snd b)).
Fixpoint pair_insert (x : Z * Z) (l : list (Z * Z)) : list (Z * Z) :=
  match l with
  | [] => [x]
  | y :: r => if pair_leb x y then x :: l else y :: pair_insert x r
  end.
Definition pair_sort (l : list (Z * Z)) : list (Z * Z) := fold_right pair_insert [] l.

Fixpoint pairs_eqb (a b : list (Z * Z)) : bool :=
  match a, b with
  | [], [] => true
  | (x1, x2) :: a', (y1, y2) :: b' => (x1 =? y1) && (x2 =? y2) && pairs_eqb a' b'
  | _, _ => false
  end.

Definition retx_entry (tx : transmit) : Z * Z * (bool * bool * bool) :=
  let s := t_seg tx in
  (h_seq (s_hdr s), zlen (s_text s), (c_syn (h_ctl (s_hdr s)), c_fin (h_ctl (s_hdr s)), t_needs tx)).

Fixpoint retx_eqb (a b : list (Z * Z * (bool * bool * bool))) : bool :=
  match a, b with
  | [], [] => true
  | (x1, x2, (x3, x4, x5)) :: a', (y1, y2, (y3, y4, y5)) :: b' =>
    (x1 =? y1) && (x2 =? y2) && Bool.eqb x3 y3 && Bool.eqb x4 y4 && Bool.eqb x5 y5 && retx_eqb a' b'
  | _, _ => false
  end.

Definition optz_eqb (a b : option Z) : bool :=
  match a, b with
  | None, None => true
  | Some x, Some y => x =? y
  | _, _ => false
  end.

Definition NS_PER_MS : Z := 1000000.

(* number of the first field of the snapshot that differs from the model TCB; 0 = none *)
Definition snap_diff (sn : snapshot) (t : tcb) : Z :=
  if negb (state_eqb (sn_state sn) (st t)) then 1
  else if negb (Bool.eqb (sn_listen sn) (listen_init t)) then 2
  else if negb (sn_una sn =? snd_una t) then 3
  else if negb (sn_nxt sn =? snd_nxt t) then 4
  else if negb (sn_wnd sn =? snd_wnd t) then 5
  else if negb (sn_wl1 sn =? snd_wl1 t) then 6
  else if negb (sn_wl2 sn =? snd_wl2 t) then 7
  else if negb (sn_iss sn =? snd_iss t) then 8
  else if negb (sn_irs sn =? rcv_irs t) then 9
  else if negb (sn_rnxt sn =? rcv_nxt t) then 10
  else if negb (sn_rwnd sn =? rcv_wnd t) then 11
  else if negb (sn_out_len sn =? zlen (out_text t)) then 12
  else if negb (retx_eqb (sn_retx sn) (map retx_entry (retx t))) then 13
  else if negb (sn_oneshot_len sn =? zlen (oneshot t)) then 14
  else if negb (pairs_eqb (sn_in_segs sn)
                  (pair_sort (map (fun s => (h_seq (s_hdr s), zlen (s_text s))) (in_segs t)))) then 15
  else if negb (sn_in_len sn =? zlen (in_text t)) then 16
  else if negb (sn_rto_ns sn =? rto t * NS_PER_MS) then 17
  else if negb (optz_eqb (sn_tw_ns sn) (option_map (fun x => x * NS_PER_MS) (time_wait t))) then 18
  else if negb (Bool.eqb (sn_fin_pending sn) (fin_pending t)) then 19
  else 0.

Definition snap_matches (sn : snapshot) (t : tcb) : bool := snap_diff sn t =? 0.

(* How tcp.rs creates the TCB of a session, rebuilt from the Start snapshot:
   - Tcp::open (tcp.rs l.62-86): Tcb::open(endpoints, rand::random(), mtu of the PCI session)
   - Tcp::demux on a listen binding (tcp.rs l.168-200): segment_arrives_listen(segment, .., rand::random(), mtu)
     with a SYN.  The random ISS is read from the snapshot; the SYN is rebuilt from what the
     listen path copies out of it (IRS = SEG.SEQ, SND.WND = SEG.WND, SND.WL2 = SEG.ACK); a SYN
     carrying text is not rebuilt (the snapshot has its length only), such a start is rejected. *)
Record init_info := mkInit { ii_lport : Z; ii_rport : Z; ii_mtu : Z; ii_snap : snapshot }.

Definition syn_of_snapshot (i : init_info) : segment :=
  let sn := ii_snap i in
  mkSeg (mkHdr (ii_rport i) (ii_lport i) (sn_irs sn) (sn_wl2 sn)
               (mkCtl false false false false true false) (sn_wnd sn) 0) [].

Definition init_candidate (i : init_info) : option tcb :=
  let sn := ii_snap i in
  if sn_listen sn then
    match arrives_listen (syn_of_snapshot i) (sn_iss sn) (ii_mtu i) with
    | LTcb t => Some t
    | _ => None
    end
  else Some (tcb_open (ii_lport i) (ii_rport i) (sn_iss sn) (ii_mtu i)).

Definition init_tcb (i : init_info) : option tcb :=
  match init_candidate i with
  | Some t => if snap_matches (ii_snap i) t then Some t else None
  | None => None
  end.

(* the events the loop must have taken between the observed calls.  An accepted instruction
   is attributed to the drain loop (the timed receive of l.85 is indistinguishable for a round
   with one instruction).  The position in the current round, as far as the observed events
   tell: nothing yet / an instruction was handled / the timeout branch was taken / an Emitted
   of this round has been seen (segments() has run). *)
Inductive rpos := RTop | RInstr | RAdv | REmit.

Fixpoint inputs_of (p : rpos) (tr : list oevent) : list sevent :=
  match tr with
  | [] => []
  | EvIncoming seg :: r => SIncoming seg :: inputs_of RInstr r
  | EvOutgoing b :: r => SOutgoing b :: inputs_of RInstr r
  | EvAdvance _ :: r => SEmpty :: SAdvance :: inputs_of RAdv r
  | EvEmitted _ :: r =>
    match p with
    | REmit => inputs_of REmit r
    | RAdv => SEmit :: SFlush :: inputs_of REmit r
    | _ => SEmpty :: SEmit :: SFlush :: inputs_of REmit r
    end
  | EvFlushed _ :: r =>
    match p with
    | REmit => inputs_of RTop r
    | RAdv => SEmit :: SFlush :: inputs_of RTop r
    | _ => SEmpty :: SEmit :: SFlush :: inputs_of RTop r
    end
  | EvConnected :: r => inputs_of p r
  | EvEnded _ :: r => inputs_of p r
  end.

(* which outputs the observer sees *)
Definition visible (o : sout) : bool :=
  match o with
  | OCall CStatus | OCall CSegments | OCall CReceive => false
  | _ => true
  end.

Definition ev_matches (e : oevent) (o : sout) : bool :=
  match e, o with
  | EvConnected, OConnected => true
  | EvIncoming s, OCall (CArrives s') => seg_eqb s s'
  | EvOutgoing b, OCall (CSend b') => bytes_eqb b b'
  | EvAdvance ns, OCall (CAdvance ms) => ns =? ms * NS_PER_MS
  | EvEmitted s, OEmitted s' => seg_eqb s s'
  | EvFlushed b, OFlushed b' => bytes_eqb b b'
  | EvEnded sn, OEnded t => snap_matches sn t
  | _, _ => false
  end.

(* index of the first observed event that is not what the model produced at that position
   (the observed trace may stop early: a simulation is torn down while its tasks run) *)
Fixpoint first_mismatch (k : nat) (tr : list oevent) (os : list sout) : option nat :=
  match tr, os with
  | [], _ => None
  | e :: tr', o :: os' => if ev_matches e o then first_mismatch (S k) tr' os' else Some k
  | _ :: _, [] => Some k
  end.

Inductive verdict :=
| Accept
| RejectInit (field : Z)          (* the Start snapshot is not what the constructors of tcp.rs build: first differing field, 0 = no TCB *)
| RejectOrder                     (* the call sequence is not one the loop can produce *)
| RejectEvent (k : nat).          (* observed event k differs from the model's *)

Definition init_diff (i : init_info) : Z :=
  match init_candidate i with
  | Some t => snap_diff (ii_snap i) t
  | None => 0
  end.

Definition sess_validate (i : init_info) (tr : list oevent) : verdict :=
  match init_tcb i with
  | None => RejectInit (init_diff i)
  | Some t0 =>
    let '(s0, o0) := sess_start t0 in
    match sess_exec s0 (inputs_of RTop tr) with
    | None => RejectOrder
    | Some (_, outs) =>
      match first_mismatch 0 tr (filter visible (o0 ++ outs)) with
      | None => Accept
      | Some k => RejectEvent k
      end
    end
  end.

(* diagnostics for the driver: the model's visible outputs for the observed inputs, as far as the loop follows *)
Fixpoint sess_exec_partial (s : sess) (es : list sevent) : list sout * nat :=
  match es with
  | [] => ([], O)
  | e :: r =>
    match sess_step s e with
    | None => ([], S (length r))
    | Some (s1, o1) => let '(o2, n) := sess_exec_partial s1 r in (o1 ++ o2, n)
    end
  end.

(* ================================================================== *)
(* Part 3: two session tasks and a lossy, duplicating, reordering net  *)
(* ================================================================== *)

(* tcp_session.rs l.192-195 *)
Inductive instr := IIncoming (seg : segment) | IOutgoing (bytes : list Z).

Definition ev_of_instr (i : instr) : sevent :=
  match i with IIncoming s => SIncoming s | IOutgoing b => SOutgoing b end.

(* a machine's TCP towards the one peer: no session and no listen binding, a listen binding,
   or a session task with its channel (mpsc, FIFO; the senders that wait for one of the 8
   slots are served in order, so the channel is an unbounded FIFO queue here) *)
Inductive ytask := YNone | YListen | YRun (s : sess) (q : list instr).

Record ysys := mkY {
  ytA : ytask; ytB : ytask;
  ynA : list segment; ynB : list segment;          (* in flight, sent by A / by B *)
  ypushA : list Z; ypushB : list Z;                (* every byte the application handed to Session::send, in order *)
  yhandA : list Z; yhandB : list Z;                (* history: bytes of the Outgoing instructions the task has handled *)
  yaccA : list Z; yaccB : list Z;                  (* history: those of them the TCB accepted (Tcb::send in an open state) *)
  yflA : list (list Z); yflB : list (list Z);      (* non-empty messages given to upstream.demux, in order *)
  ypan : bool }.

Definition yt y x := match x with SA => ytA y | SB => ytB y end.
Definition yn y x := match x with SA => ynA y | SB => ynB y end.
Definition ypush y x := match x with SA => ypushA y | SB => ypushB y end.
Definition yhand y x := match x with SA => yhandA y | SB => yhandB y end.
Definition yacc y x := match x with SA => yaccA y | SB => yaccB y end.
Definition yfl y x := match x with SA => yflA y | SB => yflB y end.
Definition yflushed y x : list Z := concat (yfl y x).

Definition set_yt y x v :=
  match x with
  | SA => mkY v (ytB y) (ynA y) (ynB y) (ypushA y) (ypushB y) (yhandA y) (yhandB y) (yaccA y) (yaccB y) (yflA y) (yflB y) (ypan y)
  | SB => mkY (ytA y) v (ynA y) (ynB y) (ypushA y) (ypushB y) (yhandA y) (yhandB y) (yaccA y) (yaccB y) (yflA y) (yflB y) (ypan y)
  end.
Definition set_yn y x v :=
  match x with
  | SA => mkY (ytA y) (ytB y) v (ynB y) (ypushA y) (ypushB y) (yhandA y) (yhandB y) (yaccA y) (yaccB y) (yflA y) (yflB y) (ypan y)
  | SB => mkY (ytA y) (ytB y) (ynA y) v (ypushA y) (ypushB y) (yhandA y) (yhandB y) (yaccA y) (yaccB y) (yflA y) (yflB y) (ypan y)
  end.
Definition set_ypush y x v :=
  match x with
  | SA => mkY (ytA y) (ytB y) (ynA y) (ynB y) v (ypushB y) (yhandA y) (yhandB y) (yaccA y) (yaccB y) (yflA y) (yflB y) (ypan y)
  | SB => mkY (ytA y) (ytB y) (ynA y) (ynB y) (ypushA y) v (yhandA y) (yhandB y) (yaccA y) (yaccB y) (yflA y) (yflB y) (ypan y)
  end.
Definition set_yhand y x v :=
  match x with
  | SA => mkY (ytA y) (ytB y) (ynA y) (ynB y) (ypushA y) (ypushB y) v (yhandB y) (yaccA y) (yaccB y) (yflA y) (yflB y) (ypan y)
  | SB => mkY (ytA y) (ytB y) (ynA y) (ynB y) (ypushA y) (ypushB y) (yhandA y) v (yaccA y) (yaccB y) (yflA y) (yflB y) (ypan y)
  end.
Definition set_yacc y x v :=
  match x with
  | SA => mkY (ytA y) (ytB y) (ynA y) (ynB y) (ypushA y) (ypushB y) (yhandA y) (yhandB y) v (yaccB y) (yflA y) (yflB y) (ypan y)
  | SB => mkY (ytA y) (ytB y) (ynA y) (ynB y) (ypushA y) (ypushB y) (yhandA y) (yhandB y) (yaccA y) v (yflA y) (yflB y) (ypan y)
  end.
Definition set_yfl y x v :=
  match x with
  | SA => mkY (ytA y) (ytB y) (ynA y) (ynB y) (ypushA y) (ypushB y) (yhandA y) (yhandB y) (yaccA y) (yaccB y) v (yflB y) (ypan y)
  | SB => mkY (ytA y) (ytB y) (ynA y) (ynB y) (ypushA y) (ypushB y) (yhandA y) (yhandB y) (yaccA y) (yaccB y) (yflA y) v (ypan y)
  end.
Definition set_ypan y v :=
  mkY (ytA y) (ytB y) (ynA y) (ynB y) (ypushA y) (ypushB y) (yhandA y) (yhandB y) (yaccA y) (yaccB y) (yflA y) (yflB y) v.

Definition yinit (listenB : bool) : ysys :=
  mkY YNone (if listenB then YListen else YNone) [] [] [] [] [] [] [] [] [] [] false.

Inductive ylabel :=
| YOpen (x : side)                    (* the application calls Tcp::open: the task starts on Tcb::open *)
| YWrite (x : side) (bytes : list Z)  (* the application calls Session::send: an Outgoing instruction is queued *)
| YTask (x : side)                    (* the task of x performs the next step of its loop *)
| YTimeout (x : side)                 (* the 5 ms timeout of l.85 elapses (whatever the channel holds) *)
| YDeliver (x : side) (i : nat)       (* the i-th in-flight segment of x (modulo the count) reaches Tcp::demux of the peer *)
| YDrop (x : side) (i : nat)
| YDup (x : side) (i : nat).

(* what the outputs of one task step do to the rest of the system *)
Definition emitted_of (os : list sout) : list segment :=
  flat_map (fun o => match o with OEmitted s => [s] | _ => [] end) os.
Definition flushed_of (os : list sout) : list (list Z) :=
  flat_map (fun o => match o with OFlushed (b :: r) => [b :: r] | _ => [] end) os.
Definition panicked_of (os : list sout) : bool :=
  existsb (fun o => match o with OPanicked _ => true | _ => false end) os.

Definition apply_outs (y : ysys) (x : side) (os : list sout) : ysys :=
  let y1 := set_yn y x (yn y x ++ emitted_of os) in
  let y2 := set_yfl y1 x (yfl y1 x ++ flushed_of os) in
  if panicked_of os then set_ypan y2 true else y2.

(* the task of x takes event e (with the rest of its channel q) *)
Definition ytake (y : ysys) (x : side) (s : sess) (q : list instr) (e : sevent) : ysys :=
  match sess_step s e with
  | None => y
  | Some (s1, os) =>
    let y1 :=
      match e with
      | SOutgoing b =>
        let y0 := set_yhand y x (yhand y x ++ b) in
        if accepts_send (st (ss_tcb s)) then set_yacc y0 x (yacc y0 x ++ b) else y0
      | _ => y
      end in
    apply_outs (set_yt y1 x (YRun s1 q)) x os
  end.

Definition qsegs (q : list instr) : list segment :=
  flat_map (fun i => match i with IIncoming s => [s] | _ => [] end) q.
Definition qbytes (q : list instr) : list Z :=
  flat_map (fun i => match i with IOutgoing b => b | _ => [] end) q.

Definition ystep (c : config) (y : ysys) (l : ylabel) : ysys :=
  if ypan y then y else
  match l with
  | YOpen x =>
    match yt y x with
    | YNone =>
      let '(s0, os) := sess_start (tcb_open (port_of c x) (port_of c (other x)) (iss_of c x) (mtu_of c x)) in
      apply_outs (set_yt y x (YRun s0 [])) x os
    | _ => y
    end
  | YWrite x bytes =>
    match yt y x with
    | YRun s q => set_ypush (set_yt y x (YRun s (q ++ [IOutgoing bytes]))) x (ypush y x ++ bytes)
    | _ => y
    end
  | YTask x =>
    match yt y x with
    | YRun s q =>
      match ss_phase s with
      | PDrain _ =>
        match q with
        | [] => ytake y x s [] SEmpty
        | i :: q' => ytake y x s q' (ev_of_instr i)
        end
      | PWait =>
        match q with
        | [] => y
        | i :: q' => ytake y x s q' (ev_of_instr i)
        end
      | PReady => ytake y x s q SEmit
      | PEmitted => ytake y x s q SFlush
      | _ => y
      end
    | _ => y
    end
  | YTimeout x =>
    match yt y x with
    | YRun s q => match ss_phase s with PWait => ytake y x s q SAdvance | _ => y end
    | _ => y
    end
  | YDeliver x i =>
    match yn y x with
    | [] => y
    | n =>
      let j := Nat.modulo i (length n) in
      match nth_error n j with
      | None => y
      | Some seg =>
        let y1 := set_yn y x (remove_nth n j) in
        let r := other x in
        match yt y1 r with
        | YRun s q => set_yt y1 r (YRun s (q ++ [IIncoming seg]))       (* tcp.rs l.142: entry.get().receive(segment) *)
        | YListen =>                                                     (* tcp.rs l.168-200 *)
          match arrives_listen seg (iss_of c r) (mtu_of c r) with
          | LNone => y1
          | LResponse h => set_yn y1 r (yn y1 r ++ [mkSeg h []])
          | LTcb t => let '(s0, os) := sess_start t in apply_outs (set_yt y1 r (YRun s0 [])) r os
          end
        | YNone =>                                                       (* tcp.rs l.155-165 *)
          match arrives_closed (s_hdr seg) (zlen (s_text seg)) with
          | None => y1
          | Some h => set_yn y1 r (yn y1 r ++ [mkSeg h []])
          end
        end
      end
    end
  | YDrop x i =>
    match yn y x with
    | [] => y
    | n => set_yn y x (remove_nth n (Nat.modulo i (length n)))
    end
  | YDup x i =>
    match yn y x with
    | [] => y
    | n =>
      match nth_error n (Nat.modulo i (length n)) with
      | Some seg => set_yn y x (n ++ [seg])
      | None => y
      end
    end
  end.

Definition yrun (c : config) (y : ysys) (ls : list ylabel) : ysys :=
  fold_left (ystep c) ls y.
