(* Byte-level helpers shared by the IPv4 / UDP / TCP codec models (kit codecip).

   Integers of every Rust width are [Z] with an explicit range predicate; a
   byte string is a [list Z].  Sources:
     sim/elvis-core/src/protocols/utility.rs  trait BytesExt (l.156-234) for the
       readers, uN::to_be_bytes / uN::from_be_bytes (std) for the conversions.
   Interface (kept stable): byte bytes u8 u16 u32 | be16 be32 be48 be64 |
   of_be16 of_be32 | next_u8 next_u16_be next_u32_be next_u48_be next_u64_be
   next_n | shr shl band bor bnot16 | ok_or. *)
From Elvis Require Import Model.Base.
Local Open Scope Z_scope.

(* ---- ranges ------------------------------------------------------------ *)
Definition u8 (v : Z) : Prop := 0 <= v < 256.
Definition u16 (v : Z) : Prop := 0 <= v < 65536.
Definition u32 (v : Z) : Prop := 0 <= v < 4294967296.
Definition byte (b : Z) : Prop := 0 <= b < 256.
Definition bytes (bs : list Z) : Prop := Forall byte bs.

Definition is_u8 (v : Z) : bool := (0 <=? v) && (v <? 256).
Definition is_u16 (v : Z) : bool := (0 <=? v) && (v <? 65536).
Definition is_u32 (v : Z) : bool := (0 <=? v) && (v <? 4294967296).
Definition all_bytes (bs : list Z) : bool := forallb is_u8 bs.

(* ---- Rust operators on unsigned integers -------------------------------
   [a >> k], [a << k] (before truncation to the width of the type), [a & m],
   [a | b].  Each has a characterising div/mod lemma in Proofs/BytesFacts.v. *)
Definition shr (a k : Z) : Z := Z.shiftr a k.
Definition shl (a k : Z) : Z := Z.shiftl a k.
Definition band (a m : Z) : Z := Z.land a m.
Definition bor (a b : Z) : Z := Z.lor a b.
(* [!x] on a u16 *)
Definition bnot16 (x : Z) : Z := Z.lxor x 65535.

(* ---- writers: uN::to_be_bytes ------------------------------------------ *)
Definition be16 (v : Z) : list Z := [v / 256 mod 256; v mod 256].
Definition be32 (v : Z) : list Z :=
  [v / 16777216 mod 256; v / 65536 mod 256; v / 256 mod 256; v mod 256].
Definition be48 (v : Z) : list Z :=
  [v / 1099511627776 mod 256; v / 4294967296 mod 256; v / 16777216 mod 256;
   v / 65536 mod 256; v / 256 mod 256; v mod 256].
Definition be64 (v : Z) : list Z :=
  [v / 72057594037927936 mod 256; v / 281474976710656 mod 256;
   v / 1099511627776 mod 256; v / 4294967296 mod 256; v / 16777216 mod 256;
   v / 65536 mod 256; v / 256 mod 256; v mod 256].

(* ---- uN::from_be_bytes -------------------------------------------------- *)
Definition of_be16 (a b : Z) : Z := a * 256 + b.
Definition of_be32 (a b c d : Z) : Z := a * 16777216 + b * 65536 + c * 256 + d.

(* ---- readers: BytesExt over the rest of the iterator --------------------
   Value and remaining input; None when the iterator runs dry.  Every caller
   in the three codecs turns None into an immediate `HeaderTooShort` return
   (`.ok_or(HTS)?`), so the state of the iterator after None is not observed. *)
Definition next_u8 (bs : list Z) : option (Z * list Z) :=          (* l.159 *)
  match bs with b :: r => Some (b, r) | [] => None end.
Definition next_u16_be (bs : list Z) : option (Z * list Z) :=      (* l.166 *)
  match bs with a :: b :: r => Some (of_be16 a b, r) | _ => None end.
Definition next_u32_be (bs : list Z) : option (Z * list Z) :=      (* l.174 *)
  match bs with
  | a :: b :: c :: d :: r => Some (of_be32 a b c d, r)
  | _ => None
  end.
Definition next_u48_be (bs : list Z) : option (Z * list Z) :=      (* l.183 *)
  match bs with
  | a :: b :: c :: d :: e :: f :: r =>
      Some (a * 1099511627776 + b * 4294967296 + of_be32 c d e f, r)
  | _ => None
  end.
Definition next_u64_be (bs : list Z) : option (Z * list Z) :=      (* l.200 *)
  match bs with
  | a :: b :: c :: d :: e :: f :: g :: h :: r =>
      Some (of_be32 a b c d * 4294967296 + of_be32 e f g h, r)
  | _ => None
  end.
(* next_n::<N>() (l.225): the next n bytes as a list *)
Definition next_n (n : nat) (bs : list Z) : option (list Z * list Z) :=
  if (n <=? length bs)%nat then Some (firstn n bs, skipn n bs) else None.

(* `x.ok_or(e)` : Option -> Result; used as [do (v, bs) <- ok_or (next_u8 bs) e; k] *)
Definition ok_or {A} (o : option A) (e : Z) : result A :=
  match o with Some a => Ok a | None => Err e end.
