(* Transcription of the socket layer's data path
     sim/elvis-core/src/protocols/socket_api/socket.rs          (Socket::recv 231-284, recv_msg 290-324,
                                                                 accept 178-209, send 212-225)
     sim/elvis-core/src/protocols/socket_api/socket_session.rs  (receive 16-37, receive_stored_messages 39-55)
     sim/elvis-core/src/protocols/socket_api.rs                 (get_socket_session 111-137, listen 181-204,
                                                                 demux 274-320, notify 322-368)
     sim/elvis-core/src/protocols/tcp/tcp_session.rs            (send 155-164, handle_instruction 136-147)
   A Message is its byte list [list N] (refinement Message -> bytes is property C07); the tokio mpsc channel
   between a SocketSession and its Socket is a list with the capacity 255 it is created with; the backlog
   channel is a list of remote identifiers with the capacity given to listen().

   [recv] exists in two variants selected by [fixed]:
     fixed = false : the code as it is (limit = the requested [bytes] in every comparison and take())
     fixed = true  : the minimal repair (/verif/.cache/c02/fix-recv.patch): limit = bytes - buf.len()
   The Rust side tells the harness which variant it runs; theorems about the bound are stated for
   [fixed = true] and refuted for [fixed = false]. *)
From Elvis Require Import Model.Base.

Definition bytes := list N.

(* socket_api.rs:134 and :169  mpsc::channel(u8::MAX.into()) *)
Definition CAP : nat := 255.

(* panic sites *)
Definition P_ACCEPT_REPLAY : Z := 1%Z.  (* socket.rs:207 session.receive_stored_messages().unwrap() on Err *)
Definition P_LISTEN_ZERO : Z := 2%Z.    (* socket_api.rs:191 mpsc::channel(0) panics inside tokio *)

(* error values *)
Definition E_CLOSED : Z := 1%Z.         (* DemuxError::ClosedSession  socket_session.rs:29 *)
Definition E_MISSING : Z := 2%Z.        (* DemuxError::MissingSession socket_api.rs:300,313 *)

(* ------------------------------------------------------------------ one connected socket *)
(* socket.rs:29-30 message_receiver (the channel content), stored_message; :22 is_blocking *)
Record sock := mkSock { stored : option bytes; queue : list bytes; blocking : bool }.

Inductive rres :=
| RData (out : bytes) (s : sock)   (* Ok(buf) / Ok(msg) *)
| RBlock (s : sock)                (* the call is parked on message_receiver.recv(): nothing returned yet *)
| RErr (s : sock).                 (* Err(ReceiveError): non-blocking recv_msg on an empty channel *)

Definition is_nil {A} (l : list A) : bool := match l with [] => true | _ => false end.

(* the number compared with message.len() and given to take()/slice():
   socket.rs:247,250,251 and 275,278,279 use [bytes]; the repair uses what is still missing *)
Definition limit (fixed : bool) (n : nat) (buf : bytes) : nat :=
  if fixed then n - length buf else n.

(* socket.rs:256-282  while buf.len() < bytes { ... }   one iteration consumes one queued message *)
Fixpoint recv_loop (fixed : bool) (n : nat) (blk : bool) (buf : bytes) (st : option bytes) (q : list bytes)
  : bytes * option bytes * list bytes * bool :=
  if length buf <? n then                                         (* :256 *)
    match q with
    | [] =>
        (* :257-266 blocking and nothing collected: await recv();  :268-273 try_recv -> Err -> break *)
        (buf, st, [], andb blk (is_nil buf))
    | m :: q' =>
        let k := limit fixed n buf in
        if length m <=? k then                                    (* :275 *)
          recv_loop fixed n blk (buf ++ m) st q'                  (* :276 *)
        else                                                      (* :278-280 take, slice(k..), overwrite stored *)
          recv_loop fixed n blk (buf ++ firstn k m) (Some (skipn k m)) q'
    end
  else (buf, st, q, false).

(* socket.rs:231-284 (the session/listening test of :235 is the caller's business: see [api]) *)
Definition recv (fixed : bool) (n : nat) (s : sock) : rres :=
  (* :244-254 *)
  let '(buf0, st0) :=
    match stored s with
    | Some m =>
        if length m <=? n then (m, None)                          (* :247-248; take() left stored = None *)
        else (firstn n m, Some (skipn n m))                       (* :250-252 *)
    | None => ([], None)
    end in
  let '(buf, st, q, parked) := recv_loop fixed n (blocking s) buf0 st0 (queue s) in
  let s' := mkSock st q (blocking s) in
  if parked then RBlock s' else RData buf s'.

(* socket.rs:290-324 *)
Definition recv_msg (s : sock) : rres :=
  match stored s with
  | Some m => RData m (mkSock None (queue s) (blocking s))        (* :298-299 *)
  | None =>
      match queue s with
      | m :: q' => RData m (mkSock None q' (blocking s))          (* :309-311 / :317-318 *)
      | [] => if blocking s then RBlock s else RErr s             (* :306-315 / :319 *)
      end
  end.

(* socket_session.rs:16-30, upstream = Some(sender): try_send fails when 255 messages are buffered *)
Definition push (m : bytes) (s : sock) : result sock :=
  if length (queue s) <? CAP then Ok (mkSock (stored s) (queue s ++ [m]) (blocking s))
  else Err E_CLOSED.

(* socket.rs:204-207 + socket_session.rs:39-55: a fresh channel, then every stored message is try_sent in
   order; the 256th is popped, refused, and the Err is unwrapped *)
Definition accept_replay (pre : list bytes) : result sock :=
  if length pre <=? CAP then Ok (mkSock None pre true) else Panic P_ACCEPT_REPLAY.

(* everything still readable from a socket, in reading order *)
Definition pending (s : sock) : bytes :=
  match stored s with Some m => m | None => [] end ++ concat (queue s).

(* ------------------------------------------------------------------ scripts on one socket *)
Inductive ev :=
| EPush (m : bytes)
| ERecv (n : nat)
| ERecvMsg
| ESetBlocking (b : bool).

Inductive obs :=
| ORead (n : nat) (out : bytes)
| OMsg (out : bytes)
| OBlock
| OErr
| OPushOk
| OPushFull
| OSet.

Definition step (fixed : bool) (e : ev) (s : sock) : obs * sock :=
  match e with
  | EPush m => match push m s with Ok s' => (OPushOk, s') | _ => (OPushFull, s) end
  | ERecv n => match recv fixed n s with
               | RData out s' => (ORead n out, s') | RBlock s' => (OBlock, s') | RErr s' => (OErr, s') end
  | ERecvMsg => match recv_msg s with
                | RData out s' => (OMsg out, s') | RBlock s' => (OBlock, s') | RErr s' => (OErr, s') end
  | ESetBlocking b => (OSet, mkSock (stored s) (queue s) b)       (* socket.rs:64-67 *)
  end.

Fixpoint run (fixed : bool) (evs : list ev) (s : sock) : list obs * sock :=
  match evs with
  | [] => ([], s)
  | e :: r => let '(o, s1) := step fixed e s in
              let '(os, s2) := run fixed r s1 in (o :: os, s2)
  end.

Definition obs_bytes (o : obs) : bytes :=
  match o with ORead _ out => out | OMsg out => out | _ => [] end.
Definition obs_msgs (o : obs) : list bytes :=
  match o with OMsg out => [out] | _ => [] end.
Definition accepted (evs : list ev) (os : list obs) : list bytes :=
  concat (map (fun eo => match eo with (EPush m, OPushOk) => [m] | _ => [] end) (combine evs os)).
Definition obs_bounded (o : obs) : bool :=
  match o with ORead n out => length out <=? n | _ => true end.

(* ------------------------------------------------------------------ the Sockets API: routing by (local, remote) *)
(* One listening socket (fixed local endpoint); a remote endpoint is a number.  socket_api.rs:46-47:
   socket_sessions keyed by Endpoints{local, remote}, listen_bindings keyed by the local endpoint. *)
Inductive sess :=
| SPending (st : list bytes)        (* upstream = None: stored_messages, socket_api.rs:304-309 / 353-357 *)
| SActive (s : sock).               (* upstream = Some(sender), the Socket owns the receiver *)

Record api := mkApi { backlog : nat; conns : list N; sessions : list (N * sess) }.

Fixpoint lookup (r : N) (l : list (N * sess)) : option sess :=
  match l with
  | [] => None
  | (k, v) :: t => if N.eqb k r then Some v else lookup r t
  end.
Fixpoint update (r : N) (v : sess) (l : list (N * sess)) : list (N * sess) :=
  match l with
  | [] => [(r, v)]
  | (k, w) :: t => if N.eqb k r then (k, v) :: t else (k, w) :: update r v t
  end.

(* socket.rs:148-171 + socket_api.rs:181-204 *)
Definition listen (bl : nat) : result api :=
  if Nat.eqb bl 0 then Panic P_LISTEN_ZERO else Ok (mkApi bl [] []).

(* socket_api.rs:274-320  (identifier.remote = r; the local part is the listening endpoint) *)
Definition demux (r : N) (m : bytes) (a : api) : result api :=
  match lookup r (sessions a) with
  | Some (SActive s) =>                                            (* :291 -> socket_session.rs:18-30 *)
      do s' <- push m s; Ok (mkApi (backlog a) (conns a) (update r (SActive s') (sessions a)))
  | Some (SPending st) =>                                          (* socket_session.rs:32-35 *)
      Ok (mkApi (backlog a) (conns a) (update r (SPending (st ++ [m])) (sessions a)))
  | None =>                                                        (* :292-317 *)
      if length (conns a) <? backlog a                             (* :310 sender.try_send(identifier.remote) *)
      then Ok (mkApi (backlog a) (conns a ++ [r]) (update r (SPending [m]) (sessions a)))
      else Err E_MISSING                                           (* :312-314: the session is not inserted *)
  end.

(* socket_api.rs:322-365 NotifyType::NewConnection *)
Definition notify (r : N) (a : api) : api :=
  match lookup r (sessions a) with
  | Some _ => a                                                    (* :340 *)
  | None =>
      let c := if length (conns a) <? backlog a then conns a ++ [r] else conns a in   (* :358-361 *)
      mkApi (backlog a) c (update r (SPending []) (sessions a))    (* :362 inserted even when the backlog is full *)
  end.

Inductive ares :=
| AOk (r : N) (a : api)
| ABlock                       (* socket.rs:189 connection_receiver.recv() parked *)
| AErr (a : api)               (* socket.rs:203 get_socket_session -> Err(AcceptError) *)
| APanic (site : Z).

(* socket.rs:178-209 *)
Definition accept (a : api) : ares :=
  match conns a with
  | [] => ABlock
  | r :: c =>
      let a1 := mkApi (backlog a) c (sessions a) in
      match lookup r (sessions a) with
      | Some (SPending st) =>
          match accept_replay st with
          | Ok s => AOk r (mkApi (backlog a) c (update r (SActive s) (sessions a)))
          | Panic p => APanic p
          | _ => AErr a1
          end
      | Some (SActive s) =>
          (* socket_api.rs:121-136: the entry is found again, a NEW channel replaces the old sender; the old
             socket's queue is cut off.  stored_messages is empty: nothing to replay. *)
          AOk r (mkApi (backlog a) c (update r (SActive (mkSock None [] true)) (sessions a)))
      | None => AErr a1                                            (* socket_api.rs:123-130 *)
      end
  end.

(* ------------------------------------------------------------------ the send side *)
(* socket.rs:221-223: every write is carried by its own spawned task to session.send;
   tcp_session.rs:157-162: TcpSession::send spawns another task that enqueues Instruction::Outgoing;
   tcp_session.rs:142-145 + tcb.rs:155: the session task appends the payload to the outgoing text.
   [arrival] = the Outgoing instructions in the order in which the session task dequeues them, each tagged
   with the index of the write that produced it. *)
Definition tag (ws : list bytes) : list (nat * bytes) := combine (seq 0 (length ws)) ws.
Definition outgoing_text (arrival : list (nat * bytes)) : bytes := concat (map snd arrival).

Fixpoint ascending (l : list nat) : bool :=
  match l with
  | [] => true
  | a :: t => match t with [] => true | b :: _ => andb (a <? b) (ascending t) end
  end.
(* the hand-offs reach the TCP session in issue order *)
Definition fifo (arrival : list (nat * bytes)) : bool := ascending (map fst arrival).

(* ------------------------------------------------------------------ datagrams *)
Inductive fate := FDeliver | FDrop | FDup.
(* what the link layer hands up for the datagrams of one sender (order-preserving case) *)
Definition arrivals (sent : list (bytes * fate)) : list bytes :=
  concat (map (fun df => match snd df with FDeliver => [fst df] | FDrop => [] | FDup => [fst df; fst df] end) sent).

(* ------------------------------------------------------------------ validators (run on the implementation's trace) *)
Fixpoint beq (a b : bytes) : bool :=
  match a, b with
  | [], [] => true
  | x :: a', y :: b' => andb (N.eqb x y) (beq a' b')
  | _, _ => false
  end.

(* stream: reads = (requested n, returned bytes) in call order; rest = bytes never read (none when the reader
   reads to the end).  The repaired bound is checked only when [fixed]. *)
Definition validate_stream (fixed : bool) (writes : list bytes) (reads : list (nat * bytes)) : bool :=
  andb (beq (concat (map snd reads)) (concat writes))
       (orb (negb fixed) (forallb (fun r => length (snd r) <=? fst r) reads)).

(* the same without the FIFO hypothesis (multi-thread runtime): the bytes read are the concatenation of SOME
   permutation of the writes.  Backtracking search: pick any remaining write that is a prefix of what is left. *)
Fixpoint strip_prefix (w got : bytes) : option bytes :=
  match w, got with
  | [], _ => Some got
  | x :: w', y :: got' => if N.eqb x y then strip_prefix w' got' else None
  | _ :: _, [] => None
  end.
Fixpoint pick (f : list bytes -> bytes -> bool) (pre post : list bytes) (got : bytes) : bool :=
  match post with
  | [] => false
  | w :: post' =>
      orb (match strip_prefix w got with Some rest => f (rev_append pre post') rest | None => false end)
          (pick f (w :: pre) post' got)
  end.
Fixpoint perm_concat (fuel : nat) (ws : list bytes) (got : bytes) : bool :=
  match ws with
  | [] => is_nil got
  | _ :: _ => match fuel with O => false | S f => pick (perm_concat f) [] ws got end
  end.
Definition validate_stream_unordered (fixed : bool) (writes : list bytes) (reads : list (nat * bytes)) : bool :=
  andb (perm_concat (length writes) writes (concat (map snd reads)))
       (orb (negb fixed) (forallb (fun r => length (snd r) <=? fst r) reads)).

Fixpoint remove_one (d : bytes) (l : list bytes) : option (list bytes) :=
  match l with
  | [] => None
  | x :: t => if beq x d then Some t
              else match remove_one d t with Some t' => Some (x :: t') | None => None end
  end.
(* datagrams: every received datagram is one of the (possibly duplicated) sent ones, each used at most once *)
Fixpoint sub_multiset (got avail : list bytes) : bool :=
  match got with
  | [] => true
  | g :: t => match remove_one g avail with Some rest => sub_multiset t rest | None => false end
  end.
Definition validate_dgram (sent : list (bytes * nat)) (got : list bytes) : bool :=
  sub_multiset got (concat (map (fun dc => repeat (fst dc) (snd dc)) sent)).
