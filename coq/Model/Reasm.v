(* Executable model of IPv4 reassembly:
     sim/elvis-core/src/protocols/ipv4/reassembly.rs            (Reassembly)
     sim/elvis-core/src/protocols/ipv4/reassembly/segment.rs    (Segment)
     sim/elvis-core/src/protocols/ipv4/reassembly/fragment.rs   (Fragment, its reversed Ord)
     sim/elvis-core/src/protocols/ipv4/reassembly/bitvec.rs     (BitVec)
     sim/elvis-core/src/protocols/ipv4/reassembly/buf_id.rs     (BufId)
   and of the part of std::collections::BinaryHeap the code uses (push / pop).

   The main definitions follow the code AFTER the two repairs:
     (a) /repo commit 53148058 (fix-1): Segment::receive_packet assembles by
         offset with a cursor (message.len()), skipping octets already covered;
     (b) /verif/.cache/c11/fix-2b-epoch.patch: Epoch = u64; Reassembly keeps
         retired_epoch, the greatest epoch of any buffer freed so far (steps 4
         and 16, and maybe_cull_segment), and a newly allocated buffer counts
         on from there (Segment::new_after), so that a callback armed for an
         earlier datagram never matches a later one with the same BufId.
   The definitions suffixed _orig follow the code BEFORE both repairs (u16
   epoch restarting at 0 for every buffer, concatenation in pop order); they
   are used for the refutation witnesses in Props/C11.v.

   Payload octets are an arbitrary type A (the code never inspects them).
   Header fields are Z (u8/u16/u32 values); every checked u16/u64 operation of
   the dev profile is an explicit Panic site:
     1  total_length - ihl*4 underflow                    segment.rs:68 (9)
     2  (total_length - ihl*4) + 7 overflow               segment.rs:68 (9)
     3  fragment_offset + nblocks overflow                segment.rs:68 (9)
     4  fragment_offset * 8 overflow                      segment.rs:74 (10)
     5  (total_length - ihl*4) + fragment_offset*8 ovf.   segment.rs:74 (10)
     6  total_data_length + 7 overflow                    segment.rs:87 (13)
     7  self.header.unwrap() on None                      segment.rs:90 (14)
     8  total_data_length + ihl*4 overflow                segment.rs:91 (14)
     9  epoch += 1 overflow (u64; u16 in _orig)           segment.rs (17)
   (segments.remove(&buf_id).unwrap() at step (16) follows entry().or_insert()
    for the same key and cannot fail; it is not a site of the model) *)
From Elvis Require Import Model.Base.
Local Open Scope Z_scope.

Definition U16MAX : Z := 65535.
Definition U64MAX : Z := 18446744073709551615.

(* ------------------------------------------------------------------ header *)
(* ipv4_parsing.rs:20 Ipv4Header; every field as the number it holds. *)
Record hdr : Type := mkHdr {
  h_ihl : Z; h_tos : Z; h_tl : Z; h_id : Z; h_fo : Z; h_flags : Z;
  h_ttl : Z; h_proto : Z; h_ck : Z; h_src : Z; h_dst : Z }.

(* ipv4_parsing.rs:293 ControlFlags::is_last_fragment: self.0 & 0b01 == 0 *)
Definition is_last_fragment (f : Z) : bool := Z.land f 1 =? 0.
(* ipv4_parsing.rs:297 set_is_last_fragment(true): (self.0 & 0b10) | 0 *)
Definition set_last_fragment_true (f : Z) : Z := Z.land f 2.

(* buf_id.rs:19 BufId::from_header *)
Definition bufid : Type := (Z * Z * Z * Z)%type.
Definition buf_id (h : hdr) : bufid := (h_src h, h_dst h, h_proto h, h_id h).
Definition bufid_eqb (a b : bufid) : bool :=
  let '(a1, a2, a3, a4) := a in
  let '(b1, b2, b3, b4) := b in
  (a1 =? b1) && (a2 =? b2) && (a3 =? b3) && (a4 =? b4).

(* ------------------------------------------------------------------ BitVec *)
(* bitvec.rs.  `bits: Vec<u8>` is observed only through get(); the model keeps
   one bool per bit.  Bits past the end read as false (bitvec.rs:17 None). *)
Definition bitvec : Type := list bool.
Definition bv_get (b : bitvec) (i : nat) : bool := nth i b false.
(* bitvec.rs:22 set: resize so that the bit exists, then or it in *)
Fixpoint bv_set (b : bitvec) (i : nat) : bitvec :=
  match i, b with
  | O, [] => [true]
  | O, _ :: t => true :: t
  | S i', [] => false :: bv_set [] i'
  | S i', x :: t => x :: bv_set t i'
  end.
(* bitvec.rs:29 set_range: for i in start..end { self.set(i) } *)
Definition bv_set_range_loop (b : bitvec) (s e : Z) : bitvec :=
  fold_left bv_set (seq (Z.to_nat s) (Z.to_nat (e - s))) b.
(* bitvec.rs:38 complete: (0..len).all(|i| self.get(i)) *)
Definition bv_complete_loop (b : bitvec) (len : Z) : bool :=
  forallb (bv_get b) (seq 0 (Z.to_nat len)).
(* The two loops are quadratic on a list; the model runs the single-pass
   versions below.  ReasmFacts.bv_set_range_is_loop / bv_complete_is_loop
   prove them equal to the loops for all arguments. *)
Fixpoint bv_fill (b : bitvec) (n : nat) : bitvec :=          (* bits 0 .. n-1 *)
  match n with
  | O => b
  | S n' => true :: bv_fill (tl b) n'
  end.
Fixpoint bv_set_range_nat (b : bitvec) (s n : nat) : bitvec :=  (* bits s .. s+n-1 *)
  match s with
  | O => bv_fill b n
  | S s' =>
    match b with
    | [] => match n with O => [] | S _ => false :: bv_set_range_nat [] s' n end
    | x :: t => x :: bv_set_range_nat t s' n
    end
  end.
Definition bv_set_range (b : bitvec) (s e : Z) : bitvec :=
  bv_set_range_nat b (Z.to_nat s) (Z.to_nat (e - s)).
Fixpoint bv_complete_nat (b : bitvec) (n : nat) {struct n} : bool :=
  match n with
  | O => true
  | S n' => match b with [] => false | x :: t => x && bv_complete_nat t n' end
  end.
Definition bv_complete (b : bitvec) (len : Z) : bool := bv_complete_nat b (Z.to_nat len).

(* -------------------------------------------------------------- BinaryHeap *)
(* std::collections::BinaryHeap<T> on a Vec<T>, as far as push/pop go.  The
   `Hole` of std moves one element through the vector; moving a hole is
   modelled by swapping the travelling element along (the vectors agree
   whenever the hole is filled, and comparisons never read the hole).
   le x y  stands for  x <= y  in T's Ord. *)
Section BinaryHeap.
  Context {T : Type} (le : T -> T -> bool) (d : T).

  Definition hget (a : list T) (i : nat) : T := nth i a d.
  Fixpoint hset (a : list T) (i : nat) (v : T) : list T :=
    match a, i with
    | [], _ => []
    | _ :: t, O => v :: t
    | x :: t, S i' => x :: hset t i' v
    end.
  Definition hswap (a : list T) (i j : nat) : list T :=
    hset (hset a i (hget a j)) j (hget a i).

  (* sift_up(0, pos): while pos > 0 { parent = (pos-1)/2;
       if elt <= data[parent] { break }  move hole to parent }
     fuel = pos is enough because parent < pos *)
  Fixpoint sift_up (fuel : nat) (a : list T) (pos : nat) : list T :=
    match fuel with
    | O => a
    | S f =>
      if (pos =? 0)%nat then a else
      let parent := ((pos - 1) / 2)%nat in
      if le (hget a pos) (hget a parent) then a
      else sift_up f (hswap a pos parent) parent
    end.

  (* push: old_len = len; data.push(item); sift_up(0, old_len) *)
  Definition heap_push (a : list T) (x : T) : list T :=
    sift_up (length a) (a ++ [x]) (length a).

  (* first part of sift_down_to_bottom(0): move the hole down to a leaf,
     always towards the greater child (the right one on ties):
       child = 2*pos+1
       while child <= end.saturating_sub(2) {
         child += (data[child] <= data[child+1]) as usize; move hole to child;
         child = 2*pos+1 }
       if child == end-1 { move hole to child }
     returns the vector and the final position of the hole *)
  Fixpoint sift_down_hole (fuel : nat) (a : list T) (pos : nat) : list T * nat :=
    let child := (2 * pos + 1)%nat in
    match fuel with
    | O => (a, pos)
    | S f =>
      if (child + 2 <=? length a)%nat then
        let c := if le (hget a child) (hget a (child + 1)) then (child + 1)%nat else child in
        sift_down_hole f (hswap a pos c) c
      else if (child + 1 =? length a)%nat then (hswap a pos child, child)
      else (a, pos)
    end.

  (* sift_down_to_bottom(0): ... ; pos = hole.pos(); sift_up(start = 0, pos) *)
  Definition sift_down_to_bottom (a : list T) : list T :=
    let '(a', pos) := sift_down_hole (length a) a 0 in
    sift_up pos a' pos.

  (* pop: data.pop().map(|mut item| { if !is_empty() { swap(&mut item, &mut data[0]);
            sift_down_to_bottom(0) } item }) *)
  Definition heap_pop (a : list T) : option (T * list T) :=
    match a with
    | [] => None
    | _ :: _ =>
      let item := last a d in
      let rest := removelast a in
      match rest with
      | [] => Some (item, [])
      | top :: _ => Some (top, sift_down_to_bottom (hset rest 0 item))
      end
    end.

  (* while let Some(x) = heap.pop() { ... }  collected in pop order *)
  Fixpoint heap_drain (fuel : nat) (a : list T) : list T :=
    match fuel with
    | O => []
    | S f =>
      match heap_pop a with
      | None => []
      | Some (x, a') => x :: heap_drain f a'
      end
    end.
End BinaryHeap.

(* ---------------------------------------------------------------- Fragment *)
Section WithOctets.
  Context {A : Type}.

  (* fragment.rs:7 Fragment { message, offset } *)
  Definition frag : Type := (Z * list A)%type.
  Definition dfrag : frag := (0, []).
  (* fragment.rs:40 Ord: self.offset.cmp(&other.offset).reverse()
     so  x <= y  iff  offset y <= offset x *)
  Definition frag_le (x y : frag) : bool := fst y <=? fst x.

  (* ----------------------------------------------------------------- Segment *)
  (* segment.rs:18 *)
  Record segment : Type := mkSeg {
    s_header : option hdr;
    s_bits : bitvec;
    s_frags : list frag;       (* the Vec inside the BinaryHeap *)
    s_tdl : Z;                 (* total_data_length: u16 *)
    s_timeout : Z;             (* timeout_seconds: u8 *)
    s_epoch : Z }.

  (* segment.rs:41 Segment::new, TLB = 15 *)
  Definition seg_new : segment := mkSeg None [] [] 0 15 0.
  (* repaired segment.rs Segment::new_after(epoch): Self { epoch, ..Self::new() } *)
  Definition seg_new_after (e : Z) : segment := mkSeg None [] [] 0 15 e.

  (* repaired segment.rs (15):
       let mut message = Message::new(vec![]);
       while let Some(piece) = self.fragments.pop() {
         let start = piece.offset() as usize * 8;
         let mut body = piece.into_message();
         let covered = message.len().saturating_sub(start).min(body.len());
         body.remove_front(covered);          (covered <= body.len(): its assert holds)
         message.concatenate(body); } *)
  Definition place (msg : list A) (p : frag) : list A :=
    let start := fst p * 8 in
    let covered := Z.min (Z.max 0 (Z.of_nat (length msg) - start)) (Z.of_nat (length (snd p))) in
    msg ++ skipn (Z.to_nat covered) (snd p).
  Definition assemble (h : list frag) : list A :=
    fold_left place (heap_drain frag_le dfrag (length h) h) [].

  (* original segment.rs:96  message.concatenate(piece.into_message()) *)
  Definition assemble_orig (h : list frag) : list A :=
    fold_left (fun msg p => msg ++ snd p) (heap_drain frag_le dfrag (length h) h) [].

  (* segment.rs:52 Segment::receive_packet.  Returns the new segment and the
     completed datagram if any.  [fixed] selects the repaired code (cursor
     assembly, u64 epoch); fixed = false is the original (u16 epoch). *)
  Definition seg_receive_gen (fixed : bool) (s : segment) (h : hdr) (body : list A)
    : result (segment * option (hdr * list A)) :=
    (* (8) self.fragments.push(Fragment::new(body, header.fragment_offset)) *)
    let frags := heap_push frag_le dfrag (s_frags s) (h_fo h, body) in
    (* (9) set_range(FO, FO + (TL - IHL*4 + 7)/8);  ihl as u16 * 4 <= 1020 *)
    let ihl4 := h_ihl h * 4 in
    if h_tl h <? ihl4 then Panic 1 else
    let dl := h_tl h - ihl4 in
    if U16MAX <? dl + 7 then Panic 2 else
    let nb := (dl + 7) / 8 in
    if U16MAX <? h_fo h + nb then Panic 3 else
    let bits := bv_set_range (s_bits s) (h_fo h) (h_fo h + nb) in
    (* (10) IF MF = 0 THEN TDL <- TL-(IHL*4)+(FO*8) *)
    do tdl <- (if is_last_fragment (h_flags h) then
                 if U16MAX <? h_fo h * 8 then Panic 4 else
                 if U16MAX <? dl + h_fo h * 8 then Panic 5 else Ok (dl + h_fo h * 8)
               else Ok (s_tdl s));
    (* (11) IF FO = 0 THEN put header in header buffer *)
    let header := if h_fo h =? 0 then Some h else s_header s in
    (* (17) else branch *)
    let incomplete :=
      (* self.epoch += 1  (Epoch = u64 after the repair, u16 before) *)
      if (if fixed then U64MAX else U16MAX) <=? s_epoch s then Panic 9
      else Ok (mkSeg header bits frags tdl (Z.max (s_timeout s) (h_ttl h)) (s_epoch s + 1), None) in
    (* (12)(13) TDL # 0 && complete((TDL+7)/8) *)
    if tdl =? 0 then incomplete else
    if U16MAX <? tdl + 7 then Panic 6 else
    if bv_complete bits ((tdl + 7) / 8) then
      (* (14) *)
      match header with
      | None => Panic 7
      | Some hh =>
        if U16MAX <? tdl + h_ihl hh * 4 then Panic 8 else
        let hh' := mkHdr (h_ihl hh) (h_tos hh) (tdl + h_ihl hh * 4) (h_id hh) (h_fo hh)
                         (set_last_fragment_true (h_flags hh)) (h_ttl hh) (h_proto hh) (h_ck hh)
                         (h_src hh) (h_dst hh) in
        (* (15) *)
        let msg := if fixed then assemble frags else assemble_orig frags in
        Ok (mkSeg header bits [] tdl (s_timeout s) (s_epoch s), Some (hh', msg))
      end
    else incomplete.

  Definition seg_receive := seg_receive_gen true.
  Definition seg_receive_orig := seg_receive_gen false.

  (* -------------------------------------------------------------- Reassembly *)
  (* reassembly.rs:26.  FxHashMap<BufId, Segment> as an association list with
     at most one entry per key (iteration order is never observed);
     r_epoch is retired_epoch of repair (b) (0 and unused in _orig). *)
  Record reasm : Type := mkR { r_segs : list (bufid * segment); r_epoch : Z }.
  Definition reasm_new : reasm := mkR [] 0.

  Fixpoint find (k : bufid) (m : list (bufid * segment)) : option segment :=
    match m with
    | [] => None
    | (k', s) :: t => if bufid_eqb k k' then Some s else find k t
    end.
  Fixpoint remove (k : bufid) (m : list (bufid * segment)) : list (bufid * segment) :=
    match m with
    | [] => []
    | (k', s) :: t => if bufid_eqb k k' then remove k t else (k', s) :: remove k t
    end.
  Definition upsert (k : bufid) (s : segment) (m : list (bufid * segment)) :=
    (k, s) :: remove k m.

  (* reassembly.rs:96 ReceivePacketResult; Duration::from_secs(t) is t *)
  Inductive rres : Type :=
  | Complete (h : hdr) (m : list A)
  | Incomplete (timeout : Z) (id : bufid) (epoch : Z).

  (* reassembly.rs:46 Reassembly::receive_packet, repaired *)
  Definition receive (r : reasm) (h : hdr) (body : list A) : result (reasm * rres) :=
    (* (1) *)
    let k := buf_id h in
    (* (2)-(5); (4): if let Some(segment) = self.segments.remove(&buf_id)
                       { self.retired_epoch = self.retired_epoch.max(segment.epoch) } *)
    if is_last_fragment (h_flags h) && (h_fo h =? 0) then
      let e := match find k (r_segs r) with
               | Some s => Z.max (r_epoch r) (s_epoch s)
               | None => r_epoch r
               end in
      Ok (mkR (remove k (r_segs r)) e, Complete h body)
    else
    (* (6)(7) entry(buf_id).or_insert(Segment::new_after(self.retired_epoch)) *)
    let s := match find k (r_segs r) with Some s => s | None => seg_new_after (r_epoch r) end in
    do (s', out) <- seg_receive s h body;
    match out with
    | Some (hh, m) =>
      (* (16) let segment = self.segments.remove(&buf_id).unwrap();
              self.retired_epoch = self.retired_epoch.max(segment.epoch) *)
      Ok (mkR (remove k (r_segs r)) (Z.max (r_epoch r) (s_epoch s')), Complete hh m)
    | None =>
      (* (18)(19) *)
      Ok (mkR (upsert k s' (r_segs r)) (r_epoch r), Incomplete (s_timeout s') k (s_epoch s'))
    end.

  (* reassembly.rs:82 maybe_cull_segment, repaired *)
  Definition maybe_cull (r : reasm) (k : bufid) (e : Z) : reasm :=
    match find k (r_segs r) with
    | Some s =>
      if s_epoch s =? e then mkR (remove k (r_segs r)) (Z.max (r_epoch r) e) else r
    | None => r
    end.

  (* the code before the repairs: per-segment epoch, concatenation in pop order *)
  Definition receive_orig (r : reasm) (h : hdr) (body : list A) : result (reasm * rres) :=
    let k := buf_id h in
    if is_last_fragment (h_flags h) && (h_fo h =? 0) then
      Ok (mkR (remove k (r_segs r)) (r_epoch r), Complete h body)
    else
    let s := match find k (r_segs r) with Some s => s | None => seg_new end in
    do (s', out) <- seg_receive_orig s h body;
    match out with
    | Some (hh, m) => Ok (mkR (remove k (r_segs r)) (r_epoch r), Complete hh m)
    | None => Ok (mkR (upsert k s' (r_segs r)) (r_epoch r), Incomplete (s_timeout s') k (s_epoch s'))
    end.

  Definition maybe_cull_orig (r : reasm) (k : bufid) (e : Z) : reasm :=
    match find k (r_segs r) with
    | Some s => if s_epoch s =? e then mkR (remove k (r_segs r)) (r_epoch r) else r
    | None => r
    end.

  (* ------------------------------------------------------------------ traces *)
  Inductive event : Type :=
  | EvRecv (h : hdr) (body : list A)
  | EvCull (k : bufid) (e : Z).

  (* what one event lets the caller observe; a cull returns nothing *)
  Inductive obs : Type :=
  | ObsRecv (res : rres)
  | ObsCull.

  Definition step (r : reasm) (ev : event) : result (reasm * obs) :=
    match ev with
    | EvRecv h body => do (r', res) <- receive r h body; Ok (r', ObsRecv res)
    | EvCull k e => Ok (maybe_cull r k e, ObsCull)
    end.

  Fixpoint run (r : reasm) (evs : list event) : result (reasm * list obs) :=
    match evs with
    | [] => Ok (r, [])
    | ev :: t =>
      do (r1, o) <- step r ev;
      do (r2, os) <- run r1 t;
      Ok (r2, o :: os)
    end.

  Definition step_orig (r : reasm) (ev : event) : result (reasm * obs) :=
    match ev with
    | EvRecv h body => do (r', res) <- receive_orig r h body; Ok (r', ObsRecv res)
    | EvCull k e => Ok (maybe_cull_orig r k e, ObsCull)
    end.

  Fixpoint run_orig (r : reasm) (evs : list event) : result (reasm * list obs) :=
    match evs with
    | [] => Ok (r, [])
    | ev :: t =>
      do (r1, o) <- step_orig r ev;
      do (r2, os) <- run_orig r1 t;
      Ok (r2, o :: os)
    end.
End WithOctets.

Arguments frag : clear implicits.
Arguments segment : clear implicits.
Arguments reasm : clear implicits.
Arguments rres : clear implicits.
Arguments event : clear implicits.
Arguments obs : clear implicits.
