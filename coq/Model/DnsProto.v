(* Model of the name-resolution protocol (property C20):
     sim/elvis-core/src/protocols/dns/dns_client.rs   (DnsClient: cache, get_host_by_name l.58-101,
                                                       create_request l.106-118)
     sim/elvis-core/src/protocols/dns/dns_server.rs   (DnsServer: record table, start l.98-152,
                                                       respond_to_query l.53-78, create_response l.83-93)
     sim/elvis-core/src/protocols/socket_api/socket.rs (recv l.231-284, recv_msg l.290-324,
                                                       connect_by_name l.73-87)
     sim/elvis-core/src/protocols/socket_api.rs        (get_ephemeral_port l.94-98; demux by Endpoints l.276-316)
   The wire format is the codec model of kit codecapp (Model/Dns.v), imported read-only.

   Byte strings are [list Z]; a name is the byte string of the Rust String; an address is
   the four bytes of Ipv4Address([u8; 4]). *)
From Elvis Require Import Model.Base Model.AppBytes Model.Dns.
Local Open Scope Z_scope.

Definition name := list Z.
Definition addr := list Z.

Fixpoint list_eqb (a b : list Z) : bool :=
  match a, b with
  | [], [] => true
  | x :: a', y :: b' => (x =? y) && list_eqb a' b'
  | _, _ => false
  end.

(* ---- FxDashMap<String, Ipv4Address> (dns_client.rs l.27, dns_server.rs l.23) ------------
   insert = cons, get = first match: the newest insertion of a key shadows older ones,
   which is what HashMap::insert / get do observably. *)
Definition table := list (name * addr).
Fixpoint tbl_get (t : table) (n : name) : option addr :=
  match t with
  | [] => None
  | (k, v) :: r => if list_eqb k n then Some v else tbl_get r n
  end.
Definition tbl_insert (t : table) (n : name) (a : addr) : table := (n, a) :: t.
Definition tbl_insert_absent (t : table) (n : name) (a : addr) : table :=
  match tbl_get t n with Some _ => t | None => (n, a) :: t end.

(* ---- configuration of a scenario ----------------------------------------------------- *)
Record config := mkConfig {
  (* DnsServer::add_mapping calls made before the run, in order (dns_server.rs l.38-40) *)
  cfg_records : list (name * addr);
  (* Some 80: the server reads the query with socket.recv(80) (dns_server.rs l.59), as it is;
     None: the whole datagram (recv_msg), the proposed repair *)
  cfg_recv_cap : option Z;
  (* true: start() inserts its two built-in records OVER registered ones (dns_server.rs
     l.106-107), as it is; false: only when the name has no record, the proposed repair *)
  cfg_builtin_wins : bool;
  (* DnsServer::new(num_connections) *)
  cfg_conn : Z }.

(* the registered records: the last add_mapping of a name counts *)
Definition reg_table (cfg : config) : table :=
  fold_left (fun t r => tbl_insert t (fst r) (snd r)) (cfg_records cfg) [].

(* "testserver.com" -> 123.45.67.15, "google.com" -> 123.45.67.60 (dns_server.rs l.106-107) *)
Definition builtin1_name : name := [116;101;115;116;115;101;114;118;101;114;46;99;111;109].
Definition builtin1_addr : addr := [123;45;67;15].
Definition builtin2_name : name := [103;111;111;103;108;101;46;99;111;109].
Definition builtin2_addr : addr := [123;45;67;60].

(* the table the responder tasks read (l.134: a clone taken after the inserts of l.106-107) *)
Definition server_table (cfg : config) : table :=
  if cfg_builtin_wins cfg then
    tbl_insert (tbl_insert (reg_table cfg) builtin1_name builtin1_addr) builtin2_name builtin2_addr
  else
    tbl_insert_absent (tbl_insert_absent (reg_table cfg) builtin1_name builtin1_addr)
                      builtin2_name builtin2_addr.

(* ---- messages -------------------------------------------------------------------------- *)
(* DnsClient::create_request (dns_client.rs l.106-118): header (id, QUERY) = properties 0,
   question (name, 1, 1), resource record (name, ttl 0, 0.0.0.0): type 1 class 1 rdlength 4.
   The id is rand::random::<u16>(): a parameter here. *)
Definition create_request (id : Z) (n : name) : dns_message :=
  mkDnsMessage (mkDnsHeader id 0 0 0 0 0) (mkDnsQuestion n 1 1) (mkDnsRr n 1 1 0 4 [0; 0; 0; 0]).
Definition request_bytes (id : Z) (n : name) : list Z := dns_to_message (create_request id n).

(* DnsServer::create_response (dns_server.rs l.83-93): header (query id, RESPONSE) =
   properties 0x8000, question rebuilt from the query's qname (type/class 1),
   record (query answer name, query answer ttl, address): type 1 class 1 rdlength 4 *)
Definition create_response (q : dns_message) (a : addr) : dns_message :=
  mkDnsMessage (mkDnsHeader (d_id (m_header q)) 32768 0 0 0 0)
               (mkDnsQuestion (q_qname (m_question q)) 1 1)
               (mkDnsRr (r_name (m_answer q)) 1 1 (r_ttl (m_answer q)) 4 a).
Definition response_bytes (id : Z) (n : name) (a : addr) : list Z :=
  dns_to_message (create_response (create_request id n) a).

(* Socket::recv(bytes) on a socket that holds exactly one datagram (socket.rs l.256-283:
   a longer message is cut to `bytes`, the rest is kept for the next call);
   Socket::recv_msg returns the datagram whole (l.290-324) *)
Definition sock_recv (cap : option Z) (msg : list Z) : list Z :=
  match cap with Some n => firstn (Z.to_nat n) msg | None => msg end.

(* DnsServer::respond_to_query run in its task (dns_server.rs l.53-78 and l.140-142).
   Panic sites = line numbers of dns_server.rs:
     61  DnsMessage::from_bytes(..).unwrap()
     64  query_name().unwrap()
     141 respond_to_query(..).await.unwrap()  when the name has no record (Err(Cache), l.65-70) *)
Definition server_respond (cfg : config) (req : list Z) : result (list Z) :=
  match dns_from_bytes (sock_recv (cfg_recv_cap cfg) req) with
  | Ok (m, _) =>
      match dns_query_name (m_question m) with
      | Ok n =>
          match tbl_get (server_table cfg) n with
          | Some a => Ok (dns_to_message (create_response m a))
          | None => Panic 141
          end
      | Err _ => Panic 64
      | Panic s => Panic s
      | OutOfFuel => OutOfFuel
      end
  | Err _ => Panic 61
  | Panic s => Panic s
  | OutOfFuel => OutOfFuel
  end.

(* The tail of DnsClient::get_host_by_name after recv_msg (dns_client.rs l.89-98).
   Nothing of the reply is compared with the query: neither the id nor the question.
   Panic sites = 1000 + line number of dns_client.rs:
     1091 from_bytes(..).unwrap()      1093 String::from_utf8(answer.name).unwrap()
     1095 rdata[0..3] out of range     1098 get_mapping(&name).unwrap() *)
Definition client_accept (cache : table) (n : name) (reply : list Z) : result (table * addr) :=
  match dns_from_bytes reply with
  | Ok (m, _) =>
      if utf8_valid (r_name (m_answer m)) then
        match r_rdata (m_answer m) with
        | a0 :: a1 :: a2 :: a3 :: _ =>
            let cache' := tbl_insert cache (r_name (m_answer m)) [a0; a1; a2; a3] in
            match tbl_get cache' n with
            | Some a => Ok (cache', a)
            | None => Panic 1098
            end
        | _ => Panic 1095
        end
      else Panic 1093
  | Err _ => Panic 1091
  | Panic s => Panic s
  | OutOfFuel => OutOfFuel
  end.

(* SocketAPI::get_ephemeral_port (socket_api.rs l.94-98): returns the counter and adds one
   (`+= 1` on a u16, checked in the dev profile: site 2096). The counter starts at 49152. *)
Definition ephemeral_port (counter : Z) : result (Z * Z) :=
  if 65535 <? counter + 1 then Panic 2096 else Ok (counter, counter + 1).

(* ---- the transition system --------------------------------------------------------------
   Observable labels:
     EvL c h n        lookup h of client c starts: get_host_by_name(n) checks the cache (l.63)
     EvQ c p id n     the datagram request_bytes id n leaves client c from its fresh port p
                      towards DNS_AUTH:53 (l.76-86)
     EvA c p bytes    the server's responder task for the socket pair (DNS_AUTH:53, c:p) hands
                      `bytes` to the network (dns_server.rs l.76)
     EvR c h n a      lookup h returns Ok(a) (l.65 on a hit, l.98 after a reply)
     EvX site         a task panics; run_internet's hook ends the process
   Frame delays and reordering are the freedom of the labels to occur in any order that the
   guards admit: a reply can be produced for any query that is on the network, and a waiting
   lookup can take its reply at any later moment.

   Which of several concurrent lookups of one name on one client owns which socket is not
   observable and makes no difference; the model keeps the waiting lookups and the sockets of a
   client apart and lets a returning lookup take any answered socket opened for its name
   (the implementation's fixed pairing is one of these choices).  A reply reaches the socket
   whose (local address, local port) it is addressed to and no other: the demultiplexing by
   Endpoints of Udp / SocketAPI (property C04) is taken as given. *)
Inductive event :=
| EvL (c h : Z) (n : name)
| EvQ (c p id : Z) (n : name)
| EvA (c p : Z) (bytes : list Z)
| EvR (c h : Z) (n : name) (a : addr)
| EvX (site : Z).

Inductive lkind := Hit (a : addr) | Miss.
Record lookup := mkLookup { l_h : Z; l_name : name; l_kind : lkind }.
Inductive sstatus := Sent | Answered (bytes : list Z) | Closed.
Record sock := mkSock { k_port : Z; k_name : name; k_id : Z; k_status : sstatus }.

Record cstate := mkC {
  c_cache : table;          (* DnsClient::name_to_ip *)
  c_looks : list lookup;    (* calls of get_host_by_name that have not returned *)
  c_owed : list name;       (* cache misses whose query has not left the machine yet *)
  c_socks : list sock }.    (* datagram sockets opened by the resolver, newest first *)

Definition init_client : cstate := mkC [] [] [] [].

Record state := mkS {
  s_clients : list (Z * cstate);
  s_accepted : Z;           (* tasks.len() of the server's accept loop (dns_server.rs l.140-144) *)
  s_dead : option Z }.

Definition init_state : state := mkS [] 0 None.

Fixpoint getc_list (l : list (Z * cstate)) (c : Z) : cstate :=
  match l with
  | [] => init_client
  | (k, v) :: r => if k =? c then v else getc_list r c
  end.
Fixpoint setc_list (l : list (Z * cstate)) (c : Z) (v : cstate) : list (Z * cstate) :=
  match l with
  | [] => [(c, v)]
  | (k, w) :: r => if k =? c then (k, v) :: r else (k, w) :: setc_list r c v
  end.
Definition getc (st : state) (c : Z) : cstate := getc_list (s_clients st) c.
Definition setc (st : state) (c : Z) (v : cstate) : state :=
  mkS (setc_list (s_clients st) c v) (s_accepted st) (s_dead st).

(* the accept loop stops after max(1, num_connections) connections (l.144: the test follows the push) *)
Definition conn_limit (cfg : config) : Z := Z.max 1 (cfg_conn cfg).

Fixpoint remove_first (n : name) (l : list name) : option (list name) :=
  match l with
  | [] => None
  | x :: r => if list_eqb x n then Some r
              else match remove_first n r with Some r' => Some (x :: r') | None => None end
  end.

Fixpoint find_sock (p : Z) (l : list sock) : option sock :=
  match l with
  | [] => None
  | k :: r => if k_port k =? p then Some k else find_sock p r
  end.
Fixpoint set_sock (p : Z) (s : sstatus) (l : list sock) : list sock :=
  match l with
  | [] => []
  | k :: r => if k_port k =? p then mkSock (k_port k) (k_name k) (k_id k) s :: r
              else k :: set_sock p s r
  end.

Fixpoint find_look (h : Z) (l : list lookup) : option lookup :=
  match l with
  | [] => None
  | x :: r => if l_h x =? h then Some x else find_look h r
  end.
Fixpoint remove_look (h : Z) (l : list lookup) : list lookup :=
  match l with
  | [] => []
  | x :: r => if l_h x =? h then r else x :: remove_look h r
  end.

(* the first answered socket opened for name n whose reply the resolver turns into address a *)
Fixpoint take_reply (cache : table) (n : name) (a : addr) (l : list sock) : option (Z * table) :=
  match l with
  | [] => None
  | k :: r =>
      match k_status k with
      | Answered bytes =>
          if list_eqb (k_name k) n then
            match client_accept cache n bytes with
            | Ok (cache', a') => if list_eqb a' a then Some (k_port k, cache') else take_reply cache n a r
            | _ => take_reply cache n a r
            end
          else take_reply cache n a r
      | _ => take_reply cache n a r
      end
  end.

(* some query on the network makes the server panic at `site` *)
Definition server_panics (cfg : config) (site : Z) (cs : cstate) : bool :=
  existsb (fun k => match k_status k with
                    | Sent => match server_respond cfg (request_bytes (k_id k) (k_name k)) with
                              | Panic s => s =? site
                              | _ => false
                              end
                    | _ => false
                    end) (c_socks cs).
(* some reply that has arrived makes a waiting resolver panic at `site` *)
Definition client_panics (site : Z) (cs : cstate) : bool :=
  existsb (fun k => match k_status k with
                    | Answered bytes =>
                        existsb (fun l => match l_kind l with
                                          | Miss => list_eqb (l_name l) (k_name k) &&
                                                    match client_accept (c_cache cs) (l_name l) bytes with
                                                    | Panic s => s =? site
                                                    | _ => false
                                                    end
                                          | Hit _ => false
                                          end) (c_looks cs)
                    | _ => false
                    end) (c_socks cs).

Definition step (cfg : config) (st : state) (e : event) : option state :=
  match s_dead st with
  | Some _ => None                        (* the process has exited *)
  | None =>
    match e with
    | EvL c h n =>
        let cs := getc st c in
        match tbl_get (c_cache cs) n with
        | Some a =>                         (* l.63-65: cache hit, nothing else happens *)
            Some (setc st c (mkC (c_cache cs) (mkLookup h n (Hit a) :: c_looks cs) (c_owed cs) (c_socks cs)))
        | None =>                           (* l.68: cache miss, a query will be sent *)
            Some (setc st c (mkC (c_cache cs) (mkLookup h n Miss :: c_looks cs) (n :: c_owed cs) (c_socks cs)))
        end
    | EvQ c p id n =>
        let cs := getc st c in
        match remove_first n (c_owed cs), find_sock p (c_socks cs) with
        | Some owed', None =>
            if (49152 <=? p) && (p <=? 65535) && (0 <=? id) && (id <? 65536) then
              Some (setc st c (mkC (c_cache cs) (c_looks cs) owed' (mkSock p n id Sent :: c_socks cs)))
            else None
        | _, _ => None
        end
    | EvA c p bytes =>
        let cs := getc st c in
        match find_sock p (c_socks cs) with
        | Some k =>
            match k_status k with
            | Sent =>
                if s_accepted st <? conn_limit cfg then
                  match server_respond cfg (request_bytes (k_id k) (k_name k)) with
                  | Ok resp =>
                      if list_eqb resp bytes then
                        Some (mkS (s_clients (setc st c (mkC (c_cache cs) (c_looks cs) (c_owed cs)
                                                            (set_sock p (Answered bytes) (c_socks cs)))))
                                  (s_accepted st + 1) None)
                      else None
                  | _ => None
                  end
                else None
            | _ => None
            end
        | None => None
        end
    | EvR c h n a =>
        let cs := getc st c in
        match find_look h (c_looks cs) with
        | Some l =>
            if list_eqb (l_name l) n then
              match l_kind l with
              | Hit a' =>
                  if list_eqb a' a then
                    Some (setc st c (mkC (c_cache cs) (remove_look h (c_looks cs)) (c_owed cs) (c_socks cs)))
                  else None
              | Miss =>
                  match take_reply (c_cache cs) n a (c_socks cs) with
                  | Some (p, cache') =>
                      Some (setc st c (mkC cache' (remove_look h (c_looks cs)) (c_owed cs)
                                           (set_sock p Closed (c_socks cs))))
                  | None => None
                  end
              end
            else None
        | None => None
        end
    | EvX site =>
        if ((s_accepted st <? conn_limit cfg) &&
            existsb (fun x => server_panics cfg site (snd x)) (s_clients st))
           || existsb (fun x => client_panics site (snd x)) (s_clients st)
        then Some (mkS (s_clients st) (s_accepted st) (Some site))
        else None
    end
  end.

Fixpoint replay (cfg : config) (st : state) (tr : list event) : option state :=
  match tr with
  | [] => Some st
  | e :: r => match step cfg st e with Some st' => replay cfg st' r | None => None end
  end.

(* tr is a trace of the system and leads to st *)
Definition run (cfg : config) (tr : list event) (st : state) : Prop :=
  replay cfg init_state tr = Some st.

(* ---- trace validation -------------------------------------------------------------------
   ending of the observed run: EndDone = every lookup returned; EndCrash = the process died
   (the trace then ends with EvX); EndHang = lookups still waiting when nothing moves any more *)
Inductive ending := EndDone | EndCrash | EndHang.

Definition all_returned (st : state) : bool :=
  forallb (fun x => match c_looks (snd x) with [] => true | _ => false end) (s_clients st).
(* a query is on the network but the accept loop has ended (l.144-149) *)
Definition starved (cfg : config) (st : state) : bool :=
  (conn_limit cfg <=? s_accepted st) &&
  existsb (fun x => existsb (fun k => match k_status k with Sent => true | _ => false end)
                            (c_socks (snd x))) (s_clients st).

Definition opt_addr_eqb (a b : option addr) : bool :=
  match a, b with
  | Some x, Some y => list_eqb x y
  | None, None => true
  | _, _ => false
  end.

(* finals: what DnsClient::get_mapping says after the run, per client and name *)
Definition finals_ok (st : state) (finals : list (Z * name * option addr)) : bool :=
  forallb (fun f => match f with (c, n, v) => opt_addr_eqb (tbl_get (c_cache (getc st c)) n) v end) finals.

Definition validate (cfg : config) (tr : list event) (en : ending)
           (finals : list (Z * name * option addr)) : bool :=
  match replay cfg init_state tr with
  | None => false
  | Some st =>
      match en with
      | EndDone => match s_dead st with None => all_returned st && finals_ok st finals | Some _ => false end
      | EndCrash => match s_dead st with Some _ => true | None => false end
      | EndHang => match s_dead st with None => negb (all_returned st) && starved cfg st | Some _ => false end
      end
  end.

(* the observed query datagram as a label: it must be exactly a create_request *)
Definition query_of_bytes (bs : list Z) : option (Z * name) :=
  match dns_from_bytes bs with
  | Ok (m, []) =>
      let id := d_id (m_header m) in
      let n := q_qname (m_question m) in
      if list_eqb (request_bytes id n) bs then Some (id, n) else None
  | _ => None
  end.

(* ---- vocabulary of the theorems ---------------------------------------------------------- *)
(* a name of the property's quantifier, as the bytes of a Rust String without the delimiter *)
Definition name_ok (n : name) : bool := bytes n && free_of SP n && utf8_valid n.
Definition addr_ok (a : addr) : bool := (Z.of_nat (length a) =? 4) && bytes a.
Definition records_ok (cfg : config) : bool := forallb (fun r => addr_ok (snd r)) (cfg_records cfg).
(* every looked-up name of a trace is a name of the quantifier *)
Definition names_okb (tr : list event) : bool :=
  forallb (fun e => match e with EvL _ _ n => name_ok n | _ => true end) tr.
(* the query for n fits the server's read *)
Definition fits (cfg : config) (n : name) : bool :=
  match cfg_recv_cap cfg with
  | Some cap => 2 * Z.of_nat (length n) + 32 <=? cap
  | None => true
  end.

Definition is_R (c : Z) (n : name) (e : event) : bool :=
  match e with EvR c' _ n' _ => (c' =? c) && list_eqb n' n | _ => false end.
Definition is_L (c : Z) (n : name) (e : event) : bool :=
  match e with EvL c' _ n' => (c' =? c) && list_eqb n' n | _ => false end.
Definition is_Q (c : Z) (n : name) (e : event) : bool :=
  match e with EvQ c' _ _ n' => (c' =? c) && list_eqb n' n | _ => false end.

(* queries for n sent by client c *)
Definition count_Q (c : Z) (n : name) (tr : list event) : Z :=
  Z.of_nat (length (filter (is_Q c n) tr)).
(* lookups of n by client c that start before the first return of n to c *)
Fixpoint early_lookups (c : Z) (n : name) (tr : list event) : Z :=
  match tr with
  | [] => 0
  | e :: r => if is_R c n e then 0
              else (if is_L c n e then 1 else 0) + early_lookups c n r
  end.
