(* UDP header codec: sim/elvis-core/src/protocols/udp/udp_parsing.rs.
   Line numbers refer to that file.  [ck] = cargo feature `compute_checksum`. *)
From Elvis Require Import Model.Base Model.Bytes Model.Checksum.
Local Open Scope Z_scope.

Record udp_hdr := mk_udp {                         (* struct UdpHeader, l.13-26 *)
  ud_sport : Z;    (* u16 source *)
  ud_dport : Z;    (* u16 destination *)
  ud_len : Z;      (* u16 length, header included *)
  ud_ck : Z        (* u16 *)
}.

(* ParseError (l.84-93), BuildHeaderError (l.130-133) *)
Definition EU_HTS : Z := 1.       (* HeaderTooShort *)
Definition EU_LEN : Z := 2.       (* LengthMismatch *)
Definition EU_CK (expected actual : Z) : Z := 4294967296 + expected * 65536 + actual.
Definition EUB_LONG : Z := 21.    (* OverlyLongPayload *)
Definition usize_max : Z := 18446744073709551615.

(* UdpHeader::from_bytes_ipv4 (l.30-80).  [plen] is the caller's `packet_len`
   (udp.rs l.115 passes message.len()); [sa], [da] the addresses of the IPv4
   header, as u32. *)
Definition udp_decode (ck : bool) (bs : list Z) (plen sa da : Z) : result udp_hdr :=
  let c := 0 in                                                        (* l.38 *)
  do (sp, bs) <- ok_or (next_u16_be bs) EU_HTS;                        (* l.40 *)
  let c := ck_u16 ck c sp in                                           (* l.41 *)
  do (dp, bs) <- ok_or (next_u16_be bs) EU_HTS;                        (* l.43 *)
  let c := ck_u16 ck c dp in                                           (* l.44 *)
  do (len, bs) <- ok_or (next_u16_be bs) EU_HTS;                       (* l.46 *)
  let c := ck_u16 ck c len in                                          (* l.47 *)
  let c := ck_u16 ck c len in                                          (* l.49 pseudo header *)
  do (expected, bs) <- ok_or (next_u16_be bs) EU_HTS;                  (* l.51 *)
  let c := ck_u32 ck c sa in                                           (* l.54 *)
  let c := ck_u32 ck c da in                                           (* l.55 *)
  let c := ck_u8 ck c 0 17 in                                          (* l.58 *)
  let c := ck_rem ck c bs in                                           (* l.60 *)
  if negb (plen =? len) then Err EU_LEN else                           (* l.62-64; `length as usize` exact *)
  let actual := as_u16 ck c in                                         (* l.66 *)
  if negb (actual =? expected) then Err (EU_CK expected actual)        (* l.67-72 *)
  else Ok (mk_udp sp dp len expected).                                 (* l.74-79 *)

(* build_udp_header (l.96-127).  [text] is what the iterator yields, [tlen] the
   separate `text_len: usize` argument.  `text_len + 8` is a checked usize
   addition: panic site 107. *)
Definition udp_build (ck : bool) (sa sp da dp : Z) (text : list Z) (tlen : Z)
  : result (list Z) :=
  let c := ck_rem ck 0 text in                                         (* l.104-105 *)
  if usize_max <? tlen + 8 then Panic 107 else                         (* l.107 *)
  if 65535 <? tlen + 8 then Err EUB_LONG else                          (* l.108-109 try_into u16 *)
  let length := tlen + 8 in
  let c := ck_u16 ck c length in                                       (* l.112 *)
  let c := ck_u16 ck c length in                                       (* l.113 *)
  let c := ck_u32 ck c sa in                                           (* l.115 *)
  let c := ck_u32 ck c da in                                           (* l.116 *)
  let c := ck_u8 ck c 0 17 in                                          (* l.117 *)
  let c := ck_u16 ck c sp in                                           (* l.118 *)
  let c := ck_u16 ck c dp in                                           (* l.119 *)
  Ok (be16 sp ++ be16 dp ++ be16 length ++ be16 (as_u16 ck c)).        (* l.121-126 *)

(* ---- RFC 768, from the header diagram: two 32-bit rows ------------------- *)
Definition octets32u (w : Z) : list Z :=
  [w / 2^24 mod 2^8; w / 2^16 mod 2^8; w / 2^8 mod 2^8; w mod 2^8].
Definition rfc768_bytes (sport dport length cksum : Z) : list Z :=
  octets32u (sport * 2^16 + dport) ++ octets32u (length * 2^16 + cksum).
Definition urow (bs : list Z) (i : nat) : Z :=
  nth (4*i) bs 0 * 2^24 + nth (4*i+1) bs 0 * 2^16 + nth (4*i+2) bs 0 * 2^8 + nth (4*i+3) bs 0.
Definition rfc768_fields (bs : list Z) : udp_hdr :=
  mk_udp (urow bs 0 / 2^16 mod 2^16) (urow bs 0 mod 2^16)
         (urow bs 1 / 2^16 mod 2^16) (urow bs 1 mod 2^16).
