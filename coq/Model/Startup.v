(* C13 -- start barrier and exit status.

   Part 1: every built-in `Protocol::start` as the ordered (lexical) list of the calls that matter to the
           barrier, one row per `impl Protocol` (transcribed from the sources; tools/c13_action_table.py
           re-extracts the lists from the Rust text and diffs them against `builtin_table`).
   Part 2: interleaving semantics of the start tasks around a tokio::sync::Barrier of size = number of
           protocols (internet.rs:46-51, machine.rs:43-56).
   Part 3: `run_internet` / `run_internet_with_timeout` as a machine driven by what happens to the run task
           (internet.rs:13-102, shutdown.rs).
   Part 4: the validator run on the implementation's recorded traces.

   Outside the model: tokio's Barrier, broadcast channel and scheduler (their documented behaviour is what
   parts 2 and 3 transcribe), the discipline of user-written protocols, what the protocols do after start. *)
From Elvis Require Import Model.Base.
From Coq Require Import NArith.

(* ------------------------------------------------------------------ statuses (shutdown.rs:45-50) *)

Inductive status := Status (k : N) | Exited | TimedOut.

Definition status_eqb (a b : status) : bool :=
  match a, b with
  | Status x, Status y => N.eqb x y
  | Exited, Exited => true
  | TimedOut, TimedOut => true
  | _, _ => false
  end.

(* ------------------------------------------------------------------ part 1: the start bodies *)

Inductive action :=
| ATapStart                 (* pci.rs:80-82 session.start(machine): the tap learns its machine *)
| AListen                   (* synchronous udp/tcp/ipv4/arp/socket listen: tables only *)
| ANotifyInit               (* socket_api.rs:261 notify_init.notify_one() *)
| ANewSocket                (* new_socket(..).await / TcpListener::bind(..).await: waits for the local SocketAPI *)
| AOpen                     (* open / open_and_listen / open_for_sending / connect (.await): ipv4.rs:133-142
                               resolves through ARP (frames, 200 ms waits) when the recipient has no MAC *)
| ASpawn (may_send : bool)  (* tokio::spawn of a helper; may_send: the helper can put frames on a network *)
| ABarrierWait              (* initialized.wait().await *)
| ASend                     (* session.send / stream.write / close / scrape_user_behavior *)
| AInput (unwrapped : bool) (* accept / recv / read / join handle (.await); unwrapped: `.await.unwrap()`, so
                               Err(Shutdown) panics the start *)
| ASleep
| AShutdown (st : status).  (* shutdown.shut_down() / shut_down_with_status(st) *)

Definition is_wait (a : action) : bool := match a with ABarrierWait => true | _ => false end.

(* can this action put a frame on a network?  res: the machine has Arp and the route's recipient has no MAC *)
Definition may_frame (res : bool) (a : action) : bool :=
  match a with
  | AOpen => res
  | ASend => true
  | ASpawn b => b
  | _ => false
  end.

(* nothing that may put a frame on a network precedes the (first) barrier wait; a start that never waits
   must not do it at all *)
Fixpoint ffbw (res : bool) (l : list action) : bool :=
  match l with
  | [] => true
  | a :: r => if is_wait a then true else negb (may_frame res a) && ffbw res r
  end.
Definition frame_free_before_wait := ffbw.

Fixpoint nwaits (l : list action) : nat :=
  match l with
  | [] => O
  | a :: r => (if is_wait a then 1 else 0) + nwaits r
  end.

Definition disciplined (res : bool) (l : list action) : bool := ffbw res l && Nat.eqb (nwaits l) 1.

Fixpoint after_wait (l : list action) : list action :=
  match l with
  | [] => []
  | a :: r => if is_wait a then r else after_wait r
  end.

(* a start that is waiting in `.await.unwrap()` when the simulation is shut down panics (run_internet's hook
   then exits the process instead of returning) *)
Definition panics_on_shutdown (l : list action) : bool :=
  existsb (fun a => match a with AInput true => true | _ => false end) l.

Inductive proto :=
| PArp | PDhcpClient | PDnsClient | PDnsServer | PIpv4 | PPci | PSocketAPI | PTcp | PUdp
| PArpRouter | PBareBonesClient | PBareBonesServer | PBasicClient | PBasicServer | PCapture | PDhcpServer
| PDnsTestClient | PDnsTestServer | PForward | POnReceive | PPingPong | PSendMessage | PSimpleWebClient
| PSocketClient | PSocketServer | PStreamingClient | PVideoServer | PTcpListenerServer | PTcpStreamClient
| PThroughputTester | PUserBehavior | PWebServer.

(* file:line of `async fn start` after each row; the list is the calls in source order (all branches) *)
Definition row (p : proto) : list action :=
  match p with
  | PArp => [ABarrierWait]                                            (* elvis-core/src/protocols/arp.rs:71 *)
  | PDhcpClient => [AListen; ABarrierWait; AOpen; ASend]              (* protocols/dhcp/dhcp_client.rs:38 *)
  | PDnsClient => [ABarrierWait]                                      (* protocols/dns/dns_client.rs:127 *)
  | PDnsServer => [ANewSocket; AListen; ABarrierWait; AInput true; ASpawn true; AInput true]
                                                                      (* protocols/dns/dns_server.rs:98 *)
  | PIpv4 => [ABarrierWait]                                           (* protocols/ipv4.rs:182 *)
  | PPci => [ATapStart; ABarrierWait]                                 (* protocols/pci.rs:74 *)
  | PSocketAPI => [AListen; ANotifyInit; ABarrierWait; ASpawn false]  (* protocols/socket_api.rs:243 *)
  | PTcp => [ABarrierWait]                                            (* protocols/tcp.rs:206 *)
  | PUdp => [ABarrierWait]                                            (* protocols/udp.rs:165 *)
  | PArpRouter => [AListen; AListen; AListen; ABarrierWait]           (* elvis/src/applications/arp_router.rs:40 *)
  | PBareBonesClient => [ABarrierWait; AOpen; ASend; AInput false]    (* barebones_client.rs:30 *)
  | PBareBonesServer => [ANewSocket; ABarrierWait; AInput false; ASpawn true]   (* barebones_server.rs:45 *)
  | PBasicClient => [ABarrierWait; ASleep; AInput false; AOpen; AOpen; ASend]   (* basic_client.rs:47 *)
  | PBasicServer => [AListen; AListen; ABarrierWait]                  (* basic_server.rs:44 *)
  | PCapture => [AListen; AListen; AListen; ABarrierWait]             (* capture.rs:155 *)
  | PDhcpServer => [AListen; ABarrierWait]                            (* dhcp_server.rs:34 *)
  | PDnsTestClient => [ANewSocket; ABarrierWait; AOpen; ASend; AInput true; ASend]  (* dns_test_client.rs:31 *)
  | PDnsTestServer => [ANewSocket; AListen; ABarrierWait; AInput true; ASpawn true; AInput true;
                       AShutdown (Status 10)]                         (* dns_test_server.rs:52 *)
  | PForward => [AOpen; ABarrierWait]                                 (* forward.rs:29: open_and_listen at :37-44
                                                                         BEFORE initialized.wait() at :46 *)
  | POnReceive => [AListen; AListen; ABarrierWait]                    (* on_receive.rs:58 *)
  | PPingPong => [AListen; ABarrierWait; AOpen; ASend]                (* ping_pong.rs:54 *)
  | PSendMessage => [ABarrierWait; AInput false; AOpen; AOpen; ASend] (* send_message.rs:48 *)
  | PSimpleWebClient => [ABarrierWait; AOpen; ASend; AInput false; ASend; AInput false]  (* simple_web_client.rs:31 *)
  | PSocketClient => [ANewSocket; ABarrierWait; ASleep; AOpen; AListen; AOpen; ASend; AInput false; ASend; ASend]
                                                                      (* socket_client.rs:51 *)
  | PSocketServer => [ANewSocket; AListen; ABarrierWait; AListen; AOpen; ANewSocket; AListen; AInput true;
                      ASpawn true; AInput true; ASend; AShutdown Exited]   (* socket_server.rs:117 *)
  | PStreamingClient => [ABarrierWait; AOpen; ASend; AInput false; ASleep; ASleep]   (* streaming_client.rs:35 *)
  | PVideoServer => [ANewSocket; ABarrierWait; AInput false; ASpawn true; AShutdown Exited]  (* streaming_server.rs:32 *)
  | PTcpListenerServer => [ANewSocket; ABarrierWait; AInput true; AInput true; ASend; AInput true; ASend]
                                                                      (* tcp_listener_server.rs:27 *)
  | PTcpStreamClient => [ABarrierWait; AOpen; ASend; AInput true; ASend; AInput true; AShutdown Exited]
                                                                      (* tcp_stream_client.rs:27 *)
  | PThroughputTester => [AListen; ABarrierWait]                      (* throughput_tester.rs:43 *)
  | PUserBehavior => [ABarrierWait; ASend]                            (* user_behavior.rs:299 *)
  | PWebServer => [ANewSocket; ABarrierWait; AInput false; ASpawn true]   (* web_server.rs:82 *)
  end.

Definition all_protos : list proto :=
  [PArp; PDhcpClient; PDnsClient; PDnsServer; PIpv4; PPci; PSocketAPI; PTcp; PUdp;
   PArpRouter; PBareBonesClient; PBareBonesServer; PBasicClient; PBasicServer; PCapture; PDhcpServer;
   PDnsTestClient; PDnsTestServer; PForward; POnReceive; PPingPong; PSendMessage; PSimpleWebClient;
   PSocketClient; PSocketServer; PStreamingClient; PVideoServer; PTcpListenerServer; PTcpStreamClient;
   PThroughputTester; PUserBehavior; PWebServer].

Definition builtin_table : list (proto * list action) := map (fun p => (p, row p)) all_protos.

Definition offenders (res : bool) : list proto :=
  filter (fun p => negb (disciplined res (row p))) all_protos.

Definition shutdown_panickers : list proto :=
  filter (fun p => panics_on_shutdown (after_wait (row p))) all_protos.

(* ------------------------------------------------------------------ part 2: the barrier *)

Record task := mkTask {
  t_res : bool;             (* AOpen of this machine resolves through ARP *)
  t_todo : list action;
  t_blocked : bool          (* inside initialized.wait() *)
}.

Record sys := mkSys {
  s_tasks : list task;
  s_arrived : nat;          (* BarrierState.arrived of the current generation *)
  s_frames : nat;           (* frames given to some network so far *)
  s_helpers : list nat      (* tasks that spawned a helper able to send *)
}.

(* Barrier::new(0) behaves as Barrier::new(1) (tokio barrier.rs) *)
Definition bsize (s : sys) : nat := Nat.max 1 (length (s_tasks s)).

Inductive event :=
| EvAct (i : nat) (a : action)   (* task i performed a; for ABarrierWait: it arrived at the barrier *)
| EvRelease                      (* the generation is complete: every waiting task is released *)
| EvFrame (i : nat)              (* task i, or a helper it spawned, gave a frame to a network *)
| EvDeliver (m : nat).           (* a frame reached a tap of machine m: PciSession::receive -> demux *)

Definition net_event (e : event) : bool :=
  match e with EvFrame _ | EvDeliver _ => true | _ => false end.

Inductive choice :=
| CStep (i k : nat)    (* task i performs its next action and, if that action may, puts k frames on a network *)
| CHelper (i : nat)    (* a helper spawned by task i sends a frame *)
| CDeliver (m : nat).  (* a network hands a frame to machine m *)

Fixpoint upd {A} (l : list A) (i : nat) (x : A) : list A :=
  match l, i with
  | [], _ => []
  | _ :: r, O => x :: r
  | a :: r, S j => a :: upd r j x
  end.

Definition unblock (t : task) : task := mkTask (t_res t) (t_todo t) false.
Definition memb (x : nat) (l : list nat) : bool := existsb (Nat.eqb x) l.

Definition step (s : sys) (c : choice) : sys * list event :=
  match c with
  | CStep i k =>
      match nth_error (s_tasks s) i with
      | None => (s, [])
      | Some t =>
          if t_blocked t then (s, []) else
          match t_todo t with
          | [] => (s, [])
          | a :: rest =>
              let t' := mkTask (t_res t) rest false in
              match a with
              | ABarrierWait =>
                  if Nat.eqb (bsize s) (S (s_arrived s))
                  then (mkSys (map unblock (upd (s_tasks s) i t')) 0 (s_frames s) (s_helpers s),
                        [EvAct i a; EvRelease])
                  else (mkSys (upd (s_tasks s) i (mkTask (t_res t) rest true)) (S (s_arrived s))
                              (s_frames s) (s_helpers s),
                        [EvAct i a])
              | ASpawn b =>
                  (mkSys (upd (s_tasks s) i t') (s_arrived s) (s_frames s)
                         (if b then i :: s_helpers s else s_helpers s),
                   [EvAct i a])
              | _ =>
                  if may_frame (t_res t) a
                  then (mkSys (upd (s_tasks s) i t') (s_arrived s) (k + s_frames s) (s_helpers s),
                        EvAct i a :: repeat (EvFrame i) k)
                  else (mkSys (upd (s_tasks s) i t') (s_arrived s) (s_frames s) (s_helpers s), [EvAct i a])
              end
          end
      end
  | CHelper i =>
      if memb i (s_helpers s)
      then (mkSys (s_tasks s) (s_arrived s) (S (s_frames s)) (s_helpers s), [EvFrame i])
      else (s, [])
  | CDeliver m =>
      if Nat.eqb (s_frames s) 0 then (s, []) else (s, [EvDeliver m])
  end.

Fixpoint run (s : sys) (sched : list choice) : list event :=
  match sched with
  | [] => []
  | c :: r => let '(s', evs) := step s c in evs ++ run s' r
  end.

(* a configuration: one entry per protocol of every machine *)
Definition init (cfg : list (bool * list action)) : sys :=
  mkSys (map (fun x => mkTask (fst x) (snd x) false) cfg) 0 0 [].

(* ------------------------------------------------------------------ part 3: the run task *)

Inductive rin :=
| RReq (st : status)   (* some Shutdown clone sends st: shut_down() is RReq Exited (shutdown.rs:31-36),
                          shut_down_with_status(st) is RReq st (:38-43), the timeout task RReq TimedOut;
                          BOTH record themselves in Shutdown.first before the send *)
| RJoined              (* every Machine::start handle joined (internet.rs:77-81) *)
| RClosed              (* the last Shutdown sender was dropped *)
| RPoll                (* the run task is polled *)
| RDeadline.           (* the outer tokio::time::timeout(d + 1 s) elapsed and the task is polled:
                          inner future first, then the deadline (internet.rs:18-22) *)

Record rstate := mkR {
  r_queue : list status;     (* broadcast messages this receiver has not read, oldest first *)
  r_closed : bool;
  r_joined : bool;
  r_first : option status;   (* Shutdown.first: OnceLock set by the first request, before its send (shutdown.rs:32,39) *)
  r_done : bool
}.

Definition rinit : rstate := mkR [] false false None false.

(* broadcast::channel(16) (shutdown.rs:22): a receiver more than 16 behind gets Lagged.  get_status
   (internet.rs:106-124) then returns the remembered FIRST request; Closed only once the queue is empty.
   Every send is preceded by `first.set`, so `first` is Some whenever the receiver lags; the `None => continue`
   arm (oldest retained message) is kept as written. *)
Definition capacity : nat := 16.
Definition recv (q : list status) (closed : bool) (first : option status) : option status :=
  match q with
  | [] => if closed then Some Exited else None
  | h :: _ =>
      if Nat.leb (length q) capacity then Some h
      else match first with
           | Some f => Some f
           | None => nth_error q (length q - capacity)
           end
  end.

(* the code before commit 0cf74903: on Lagged, get_status continued with the oldest RETAINED message *)
Definition recv_orig (q : list status) (closed : bool) (first : option status) : option status :=
  match q with
  | [] => if closed then Some Exited else None
  | _ => nth_error q (length q - capacity)
  end.

(* select!{ joined => get_status().await, status = get_status() => status }: both arms end in get_status *)
Definition rstep_gen (rcv : list status -> bool -> option status -> option status)
                     (s : rstate) (e : rin) : rstate * option status :=
  if r_done s then (s, None) else
  match e with
  | RReq st =>
      (mkR (r_queue s ++ [st]) (r_closed s) (r_joined s)
           (match r_first s with Some f => Some f | None => Some st end) false, None)
  | RJoined => (mkR (r_queue s) (r_closed s) true (r_first s) false, None)
  | RClosed => (mkR (r_queue s) true (r_joined s) (r_first s) false, None)
  | RPoll =>
      match rcv (r_queue s) (r_closed s) (r_first s) with
      | Some st => (mkR (r_queue s) (r_closed s) (r_joined s) (r_first s) true, Some st)
      | None => (s, None)
      end
  | RDeadline =>
      match rcv (r_queue s) (r_closed s) (r_first s) with
      | Some st => (mkR (r_queue s) (r_closed s) (r_joined s) (r_first s) true, Some st)
      | None => (mkR (r_queue s) (r_closed s) (r_joined s) (r_first s) true, Some TimedOut)
      end
  end.

(* the returns of the run, with the time of the poll that produced them *)
Fixpoint rrun_gen (rcv : list status -> bool -> option status -> option status)
                  (s : rstate) (evs : list (N * rin)) : list (N * status) :=
  match evs with
  | [] => []
  | (t, e) :: r =>
      let '(s', o) := rstep_gen rcv s e in
      match o with Some st => (t, st) :: rrun_gen rcv s' r | None => rrun_gen rcv s' r end
  end.

Definition rstep := rstep_gen recv.
Definition rrun := rrun_gen recv.
Definition rrun_orig := rrun_gen recv_orig.

Definition second_ns : N := 1000000000.

(* the timeout task's request joins the application requests (time order; at a tie it is put first) *)
Fixpoint insert_timeout (d : N) (reqs : list (N * status)) : list (N * status) :=
  match reqs with
  | [] => [(d, TimedOut)]
  | (t, s) :: r => if N.ltb t d then (t, s) :: insert_timeout d r else (d, TimedOut) :: reqs
  end.

(* the run task is polled as soon as something was sent *)
Definition prompt (l : list (N * status)) : list (N * rin) :=
  flat_map (fun x => [(fst x, RReq (snd x)); (fst x, RPoll)]) l.

Definition run_with_timeout (d : N) (reqs : list (N * status)) : list (N * status) :=
  rrun rinit (prompt (insert_timeout d reqs) ++ [(d + second_ns, RDeadline)]%N).

(* closed form used by the validator *)
Definition predict (d : option N) (first : option (status * N)) : status * N :=
  match first, d with
  | Some (s, t), Some dd => if N.ltb t dd then (s, t) else (TimedOut, dd)
  | Some (s, t), None => (s, t)
  | None, Some dd => (TimedOut, dd)
  | None, None => (Exited, 0%N)
  end.

(* ------------------------------------------------------------------ part 4: trace validation *)

Inductive obs :=
| OArrive (i : nat)              (* harness application i is about to call initialized.wait() *)
| ORelease (i : nat)             (* its wait returned *)
| OFrame (m : nat) (arp : bool)  (* Network::send seen by the link observer; m = sending machine *)
| ODeliver (m : nat)             (* hand-over to a tap of machine m *)
| ODemux (i : nat)               (* harness application i received a message *)
| OReq (st : status) (t : N)     (* a harness application is about to request st at time t *)
| OSent                          (* such a call returned *)
| OSeen (st : status) (t : N).   (* an independent subscriber of the broadcast channel received st *)

Definition obs_net (o : obs) : bool :=
  match o with OFrame _ _ | ODeliver _ | ODemux _ | ORelease _ => true | _ => false end.

(* machines of the case: (AOpen resolves through ARP, built-in protocols) *)
Definition machine_cfg := (bool * list proto)%type.

Definition early_ok (ms : list machine_cfg) (m : nat) : bool :=
  match nth_error ms m with
  | Some (res, ps) => existsb (fun p => negb (ffbw res (row p))) ps
  | None => false
  end.

Definition all_disciplined (ms : list machine_cfg) : bool :=
  forallb (fun x => forallb (fun p => ffbw (fst x) (row p)) (snd x)) ms.

(* walk: seen = applications that arrived (distinct, < napps); taint = a frame excused by an undisciplined
   built-in row of the sending machine was seen (what it provokes -- ARP replies, deliveries -- is excused too) *)
Fixpoint check_barrier (napps : nat) (ok : nat -> bool) (seen : list nat) (taint : bool) (tr : list obs) : bool :=
  match tr with
  | [] => true
  | o :: r =>
      let full := Nat.eqb (length seen) napps in
      match o with
      | OArrive i =>
          if memb i seen || negb (Nat.ltb i napps) then false else check_barrier napps ok (i :: seen) taint r
      | ORelease i => full && memb i seen && check_barrier napps ok seen taint r
      | OFrame m arp =>
          if full then check_barrier napps ok seen taint r
          else if arp && (ok m || taint) then check_barrier napps ok seen true r
          else false
      | ODeliver _ | ODemux _ =>
          (full || taint) && check_barrier napps ok seen taint r
      | _ => check_barrier napps ok seen taint r
      end
  end.

Fixpoint first_req (tr : list obs) : option (status * N) :=
  match tr with
  | [] => None
  | OReq st t :: _ => Some (st, t)
  | OSeen st t :: r => if status_eqb st TimedOut then first_req r else Some (st, t)
  | _ :: r => first_req r
  end.

Definition opt_is (o : option status) (st : status) : bool :=
  match o with Some x => status_eqb x st | None => false end.

(* exact check (paused single-thread runtime: log order = real order, virtual time) *)
Definition check_paused (d : option N) (tr : list obs) (st : status) (t : N) : bool :=
  match first_req tr, d with
  | Some (s, t0), Some dd =>
      if N.ltb t0 dd then status_eqb st s && N.eqb t t0
      else if N.eqb t0 dd then (status_eqb st s || status_eqb st TimedOut) && N.eqb t dd
      else status_eqb st TimedOut && N.eqb t dd
  | Some (s, t0), None => status_eqb st s && N.eqb t t0
  | None, Some dd => status_eqb st TimedOut && N.eqb t dd
  | None, None => status_eqb st Exited
  end.

(* requests that no completed request precedes (real threads: the log order of concurrent calls is not the
   queue order) *)
Fixpoint acceptable (completed : bool) (tr : list obs) : list status :=
  match tr with
  | [] => []
  | OReq st _ :: r => if completed then acceptable completed r else st :: acceptable completed r
  | OSent :: r => acceptable true r
  | OSeen st _ :: r =>
      if status_eqb st TimedOut then acceptable completed r
      else if completed then acceptable true r else st :: acceptable true r
  | _ :: r => acceptable completed r
  end.

Definition check_multi (d : option N) (slack : N) (tr : list obs) (late_seen : option status) (st : status) (t : N) : bool :=
  let acc := acceptable false tr in
  let st_ok := existsb (status_eqb st) acc || opt_is late_seen st in
  match d with
  | Some dd => (st_ok || status_eqb st TimedOut) && N.leb t (dd + second_ns + slack)
  | None => st_ok || (match acc with [] => status_eqb st Exited | _ => false end)
  end.

Record vcfg := mkV {
  v_napps : nat;
  v_machines : list machine_cfg;
  v_timeout : option N;
  v_paused : bool;
  v_slack : N;                   (* real-time runs: 250 ms + twice the scheduling stall the child measured; 0 when paused *)
  v_builtin_sts : list status;   (* statuses the built-in applications of the case may request (not logged) *)
  v_late_seen : option status    (* first status the independent subscriber logged, maybe after the return *)
}.

Inductive verdict := Accept | Reject (why : nat).

Definition deadline_ok (d : option N) (slack : N) (t : N) : bool :=
  match d with Some dd => N.leb t (dd + second_ns + slack) | None => true end.

(* a returned run *)
Definition validate (c : vcfg) (tr : list obs) (st : status) (t : N) : verdict :=
  let slack := v_slack c in
  if negb (check_barrier (v_napps c) (early_ok (v_machines c)) [] false tr) then Reject 1
  else if negb (deadline_ok (v_timeout c) slack t) then Reject 2
  else if Nat.eqb (v_napps c) 0 && existsb (status_eqb st) (v_builtin_sts c) then Accept
  else if v_paused c then (if check_paused (v_timeout c) tr st t then Accept else Reject 3)
  else (if check_multi (v_timeout c) slack tr (v_late_seen c) st t then Accept else Reject 4).

(* a run that died instead of returning: 0 = PciSession::receive unwrapped a None machine (pci_session.rs:72),
   1 = an application start unwrapped Err(Shutdown) *)
Definition validate_crash (c : vcfg) (kind : nat) : verdict :=
  match kind with
  | 0 => if existsb (early_ok (v_machines c)) (seq 0 (length (v_machines c))) then Accept else Reject 5
  | 1 => if existsb (fun x => existsb (fun p => panics_on_shutdown (after_wait (row p))) (snd x)) (v_machines c)
         then Accept else Reject 6
  | _ => Reject 7
  end.
