(* Two TCP endpoints, two multisets of in-flight segments and the application
   histories, as a labelled transition system.  This is the closed system the
   properties C01 / C03 / C12 / C17 quantify over; the Rust harness
   harness/src/bin/tcb_lockstep.rs executes the same labels on real Tcb objects. *)
From Elvis Require Import Model.Base Model.U32 Model.Tcb.
Local Open Scope Z_scope.

Inductive endpoint :=
| EClosed               (* never opened: replies as RFC 9293 3.10.7.1 *)
| EListen
| ELive (t : tcb)
| EDead.                (* TCB deleted; like a finished TcpSession it swallows segments silently *)

Inductive side := SA | SB.
Definition other (s : side) : side := match s with SA => SB | SB => SA end.

Inductive label :=
| LOpen (s : side)
| LSend (s : side) (bytes : list Z)
| LRecv (s : side)
| LClose (s : side)
| LTick (s : side) (ms : Z)          (* flush output (segments()), then advance_time(ms) *)
| LEmit (s : side)
| LDeliver (from : side) (i : nat)   (* i-th in-flight segment sent by [from], modulo the count *)
| LDrop (from : side) (i : nat)
| LDup (from : side) (i : nat)
| LInject (from : side) (seg : segment)   (* forged segment, delivered at once to the peer of [from] *)
| LFair (k : nat)                    (* k loss-free rounds with 101 ms ticks *)
| LFairT (k : nat) (ms : Z) (one : bool)   (* k loss-free rounds with ticks of ms milliseconds; one = deliver only
                                             the oldest third (at least one) of the in-flight segments per direction
                                             and round (queueing delay: arrivals are spread over several ticks) *)
| LCheck.                            (* harness oracle check-point; no effect *)

Record config := mkCfg { portA : Z; portB : Z; issA : Z; issB : Z; mtuA : Z; mtuB : Z }.
Definition port_of c s := match s with SA => portA c | SB => portB c end.
Definition iss_of c s := match s with SA => issA c | SB => issB c end.
Definition mtu_of c s := match s with SA => mtuA c | SB => mtuB c end.

Record sys := mkSys {
  endA : endpoint; endB : endpoint;
  netA : list segment;      (* sent by A, towards B *)
  netB : list segment;
  subA : list Z; subB : list Z;       (* bytes submitted by the application at A / B *)
  delA : list (list Z); delB : list (list Z);   (* chunks delivered to the application at A / B, in order *)
  panicked : bool }.                  (* a Panic value was produced: the implementation would have crashed *)

Definition end_of s x := match x with SA => endA s | SB => endB s end.
Definition net_of s x := match x with SA => netA s | SB => netB s end.
Definition sub_of s x := match x with SA => subA s | SB => subB s end.
Definition del_of s x := match x with SA => delA s | SB => delB s end.
Definition delivered s x : list Z := concat (del_of s x).

Definition set_end s x e :=
  match x with
  | SA => mkSys e (endB s) (netA s) (netB s) (subA s) (subB s) (delA s) (delB s) (panicked s)
  | SB => mkSys (endA s) e (netA s) (netB s) (subA s) (subB s) (delA s) (delB s) (panicked s)
  end.
Definition set_net s x n :=
  match x with
  | SA => mkSys (endA s) (endB s) n (netB s) (subA s) (subB s) (delA s) (delB s) (panicked s)
  | SB => mkSys (endA s) (endB s) (netA s) n (subA s) (subB s) (delA s) (delB s) (panicked s)
  end.
Definition set_sub s x v :=
  match x with
  | SA => mkSys (endA s) (endB s) (netA s) (netB s) v (subB s) (delA s) (delB s) (panicked s)
  | SB => mkSys (endA s) (endB s) (netA s) (netB s) (subA s) v (delA s) (delB s) (panicked s)
  end.
Definition set_del s x v :=
  match x with
  | SA => mkSys (endA s) (endB s) (netA s) (netB s) (subA s) (subB s) v (delB s) (panicked s)
  | SB => mkSys (endA s) (endB s) (netA s) (netB s) (subA s) (subB s) (delA s) v (panicked s)
  end.
Definition set_panicked s :=
  mkSys (endA s) (endB s) (netA s) (netB s) (subA s) (subB s) (delA s) (delB s) true.

Definition init_sys (listenB : bool) : sys :=
  mkSys EClosed (if listenB then EListen else EClosed) [] [] [] [] [] [] false.

(* what a step reports, for the lock-step comparison *)
Inductive obs :=
| ONone
| OOpen
| OSent (accepted : bool)
| ORecv (n : Z)
| OClose (r : close_result)
| OTick (emitted : list segment) (r : time_result)
| OEmit (emitted : list segment)
| OArrive (r : arrives_result)
| OListenNone | OListenResp (h : header) | OListenTcb
| OClosedNone | OClosedResp (h : header)
| ODeadDrop
| ODropped | ODuped
| OFair
| OPanic (site : Z).

(* remove the n-th element *)
Fixpoint remove_nth {A} (l : list A) (n : nat) : list A :=
  match l, n with
  | [], _ => []
  | _ :: r, O => r
  | x :: r, S m => x :: remove_nth r m
  end.

(* the last read performed when a TCB is deleted (the session task hands buffered
   text to the application in every iteration) *)
Definition final_read (s : sys) (x : side) (t : tcb) : sys :=
  match in_text t with [] => s | _ => set_del s x (del_of s x ++ [in_text t]) end.

(* a segment reaches the endpoint on side r (sent by other r) *)
Definition arrive (c : config) (s : sys) (r : side) (seg : segment) : sys * obs :=
  match end_of s r with
  | ELive t =>
    match segment_arrives t seg with
    | Ok (t1, AOk) => (set_end s r (ELive t1), OArrive AOk)
    | Ok (t1, AClose) => (set_end (final_read s r t1) r EDead, OArrive AClose)
    | Panic p => (set_panicked s, OPanic p)
    | _ => (set_panicked s, OPanic 99)
    end
  | EListen =>
    match arrives_listen seg (iss_of c r) (mtu_of c r) with
    | LNone => (s, OListenNone)
    | LResponse h => (set_net s r (net_of s r ++ [mkSeg h []]), OListenResp h)
    | LTcb t => (set_end s r (ELive t), OListenTcb)
    end
  | EClosed =>
    match arrives_closed (s_hdr seg) (zlen (s_text seg)) with
    | None => (s, OClosedNone)
    | Some h => (set_net s r (net_of s r ++ [mkSeg h []]), OClosedResp h)
    end
  | EDead => (s, ODeadDrop)
  end.

Definition emit (s : sys) (x : side) : sys * list segment * bool :=
  match end_of s x with
  | ELive t =>
    match tcb_segments t with
    | Ok (t1, segs) => (set_net (set_end s x (ELive t1)) x (net_of s x ++ segs), segs, false)
    | _ => (set_panicked s, [], true)
    end
  | _ => (s, [], false)
  end.

Definition tick (s : sys) (x : side) (ms : Z) : sys * obs :=
  let '(s1, segs, bad) := emit s x in
  if bad then (s1, OPanic 98) else
  match end_of s1 x with
  | ELive t =>
    match advance_time t ms with
    | (t1, TIgnore) => (set_end s1 x (ELive t1), OTick segs TIgnore)
    | (t1, TCloseConnection) => (set_end (final_read s1 x t1) x EDead, OTick segs TCloseConnection)
    end
  | _ => (s1, ONone)
  end.

Definition recv (s : sys) (x : side) : sys * obs :=
  match end_of s x with
  | ELive t =>
    let '(t1, bytes) := tcb_receive t in
    (match bytes with
     | [] => set_end s x (ELive t1)
     | _ => set_del (set_end s x (ELive t1)) x (del_of s x ++ [bytes])
     end, ORecv (zlen bytes))
  | _ => (s, ONone)
  end.

(* deliver everything sent by x, in order *)
Fixpoint deliver_all (fuel : nat) (c : config) (s : sys) (x : side) : sys :=
  match fuel with
  | O => s
  | S f =>
    match net_of s x with
    | [] => s
    | seg :: rest => deliver_all f c (fst (arrive c (set_net s x rest) (other x) seg)) x
    end
  end.

Definition fair_half_t (c : config) (s : sys) (x : side) (ms : Z) (one : bool) : sys :=
  let s1 := fst (tick s x ms) in
  let '(s2, _, _) := emit s1 x in
  let s3 := deliver_all (if one then S (Nat.div (length (net_of s2 x)) 3) else S (length (net_of s2 x))) c s2 x in
  fst (recv (fst (recv s3 SA)) SB).

Definition fair_half (c : config) (s : sys) (x : side) : sys := fair_half_t c s x 101 false.

Fixpoint fair_rounds_t (k : nat) (c : config) (s : sys) (ms : Z) (one : bool) : sys :=
  match k with
  | O => s
  | S k' => fair_rounds_t k' c (fair_half_t c (fair_half_t c s SA ms one) SB ms one) ms one
  end.

Fixpoint fair_rounds (k : nat) (c : config) (s : sys) : sys :=
  match k with
  | O => s
  | S k' => fair_rounds k' c (fair_half c (fair_half c s SA) SB)
  end.

Definition sys_step (c : config) (s : sys) (l : label) : sys * obs :=
  if panicked s then (s, ONone) else
  match l with
  | LOpen x =>
    match end_of s x with
    | EClosed => (set_end s x (ELive (tcb_open (port_of c x) (port_of c (other x)) (iss_of c x) (mtu_of c x))), OOpen)
    | _ => (s, ONone)
    end
  | LSend x bytes =>
    match end_of s x with
    | ELive t =>
      let acc := accepts_send (st t) in
      let s1 := if acc then set_sub s x (sub_of s x ++ bytes) else s in
      (set_end s1 x (ELive (tcb_send t bytes)), OSent acc)
    | _ => (s, ONone)
    end
  | LRecv x => recv s x
  | LClose x =>
    match end_of s x with
    | ELive t => let '(t1, r) := tcb_close t in (set_end s x (ELive t1), OClose r)
    | _ => (s, ONone)
    end
  | LTick x ms => tick s x ms
  | LEmit x =>
    match end_of s x with
    | ELive _ => let '(s1, segs, bad) := emit s x in if bad then (s1, OPanic 97) else (s1, OEmit segs)
    | _ => (s, ONone)
    end
  | LDeliver x i =>
    match net_of s x with
    | [] => (s, ONone)
    | n =>
      let j := Nat.modulo i (length n) in
      match nth_error n j with
      | Some seg => arrive c (set_net s x (remove_nth n j)) (other x) seg
      | None => (s, ONone)
      end
    end
  | LDrop x i =>
    match net_of s x with
    | [] => (s, ONone)
    | n => (set_net s x (remove_nth n (Nat.modulo i (length n))), ODropped)
    end
  | LDup x i =>
    match net_of s x with
    | [] => (s, ONone)
    | n =>
      match nth_error n (Nat.modulo i (length n)) with
      | Some seg => (set_net s x (n ++ [seg]), ODuped)
      | None => (s, ONone)
      end
    end
  | LInject x seg => arrive c s (other x) seg
  | LFair k => (fair_rounds k c s, OFair)
  | LFairT k ms one => (fair_rounds_t k c s ms one, OFair)
  | LCheck => (s, ONone)
  end.

Definition run (c : config) (s : sys) (ls : list label) : sys :=
  fold_left (fun s l => fst (sys_step c s l)) ls s.
