(* Protocol-level model of the DHCP exchange:
     server  sim/elvis/src/applications/dhcp_server.rs   (DhcpServer::demux, :48-85)
     client  sim/elvis-core/src/protocols/dhcp/dhcp_client.rs (start :38-72, demux :74-100)
   over the address generator of Model/IpGen.v.

   What identifies a client.  Neither side looks at transaction_id, client_ip or
   client_hardware_address (dhcp_parsing.rs fills them with constants).  The server
   answers through `caller`, the UDP session built for the received datagram
   (udp.rs:131-167) on top of the Ipv4 session whose recipient is the SOURCE MAC of
   the received frame (ipv4.rs demux: Recipient::with_mac(slot, pci_demux_info.source)).
   So a reply goes to the machine that sent the request, and only to it: a client is
   identified by its MAC.  In the model that is the index [m_cid] of the machine.

   Messages carry (direction, client, type, your_ip); every other field is constant.
   The network is a multiset of in-flight messages (a list addressed by position) with
   labelled steps Deliver / Dup / Drop, so every reordering and duplication is a trace.

   NOT in the code: the real client never sends Release (only the server handles it).
   [AppRelease c] models a client-side application that releases the acknowledged
   address (sends Release(your_ip) and forgets the address); it exists so that the
   server's Release branch can be exercised.  Parsing (from_bytes().unwrap()) is C14's. *)
From Elvis Require Import Model.Base Model.IpGen.
Local Open Scope Z_scope.

(* dhcp_parsing.rs:6 *)
Inductive mtype := Discover | Offer | Request | Decline | Ack | Nack | Release.

Record msg := { m_up : bool;      (* true: client -> server (port 67); false: server -> client (port 68) *)
                m_cid : nat;      (* the client machine (its MAC) *)
                m_type : mtype;
                m_ip : Z }.       (* your_ip *)

Record state := { srv : gen;                     (* DhcpServer.ip_generator *)
                  clients : list (option Z);     (* DhcpClient.ip_address of machine c *)
                  net : list msg }.

Definition is_discover (t : mtype) : bool := match t with Discover => true | _ => false end.

(* dhcp_server.rs:56-84.  Output: new generator and the replies sent through `caller`. *)
Definition server_demux (g : gen) (m : msg) : result (gen * list msg) :=
  match m_type m with
  | Discover =>
      do r <- fetch_ip g;
      match fst r with
      | None => Panic 60                                   (* :60 fetch_ip().unwrap() *)
      | Some a => Ok (snd r, [ {| m_up := false; m_cid := m_cid m; m_type := Offer; m_ip := a |} ])
      end
  | Request =>                                             (* :67-75 acknowledges whatever is asked *)
      Ok (g, [ {| m_up := false; m_cid := m_cid m; m_type := Ack; m_ip := m_ip m |} ])
  | Release =>                                             (* :76-82 no check that it is leased *)
      do g' <- return_ip g (m_ip m); Ok (g', [])
  | _ => Ok (g, [])                                        (* :83 Err(DemuxError::Other): ignored *)
  end.

(* dhcp_client.rs:82-99.  Output: new ip_address and the replies. *)
Definition client_demux (c : nat) (cur : option Z) (m : msg) : option Z * list msg :=
  match m_type m with
  | Offer => (cur, [ {| m_up := true; m_cid := c; m_type := Request; m_ip := m_ip m |} ])   (* :83-91 *)
  | Ack => (Some (m_ip m), [])                                                            (* :93-96 *)
  | _ => (cur, [])                                                                        (* :98 *)
  end.

Fixpoint remove_nth {A} (i : nat) (l : list A) : list A :=
  match l, i with
  | [], _ => []
  | _ :: t, O => t
  | x :: t, S j => x :: remove_nth j t
  end.
Fixpoint set_nth {A} (i : nat) (v : A) (l : list A) : list A :=
  match l, i with
  | [], _ => []
  | _ :: t, O => v :: t
  | x :: t, S j => x :: set_nth j v t
  end.

Inductive label :=
| Deliver (i : nat)        (* the i-th in-flight message reaches its destination *)
| Dup (i : nat)            (* the network duplicates it *)
| Drop (i : nat)           (* the network loses it *)
| AppRelease (c : nat).    (* hypothetical client application, see above *)

Definition step (st : state) (l : label) : result state :=
  match l with
  | Deliver i =>
      match nth_error (net st) i with
      | None => Ok st
      | Some m =>
          let rest := remove_nth i (net st) in
          if m_up m then
            do r <- server_demux (srv st) m;
            Ok {| srv := fst r; clients := clients st; net := rest ++ snd r |}
          else
            match nth_error (clients st) (m_cid m) with
            | None => Ok {| srv := srv st; clients := clients st; net := rest |}   (* no such machine *)
            | Some cur =>
                let r := client_demux (m_cid m) cur m in
                Ok {| srv := srv st; clients := set_nth (m_cid m) (fst r) (clients st); net := rest ++ snd r |}
            end
      end
  | Dup i =>
      match nth_error (net st) i with
      | None => Ok st
      | Some m => Ok {| srv := srv st; clients := clients st; net := net st ++ [m] |}
      end
  | Drop i => Ok {| srv := srv st; clients := clients st; net := remove_nth i (net st) |}
  | AppRelease c =>
      match nth_error (clients st) c with
      | Some (Some a) =>
          Ok {| srv := srv st; clients := set_nth c None (clients st);
                net := net st ++ [ {| m_up := true; m_cid := c; m_type := Release; m_ip := a |} ] |}
      | _ => Ok st
      end
  end.

Fixpoint run (st : state) (tr : list label) : result state :=
  match tr with
  | [] => Ok st
  | l :: t => do st' <- step st l; run st' t
  end.

(* dhcp_client.rs:67-69: after the start barrier every client sends one Discover (your_ip 0.0.0.0) *)
Definition discover_of (c : nat) : msg := {| m_up := true; m_cid := c; m_type := Discover; m_ip := 0 |}.
Definition init (n : nat) (g : gen) : state :=
  {| srv := g; clients := repeat None n; net := map discover_of (seq 0 n) |}.

(* observation: DhcpClient::ip_address of machine c *)
Definition acked (st : state) (c : nat) (a : Z) : Prop := nth_error (clients st) c = Some (Some a).
