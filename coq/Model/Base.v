(* Shared conventions of the executable models.
   A Rust panic (unwrap on None/Err, assert!, unreachable!, checked arithmetic
   overflow in the dev profile, out-of-range slicing) is a VALUE of the model. *)
From Coq Require Export ZArith List Bool Lia.
Export ListNotations.

Inductive result (A : Type) : Type :=
| Ok (a : A)
| Err (e : Z)          (* the code returned an error value; e is a small enum *)
| Panic (site : Z)     (* the code panicked; site is an identifier of the site *)
| OutOfFuel.           (* model artefact; excluded by theorem statements *)
Arguments Ok {A} a.
Arguments Err {A} e.
Arguments Panic {A} site.
Arguments OutOfFuel {A}.

Definition bind {A B} (r : result A) (f : A -> result B) : result B :=
  match r with
  | Ok a => f a
  | Err e => Err e
  | Panic s => Panic s
  | OutOfFuel => OutOfFuel
  end.

Notation "'do' x <- r ; k" := (bind r (fun x => k))
  (at level 200, x pattern, r at level 100, k at level 200, right associativity).

Definition is_ok {A} (r : result A) : bool :=
  match r with Ok _ => true | _ => false end.
Definition is_panic {A} (r : result A) : bool :=
  match r with Panic _ => true | _ => false end.
