(* Transcription of sim/elvis-core/src/protocols/ipv4/fragmentation.rs
   (fragment, Fragmentation::fragment) and of the ControlFlags accessors of
   ipv4_parsing.rs.

   - u8/u16 values are Z; every `+ - *` the dev build checks is a checked
     operation here and yields [Panic site] where the Rust would panic.
   - Message::cut(len) (message.rs:132 `assert!(len <= self.len)`) is [cut]
     on lists: None = the assertion fails (licensed by C07: Message refines
     byte lists).  The payload element type is a parameter: the model never
     looks at payload bytes.
   - the recursion of Fragmentation::fragment gets explicit fuel; the
     fragments vector is returned in push order.
   No proofs in this file. *)
From Elvis Require Import Model.Base.
Local Open Scope Z_scope.

(* Ipv4Header (ipv4_parsing.rs:20-43).  [others] are the fields the
   fragmentation code never reads or writes; they are only copied. *)
Record others : Type := mkOthers {
  tos : Z; ident : Z; ttl : Z; proto : Z; cksum : Z; src : Z; dst : Z }.

Record hdr : Type := mkHdr {
  ihl : Z;               (* u8  *)
  total_length : Z;      (* u16 *)
  fragment_offset : Z;   (* u16, units of 8 bytes *)
  flags : Z;             (* ControlFlags(u8): bit0 = MF, bit1 = DF *)
  oth : others }.

Definition set_total_length (h : hdr) (v : Z) : hdr :=
  mkHdr (ihl h) v (fragment_offset h) (flags h) (oth h).
Definition set_fragment_offset (h : hdr) (v : Z) : hdr :=
  mkHdr (ihl h) (total_length h) v (flags h) (oth h).
Definition set_flags (h : hdr) (v : Z) : hdr :=
  mkHdr (ihl h) (total_length h) (fragment_offset h) v (oth h).

(* ControlFlags, ipv4_parsing.rs:285-299 *)
Definition may_fragment (f : Z) : bool := Z.land f 2 =? 0.        (* :286 self.0 & 0b10 == 0 *)
Definition is_last_fragment (f : Z) : bool := Z.land f 1 =? 0.    (* :294 self.0 & 0b01 == 0 *)
(* :298 set_is_last_fragment(false): self.0 = (self.0 & 0b10) | !false as u8 *)
Definition set_mf (f : Z) : Z := Z.lor (Z.land f 2) 1.

(* checked u16 arithmetic (dev profile: overflow-checks on) *)
Definition U16MAX : Z := 65535.
Definition add16 (site a b : Z) : result Z := if a + b >? U16MAX then Panic site else Ok (a + b).
Definition sub16 (site a b : Z) : result Z := if a <? b then Panic site else Ok (a - b).
Definition mul16 (site a b : Z) : result Z := if a * b >? U16MAX then Panic site else Ok (a * b).

(* panic sites *)
Definition SITE_IHL4 : Z := 1.      (* fragmentation.rs:61  ihl as u16 * 4            *)
Definition SITE_MTU_SUB : Z := 2.   (* fragmentation.rs:61  self.mtu - ihl*4           *)
Definition SITE_CUT : Z := 3.       (* fragmentation.rs:69  body.cut -> message.rs:133 *)
Definition SITE_NFB8 : Z := 4.      (* fragmentation.rs:76  fragment_blocks * 8        *)
Definition SITE_TL1 : Z := 5.       (* fragmentation.rs:76  ihl*4 + nfb*8              *)
Definition SITE_DEC : Z := 6.       (* fragmentation.rs:101 nfb*8 + (oihl-ihl)*4       *)
Definition SITE_TL2 : Z := 7.       (* fragmentation.rs:101 total_length -= ...        *)
Definition SITE_FO : Z := 8.        (* fragmentation.rs:102 fragment_offset += nfb     *)

Section Frag.
Context {A : Type}.

(* A piece of a datagram, fragmentation.rs:8 *)
Definition frag : Type := (hdr * list A)%type.

(* fragmentation.rs:12-19 *)
Inductive fragments : Type :=
| Fragmented (l : list frag)
| DontFragment (f : frag)
| Discard.

(* Message::cut: Some (first len bytes, remainder) or None (= assert fails) *)
Fixpoint cut (n : nat) (l : list A) : option (list A * list A) :=
  match n with
  | O => Some ([], l)
  | S n' =>
    match l with
    | [] => None
    | x :: t => match cut n' t with
                | Some (a, b) => Some (x :: a, b)
                | None => None
                end
    end
  end.

(* Fragmentation::fragment, fragmentation.rs:54-106 *)
Fixpoint frag_rec (fuel : nat) (mtu : Z) (h : hdr) (body : list A) : result (list frag) :=
  match fuel with
  | O => OutOfFuel
  | S fuel' =>
    if total_length h <=? mtu then Ok [(h, body)]                      (* :55-58 *)
    else
      do hl <- mul16 SITE_IHL4 (ihl h) 4;                              (* :61 *)
      do d <- sub16 SITE_MTU_SUB mtu hl;                               (* :61 *)
      let nfb := d / 8 in                                              (* :61 *)
      match cut (Z.to_nat (nfb * 8)) body with                         (* :69 usize, no overflow *)
      | None => Panic SITE_CUT
      | Some (first, rest) =>
        do nfb8 <- mul16 SITE_NFB8 nfb 8;                              (* :76 *)
        do tl1 <- add16 SITE_TL1 hl nfb8;                              (* :76 (ihl*4 again = hl) *)
        let h1 := set_total_length (set_flags h (set_mf (flags h))) tl1 in   (* :75-76 *)
        (* :101  nfb*8 + (oihl - header.ihl) as u16 * 4 ; oihl = header.ihl *)
        do nfb8' <- mul16 SITE_DEC nfb 8;
        do dec <- add16 SITE_DEC nfb8' ((ihl h - ihl h) * 4);
        do tl2 <- sub16 SITE_TL2 (total_length h) dec;                 (* :101 *)
        do fo2 <- add16 SITE_FO (fragment_offset h) nfb;               (* :102 *)
        let h2 := set_fragment_offset (set_total_length h tl2) fo2 in
        do more <- frag_rec fuel' mtu h2 rest;                         (* :105 *)
        Ok ((h1, first) :: more)                                       (* :79 push happens first *)
      end
  end.

(* enough for every terminating run: each recursive call removes >= 8 bytes *)
Definition fuel_for (h : hdr) : nat := S (Z.to_nat (total_length h)).

(* pub fn fragment, fragmentation.rs:22-32 *)
Definition fragment (h : hdr) (body : list A) (mtu : Z) : result fragments :=
  if total_length h <=? mtu then Ok (DontFragment (h, body))          (* :23-24 *)
  else if negb (may_fragment (flags h)) then Ok Discard               (* :25-26 *)
  else do frs <- frag_rec (fuel_for h) mtu h body;                    (* :28-29 *)
       Ok (Fragmented frs).                                           (* :30 *)

(* ---- successive fragmentation (a router chain): glue, not Rust code ---- *)

(* what travels on after a fragmentation decision *)
Definition pieces (r : fragments) : option (list frag) :=
  match r with
  | Fragmented l => Some l
  | DontFragment f => Some [f]
  | Discard => None
  end.

(* fragment every piece for the next MTU, in order *)
Fixpoint refrag_all (mtu : Z) (frs : list frag) : result (list fragments) :=
  match frs with
  | [] => Ok []
  | (h, p) :: t =>
    do r <- fragment h p mtu;
    do rs <- refrag_all mtu t;
    Ok (r :: rs)
  end.

(* all pieces in order, None if some piece was discarded *)
Fixpoint flatten (rs : list fragments) : option (list frag) :=
  match rs with
  | [] => Some []
  | r :: t => match pieces r, flatten t with
              | Some a, Some b => Some (a ++ b)
              | _, _ => None
              end
  end.

Fixpoint chain (mtus : list Z) (frs : list frag) : result (option (list frag)) :=
  match mtus with
  | [] => Ok (Some frs)
  | m :: ms =>
    do rs <- refrag_all m frs;
    match flatten rs with
    | Some frs' => chain ms frs'
    | None => Ok None
    end
  end.

(* ---- the property's predicate, executable (the harness oracle runs the
        extracted version of exactly this on the implementation's output) ---- *)

Definition plen (f : frag) : Z := Z.of_nat (length (snd f)).

Definition others_eqb (a b : others) : bool :=
  (tos a =? tos b) && (ident a =? ident b) && (ttl a =? ttl b) && (proto a =? proto b)
  && (cksum a =? cksum b) && (src a =? src b) && (dst a =? dst b).

(* one piece f of the datagram with header o, whose payload starts [acc] bytes
   into o's payload; [last] = it is the piece that ends the datagram *)
Definition piece_ok (o : hdr) (mtu acc : Z) (last : bool) (f : frag) : bool :=
  let h := fst f in
  let n := plen f in
  (total_length h <=? mtu)
  && (total_length h =? 4 * ihl o + n)
  && (ihl h =? ihl o)
  && others_eqb (oth h) (oth o)
  && (8 * fragment_offset h =? 8 * fragment_offset o + acc)
  && (if last then flags h =? flags o
      else (flags h =? set_mf (flags o)) && (n mod 8 =? 0)).

Definition is_nil {B} (l : list B) : bool := match l with [] => true | _ => false end.

(* [more] = further pieces follow after this list *)
Fixpoint pieces_ok (o : hdr) (mtu acc : Z) (more : bool) (frs : list frag) : bool :=
  match frs with
  | [] => true
  | f :: rest =>
    piece_ok o mtu acc (is_nil rest && negb more) f
    && pieces_ok o mtu (acc + plen f) more rest
  end.

(* a datagram split in several pieces has no empty piece *)
Definition nondeg_ok (frs : list frag) : bool :=
  match frs with
  | [_] => true
  | _ => forallb (fun f => negb (is_nil (snd f))) frs
  end.

Fixpoint list_eqb (eqb : A -> A -> bool) (a b : list A) : bool :=
  match a, b with
  | [], [] => true
  | x :: a', y :: b' => eqb x y && list_eqb eqb a' b'
  | _, _ => false
  end.

Definition partition_ok (eqb : A -> A -> bool) (o : hdr) (body : list A) (mtu : Z)
           (frs : list frag) : bool :=
  negb (is_nil frs)
  && list_eqb eqb (concat (map snd frs)) body
  && pieces_ok o mtu 0 false frs
  && nondeg_ok frs.

Definition hdr_eqb (a b : hdr) : bool :=
  (ihl a =? ihl b) && (total_length a =? total_length b)
  && (fragment_offset a =? fragment_offset b) && (flags a =? flags b)
  && others_eqb (oth a) (oth b).

(* the three outcomes of one call of fragment, as the property describes them *)
Definition outcome_ok (eqb : A -> A -> bool) (h : hdr) (body : list A) (mtu : Z)
           (r : fragments) : bool :=
  match r with
  | DontFragment (h', b') =>
      (total_length h <=? mtu) && hdr_eqb h' h && list_eqb eqb b' body
  | Discard => (mtu <? total_length h) && negb (may_fragment (flags h))
  | Fragmented frs =>
      (mtu <? total_length h) && may_fragment (flags h) && partition_ok eqb h body mtu frs
  end.

(* the hypotheses of the theorems, executable so that the validator can tell
   whether a case lies inside the proved domain *)
Definition valid_ok (h : hdr) (body : list A) : bool :=
  (0 <=? ihl h)
  && (total_length h =? 4 * ihl h + Z.of_nat (length body))
  && (0 <=? fragment_offset h)
  && (fragment_offset h + Z.of_nat (length body) / 8 <=? U16MAX).

Definition mtu_ok (h : hdr) (mtu : Z) : bool :=
  (4 * ihl h + 8 <=? mtu) && (mtu <=? U16MAX).

End Frag.

Arguments frag : clear implicits.
Arguments fragments : clear implicits.
