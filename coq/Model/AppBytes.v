(* Byte-level helpers of the ARP / DNS / DHCP codec models (kit codecapp).
   Self-contained on purpose: the IPv4/UDP/TCP kit has its own helpers.

   Bytes are Z values; a byte string is a [list Z] with [bytes bs = true].
   Source: sim/elvis-core/src/protocols/utility.rs, trait BytesExt (l.156-234)
   for the readers, u16/u32/u64::to_be_bytes for the writers,
   core::str::from_utf8 for [utf8_valid]. *)
From Elvis Require Import Model.Base.
Local Open Scope Z_scope.

Definition byte (b : Z) : bool := (0 <=? b) && (b <? 256).
Definition bytes (bs : list Z) : bool := forallb byte bs.
(* 0 <= v < hi : value ranges of the Rust integer types *)
Definition rng (hi v : Z) : bool := (0 <=? v) && (v <? hi).

(* "returns a value or a reported error": neither a panic nor the model's
   fuel artefact *)
Definition answers {A} (r : result A) : bool :=
  match r with Ok _ | Err _ => true | _ => false end.

(* ---- writers: uN::to_be_bytes ------------------------------------------ *)
Definition be8 (v : Z) : list Z := [v mod 256].
Definition be16 (v : Z) : list Z := [v / 256 mod 256; v mod 256].
Definition be32 (v : Z) : list Z :=
  [v / 16777216 mod 256; v / 65536 mod 256; v / 256 mod 256; v mod 256].
(* u64::to_be_bytes()[2..8] (arp_parsing.rs l.99,101): the two most
   significant bytes of the u64 are dropped *)
Definition be48 (v : Z) : list Z :=
  [v / 1099511627776 mod 256; v / 4294967296 mod 256; v / 16777216 mod 256;
   v / 65536 mod 256; v / 256 mod 256; v mod 256].

(* ---- readers: BytesExt over the rest of the iterator --------------------
   Each returns the value and the remaining input, None when the iterator
   runs dry (utility.rs l.159-219).  A failed read always makes the caller
   return HeaderTooShort at once, so the iterator state after None is never
   observed. *)
Definition next_u8 (bs : list Z) : option (Z * list Z) :=
  match bs with b :: r => Some (b, r) | _ => None end.
Definition next_u16 (bs : list Z) : option (Z * list Z) :=
  match bs with a :: b :: r => Some (a * 256 + b, r) | _ => None end.
Definition next_u32 (bs : list Z) : option (Z * list Z) :=
  match bs with
  | a :: b :: c :: d :: r => Some (a * 16777216 + b * 65536 + c * 256 + d, r)
  | _ => None
  end.
(* next_u48_be: [0,0,b0..b5] -> u64::from_be_bytes *)
Definition next_u48 (bs : list Z) : option (Z * list Z) :=
  match bs with
  | a :: b :: c :: d :: e :: f :: r =>
      Some (a * 1099511627776 + b * 4294967296 + c * 16777216 + d * 65536 + e * 256 + f, r)
  | _ => None
  end.
(* next_ipv4addr = next_u32_be().map(Ipv4Address::from); Ipv4Address::from(u32)
   stores n.to_be_bytes(), to_bytes() gives them back: the address is modelled
   by that u32 *)
Definition next_ipv4 := next_u32.

(* `.ok_or(HTS)?` : error code 1 = HeaderTooShort in all three codecs *)
Definition rd {A} (o : option A) : result A :=
  match o with Some x => Ok x | None => Err 1 end.

(* The delimiter loops (dns_parsing.rs l.38-42, 49-53; dhcp_parsing.rs
   l.95-99, 103-107):
     let mut current = bytes.next_u8().ok_or(HTS)?;
     while current != D { v.push(current); current = bytes.next_u8().ok_or(HTS)? }
   Returns the pushed bytes and the input after the delimiter. *)
Fixpoint read_until (d : Z) (bs : list Z) : result (list Z * list Z) :=
  match bs with
  | [] => Err 1
  | c :: r =>
      if c =? d then Ok ([], r)
      else do (n, r') <- read_until d r; Ok (c :: n, r')
  end.

(* true iff the delimiter does not occur *)
Definition free_of (d : Z) (l : list Z) : bool := forallb (fun c => negb (c =? d)) l.

(* ---- core::str::from_utf8 acceptance ------------------------------------
   Well-formed byte sequences, Unicode 15 table 3-7 (what
   core::str::validations::run_utf8_validation implements: no overlong forms,
   no surrogates, nothing above U+10FFFF).  Tied to std by the lock-step
   cases `utf8 <hex>`. *)
Definition cont (b : Z) : bool := (128 <=? b) && (b <=? 191).
Definition inr (lo hi b : Z) : bool := (lo <=? b) && (b <=? hi).

Fixpoint utf8_valid (bs : list Z) : bool :=
  match bs with
  | [] => true
  | b0 :: r =>
      if b0 <? 128 then utf8_valid r
      else if inr 194 223 b0 then
        match r with b1 :: r1 => cont b1 && utf8_valid r1 | _ => false end
      else if inr 224 239 b0 then
        match r with
        | b1 :: b2 :: r2 =>
            (if b0 =? 224 then inr 160 191 b1
             else if b0 =? 237 then inr 128 159 b1
             else cont b1) && cont b2 && utf8_valid r2
        | _ => false
        end
      else if inr 240 244 b0 then
        match r with
        | b1 :: b2 :: b3 :: r3 =>
            (if b0 =? 240 then inr 144 191 b1
             else if b0 =? 244 then inr 128 143 b1
             else cont b1) && cont b2 && cont b3 && utf8_valid r3
        | _ => false
        end
      else false
  end.
