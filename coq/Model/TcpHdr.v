(* TCP header codec: sim/elvis-core/src/protocols/tcp/tcp_parsing.rs.
   Line numbers refer to that file at /repo commit c999f3a6.
     ck  : cargo feature `compute_checksum`
     fck : receive-side checksum repair (commit c999f3a6, .cache/codecip/fix-cksum.patch);
           [true] = the code as it is now, [false] = before the repair ("_orig"). *)
From Elvis Require Import Model.Base Model.Bytes Model.Checksum.
Local Open Scope Z_scope.

Record tcp_hdr := mk_tcp {                         (* struct TcpHeader, l.15-44 *)
  t_sport : Z;   (* u16 *)
  t_dport : Z;   (* u16 *)
  t_seq : Z;     (* u32 *)
  t_ack : Z;     (* u32 *)
  t_doff : Z;    (* u8 data_offset *)
  t_ctl : Z;     (* Control(u8) *)
  t_wnd : Z;     (* u16 *)
  t_urg : Z;     (* u16 *)
  t_ck : Z       (* u16 *)
}.

(* ParseError (l.149-160), BuildHeaderError (l.270-274) *)
Definition ET_HTS : Z := 1.       (* HeaderTooShort *)
Definition ET_LONG : Z := 2.      (* PacketTooLong *)
Definition ET_OPTS : Z := 3.      (* UnexpectedOptions *)
Definition ET_CK (expected actual : Z) : Z := 4294967296 + expected * 65536 + actual.
Definition ETB_LONG : Z := 21.    (* OverlyLongPayload *)
Definition usize_max_t : Z := 18446744073709551615.

(* ---- Control (l.278-374) ------------------------------------------------ *)
Definition b2zt (b : bool) : Z := if b then 1 else 0.
Definition ctl_new (urg ack psh rst syn fin : bool) : Z :=             (* l.282-291 *)
  bor (bor (bor (bor (bor (b2zt fin) (shl (b2zt syn) 1)) (shl (b2zt rst) 2))
                (shl (b2zt psh) 3)) (shl (b2zt ack) 4)) (shl (b2zt urg) 5).
Definition ctl_bit (c bit : Z) : bool := band (shr c bit) 1 =? 1.      (* l.354-356 *)
(* set_bit (l.359-361): `!(1 << bit)` on a u8 is xor 255 *)
Definition ctl_set_bit (c bit : Z) (state : bool) : Z :=
  bor (band c (Z.lxor (shl 1 bit) 255)) (shl (b2zt state) bit).
Definition ctl_urg c := ctl_bit c 5.
Definition ctl_ack c := ctl_bit c 4.
Definition ctl_psh c := ctl_bit c 3.
Definition ctl_rst c := ctl_bit c 2.
Definition ctl_syn c := ctl_bit c 1.
Definition ctl_fin c := ctl_bit c 0.

(* ---- decoder: TcpHeader::from_bytes (l.48-121) --------------------------- *)
Definition next_2 (bs : list Z) : option ((Z * Z) * list Z) :=        (* next_n::<2>() *)
  match bs with a :: b :: r => Some ((a, b), r) | _ => None end.

Definition tcp_decode (fck ck : bool) (bs : list Z) (plen sa da : Z) : result tcp_hdr :=
  let c := 0 in                                                        (* l.55 *)
  do (sp, bs) <- ok_or (next_u16_be bs) ET_HTS;                        (* l.57 *)
  let c := ck_u16 ck c sp in                                           (* l.58 *)
  do (dp, bs) <- ok_or (next_u16_be bs) ET_HTS;                        (* l.60 *)
  let c := ck_u16 ck c dp in                                           (* l.61 *)
  do (seq, bs) <- ok_or (next_u32_be bs) ET_HTS;                       (* l.63 *)
  let c := ck_u32 ck c seq in                                          (* l.64 *)
  do (ack, bs) <- ok_or (next_u32_be bs) ET_HTS;                       (* l.66 *)
  let c := ck_u32 ck c ack in                                          (* l.67 *)
  do (orc, bs) <- ok_or (next_2 bs) ET_HTS;                            (* l.69 *)
  let c := ck_u16 ck c (of_be16 (fst orc) (snd orc)) in                (* l.70 *)
  let doff := shr (fst orc) 4 in                                       (* l.71 *)
  let ctl := band (snd orc) 63 in                                      (* l.72 *)
  if negb (doff =? 5) then Err ET_OPTS else                            (* l.74-77 *)
  do (wnd, bs) <- ok_or (next_u16_be bs) ET_HTS;                       (* l.79 *)
  let c := ck_u16 ck c wnd in                                          (* l.80 *)
  do (expected, bs) <- ok_or (next_u16_be bs) ET_HTS;                  (* l.82 *)
  do (urg, bs) <- ok_or (next_u16_be bs) ET_HTS;                       (* l.84 *)
  let c := ck_u16 ck c urg in                                          (* l.85 *)
  let c := ck_rem ck c bs in                                           (* l.87 *)
  let c := ck_u32 ck c sa in                                           (* l.90 *)
  let c := ck_u32 ck c da in                                           (* l.91 *)
  let c := ck_u8 ck c 0 6 in                                           (* l.93 *)
  if 65535 <? plen then Err ET_LONG else                               (* l.95-97 try_into u16 *)
  let c := ck_u16 ck c plen in                                         (* l.94 *)
  let actual := as_u16 ck c in                                         (* l.100 *)
  if ck_match fck actual expected                                      (* l.101-103 *)
  then Ok (mk_tcp sp dp seq ack doff ctl wnd urg
                  (if fck then expected else actual))                  (* l.104-114; stores the received field *)
  else Err (ET_CK expected actual).                                    (* l.116-119 *)

(* ---- TcpHeader::serialize (l.132-144): no failure path ------------------- *)
Definition tcp_encode (h : tcp_hdr) : list Z :=
  be16 (t_sport h) ++ be16 (t_dport h) ++ be32 (t_seq h) ++ be32 (t_ack h)
  ++ [shl (t_doff h) 4 mod 256; t_ctl h]                               (* l.138 u8 `<<` drops high bits; l.139 *)
  ++ be16 (t_wnd h) ++ be16 (t_ck h) ++ be16 (t_urg h).

(* ---- TcpHeaderBuilder (l.164-267) ---------------------------------------- *)
Definition tb_new (sp dp seq : Z) : tcp_hdr := mk_tcp sp dp seq 0 0 0 0 0 0.   (* l.168-182 *)
Definition tb_with_ctl (h : tcp_hdr) (c : Z) : tcp_hdr :=
  mk_tcp (t_sport h) (t_dport h) (t_seq h) (t_ack h) (t_doff h) c (t_wnd h) (t_urg h) (t_ck h).
Definition tb_wnd (h : tcp_hdr) (w : Z) : tcp_hdr :=                            (* l.185 *)
  mk_tcp (t_sport h) (t_dport h) (t_seq h) (t_ack h) (t_doff h) (t_ctl h) w (t_urg h) (t_ck h).
Definition tb_ack (h : tcp_hdr) (a : Z) : tcp_hdr :=                            (* l.191-195 *)
  mk_tcp (t_sport h) (t_dport h) (t_seq h) a (t_doff h) (ctl_set_bit (t_ctl h) 4 true)
         (t_wnd h) (t_urg h) (t_ck h).
Definition tb_psh h := tb_with_ctl h (ctl_set_bit (t_ctl h) 3 true).            (* l.199 *)
Definition tb_rst h := tb_with_ctl h (ctl_set_bit (t_ctl h) 2 true).            (* l.205 *)
Definition tb_syn h := tb_with_ctl h (ctl_set_bit (t_ctl h) 1 true).            (* l.211 *)
Definition tb_fin h := tb_with_ctl h (ctl_set_bit (t_ctl h) 0 true).            (* l.217 *)
Definition tb_urg (h : tcp_hdr) (u : Z) : tcp_hdr :=                            (* l.224-228 *)
  mk_tcp (t_sport h) (t_dport h) (t_seq h) (t_ack h) (t_doff h) (ctl_set_bit (t_ctl h) 5 true)
         (t_wnd h) u (t_ck h).

(* build (l.231-266).  `text_len + 20` is a checked usize addition: panic site 237. *)
Definition tcp_build (ck : bool) (h : tcp_hdr) (sa da : Z) (text : list Z) (tlen : Z)
  : result tcp_hdr :=
  let c := 0 in
  if usize_max_t <? tlen + 20 then Panic 237 else                      (* l.239 *)
  if 65535 <? tlen + 20 then Err ETB_LONG else                         (* l.240-241 *)
  let length := tlen + 20 in
  let c := ck_rem ck c text in                                         (* l.242 *)
  let doff := 5 in                                                     (* l.245 *)
  let c := ck_u32 ck c sa in                                           (* l.248 *)
  let c := ck_u32 ck c da in                                           (* l.249 *)
  let c := ck_u8 ck c 0 6 in                                           (* l.250 *)
  let c := ck_u16 ck c length in                                       (* l.251 *)
  let c := ck_u16 ck c (t_sport h) in                                  (* l.254 *)
  let c := ck_u16 ck c (t_dport h) in                                  (* l.255 *)
  let c := ck_u32 ck c (t_seq h) in                                    (* l.256 *)
  let c := ck_u32 ck c (t_ack h) in                                    (* l.257 *)
  let c := ck_u8 ck c (shl doff 4 mod 256) (t_ctl h) in                (* l.258 *)
  let c := ck_u16 ck c (t_wnd h) in                                    (* l.259 *)
  let c := ck_u16 ck c (t_urg h) in                                    (* l.260 *)
  Ok (mk_tcp (t_sport h) (t_dport h) (t_seq h) (t_ack h) doff (t_ctl h)
             (t_wnd h) (t_urg h) (as_u16 ck c)).                       (* l.262-265 *)

(* field ranges of a header the builder is given (all 64 control-bit combinations) *)
Definition tcp_fields_ok (h : tcp_hdr) : Prop :=
  u16 (t_sport h) /\ u16 (t_dport h) /\ u32 (t_seq h) /\ u32 (t_ack h) /\
  0 <= t_ctl h < 64 /\ u16 (t_wnd h) /\ u16 (t_urg h).

(* the recorded finding class `tcp-reserved-bits`: reserved bits of bytes 12 / 13
   (low nibble of byte 12; top two bits of byte 13) are not all zero *)
Definition tcp_reserved_bits (bs : list Z) : bool :=
  negb ((band (nth 12 bs 0) 15 =? 0) && (band (nth 13 bs 0) 192 =? 0)).

(* ---- RFC 9293 3.1, from the header diagram: five 32-bit rows -------------
   Rsrvd is 4 bits; the control bits are CWR ECE URG ACK PSH RST SYN FIN. *)
Definition octets32t (w : Z) : list Z :=
  [w / 2^24 mod 2^8; w / 2^16 mod 2^8; w / 2^8 mod 2^8; w mod 2^8].
Definition rfc9293_bytes (sport dport seq ack doff rsrvd cwr ece urg ackb psh rst syn fin
                          window cksum urgp : Z) : list Z :=
  octets32t (sport * 2^16 + dport) ++ octets32t seq ++ octets32t ack
  ++ octets32t (doff * 2^28 + rsrvd * 2^24 +
                (cwr * 2^7 + ece * 2^6 + urg * 2^5 + ackb * 2^4 + psh * 2^3 + rst * 2^2 + syn * 2^1 + fin) * 2^16
                + window)
  ++ octets32t (cksum * 2^16 + urgp).
Definition trow (bs : list Z) (i : nat) : Z :=
  nth (4*i) bs 0 * 2^24 + nth (4*i+1) bs 0 * 2^16 + nth (4*i+2) bs 0 * 2^8 + nth (4*i+3) bs 0.
Definition tfld (w k width : Z) : Z := w / 2^k mod 2^width.
(* fields read back from the rows; the six control bits as one 6-bit number *)
Definition rfc9293_fields (bs : list Z) : tcp_hdr :=
  mk_tcp (tfld (trow bs 0) 16 16) (tfld (trow bs 0) 0 16) (trow bs 1) (trow bs 2)
         (tfld (trow bs 3) 28 4) (tfld (trow bs 3) 16 6) (tfld (trow bs 3) 0 16)
         (tfld (trow bs 4) 0 16) (tfld (trow bs 4) 16 16).
