(* Model of sim/elvis-core/src/protocols/arp/arp_parsing.rs
   (ArpPacket::build l.87-104, ArpPacket::from_bytes l.107-140). *)
From Elvis Require Import Model.Base Model.AppBytes.
Local Open Scope Z_scope.

(* enum Operation { Request = 1, Reply = 2 }  (l.185-188) *)
Inductive arp_oper := Request | Reply.
Definition oper_u16 (o : arp_oper) : Z := match o with Request => 1 | Reply => 2 end.

(* struct ArpPacket (l.22-41): htype,ptype u16; hlen,plen u8; Mac = u64;
   Ipv4Address as its big-endian u32 *)
Record arp := mkArp {
  a_htype : Z; a_ptype : Z; a_hlen : Z; a_plen : Z; a_oper : arp_oper;
  a_smac : Z; a_sip : Z; a_tmac : Z; a_tip : Z }.

(* error codes: 1 = ParseError::HeaderTooShort, 2 = ParseError::InvalidOperation *)

(* build (l.87-104): no failing operation; the slices [2..8] of an 8-byte
   array are always in range *)
Definition arp_build (h : arp) : list Z :=
  be16 (a_htype h) ++ be16 (a_ptype h) ++ be8 (a_hlen h) ++ be8 (a_plen h) ++
  be16 (oper_u16 (a_oper h)) ++
  be48 (a_smac h) ++ be32 (a_sip h) ++ be48 (a_tmac h) ++ be32 (a_tip h).

(* from_bytes (l.107-140), same read order; returns the packet and the input
   that was not consumed *)
Definition arp_from_bytes (bs : list Z) : result (arp * list Z) :=
  do (htype, bs) <- rd (next_u16 bs);                       (* l.111 *)
  do (ptype, bs) <- rd (next_u16 bs);                       (* l.112 *)
  do (hlen, bs) <- rd (next_u8 bs);                         (* l.113 *)
  do (plen, bs) <- rd (next_u8 bs);                         (* l.114 *)
  do (op, bs) <- rd (next_u16 bs);                          (* l.117 *)
  do oper <- (if op =? 1 then Ok Request                    (* l.118-122 *)
              else if op =? 2 then Ok Reply else Err 2);
  do (smac, bs) <- rd (next_u48 bs);                        (* l.125 *)
  do (sip, bs) <- rd (next_ipv4 bs);                        (* l.126 *)
  do (tmac, bs) <- rd (next_u48 bs);                        (* l.127 *)
  do (tip, bs) <- rd (next_ipv4 bs);                        (* l.128 *)
  Ok (mkArp htype ptype hlen plen oper smac sip tmac tip, bs).

(* values of the Rust type (Mac is a full u64) *)
Definition arp_repr (h : arp) : bool :=
  rng 65536 (a_htype h) && rng 65536 (a_ptype h) && rng 256 (a_hlen h) && rng 256 (a_plen h) &&
  rng 18446744073709551616 (a_smac h) && rng 4294967296 (a_sip h) &&
  rng 18446744073709551616 (a_tmac h) && rng 4294967296 (a_tip h).
(* the property's quantifier: 48-bit MACs *)
Definition arp_wf (h : arp) : bool :=
  arp_repr h && rng 281474976710656 (a_smac h) && rng 281474976710656 (a_tmac h).

(* what a decoder gives back for a representable packet whose MACs use more
   than 48 bits *)
Definition arp_trunc (h : arp) : arp :=
  mkArp (a_htype h) (a_ptype h) (a_hlen h) (a_plen h) (a_oper h)
        (a_smac h mod 281474976710656) (a_sip h) (a_tmac h mod 281474976710656) (a_tip h).

(* rendering helper for the driver *)
Definition arp_consumed (bs rest : list Z) : Z := Z.of_nat (length bs) - Z.of_nat (length rest).
