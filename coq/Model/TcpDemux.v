(* C03 (part c) — the TCP session table: executable model of tcp.rs.

   Transcribed from /repo/sim/elvis-core/src/protocols (line numbers of the unchanged tree):
     tcp.rs       Tcp::open 55-86, Tcp::listen 88-101, Tcp::demux 106-204
     tcp/tcb.rs   segment_arrives_closed 804-829, segment_arrives_listen 831-904 (which of its three
                  results; the TCB it builds is property C01's model and opaque here)
     ipv4.rs      Ipv4::open_and_listen 103-113, Ipv4::listen 163-176, the lookup of Ipv4::demux 219-239

   Reused from Model/Demux.v (property C04): key = (address, port), tbl (association list read by first
   match, so consing a pair onto it is DashMap::insert INCLUDING the silent overwrite), tget, tlookup,
   routes / rget (IpTable, /32 entries, looked up by the LOCAL address), lres, zmem, remove1.

   Values: addresses, ports, sequence numbers are Z; flags is the control byte (FIN 1, SYN 2, RST 4,
   PSH 8, ACK 16); applications are Z identifiers of TypeIds; TCP_TID is Tcp's own TypeId as it appears as
   upstream in Ipv4.listen_bindings.  Header bytes and checksums are not modelled (C08/C18); a segment is
   a record.  No ARP (Ipv4::listen's call into Arp is skipped; the scenarios have none).

   The model follows the code after the repairs b7a73ede (Tcp::demux looks the listen bindings up with
   `get`; before, it called `entry` for (0.0.0.0, port) while the vacant entry of the exact key still held
   the shard's write lock, and blocked on its own lock when both keys shared a DashMap shard) and ba8dc528
   (segment_arrives_closed acknowledges SEG.SEQ + SEG.LEN with SYN and FIN counted; before, the text length
   only).  The earlier behaviour is kept as `closed_reply_orig` / `tcp_demux_orig collide` (collide = "the
   destination endpoint and (0.0.0.0, port) share a shard", always true for the address 0.0.0.0 itself) for
   the two `_orig_refuted` theorems. *)
From Elvis Require Import Model.Base Model.Demux.
Local Open Scope Z_scope.

Definition TCP_PROTO : Z := 6.              (* ProtocolNumber::TCP *)
Definition TCP_TID : Z := -2.               (* TypeId::of::<Tcp>() *)

Definition pair := (key * key)%type.        (* Endpoints { local, remote } *)
Definition pair_eqb (a b : pair) : bool := key_eqb (fst a) (fst b) && key_eqb (snd a) (snd b).
Definition stbl := list (pair * Z).         (* Tcp.sessions: Endpoints -> session; we keep the upstream application *)

Fixpoint sget (t : stbl) (p : pair) : option Z :=
  match t with
  | [] => None
  | (p', v) :: r => if pair_eqb p' p then Some v else sget r p
  end.

Record seg := mkSeg { s_src : key; s_dst : key; s_flags : Z; s_seq : Z; s_ack : Z; s_tlen : Z }.

Definition f_fin (s : seg) : bool := Z.testbit (s_flags s) 0.
Definition f_syn (s : seg) : bool := Z.testbit (s_flags s) 1.
Definition f_rst (s : seg) : bool := Z.testbit (s_flags s) 2.
Definition f_ack (s : seg) : bool := Z.testbit (s_flags s) 4.
Definition FL_RST : Z := 4.
Definition FL_RST_ACK : Z := 20.

Definition wrap32 (x : Z) : Z := x mod 4294967296.

Record tstate := mkT {
  t_ip : tbl;             (* Ipv4.listen_bindings *)
  t_listen : tbl;         (* Tcp.listen_bindings : Endpoint -> TypeId *)
  t_sess : stbl;          (* Tcp.sessions *)
  t_protos : list Z;      (* protocols present on the machine *)
  t_routes : routes       (* the machine's IpTable *)
}.

Definition set_ip (s : tstate) (t : tbl) : tstate := mkT t (t_listen s) (t_sess s) (t_protos s) (t_routes s).
Definition set_listen (s : tstate) (t : tbl) : tstate := mkT (t_ip s) t (t_sess s) (t_protos s) (t_routes s).
Definition set_sess (s : tstate) (t : stbl) : tstate := mkT (t_ip s) (t_listen s) t (t_protos s) (t_routes s).

(* ipv4.rs:163-176 (without ARP) *)
Definition ip_listen (t : tbl) (up a proto : Z) : lres * tbl :=
  match tget t (a, proto) with
  | Some u => if u =? up then (LOk, t) else (LIpExists, t)
  | None => (LOk, ((a, proto), up) :: t)
  end.

(* tcp.rs:88-101.  `insert` replaces whatever was bound: no Existing error is ever produced.
   result codes: 0 Ok, 2 ListenError::Ipv4 *)
Definition tcp_listen (s : tstate) (up : Z) (e : key) : Z * tstate :=
  let s1 := set_listen s ((e, up) :: t_listen s) in                       (* 94 *)
  let (r, ip') := ip_listen (t_ip s1) TCP_TID (fst e) TCP_PROTO in        (* 95-100 *)
  (match r with LOk => 0 | _ => 2 end, set_ip s1 ip').

(* tcp.rs:55-86.  result codes: 0 Ok, 1 OpenError::Existing, 2 Ipv4 listen Exists, 3 unknown recipient,
   99 panic (machine.get(upstream).unwrap(), line 77) *)
Definition tcp_open (s : tstate) (up : Z) (p : pair) : Z * tstate :=
  match sget (t_sess s) p with
  | Some _ => (1, s)                                                       (* 62 *)
  | None =>
      let (r, ip') := ip_listen (t_ip s) TCP_TID (fst (fst p)) TCP_PROTO in   (* ipv4.rs:110 *)
      match r with
      | LOk =>
          match rget (t_routes s) (fst (fst p)) with                       (* ipv4.rs:112, 121: by the LOCAL address *)
          | None => (3, set_ip s ip')                                      (* the IPv4 binding stays *)
          | Some _ =>
              if zmem up (t_protos s) then (0, set_sess (set_ip s ip') ((p, up) :: t_sess s))   (* 75-83 *)
              else (99, set_ip s ip')
          end
      | _ => (2, s)
      end
  end.

(* SEG.LEN of RFC 9293 3.4: text plus one for SYN plus one for FIN *)
Definition seg_len (sg : seg) : Z :=
  s_tlen sg + (if f_syn sg then 1 else 0) + (if f_fin sg then 1 else 0).

(* tcb.rs:804-830, called with text_len = segment.text.len() (tcp.rs:158-163); the function adds SYN and
   FIN itself (821-823): <SEQ=SEG.ACK><CTL=RST> or <SEQ=0><ACK=SEG.SEQ+SEG.LEN><CTL=RST,ACK>, RFC 9293 3.10.7.1 *)
Definition closed_reply (sg : seg) : option seg :=
  if f_rst sg then None                                                    (* 811-814 *)
  else if f_ack sg then Some (mkSeg (s_dst sg) (s_src sg) FL_RST (s_ack sg) 0 0)          (* 816-817 *)
  else Some (mkSeg (s_dst sg) (s_src sg) FL_RST_ACK 0 (wrap32 (s_seq sg + seg_len sg)) 0). (* 818-827 *)

(* before ba8dc528: SYN and FIN were not counted *)
Definition closed_reply_orig (sg : seg) : option seg :=
  if f_rst sg then None
  else if f_ack sg then Some (mkSeg (s_dst sg) (s_src sg) FL_RST (s_ack sg) 0 0)
  else Some (mkSeg (s_dst sg) (s_src sg) FL_RST_ACK 0 (wrap32 (s_seq sg + s_tlen sg)) 0).

(* tcb.rs:831-904 *)
Inductive lsres := LsIgnore | LsReply (r : seg) | LsCreate.
Definition listen_result (sg : seg) : lsres :=
  if f_rst sg then LsIgnore                                                (* 840-844 *)
  else if f_ack sg then LsReply (mkSeg (s_dst sg) (s_src sg) FL_RST (s_ack sg) 0 0)       (* 846-854 *)
  else if f_syn sg then LsCreate                                           (* 855-898 *)
  else LsIgnore.                                                           (* 899-903 *)

Inductive tdec :=
| DSession (up : Z)             (* tcp.rs:142: handed to the existing session *)
| DClosed (reply : option seg)  (* 153-164: no binding; the reply, then Err(MissingSession) *)
| DListenReply (reply : seg)    (* 181-185 *)
| DListenCreate (up : Z)        (* 186-198: a session for (local = destination, remote = source) is inserted *)
| DListenIgnore                 (* segment_arrives_listen returned None *)
| DMissingProto (up : Z)        (* 190-192: the binding names a protocol the machine lacks; nothing inserted *)
| DDeadlock                     (* only before b7a73ede: second `entry` on a shard this thread holds *)
| DIpDrop                       (* ipv4.rs:230-236: no IPv4 binding for the destination address *)
| DIpOther (up : Z).            (* the IPv4 binding names another upstream *)

Definition listen_branch (s : tstate) (sg : seg) (up : Z) : tdec * tstate :=
  match listen_result sg with
  | LsIgnore => (DListenIgnore, s)
  | LsReply r => (DListenReply r, s)
  | LsCreate =>
      if zmem up (t_protos s)
      then (DListenCreate up, set_sess s (((s_dst sg, s_src sg), up) :: t_sess s))
      else (DMissingProto up, s)
  end.

(* tcp.rs:106-204 after the header has been parsed.  `cr` = the closed-port reply function, `collide` = the
   lock collision of the code before b7a73ede (false for the code as it is: `get` takes read locks only) *)
Definition tcp_demux_gen (cr : seg -> option seg) (collide : bool) (s : tstate) (sg : seg) : tdec * tstate :=
  match sget (t_sess s) (s_dst sg, s_src sg) with                          (* 141 *)
  | Some up => (DSession up, s)                                            (* 142 *)
  | None =>
      match tget (t_listen s) (s_dst sg) with                              (* 147 *)
      | Some up => listen_branch s sg up                                   (* 148 *)
      | None =>
          if collide then (DDeadlock, s)
          else match tget (t_listen s) (ANY, snd (s_dst sg)) with          (* 150-154 *)
               | Some up => listen_branch s sg up                          (* 155 *)
               | None => (DClosed (cr sg), s)                              (* 156-169 *)
               end
      end
  end.

Definition tcp_demux : tstate -> seg -> tdec * tstate := tcp_demux_gen closed_reply false.
Definition tcp_demux_orig (collide : bool) : tstate -> seg -> tdec * tstate := tcp_demux_gen closed_reply_orig collide.

(* a TCP segment handed to the machine's tap: Ipv4::demux first *)
Definition arrive (s : tstate) (sg : seg) : tdec * tstate :=
  match tlookup (t_ip s) (fst (s_dst sg), TCP_PROTO) with
  | None => (DIpDrop, s)
  | Some up => if up =? TCP_TID then tcp_demux s sg else (DIpOther up, s)
  end.

Definition reply_of (d : tdec) : option seg :=
  match d with
  | DClosed r => r
  | DListenReply r => Some r
  | _ => None
  end.

(* ---------- scenario, trace, validator ---------- *)
Inductive step :=
| SListen (m : nat) (app : Z) (e : key)
| SOpen (m : nat) (app : Z) (p : pair)
| SSend
| SInject (m : nat) (to : Z) (sg : seg).

Inductive ev :=
| ELis (k : nat) (code : Z)                       (* script step k (a listen) returned code *)
| EOpn (k : nat) (code : Z)
| ESnd (k : nat)
| EInj (k : nat)                                  (* the harness handed step k's segment to send_pci *)
| EFrm (m : nat) (to : Z) (sg : seg)              (* link observer: machine m gave a frame to the link *)
| EArr (m : nat) (from : Z) (sg : seg)            (* the frame was handed to machine m's tap *)
| ENtf (m : nat) (app : Z) (p : pair)             (* NotifyType::NewConnection on an application *)
| EByt (m : nat) (app : Z) (p : pair).            (* bytes handed to an application *)

Definition seg_eqb (a b : seg) : bool :=
  key_eqb (s_src a) (s_src b) && key_eqb (s_dst a) (s_dst b) && (s_flags a =? s_flags b)
  && (s_seq a =? s_seq b) && (s_ack a =? s_ack b) && (s_tlen a =? s_tlen b).

Definition frame := (nat * Z * seg)%type.         (* (sending machine, link destination, segment) *)
Definition frame_eqb (a b : frame) : bool :=
  Nat.eqb (fst (fst a)) (fst (fst b)) && (snd (fst a) =? snd (fst b)) && seg_eqb (snd a) (snd b).

Record vstate := mkV {
  v_ms : list tstate;
  v_owed : list frame;      (* replies Tcp::demux handed to the IPv4 session, not yet seen on the link *)
  v_inj : list frame        (* injected segments not yet seen on the link *)
}.

Definition dummy_t : tstate := mkT [] [] [] [] [].

Fixpoint upd {A} (l : list A) (n : nat) (x : A) : list A :=
  match l, n with
  | [], _ => []
  | _ :: r, O => x :: r
  | y :: r, S n' => y :: upd r n' x
  end.

Definition link_to (to : Z) : Z := if to <? 0 then -3 else to.   (* send_pci(.., None) is logged as -3 *)

Definition vstep (script : list step) (st : vstate) (e : ev) : option vstate :=
  match e with
  | ELis k code =>
      match nth_error script k with
      | Some (SListen m app ep) =>
          let (c, s') := tcp_listen (nth m (v_ms st) dummy_t) app ep in
          if c =? code then Some (mkV (upd (v_ms st) m s') (v_owed st) (v_inj st)) else None
      | _ => None
      end
  | EOpn k code =>
      match nth_error script k with
      | Some (SOpen m app p) =>
          let (c, s') := tcp_open (nth m (v_ms st) dummy_t) app p in
          if c =? code then Some (mkV (upd (v_ms st) m s') (v_owed st) (v_inj st)) else None
      | _ => None
      end
  | ESnd k => match nth_error script k with Some SSend => Some st | _ => None end
  | EInj k =>
      match nth_error script k with
      | Some (SInject m to sg) => Some (mkV (v_ms st) (v_owed st) ((m, link_to to, sg) :: v_inj st))
      | _ => None
      end
  | EFrm m to sg =>
      match remove1 frame_eqb (m, to, sg) (v_inj st) with
      | Some inj' => Some (mkV (v_ms st) (v_owed st) inj')
      | None =>
          match sget (t_sess (nth m (v_ms st) dummy_t)) (s_src sg, s_dst sg) with
          | Some _ => Some st                                  (* traffic of a session: the TCB's business *)
          | None =>
              match remove1 frame_eqb (m, to, sg) (v_owed st) with
              | Some owed' => Some (mkV (v_ms st) owed' (v_inj st))
              | None => None
              end
          end
      end
  | EArr m from sg =>
      let (d, s') := arrive (nth m (v_ms st) dummy_t) sg in
      let owed' := match reply_of d with Some r => (m, from, r) :: v_owed st | None => v_owed st end in
      Some (mkV (upd (v_ms st) m s') owed' (v_inj st))
  | ENtf m app p | EByt m app p =>
      match sget (t_sess (nth m (v_ms st) dummy_t)) p with
      | Some up => if up =? app then Some st else None
      | None => None
      end
  end.

Fixpoint vrun (script : list step) (st : vstate) (tr : list ev) : option vstate :=
  match tr with
  | [] => Some st
  | e :: r => match vstep script st e with Some st' => vrun script st' r | None => None end
  end.

(* verdict: 0 accept; 1 an event contradicts the model; 2 a reply or an injected frame never appeared *)
Definition validate (script : list step) (ms : list tstate) (tr : list ev) : Z :=
  match vrun script (mkV ms [] []) tr with
  | None => 1
  | Some st => match v_owed st, v_inj st with [], [] => 0 | _, _ => 2 end
  end.
