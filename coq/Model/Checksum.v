(* The Internet checksum accumulator `Checksum` (utility.rs l.10-74) and the
   RFC 1071 reference notions it is compared against.

   The cargo feature `compute_checksum` is the parameter [on : bool] of every
   operation: with [false] all adders are no-ops and [as_u16] is constantly 0
   (utility.rs l.27-28, 54-55, 70-73). *)
From Elvis Require Import Model.Base Model.Bytes.
Local Open Scope Z_scope.

(* ---- the code ----------------------------------------------------------- *)

(* add_u16, feature on (l.22-25), literally:
     let (sum, carry) = self.0.overflowing_add(value);  self.0 = sum + carry as u16;
   the `+` is a checked u16 addition in the dev profile: a panic site.
   ChecksumFacts.add_u16_checked_ok shows it is unreachable and that the
   result is [add16]; the codec models use [add16] directly. *)
Definition add_u16_checked (acc v : Z) : result Z :=
  let t := acc + v in
  let sum := t mod 65536 in
  let carry := if 65536 <=? t then 1 else 0 in
  if 65536 <=? sum + carry then Panic 1824 else Ok (sum + carry).

(* end-around-carry addition of two 16-bit words *)
Definition add16 (acc v : Z) : Z :=
  let t := acc + v in if t <? 65536 then t else t - 65535.

Definition ck_u16 (on : bool) (acc v : Z) : Z :=           (* add_u16, l.22 / l.28 *)
  if on then add16 acc v else acc.
Definition ck_u8 (on : bool) (acc a b : Z) : Z :=          (* add_u8, l.31 *)
  ck_u16 on acc (of_be16 a b).
(* add_u32 (l.36) applied to the big-endian bytes of a u32 / of an Ipv4Address *)
Definition ck_u32 (on : bool) (acc v : Z) : Z :=
  ck_u8 on (ck_u8 on acc (v / 16777216 mod 256) (v / 65536 mod 256))
        (v / 256 mod 256) (v mod 256).

(* accumulate_remainder (l.45-49): pairs of bytes, an odd tail padded with 0 *)
Fixpoint rem_fold (acc : Z) (l : list Z) {struct l} : Z :=
  match l with
  | [] => acc
  | [a] => add16 acc (of_be16 a 0)
  | a :: b :: r => rem_fold (add16 acc (of_be16 a b)) r
  end.
Definition ck_rem (on : bool) (acc : Z) (l : list Z) : Z :=   (* l.45 / l.55 *)
  if on then rem_fold acc l else acc.

(* as_u16 (l.59-67 / l.71-73) *)
Definition as_u16 (on : bool) (acc : Z) : Z :=
  if on then (if acc =? 65535 then 65535 else bnot16 acc) else 0.

(* Comparison of the computed checksum with the header field.
   [fixed = false]: the code as it is (`actual != expected` is an error).
   [fixed = true]: the receive side after .cache/codecip/fix-cksum.patch, used
   by the IPv4 and TCP decoders only: a field of 0x0000 is also accepted when
   the computed value is 0xffff (both are the one's-complement zero; a
   conforming sender emits 0x0000 there). *)
Definition ck_match (fixed : bool) (actual expected : Z) : bool :=
  (actual =? expected) || (fixed && (actual =? 65535) && (expected =? 0)).

(* ---- RFC 1071 reference (independent of the code above) ------------------ *)

(* the 16-bit big-endian words of a byte string, odd tail padded with zero *)
Fixpoint words (l : list Z) {struct l} : list Z :=
  match l with
  | [] => []
  | [a] => [a * 256]
  | a :: b :: r => (a * 256 + b) :: words r
  end.
Definition zsum (l : list Z) : Z := fold_right Z.add 0 l.
(* plain integer sum of the words *)
Definition wsum (bs : list Z) : Z := zsum (words bs).
(* the same sum, byte by byte with alternating weights (hi = true: weight 256) *)
Fixpoint bsum (hi : bool) (l : list Z) : Z :=
  match l with
  | [] => 0
  | b :: r => (if hi then 256 * b else b) + bsum (negb hi) r
  end.

(* one's-complement sum of a list of words: fold of the end-around-carry add *)
Definition oc_sum (ws : list Z) : Z := fold_left add16 ws 0.
(* its closed form in terms of the integer sum s: 0 only for s = 0, otherwise
   the representative of s modulo 65535 in 1..65535 *)
Definition oc_norm (s : Z) : Z := if s =? 0 then 0 else (s - 1) mod 65535 + 1.
(* RFC 1071 4.1 C code: 32-bit accumulation, then fold the carries twice *)
Definition fold32 (s : Z) : Z :=
  let s1 := s mod 65536 + s / 65536 in s1 mod 65536 + s1 / 65536.

(* RFC 1071 (3): "To check a checksum, the 1's complement sum is computed over
   the same set of octets, including the checksum field.  If the result is all
   1 bits, the check succeeds." *)
Definition rfc1071_verifies (bs : list Z) : bool := oc_sum (words bs) =? 65535.
(* RFC 1071 (2): the checksum a conforming sender stores: the complement of
   the one's-complement sum over the octets with a zero checksum field *)
Definition rfc1071_checksum (bs : list Z) : Z := 65535 - oc_sum (words bs).

(* IPv4 pseudo header of UDP / TCP (RFC 768, RFC 9293 3.1): 12 bytes *)
Definition pseudo (sa da proto len : Z) : list Z :=
  be32 sa ++ be32 da ++ [0; proto] ++ be16 len.

(* ---- bit corruption ------------------------------------------------------ *)
(* flip bit j (0 = least significant) of byte i of a byte string *)
Definition flip_bit (b j : Z) : Z := Z.lxor b (2 ^ j).
Fixpoint flip_at (bs : list Z) (i : nat) (j : Z) : list Z :=
  match bs, i with
  | [], _ => []
  | b :: r, O => flip_bit b j :: r
  | b :: r, S i' => b :: flip_at r i' j
  end.
(* position of bit j of byte i inside its 16-bit word (0 = least significant):
   j + 8 in the high (even-indexed) byte; its weight in the word sum *)
Definition bit_exp (i : nat) (j : Z) : Z := if Nat.even i then j + 8 else j.
Definition bit_weight (i : nat) (j : Z) : Z := 2 ^ bit_exp i j.
(* signed change of the word sum caused by the flip: +w when the bit was 0 *)
Definition flip_delta (bs : list Z) (i : nat) (j : Z) : Z :=
  if Z.testbit (nth i bs 0) j then - bit_weight i j else bit_weight i j.

(* any sequence of add_u16 calls through the checked code (used by the C14 statement that the
   adder's panic site is unreachable whatever 16-bit words are fed to it) *)
Fixpoint add_all_checked (acc : Z) (vs : list Z) : result Z :=
  match vs with
  | [] => Ok acc
  | v :: r => do a <- add_u16_checked acc v; add_all_checked a r
  end.
