(* Transcription of sim/elvis-core/src/protocols/arp/subnetting.rs (Ipv4Mask, Ipv4Net,
   TryFrom<RangeInclusive<Ipv4Address>>, cidr_to_ip) and of the u32 view of
   sim/elvis-core/src/protocols/ipv4/ipv4_address.rs.

   Conventions
   * a u32 is an [N] below 2^32; every arithmetic operator that the dev profile checks is a
     function into [result] with an explicit [Panic site].
   * an Ipv4Address is modelled by its u32 value (ipv4_address.rs:47-63: From<u32> is
     to_be_bytes, From<Ipv4Address> for u32 is from_be_bytes, the derived Ord on [u8;4]
     (ipv4_address.rs:4) is lexicographic).  [to_be_bytes], [from_be_bytes], [lex_compare]
     below are that view; SubnetFacts proves they are inverse and that the derived order is
     the numeric order, which licenses the identification.
   * a &str is the list of its UTF-8 bytes (each an [N] below 256).  '/' '.' '+' '-' and the
     digits are ASCII, so splitting/recognising them on bytes is what Rust does on chars.
   No proofs in this file. *)
From Coq Require Import NArith.
From Elvis Require Import Model.Base.
Local Open Scope N_scope.

Definition two32 : N := 4294967296.
Definition max32 : N := 4294967295.

(* ---- panic sites (file:line of the Rust operator) *)
Definition site_clamp_assert : Z := 1%Z.   (* subnetting.rs:33  assert!(min <= max) *)
Definition site_shl_one      : Z := 2%Z.   (* subnetting.rs:77  1 << size *)
Definition site_sub_one      : Z := 3%Z.   (* subnetting.rs:77  (1 << size) - 1 *)
Definition site_sub_32       : Z := 4%Z.   (* subnetting.rs:77  32 - size *)
Definition site_shl_mask     : Z := 5%Z.   (* subnetting.rs:77  (..) << (32 - size) *)
Definition site_bcast_add    : Z := 6%Z.   (* subnetting.rs:273 id + !mask *)
Definition site_range_sub    : Z := 7%Z.   (* subnetting.rs:325 end - start *)
Definition site_remove_cidr  : Z := 8%Z.   (* ip_table.rs:63    .expect(..) *)

(* ---- error values *)
Definition err_mask_invalid : Z := 1%Z.    (* Ipv4Mask::try_from -> Err(mask) *)
Definition err_range_empty  : Z := 1%Z.    (* TryFromRangeError::Empty *)
Definition err_range_size   : Z := 2%Z.    (* TryFromRangeError::Size *)
Definition err_range_start  : Z := 3%Z.    (* TryFromRangeError::Start *)
Definition err_cidr_ipv4    : Z := 1%Z.    (* CidrParseError::Ipv4 *)
Definition err_cidr_empty   : Z := 2%Z.    (* CidrParseError::Mask(IntErrorKind::Empty) *)
Definition err_cidr_digit   : Z := 3%Z.    (* CidrParseError::Mask(IntErrorKind::InvalidDigit) *)
Definition err_cidr_overflow: Z := 4%Z.    (* CidrParseError::Mask(IntErrorKind::PosOverflow) *)

(* ---- u32 operators of the dev profile *)
(* x << s : panics when s >= 32, otherwise drops the bits shifted out *)
Definition shl32 (site : Z) (x s : N) : result N :=
  if 32 <=? s then Panic site else Ok (N.shiftl x s mod two32).
Definition sub32 (site : Z) (a b : N) : result N :=
  if a <? b then Panic site else Ok (a - b).
Definition add32 (site : Z) (a b : N) : result N :=
  if two32 <=? a + b then Panic site else Ok (a + b).
(* !x on u32 *)
Definition not32 (x : N) : N := N.lnot x 32.

(* u32::count_ones *)
Fixpoint pos_popcount (p : positive) : N :=
  match p with
  | xH => 1
  | xO q => pos_popcount q
  | xI q => N.succ (pos_popcount q)
  end.
Definition popcount (n : N) : N :=
  match n with N0 => 0 | Npos p => pos_popcount p end.

(* ---- ipv4_address.rs, byte view *)
Definition to_be_bytes (a : N) : list N :=
  [a / 16777216; (a / 65536) mod 256; (a / 256) mod 256; a mod 256].
Definition from_be_bytes (b : list N) : N :=
  match b with
  | [b0; b1; b2; b3] => ((b0 * 256 + b1) * 256 + b2) * 256 + b3
  | _ => 0
  end.
Fixpoint lex_compare (x y : list N) : comparison :=
  match x, y with
  | [], [] => Eq
  | [], _ => Lt
  | _, [] => Gt
  | a :: x', b :: y' => match a ?= b with Eq => lex_compare x' y' | c => c end
  end.

(* ---- Ipv4Mask *)
(* subnetting.rs:32-41 *)
Definition clamp (num mn mx : N) : result N :=
  if mx <? mn then Panic site_clamp_assert            (* :33 *)
  else if num <? mn then Ok mn                        (* :34 *)
  else if mx <? num then Ok mx                        (* :36 *)
  else Ok num.

(* subnetting.rs:72-78, after the clamp *)
Definition from_bitcount_body (size : N) : result N :=
  if size =? 0 then Ok 0                              (* :72 *)
  else if size =? 32 then Ok max32                    (* :74 *)
  else
    do a <- shl32 site_shl_one 1 size;                (* :77 1 << size *)
    do b <- sub32 site_sub_one a 1;                   (*     .. - 1 *)
    do c <- sub32 site_sub_32 32 size;                (*     32 - size *)
    shl32 site_shl_mask b c.                          (*     .. << .. *)

(* subnetting.rs:70 Ipv4Mask::from_bitcount *)
Definition from_bitcount (size : N) : result N :=
  do s <- clamp size 0 32;                            (* :71 *)
  from_bitcount_body s.

(* subnetting.rs:162-170 TryFrom<u32> for Ipv4Mask *)
Definition mask_try_from (m : N) : result N :=
  let count := popcount m in                          (* :163 *)
  do r <- from_bitcount count;                        (* :164 *)
  if r =? m then Ok r else Err err_mask_invalid.      (* :165-169 *)

(* subnetting.rs:117 ips_in_net (u64, cannot overflow) ; :135 usable_ips *)
Definition ips_in_net (m : N) : N := not32 m + 1.
Definition usable_ips (m : N) : N :=
  let w := not32 m in
  if (w =? 0) || (w =? 1) then 0 else w - 1.

(* ---- Ipv4Net *)
Record net : Type := mkNet { net_id : N; net_mask : N }.

Definition net_eqb (a b : net) : bool :=
  (net_id a =? net_id b) && (net_mask a =? net_mask b).

(* subnetting.rs:202 Ipv4Net::new *)
Definition net_new (ip mask : N) : net := mkNet (N.land ip mask) mask.
(* subnetting.rs:222 new_short *)
Definition net_new_short (ip len : N) : result net :=
  do m <- from_bitcount len; Ok (net_new ip m).
(* subnetting.rs:227 new_1 : the id is NOT masked (mask is all ones) *)
Definition net_new_1 (ip : N) : result net :=
  do m <- from_bitcount 32; Ok (mkNet ip m).
(* subnetting.rs:196 LOOPBACK = 127.0.0.0 / from_bitcount(8) *)
Definition net_loopback : result net :=
  do m <- from_bitcount 8; Ok (mkNet 2130706432 m).

(* subnetting.rs:271-275 *)
Definition broadcast (n : net) : result N :=
  add32 site_bcast_add (net_id n) (not32 (net_mask n)).

(* subnetting.rs:283 range = id ..= broadcast *)
Definition net_range (n : net) : result (N * N) :=
  do b <- broadcast n; Ok (net_id n, b).

(* subnetting.rs:288-290 *)
Definition contains (n : net) (a : N) : bool :=
  net_id n =? N.land a (net_mask n).

(* subnetting.rs:293-295  self.id() <= other.broadcast() && self.broadcast() >= other.id()
   (other.broadcast() is evaluated first; && short-circuits) *)
Definition overlaps (self other : net) : result bool :=
  do bo <- broadcast other;
  if net_id self <=? bo then
    do bs <- broadcast self; Ok (net_id other <=? bs)
  else Ok false.

(* subnetting.rs:319-333 TryFrom<RangeInclusive<Ipv4Address>> *)
Definition try_from_range (lo hi : N) : result net :=
  if hi <? lo then Err err_range_empty                           (* :320 is_empty = !(start <= end) *)
  else
    do d <- sub32 site_range_sub hi lo;                          (* :325 *)
    let mask := not32 d in
    match mask_try_from mask with                                (* :326 .or(Err(Size))? *)
    | Ok m =>
        let result := net_new lo m in                            (* :327 *)
        do r <- net_range result;                                (* :328 *)
        if (fst r =? lo) && (snd r =? hi) then Ok result
        else Err err_range_start                                 (* :331 *)
    | Err _ => Err err_range_size
    | Panic s => Panic s
    | OutOfFuel => OutOfFuel
    end.

(* ---- cidr_to_ip (subnetting.rs:402-414) *)
Definition ch_slash : N := 47.
Definition ch_dot : N := 46.
Definition ch_plus : N := 43.
Definition ch_minus : N := 45.
Definition ch_zero : N := 48.
Definition is_digit (c : N) : bool := (48 <=? c) && (c <=? 57).
Definition digit_val (c : N) : N := c - 48.

(* one step of str::split('/') : the part before the first '/', and what follows it
   (None when there is no '/') *)
Fixpoint split_slash (s : list N) : list N * option (list N) :=
  match s with
  | [] => ([], None)
  | c :: r =>
      if c =? ch_slash then ([], Some r)
      else let (a, b) := split_slash r in (c :: a, b)
  end.

(* MODELLED std: core::net::parser read_number(10, Some(3), false) reads the maximal run of
   digits; fails on no digit, more than 3 digits, a leading zero followed by more digits,
   or a value above 255. *)
Fixpoint span_digits (s : list N) : list N * list N :=
  match s with
  | [] => ([], [])
  | c :: r =>
      if is_digit c then let (d, t) := span_digits r in (c :: d, t)
      else ([], s)
  end.
Definition dec_value (ds : list N) : N :=
  fold_left (fun acc c => acc * 10 + digit_val c) ds 0.
Definition octet_of_digits (ds : list N) : option N :=
  match ds with
  | [] => None
  | c :: r =>
      if (3 <? length ds)%nat then None
      else if (c =? ch_zero) && negb (length r =? 0)%nat then None
      else let v := dec_value ds in if 255 <? v then None else Some v
  end.
Definition read_octet (s : list N) : option (N * list N) :=
  let (ds, rest) := span_digits s in
  match octet_of_digits ds with Some v => Some (v, rest) | None => None end.
Definition expect_dot (s : list N) : option (list N) :=
  match s with c :: r => if c =? ch_dot then Some r else None | [] => None end.

(* MODELLED std: Ipv4Addr::from_str = four octets separated by '.', whole input consumed;
   the result is the u32 of the octets (octets().into() then to_u32 = from_be_bytes) *)
Definition parse_ipv4 (s : list N) : option N :=
  match read_octet s with None => None | Some (o1, s1) =>
  match expect_dot s1 with None => None | Some s1' =>
  match read_octet s1' with None => None | Some (o2, s2) =>
  match expect_dot s2 with None => None | Some s2' =>
  match read_octet s2' with None => None | Some (o3, s3) =>
  match expect_dot s3 with None => None | Some s3' =>
  match read_octet s3' with None => None | Some (o4, s4) =>
  match s4 with
  | [] => Some (from_be_bytes [o1; o2; o3; o4])
  | _ => None
  end end end end end end end end.

(* MODELLED std: u32::from_str = from_str_radix(s, 10): optional '+', one or more digits,
   overflow detected digit by digit (invalid digit is reported before that digit's overflow) *)
Fixpoint parse_digits (ds : list N) (acc : N) : result N :=
  match ds with
  | [] => Ok acc
  | c :: r =>
      if negb (is_digit c) then Err err_cidr_digit
      else
        let m := acc * 10 in
        if max32 <? m then Err err_cidr_overflow
        else
          let a := m + digit_val c in
          if max32 <? a then Err err_cidr_overflow
          else parse_digits r a
  end.
Definition parse_u32 (s : list N) : result N :=
  match s with
  | [] => Err err_cidr_empty
  | c :: r =>
      match r with
      | [] => if (c =? ch_plus) || (c =? ch_minus) then Err err_cidr_digit
              else parse_digits s 0
      | _ => if c =? ch_plus then parse_digits r 0 else parse_digits s 0
      end
  end.

Definition cidr_to_ip (s : list N) : result (N * N) :=
  let (ip_str, rest) := split_slash s in                  (* :403-405 first part always exists *)
  match rest with
  | None => Err err_cidr_ipv4                             (* :406 no second part *)
  | Some r =>
      let (mask_str, _) := split_slash r in               (* further parts are never looked at *)
      match parse_ipv4 ip_str with                        (* :408-411 *)
      | None => Err err_cidr_ipv4
      | Some ip =>
          do n <- parse_u32 mask_str;                     (* :412 u32::from_str(mask_str)? *)
          do m <- from_bitcount n;
          Ok (ip, m)
      end
  end.

(* subnetting.rs:240 Ipv4Net::from_cidr *)
Definition from_cidr (s : list N) : result net :=
  do p <- cidr_to_ip s; Ok (net_new (fst p) (snd p)).

(* canonical text of a.b.c.d/len, used to STATE what a CIDR text denotes *)
Fixpoint render_aux (fuel : nat) (n : N) (acc : list N) : list N :=
  match fuel with
  | O => acc
  | S f =>
      let acc' := (48 + n mod 10) :: acc in
      if n <? 10 then acc' else render_aux f (n / 10) acc'
  end.
Definition render_dec (n : N) : list N := render_aux 10 n [].
Definition render_cidr (o1 o2 o3 o4 len : N) : list N :=
  render_dec o1 ++ [ch_dot] ++ render_dec o2 ++ [ch_dot] ++ render_dec o3 ++ [ch_dot]
  ++ render_dec o4 ++ [ch_slash] ++ render_dec len.
