(* Transcription of sim/elvis-core/src/ip_table.rs.
   IpTable<T> { table: BTreeMap<Obm, T> } is modelled by the association list of the map's
   entries in iteration order, i.e. sorted by the code's comparator [Obm::cmp]
   (ip_table.rs:186-198).  BTreeMap::insert / remove / iter are modelled by sorted-list
   insertion / deletion / the list itself (std's BTreeMap is trusted to implement an ordered
   map for a lawful Ord; SubnetFacts/IpTableFacts prove that Obm's Ord is lawful).
   No proofs in this file. *)
From Coq Require Import NArith.
From Elvis Require Import Model.Base Model.Subnet.
Local Open Scope N_scope.

(* ip_table.rs:187-197 : masks compared as u32 (derived Ord of Ipv4Mask(u32)), reversed;
   ties broken by the id (derived Ord of Ipv4Address = numeric order of the u32) *)
Definition obm_cmp (a b : net) : comparison :=
  match net_mask a ?= net_mask b with
  | Eq => net_id a ?= net_id b                 (* :190-193 *)
  | Lt => Gt                                   (* :195 other_ord.reverse() *)
  | Gt => Lt
  end.

Section Table.
  Context {V : Type}.

  Definition table : Type := list (net * V).

  (* ip_table.rs:22 *)
  Definition tbl_new : table := [].

  (* BTreeMap::insert(Obm(key), value) : returns the old value, keeps the map ordered *)
  Fixpoint tbl_insert (k : net) (v : V) (t : table) : option V * table :=
    match t with
    | [] => (None, [(k, v)])
    | (k', v') :: r =>
        match obm_cmp k k' with
        | Lt => (None, (k, v) :: t)
        | Eq => (Some v', (k', v) :: r)
        | Gt => let (o, r') := tbl_insert k v r in (o, (k', v') :: r')
        end
    end.

  (* BTreeMap::remove(&Obm(key)) *)
  Fixpoint tbl_delete (k : net) (t : table) : option V * table :=
    match t with
    | [] => (None, [])
    | (k', v') :: r =>
        match obm_cmp k k' with
        | Lt => (None, t)
        | Eq => (Some v', r)
        | Gt => let (o, r') := tbl_delete k r in (o, (k', v') :: r')
        end
    end.

  (* ip_table.rs:40-47 : iterate in map order, first containing network wins *)
  Fixpoint get_recipient (t : table) (a : N) : option V :=
    match t with
    | [] => None
    | (n, v) :: r => if contains n a then Some v else get_recipient r a
    end.

  (* ip_table.rs:89 iter() is the list itself *)
  Definition tbl_iter (t : table) : list (net * V) := t.

  (* the public mutators; the second component is what the call returns to its caller *)
  Inductive op : Type :=
  | OAdd (n : net) (v : V)            (* :71 add *)
  | ORemove (n : net)                 (* :50 remove *)
  | OAddDirect (a : N) (v : V)        (* :77 add_direct *)
  | ORemoveDirect (a : N)             (* :56 remove_direct *)
  | OAddCidr (s : list N) (v : V)     (* :83 add_cidr *)
  | ORemoveCidr (s : list N).         (* :62 remove_cidr *)

  Definition step_obs (t : table) (o : op) : result (table * option V) :=
    match o with
    | OAdd n v => let (old, t') := tbl_insert n v t in Ok (t', old)
    | ORemove n => let (old, t') := tbl_delete n t in Ok (t', old)
    | OAddDirect a v =>
        do m <- from_bitcount 32;                          (* :78 *)
        let (_, t') := tbl_insert (net_new a m) v t in Ok (t', None)
    | ORemoveDirect a =>
        do m <- from_bitcount 32;                          (* :57 *)
        let (old, t') := tbl_delete (net_new a m) t in Ok (t', old)
    | OAddCidr s v =>
        match from_cidr s with                             (* :84 if let Ok(key) *)
        | Ok key => let (_, t') := tbl_insert key v t in Ok (t', None)
        | Err _ => Ok (t, None)
        | Panic p => Panic p
        | OutOfFuel => OutOfFuel
        end
    | ORemoveCidr s =>
        match from_cidr s with                             (* :63 .expect(..) *)
        | Ok key => let (_, t') := tbl_delete key t in Ok (t', None)
        | Err _ => Panic site_remove_cidr
        | Panic p => Panic p
        | OutOfFuel => OutOfFuel
        end
    end.

  Definition step (t : table) (o : op) : result table :=
    do r <- step_obs t o; Ok (fst r).

  Fixpoint run (ops : list op) (t : table) : result table :=
    match ops with
    | [] => Ok t
    | o :: r => do t' <- step t o; run r t'
    end.

  (* ip_table.rs:30 default_gateway *)
  Definition default_gateway (v : V) : result table :=
    match from_cidr [48;46;48;46;48;46;48;47;48] with      (* "0.0.0.0/0" .unwrap() *)
    | Ok n => Ok (snd (tbl_insert n v tbl_new))
    | Err _ => Panic 9%Z
    | Panic p => Panic p
    | OutOfFuel => OutOfFuel
    end.
End Table.

Arguments table V : clear implicits.
Arguments op V : clear implicits.
