(* Transcription of sim/elvis/src/applications/arp_router.rs (ArpRouter::demux and the task it
   spawns) together with the decisions of the surrounding stack that determine where a frame
   goes next:
     - protocols/ipv4.rs:192-257       Ipv4::demux (listen binding of the destination / wildcard)
     - protocols/arp.rs:168-224        Arp::resolve (subnet test on the sending host, who answers)
     - protocols/arp.rs:106            a machine answers for ANY of its local IPs on any tap
     - protocols/pci/pci_session.rs:88 send_pci (MTU test)
     - protocols/ipv4/ipv4_parsing.rs:126-139 Ipv4Header::serialize
   The longest-prefix lookup is Model/IpTable.v (kit C09), imported unchanged.

   What is NOT in this model (validated by traces only): the ARP exchange itself (request,
   reply, retries, the cache keyed by IP only), tokio::spawn per packet (relative order of
   different datagrams), timing.  ARP appears as the function "who owns this IP on that
   network" ([owner]), i.e. as the topology.

   u8/u16/u32 values are [N]; a dev-profile panic is a [Panic site] value.
   No proofs in this file. *)
From Coq Require Import NArith List.
From Elvis Require Import Model.Base Model.Subnet Model.IpTable.
Local Open Scope N_scope.

(* ---- panic sites *)
Definition site_ttl_sub      : Z := 1601%Z.  (* arp_router.rs:84   time_to_live -= 1 on 0u8 *)
Definition site_ser_sub      : Z := 1602%Z.  (* ipv4_parsing.rs:129 total_length - BASE_OCTETS *)
Definition site_local_index  : Z := 1603%Z.  (* arp_router.rs:106  self.local_ips[slot] *)
Definition site_pci_open     : Z := 1604%Z.  (* arp.rs:207-210 / arp_router.rs:115 -> pci.rs:45 unwrap *)
Definition site_send_expect  : Z := 1605%Z.  (* arp_router.rs:118  .expect("failed to send") *)
(* ---- error values (DemuxError::Other) *)
Definition err_serialize : Z := 1%Z.          (* arp_router.rs:89 *)
Definition err_no_route  : Z := 2%Z.          (* arp_router.rs:94 *)

(* ---- an IPv4 datagram as ArpRouter sees it: the parsed header (ihl = 5 and version = 4 are
   forced by Ipv4Header::from_bytes) and the bytes behind the header *)
Record pkt : Type := mkPkt {
  p_ttl : N; p_src : N; p_dst : N;
  p_tos : N; p_totlen : N; p_ident : N; p_flags : N; p_frag : N; p_proto : N;
  p_body : list N }.

Definition set_ttl (p : pkt) (t : N) : pkt :=
  mkPkt t (p_src p) (p_dst p) (p_tos p) (p_totlen p) (p_ident p) (p_flags p) (p_frag p)
        (p_proto p) (p_body p).

Definition list_eqb (a b : list N) : bool :=
  (length a =? length b)%nat && forallb (fun xy => fst xy =? snd xy) (combine a b).

Definition pkt_eqb (a b : pkt) : bool :=
  (p_ttl a =? p_ttl b) && (p_src a =? p_src b) && (p_dst a =? p_dst b) &&
  (p_tos a =? p_tos b) && (p_totlen a =? p_totlen b) && (p_ident a =? p_ident b) &&
  (p_flags a =? p_flags b) && (p_frag a =? p_frag b) && (p_proto a =? p_proto b) &&
  list_eqb (p_body a) (p_body b).

(* bytes on the wire: 20 header bytes + body (message.header(..) at arp_router.rs:89 /
   ipv4_session.rs:97) *)
Definition wire_len (p : pkt) : N := 20 + N.of_nat (length (p_body p)).

Definition nthN {A} (l : list A) (i : N) : option A := nth_error l (N.to_nat i).
Definition lenN {A} (l : list A) : N := N.of_nat (length l).

(* ---- the router *)
Definition route : Type := (option N * N)%type.       (* (Option<Ipv4Address>, PciSlot) *)
Record router : Type := mkRouter {
  r_table : table route;        (* ArpRouter.ip_table *)
  r_local_ips : list N;         (* ArpRouter.local_ips *)
  r_mtus : list N }.            (* one entry per Pci session of the machine: that network's MTU *)

(* ipv4_parsing.rs:126-139 + build(): only the arithmetic that can fail; every field is kept *)
Definition reserialize (p : pkt) : result pkt :=
  if p_totlen p <? 20 then Panic site_ser_sub                 (* :129 *)
  else if 8191 <? p_frag p then Err err_serialize             (* :250 *)
  else Ok p.

Inductive action : Type :=
| ADrop                                   (* arp_router.rs:85-87 *)
| AForward (slot nh : N) (p : pkt).       (* hand to the spawned task: resolve nh on slot, send p *)

(* arp_router.rs:76-108, and the Pci::open inside Arp::resolve that the task runs first *)
Definition route_step (r : router) (p : pkt) : result action :=
  if p_ttl p =? 0 then Panic site_ttl_sub                     (* :84 *)
  else
    let t := p_ttl p - 1 in
    if t =? 0 then Ok ADrop                                   (* :85-87 *)
    else
      do p' <- reserialize (set_ttl p t);                     (* :89 *)
      match get_recipient (r_table r) (p_dst p') with         (* :91-94 *)
      | None => Err err_no_route
      | Some (gw, slot) =>
          let nh := match gw with Some a => a | None => p_dst p' end in   (* :96-100 *)
          if lenN (r_local_ips r) <=? slot then Panic site_local_index    (* :106 *)
          else if lenN (r_mtus r) <=? slot then Panic site_pci_open       (* arp.rs:207 *)
          else Ok (AForward slot nh p')
      end.

(* arp_router.rs:114-119 when resolve returned Ok(mac) *)
Definition send_step (r : router) (slot : N) (p : pkt) : result pkt :=
  match nthN (r_mtus r) slot with
  | None => Panic site_pci_open                               (* :115 *)
  | Some mtu => if mtu <? wire_len p then Panic site_send_expect else Ok p   (* :116-118 *)
  end.

(* everything one router puts on its networks for one received datagram, given whether ARP
   resolves the next hop: at most one frame *)
Definition hop_out (r : router) (resolves : N -> N -> bool) (p : pkt) : list (N * N * pkt) :=
  match route_step r p with
  | Ok (AForward slot nh p') =>
      if resolves slot nh then
        match send_step r slot p' with Ok q => [(slot, nh, q)] | _ => [] end
      else []
  | _ => []
  end.

(* ---- nodes, topology, trajectories *)
Inductive node : Type := NRouter (i : N) | NHost (i : N).

Definition node_eqb (a b : node) : bool :=
  match a, b with
  | NRouter i, NRouter j => i =? j
  | NHost i, NHost j => i =? j
  | _, _ => false
  end.

(* one forwarded frame: which router sent it, through which slot, to which next-hop address,
   who received it, and the datagram *)
Record hopobs : Type := mkHop {
  ho_router : N; ho_slot : N; ho_nh : N; ho_to : node; ho_pkt : pkt }.

Inductive ending : Type :=
| EDelivered (h : N)          (* handed to the transport of host h (ipv4.rs:219 binding found) *)
| EHostDrop (h : N)           (* reached host h that has no binding for the destination (:235) *)
| ETtl (r : N)                (* arp_router.rs:85 *)
| ENoRoute (r : N)            (* arp_router.rs:94 / :89 *)
| ENoArp (r : N)              (* arp_router.rs:113 nobody answers for the next hop *)
| EPanic (r : N) (site : Z)
| EFuel.

Section Traj.
  Variable routers : N -> router.
  Variable accepts : N -> N -> bool.               (* host i has a listen binding for this destination *)
  (* hop number, router, slot, next-hop ip -> who gets the frame.  This is what ARP does; it may
     depend on the moment (the hop number) because the ARP cache changes while the simulation runs *)
  Variable topo : nat -> N -> N -> N -> option node.

  Fixpoint traj (fuel : nat) (k : nat) (at_ : node) (p : pkt) : list hopobs * ending :=
    match fuel with
    | O => ([], EFuel)
    | S f =>
        match at_ with
        | NHost h => if accepts h (p_dst p) then ([], EDelivered h) else ([], EHostDrop h)
        | NRouter r =>
            match route_step (routers r) p with
            | Panic s => ([], EPanic r s)
            | OutOfFuel => ([], EFuel)
            | Err _ => ([], ENoRoute r)
            | Ok ADrop => ([], ETtl r)
            | Ok (AForward slot nh p') =>
                match topo k r slot nh with
                | None => ([], ENoArp r)
                | Some n' =>
                    match send_step (routers r) slot p' with
                    | Ok q =>
                        let (l, e) := traj f (S k) n' q in
                        (mkHop r slot nh n' q :: l, e)
                    | Panic s => ([], EPanic r s)
                    | _ => ([], EFuel)
                    end
                end
            end
        end
    end.

  (* fuel = TTL (+1 for the final node) *)
  Definition trajectory (start : node) (p : pkt) : list hopobs * ending :=
    traj (S (N.to_nat (p_ttl p))) O start p.
End Traj.

(* ---- a concrete configuration (what the harness builds) *)
Record rcfg : Type := mkRcfg {
  rc_table : table route;
  rc_ips : list N;              (* local_ips, by slot *)
  rc_nets : list N }.           (* network index of each Pci slot *)
Record hcfg : Type := mkHcfg {
  hc_net : N; hc_ip : N;
  hc_mask : N; hc_gw : N;       (* SubnetInfo { mask, default_gateway } of the host's Arp *)
  hc_wild : bool }.             (* the application listens on 0.0.0.0 instead of the host's address *)
Record cfg : Type := mkCfg {
  c_mtus : list N;              (* per network *)
  c_routers : list rcfg;
  c_hosts : list hcfg }.

Definition net_mtu (c : cfg) (n : N) : N :=
  match nthN (c_mtus c) n with Some m => m | None => 65535 end.

Definition dummy_rcfg : rcfg := mkRcfg [] [] [].
Definition dummy_hcfg : hcfg := mkHcfg 0 0 0 0 false.

Definition cfg_rc (c : cfg) (r : N) : rcfg :=
  match nthN (c_routers c) r with Some x => x | None => dummy_rcfg end.
Definition cfg_router (c : cfg) (r : N) : router :=
  let x := cfg_rc c r in
  mkRouter (rc_table x) (rc_ips x) (map (net_mtu c) (rc_nets x)).
Definition cfg_hc (c : cfg) (h : N) : hcfg :=
  match nthN (c_hosts c) h with Some x => x | None => dummy_hcfg end.
Definition cfg_host_ip (c : cfg) (h : N) : N := hc_ip (cfg_hc c h).
(* ipv4.rs:219-229 / udp.rs:134-145: the exact binding, else the 0.0.0.0 binding (which takes ANY destination) *)
Definition cfg_accepts (c : cfg) (h dst : N) : bool :=
  hc_wild (cfg_hc c h) || (hc_ip (cfg_hc c h) =? dst).

Definition memN (x : N) (l : list N) : bool := existsb (N.eqb x) l.

(* who answers an ARP request for [ip] on network [net]: a machine attached to the network
   that has the address among its local IPs (arp.rs:106; a router answers for all of
   ArpRouter.local_ips on every tap, arp_router.rs:68-70) *)
Fixpoint find_router (rs : list rcfg) (i : N) (net ip : N) : option node :=
  match rs with
  | [] => None
  | x :: r =>
      if memN net (rc_nets x) && memN ip (rc_ips x) then Some (NRouter i)
      else find_router r (i + 1) net ip
  end.
Fixpoint find_host (hs : list hcfg) (i : N) (net ip : N) : option node :=
  match hs with
  | [] => None
  | x :: r =>
      if (hc_net x =? net) && (hc_ip x =? ip) then Some (NHost i)
      else find_host r (i + 1) net ip
  end.
Definition owner (c : cfg) (net ip : N) : option node :=
  match find_router (c_routers c) 0 net ip with
  | Some n => Some n
  | None => find_host (c_hosts c) 0 net ip
  end.

Definition cfg_topo (c : cfg) (r slot nh : N) : option node :=
  match nthN (rc_nets (cfg_rc c r)) slot with
  | Some net => owner c net nh
  | None => None
  end.

(* ARP as it should be: the same answer at every moment *)
Definition cfg_trajectory (c : cfg) (start : node) (p : pkt) : list hopobs * ending :=
  trajectory (cfg_router c) (cfg_accepts c) (fun _ => cfg_topo c) start p.

(* the sending host: arp.rs:192-198 (off-subnet traffic goes to the default gateway) *)
Definition host_next_hop (h : hcfg) (dst : N) : N :=
  if N.land (hc_ip h) (hc_mask h) =? N.land dst (hc_mask h) then dst else hc_gw h.

(* ---- observed traces and the validator *)
Record frame : Type := mkFrame {
  f_net : N; f_from : node; f_to : option node; f_pkt : pkt }.
(* delivery to the recording application of a host: addresses and the UDP payload *)
Record rx : Type := mkRx { x_host : N; x_src : N; x_dst : N; x_data : list N }.

(* one datagram of the scenario: sending host, destination, initial TTL, UDP payload *)
Record dgram : Type := mkDgram { d_src : N; d_dst : N; d_ttl : N; d_data : list N }.

Definition onode_eqb (a b : option node) : bool :=
  match a, b with
  | Some x, Some y => node_eqb x y
  | None, None => true
  | _, _ => false
  end.

Definition frame_eqb (a b : frame) : bool :=
  (f_net a =? f_net b) && node_eqb (f_from a) (f_from b) && onode_eqb (f_to a) (f_to b) &&
  pkt_eqb (f_pkt a) (f_pkt b).

Fixpoint frames_eqb (a b : list frame) : bool :=
  match a, b with
  | [], [] => true
  | x :: a', y :: b' => frame_eqb x y && frames_eqb a' b'
  | _, _ => false
  end.

Definition rx_eqb (a b : rx) : bool :=
  (x_host a =? x_host b) && (x_src a =? x_src b) && (x_dst a =? x_dst b) &&
  list_eqb (x_data a) (x_data b).

Definition hop_frame (c : cfg) (h : hopobs) : frame :=
  let net := match nthN (rc_nets (cfg_rc c (ho_router h))) (ho_slot h) with
             | Some n => n | None => 0 end in
  mkFrame net (NRouter (ho_router h)) (Some (ho_to h)) (ho_pkt h).

Fixpoint select {A} (k : N) (l : list (N * A)) : list A :=
  match l with
  | [] => []
  | (t, a) :: r => if t =? k then a :: select k r else select k r
  end.

(* the UDP payload behind the 8-byte UDP header *)
Definition udp_data (p : pkt) : list N := skipn 8 (p_body p).

(* ARP as it was: the k-th forwarded frame went where the trace says; where the trace has no
   further frame, ARP is expected to behave (a router may stay silent only if nobody owns the
   next hop) *)
Definition obs_topo (c : cfg) (rest : list frame) (k : nat) (r slot nh : N) : option node :=
  match nth_error rest k with
  | Some f => f_to f
  | None => cfg_topo c r slot nh
  end.

(* what the model expects for one datagram, given the first frame actually seen and the
   receivers of the following frames *)
Definition expect_rest (c : cfg) (f0 : frame) (rest : list frame) : list hopobs * ending :=
  match f_to f0 with
  | None => ([], EFuel)
  | Some n0 =>
      trajectory (cfg_router c) (cfg_accepts c) (obs_topo c rest) n0 (f_pkt f0)
  end.

(* did ARP hand every forwarded frame to the owner of the next-hop address on that network? *)
Definition ideal_hops (c : cfg) (hs : list hopobs) : bool :=
  forallb (fun h => onode_eqb (cfg_topo c (ho_router h) (ho_slot h) (ho_nh h)) (Some (ho_to h))) hs.

Definition check_first (c : cfg) (d : dgram) (f0 : frame) : bool :=
  let h := cfg_hc c (d_src d) in
  let p := f_pkt f0 in
  (f_net f0 =? hc_net h) && node_eqb (f_from f0) (NHost (d_src d)) &&
  onode_eqb (f_to f0) (owner c (hc_net h) (host_next_hop h (d_dst d))) &&
  (p_ttl p =? d_ttl d) && (p_src p =? hc_ip h) && (p_dst p =? d_dst d) &&
  (20 <=? p_totlen p) && (p_frag p <=? 8191) &&          (* guaranteed by Ipv4Header::from_bytes *)
  list_eqb (udp_data p) (d_data d).

Definition check_dgram (c : cfg) (d : dgram) (fs : list frame) (xs : list rx) : bool :=
  let h := cfg_hc c (d_src d) in
  match owner c (hc_net h) (host_next_hop h (d_dst d)) with
  | None =>                                   (* ipv4.rs:133-135 open fails, nothing is sent *)
      match fs, xs with [], [] => true | _, _ => false end
  | Some _ =>
      if net_mtu c (hc_net h) <? 28 + lenN (d_data d) then   (* pci_session.rs:94 on the host *)
        match fs, xs with [], [] => true | _, _ => false end
      else
      match fs with
      | [] => false
      | f0 :: rest =>
          check_first c d f0 &&
          let (exp, e) := expect_rest c f0 rest in
          frames_eqb rest (map (hop_frame c) exp) &&
          match e with
          | EDelivered j =>
              match xs with
              | [x] => rx_eqb x (mkRx j (p_src (f_pkt f0)) (p_dst (f_pkt f0)) (udp_data (f_pkt f0)))
              | _ => false
              end
          | EPanic _ _ => false                (* the process would have died *)
          | EFuel => false
          | _ => match xs with [] => true | _ => false end
          end
      end
  end.

Fixpoint check_all (c : cfg) (k : N) (ds : list dgram)
         (fr : list (N * frame)) (xs : list (N * rx)) : bool :=
  match ds with
  | [] => true
  | d :: r => check_dgram c d (select k fr) (select k xs) && check_all c (k + 1) r fr xs
  end.

(* every observed IPv4 frame and every delivery belongs to a datagram of the scenario,
   and each datagram's frames are exactly the model's trajectory: ACCEPT *)
Definition validate (c : cfg) (ds : list dgram)
           (fr : list (N * frame)) (xs : list (N * rx)) : bool :=
  forallb (fun tf => fst tf <? lenN ds) fr &&
  forallb (fun tx => fst tx <? lenN ds) xs &&
  check_all c 0 ds fr xs.

(* the same walk, reporting whether ARP behaved on every hop of every datagram *)
Definition dgram_ideal (c : cfg) (fs : list frame) : bool :=
  match fs with
  | [] => true
  | f0 :: rest => ideal_hops c (fst (expect_rest c f0 rest))
  end.
Fixpoint all_ideal (c : cfg) (k : N) (ds : list dgram) (fr : list (N * frame)) : bool :=
  match ds with
  | [] => true
  | _ :: r => dgram_ideal c (select k fr) && all_ideal c (k + 1) r fr
  end.

(* does the model predict that some datagram kills the process?  (used for runs that died:
   the trace is lost with the process).  The first frame is reconstructed from the scenario. *)
Definition first_pkt (c : cfg) (d : dgram) (body : list N) : pkt :=
  mkPkt (d_ttl d) (hc_ip (cfg_hc c (d_src d))) (d_dst d) 0 (20 + lenN body) 0 0 0 17 body.

Definition dgram_ending (c : cfg) (d : dgram) : option ending :=
  let h := cfg_hc c (d_src d) in
  match owner c (hc_net h) (host_next_hop h (d_dst d)) with
  | None => None
  | Some n0 =>
      let body := repeat 0 8 ++ d_data d in
      if net_mtu c (hc_net h) <? 28 + lenN (d_data d) then None
      else Some (snd (cfg_trajectory c n0 (first_pkt c d body)))
  end.

Definition is_epanic (e : option ending) : bool :=
  match e with Some (EPanic _ _) => true | _ => false end.

Definition predicts_panic (c : cfg) (ds : list dgram) : bool :=
  existsb (fun d => is_epanic (dgram_ending c d)) ds.
