(* Transcription of sim/elvis-core/src/protocols/tcp/tcb/modular_cmp.rs
   over Z with explicit reduction mod 2^32. *)
From Elvis Require Import Model.Base.
Local Open Scope Z_scope.

Definition M32 : Z := 4294967296.
Definition H31 : Z := 2147483648.

Definition u32 (x : Z) : Prop := 0 <= x < M32.
(* reduction mod 2^32; the three fast paths avoid a division when the model is
   run (extracted Z is a binary inductive); U32Facts.wrap_spec: wrap x = x mod M32 *)
Definition wrap (x : Z) : Z :=
  if (0 <=? x) && (x <? M32) then x
  else if (M32 <=? x) && (x <? 2 * M32) then x - M32
  else if (- M32 <=? x) && (x <? 0) then x + M32
  else x mod M32.
Definition wadd (a b : Z) : Z := wrap (a + b).   (* u32::wrapping_add *)
Definition wsub (a b : Z) : Z := wrap (a - b).   (* u32::wrapping_sub *)

(* a.wrapping_sub(b) > (1 << 31) *)
Definition mod_lt (a b : Z) : bool := H31 <? wsub a b.
(* after the fix commit: a == b || mod_lt(a, b).  The original
   mod_lt(a, b.wrapping_add(1)) is kept as mod_leq_orig: it is wrong exactly
   at distance 2^31-1 (see U32Facts.mod_leq_orig_differs). *)
Definition mod_leq (a b : Z) : bool := (a =? b) || mod_lt a b.
Definition mod_leq_orig (a b : Z) : bool := mod_lt a (wadd b 1).
Definition mod_gt (a b : Z) : bool := mod_lt b a.
Definition mod_geq (a b : Z) : bool := (a =? b) || mod_lt b a.
Definition mod_geq_orig (a b : Z) : bool := mod_lt (wsub b 1) a.

Inductive modcmp := CLt | CLeq.
Definition cmp_offset (c : modcmp) : Z := match c with CLt => 0 | CLeq => 1 end.

Definition mod_bounded (a : Z) (ab : modcmp) (b : Z) (bc : modcmp) (c : Z) : bool :=
  let a := wsub a (cmp_offset ab) in
  let c := wadd c (cmp_offset bc) in
  let j := (a <? b) && (b <? c) && (a <? c) in
  let k := (a <? b) && (c <? b) && (c <? a) in
  let l := (b <? a) && (b <? c) && (c <? a) in
  j || k || l.
