(* Model of sim/elvis-core/src/protocols/dhcp/dhcp_parsing.rs
   (MessageType::try_from l.16-35, DhcpMessage::from_bytes l.74-127,
    DhcpMessage::to_message l.130-162).

   [mt_try_from] / [dhcp_from_bytes] follow the code after the repair
   .cache/codecapp/fix-dhcp.patch (parse errors are propagated);
   [mt_try_from_orig] / [dhcp_from_bytes_orig] follow the code as it was,
   with its four panic sites. *)
From Elvis Require Import Model.Base Model.AppBytes.
Local Open Scope Z_scope.

(* enum MessageType { Discover = 1, Offer, Request, Decline, Ack, Nack, Release } (l.6-14) *)
Inductive dhcp_mt := Discover | Offer | MRequest | Decline | Ack | Nack | Release.
Definition mt_u8 (t : dhcp_mt) : Z :=                     (* `as u8`, l.153 *)
  match t with
  | Discover => 1 | Offer => 2 | MRequest => 3 | Decline => 4 | Ack => 5 | Nack => 6 | Release => 7
  end.

(* error codes: 1 = HeaderTooShort, 2 = InvalidDhcpType,
   3 = InvalidString (added by the repair) *)

Definition mt_of_small (b : Z) : option dhcp_mt :=
  if b =? 1 then Some Discover else if b =? 2 then Some Offer else if b =? 3 then Some MRequest
  else if b =? 4 then Some Decline else if b =? 5 then Some Ack else if b =? 6 then Some Nack
  else if b =? 7 then Some Release else None.

(* repaired try_from: match 1..=7 => Ok(..), _ => Err(InvalidDhcpType) *)
Definition mt_try_from (b : Z) : result dhcp_mt :=
  match mt_of_small b with Some t => Ok t | None => Err 2 end.

(* original try_from (l.19-34): if msg_type > 7 { Err } else { Ok(match .. _ => unreachable!()) }
   site 31 = unreachable!() (only byte 0 gets there) *)
Definition mt_try_from_orig (b : Z) : result dhcp_mt :=
  if 7 <? b then Err 2
  else match mt_of_small b with Some t => Ok t | None => Panic 31 end.

(* struct DhcpMessage (l.39-70); the two Strings are modelled by their bytes *)
Record dhcp := mkDhcp {
  h_op : Z; h_htype : Z; h_hlen : Z; h_hops : Z; h_xid : Z; h_secs : Z; h_flags : Z;
  h_cip : Z; h_yip : Z; h_sip : Z; h_rip : Z; h_chaddr : Z;
  h_sname : list Z; h_bfile : list Z; h_mt : dhcp_mt }.

(* `String::from_utf8(v).map_err(|_| InvalidString)?` *)
Definition str_from_utf8 (v : list Z) : result (list Z) :=
  if utf8_valid v then Ok v else Err 3.
(* `String::from_utf8(v).unwrap()` *)
Definition str_from_utf8_orig (site : Z) (v : list Z) : result (list Z) :=
  if utf8_valid v then Ok v else Panic site.

Definition dhcp_from_bytes (bs : list Z) : result (dhcp * list Z) :=
  do (op, bs) <- rd (next_u8 bs);                           (* l.76 *)
  do (htype, bs) <- rd (next_u8 bs);                        (* l.77 *)
  do (hlen, bs) <- rd (next_u8 bs);                         (* l.78 *)
  do (hops, bs) <- rd (next_u8 bs);                         (* l.79 *)
  do (xid, bs) <- rd (next_u32 bs);                         (* l.81 *)
  do (secs, bs) <- rd (next_u16 bs);                        (* l.83 *)
  do (flags, bs) <- rd (next_u8 bs);                        (* l.85 *)
  do (cip, bs) <- rd (next_ipv4 bs);                        (* l.87 *)
  do (yip, bs) <- rd (next_ipv4 bs);                        (* l.88 *)
  do (sip, bs) <- rd (next_ipv4 bs);                        (* l.89 *)
  do (rip, bs) <- rd (next_ipv4 bs);                        (* l.90 *)
  do (chaddr, bs) <- rd (next_u16 bs);                      (* l.92 *)
  do (mtb, bs) <- rd (next_u8 bs);                          (* l.93 *)
  do mt <- mt_try_from mtb;                                 (* l.93, `?` *)
  do (sname, bs) <- read_until 0 bs;                        (* l.94-99 *)
  do sname <- str_from_utf8 sname;                          (* l.100 *)
  do (bfile, bs) <- read_until 0 bs;                        (* l.102-107 *)
  do bfile <- str_from_utf8 bfile;                          (* l.108 *)
  Ok (mkDhcp op htype hlen hops xid secs flags cip yip sip rip chaddr sname bfile mt, bs).

(* the code as it was: .unwrap() on the three Results
   sites: 31 unreachable!(), 32 unwrap of Err(InvalidDhcpType),
          33 / 34 unwrap of from_utf8 for server_name / boot_file *)
Definition dhcp_from_bytes_orig (bs : list Z) : result (dhcp * list Z) :=
  do (op, bs) <- rd (next_u8 bs);
  do (htype, bs) <- rd (next_u8 bs);
  do (hlen, bs) <- rd (next_u8 bs);
  do (hops, bs) <- rd (next_u8 bs);
  do (xid, bs) <- rd (next_u32 bs);
  do (secs, bs) <- rd (next_u16 bs);
  do (flags, bs) <- rd (next_u8 bs);
  do (cip, bs) <- rd (next_ipv4 bs);
  do (yip, bs) <- rd (next_ipv4 bs);
  do (sip, bs) <- rd (next_ipv4 bs);
  do (rip, bs) <- rd (next_ipv4 bs);
  do (chaddr, bs) <- rd (next_u16 bs);
  do (mtb, bs) <- rd (next_u8 bs);
  do mt <- (match mt_try_from_orig mtb with Err _ => Panic 32 | r => r end);
  do (sname, bs) <- read_until 0 bs;
  do sname <- str_from_utf8_orig 33 sname;
  do (bfile, bs) <- read_until 0 bs;
  do bfile <- str_from_utf8_orig 34 bfile;
  Ok (mkDhcp op htype hlen hops xid secs flags cip yip sip rip chaddr sname bfile mt, bs).

(* to_message (l.130-162): always Ok; String::as_bytes gives the bytes back *)
Definition dhcp_to_message (h : dhcp) : list Z :=
  [h_op h mod 256; h_htype h mod 256; h_hlen h mod 256; h_hops h mod 256] ++   (* l.131 *)
  be32 (h_xid h) ++ be16 (h_secs h) ++ be8 (h_flags h) ++                      (* l.133-137 *)
  be32 (h_cip h) ++ be32 (h_yip h) ++ be32 (h_sip h) ++ be32 (h_rip h) ++      (* l.139-149 *)
  be16 (h_chaddr h) ++ be8 (mt_u8 (h_mt h)) ++                                 (* l.151-153 *)
  h_sname h ++ [0] ++ h_bfile h ++ [0].                                        (* l.155-158 *)

(* value ranges of the struct; strings are valid UTF-8 (they are Strings) and,
   per the property's quantifier, do not contain the terminator *)
Definition dhcp_wf (h : dhcp) : bool :=
  rng 256 (h_op h) && rng 256 (h_htype h) && rng 256 (h_hlen h) && rng 256 (h_hops h) &&
  rng 4294967296 (h_xid h) && rng 65536 (h_secs h) && rng 256 (h_flags h) &&
  rng 4294967296 (h_cip h) && rng 4294967296 (h_yip h) && rng 4294967296 (h_sip h) &&
  rng 4294967296 (h_rip h) && rng 65536 (h_chaddr h) &&
  bytes (h_sname h) && free_of 0 (h_sname h) && utf8_valid (h_sname h) &&
  bytes (h_bfile h) && free_of 0 (h_bfile h) && utf8_valid (h_bfile h).
