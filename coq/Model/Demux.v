(* C04 — UDP/IPv4 listen bindings and demultiplexing: executable model.

   Transcribed from /repo/sim/elvis-core/src (line numbers of the unchanged tree):
     protocols/udp.rs              Udp::listen 75-99, open_and_listen 43-52, Udp::demux 104-163
     protocols/udp/udp_session.rs  UdpSession::receive 18-37, UdpSession::send 40-69
     protocols/udp/udp_parsing.rs  build_udp_header 96-127 (length limit only)
     protocols/ipv4.rs             ProtocolNumber::from 74-85, open_for_sending 115-149,
                                   Ipv4::listen 151-177, Ipv4::demux 192-257
     protocols/ipv4/ipv4_session.rs  Ipv4Session::receive 38-67, Ipv4Session::send 80-129
     protocols/ipv4/ipv4_parsing.rs  Ipv4HeaderBuilder::build 235-273 (length limit only)
     protocols/pci/pci_session.rs  send_pci 88-110 (MTU test)
     protocols/arp.rs              Arp::listen 242-248 (key set of local_ips only)
     network.rs                    Network::send 116-152 (who gets a frame)

   What is a VALUE here and what is abstract:
   * addresses are Z (the u32 value of the dotted quad), ports are Z (u16), applications and upstream
     protocols are Z identifiers standing for Rust `TypeId`s (UDP_TID = the TypeId of `Udp` itself as it
     appears as an upstream at the IPv4 layer);
   * a datagram is a RECORD (source endpoint, destination endpoint, payload of an arbitrary type P with a
     length function).  Header bytes are not modelled here: Section Wire at the end lifts the pipeline to an
     abstract wire format with a decode-after-encode assumption (the byte-level round trips are properties
     C08/C18 of the codec kits);
   * the DashMaps are association lists read by first match; the code only ever inserts into a vacant
     entry, the theorems hold for arbitrary lists;
   * IpTable lookup is modelled for /32 entries only (exact match on the LOCAL address, ipv4.rs:121 as
     coded); the general longest-prefix table is property C09;
   * ARP resolution is asynchronous runtime behaviour and is not modelled: `ip_open` answers ONeedsArp
     where the code would await `Arp::resolve`;
   * every unwrap/expect on the receive path whose failure is reachable from a binding table is an explicit
     PanicNoProto outcome (Ipv4Session::receive 55-57 and UdpSession::receive 31-33: `machine.get(upstream)
     .expect("No such protocol")`).  `machine.protocol::<Ipv4>().expect(..)` in Udp::listen and
     `protocol::<Pci>().unwrap()` are outside the model: every modelled machine has Udp, Ipv4 and Pci. *)
From Elvis Require Import Model.Base.
Local Open Scope Z_scope.

Definition ANY : Z := 0.                    (* Ipv4Address::CURRENT_NETWORK 0.0.0.0 *)
Definition BCAST : Z := 4294967295.         (* Ipv4Address::SUBNET 255.255.255.255 *)
Definition UDP_PROTO : Z := 17.             (* ProtocolNumber::UDP *)
Definition UDP_TID : Z := -1.               (* TypeId::of::<Udp>() *)

(* Ipv4Net::LOOPBACK.contains(a): 127.0.0.0/8 *)
Definition is_loopback (a : Z) : bool := a / 16777216 =? 127.

(* ipv4.rs:74-85  impl From<u8> for ProtocolNumber: unknown numbers collapse to DEFAULT = 0 *)
Definition proto_class (p : Z) : Z :=
  if (p =? 6) || (p =? 17) || (p =? 253) || (p =? 254) || (p =? 255) then p else 0.

(* ---------- binding tables ---------- *)
Definition key := (Z * Z)%type.             (* (address, port) for UDP; (address, protocol number) for IPv4 *)
Definition key_eqb (a b : key) : bool := (fst a =? fst b) && (snd a =? snd b).
Definition tbl := list (key * Z).

Fixpoint tget (t : tbl) (k : key) : option Z :=
  match t with
  | [] => None
  | (k', v) :: r => if key_eqb k' k then Some v else tget r k
  end.

(* udp.rs:134-155 and ipv4.rs:219-239: the exact entry, else the entry of 0.0.0.0 with the same
   port / protocol number, else nothing *)
Definition tlookup (t : tbl) (k : key) : option Z :=
  match tget t k with
  | Some v => Some v
  | None => tget t (ANY, snd k)
  end.

Fixpoint zmem (x : Z) (l : list Z) : bool :=
  match l with
  | [] => false
  | y :: r => (x =? y) || zmem x r
  end.

(* ---------- per-machine state ---------- *)
Record mstate := mkState {
  udp_b : tbl;            (* Udp.listen_bindings : Endpoint -> TypeId *)
  ip_b : tbl;             (* Ipv4.listen_bindings : (Ipv4Address, ProtocolNumber) -> TypeId *)
  has_arp : bool;         (* machine.protocol::<Arp>() is Some *)
  arp_ips : list Z;       (* key set of Arp.local_ips *)
  protos : list Z         (* identifiers of the protocols present on the machine *)
}.

Definition set_udp_b (s : mstate) (t : tbl) : mstate := mkState t (ip_b s) (has_arp s) (arp_ips s) (protos s).
Definition set_ip_b (s : mstate) (t : tbl) : mstate := mkState (udp_b s) t (has_arp s) (arp_ips s) (protos s).
Definition set_arp_ips (s : mstate) (l : list Z) : mstate := mkState (udp_b s) (ip_b s) (has_arp s) l (protos s).

(* arp.rs:242-248 *)
Definition arp_listen (a : Z) (s : mstate) : mstate :=
  if zmem a (arp_ips s) then s else set_arp_ips s (a :: arp_ips s).

Inductive lres := LOk | LExisting | LIpExists.

(* ipv4.rs:151-177 *)
Definition ipv4_listen (s : mstate) (up a proto : Z) : lres * mstate :=
  let s1 := if has_arp s && negb (a =? BCAST) then arp_listen a s else s in      (* 158-162 *)
  match tget (ip_b s1) (a, proto) with
  | Some u => if u =? up then (LOk, s1) else (LIpExists, s1)                     (* 164-171 *)
  | None => (LOk, set_ip_b s1 (((a, proto), up) :: ip_b s1))                     (* 172-175 *)
  end.

(* udp.rs:75-99.  On an occupied entry nothing is touched.  On a vacant entry the UDP binding is
   inserted FIRST and stays even when the IPv4 layer then refuses (the `?` on line 96). *)
Definition udp_listen (s : mstate) (up : Z) (e : key) : lres * mstate :=
  match tget (udp_b s) e with
  | Some _ => (LExisting, s)                                                     (* 82 *)
  | None => ipv4_listen (set_udp_b s ((e, up) :: udp_b s)) UDP_TID (fst e) UDP_PROTO   (* 83-96 *)
  end.

(* ---------- opening a session for sending: ipv4.rs:115-149 ---------- *)
Inductive ores := OOk (mac : option Z) | OUnknownRecipient | ONeedsArp.

Definition routes := list (Z * option Z).   (* /32 entries of the IpTable: address -> Recipient.mac (slot is always 0) *)
Fixpoint rget (r : routes) (a : Z) : option (option Z) :=
  match r with
  | [] => None
  | (a', m) :: t => if a' =? a then Some m else rget t a
  end.

Definition ip_open (rt : routes) (s : mstate) (local : Z) : ores * mstate :=
  match rget rt local with                                       (* 121: looked up by the LOCAL address *)
  | None => (OUnknownRecipient, s)                               (* 123-125 *)
  | Some (Some m) => (OOk (Some m), s)
  | Some None =>
      if has_arp s then (ONeedsArp, arp_listen local s)          (* 130-138; Arp::resolve not modelled *)
      else (OOk None, s)
  end.

(* ---------- the bind operations a harness application can issue ---------- *)
Inductive lop :=
| LUdp (app : Z) (e : key)        (* Udp::listen(app, e) *)
| LOpen (app : Z) (e : key)       (* Udp::open_and_listen(app, Endpoints{local: e, ..}): listen, then open *)
| LRaw (app a : Z).               (* Ipv4::listen(app, a, ProtocolNumber::UDP) by a non-UDP upstream *)

Definition lcode (r : lres) : Z := match r with LOk => 0 | LExisting => 1 | LIpExists => 2 end.

Definition run_lop (rt : routes) (s : mstate) (op : lop) : Z * mstate :=
  match op with
  | LUdp app e => let (r, s') := udp_listen s app e in (lcode r, s')
  | LOpen app e =>
      let (r, s') := udp_listen s app e in
      match r with
      | LOk =>                                                     (* udp.rs:49-51: the binding stays if open fails *)
          let (o, s'') := ip_open rt s' (fst e) in
          (match o with OOk _ => 0 | OUnknownRecipient => 3 | ONeedsArp => 4 end, s'')
      | _ => (lcode r, s')
      end
  | LRaw app a => let (r, s') := ipv4_listen s app a UDP_PROTO in (lcode r, s')
  end.

Fixpoint run_lops (rt : routes) (s : mstate) (ops : list lop) : list Z * mstate :=
  match ops with
  | [] => ([], s)
  | op :: r =>
      let (c, s1) := run_lop rt s op in
      let (cs, s2) := run_lops rt s1 r in
      (c :: cs, s2)
  end.

(* who gets a frame: network.rs:116-152.  Machine i owns MAC i (one network, taps registered in machine
   order).  to: -2 = Some(BROADCAST_MAC), -3 = None, otherwise a MAC.  A broadcast reaches EVERY tap,
   the sender's own included. *)
Definition reach (n : nat) (to : Z) : list nat :=
  if (to =? -2) || (to =? -3) then seq 0 n
  else if (0 <=? to) && (to <? Z.of_nat n) then [Z.to_nat to] else [].

(* multiset equality of two lists by successive removal *)
Section MSet.
  Variable A : Type.
  Variable eqb : A -> A -> bool.
  Fixpoint remove1 (x : A) (l : list A) : option (list A) :=
    match l with
    | [] => None
    | y :: r => if eqb x y then Some r
                else match remove1 x r with Some r' => Some (y :: r') | None => None end
    end.
  Fixpoint msub_eq (a b : list A) : bool :=
    match a with
    | [] => match b with [] => true | _ => false end
    | x :: a' => match remove1 x b with Some b' => msub_eq a' b' | None => false end
    end.
End MSet.
Arguments remove1 {A}.
Arguments msub_eq {A}.

Section Payload.
  Variable P : Type.                 (* payloads: byte lists in the theorems, (length, digest) in the validator *)
  Variable plen : P -> Z.
  Variable peqb : P -> P -> bool.

  Record dgram := mkDgram { d_src : key; d_dst : key; d_payload : P }.

  (* ---------- send path ---------- *)
  Inductive linkdst := ToBroadcast | ToSelf | ToMac (m : option Z).
  Inductive sres := SOk (l : linkdst) | SErrHeaderUdp | SErrHeaderIp | SErrMtu.

  (* UdpSession::send ; Ipv4Session::send ; PciSession::send_pci.  `mac` = Recipient.mac of the session *)
  Definition udp_send (mtu : Z) (mac : option Z) (d : dgram) : sres :=
    let len := plen (d_payload d) in
    if 65535 <? len + 8 then SErrHeaderUdp                 (* udp_parsing.rs:107-109 u16::try_from *)
    else if 65535 <? len + 8 + 20 then SErrHeaderIp        (* ipv4_session.rs:90 `as u16` is exact here; ipv4_parsing.rs:242-245 checked_add *)
    else if fst (d_dst d) =? BCAST then                    (* ipv4_session.rs:98-103 *)
      if mtu <? len + 28 then SErrMtu else SOk ToBroadcast (* pci_session.rs:94-96 *)
    else if is_loopback (fst (d_dst d)) then SOk ToSelf    (* ipv4_session.rs:104-122: straight into the own tap, NO MTU test *)
    else if mtu <? len + 28 then SErrMtu else SOk (ToMac mac).   (* 124-126 *)

  (* ---------- receive path ---------- *)
  Inductive outcome :=
  | Deliver (app : Z) (local remote : key) (payload : P)   (* app.demux(payload, UdpSession{endpoints{local,remote}}, control) *)
  | DeliverIp (up : Z) (d : dgram)                          (* the IPv4 binding names a non-UDP upstream *)
  | DropIpNoBinding                                         (* ipv4.rs:230-236 MissingSession *)
  | DropUdpNoBinding                                        (* udp.rs:147-152 MissingSession *)
  | PanicNoProto (site : Z).                                (* expect("No such protocol") *)

  (* udp.rs:104-163 after the header has been parsed; udp_session.rs:18-37 *)
  Definition udp_demux (s : mstate) (d : dgram) : outcome :=
    match tlookup (udp_b s) (d_dst d) with
    | None => DropUdpNoBinding
    | Some app =>
        if zmem app (protos s) then Deliver app (d_dst d) (d_src d) (d_payload d)   (* 129-132: local = destination, remote = source *)
        else PanicNoProto 2
    end.

  (* ipv4.rs:192-257 after the header has been parsed; an unfragmented datagram passes reassembly
     unchanged (reassembly.rs:54-62); ipv4_session.rs:52-59 *)
  Definition ip_demux (s : mstate) (proto : Z) (d : dgram) : outcome :=
    match tlookup (ip_b s) (fst (d_dst d), proto_class proto) with
    | None => DropIpNoBinding
    | Some up =>
        if zmem up (protos s) then
          if up =? UDP_TID then udp_demux s d else DeliverIp up d
        else PanicNoProto 1
    end.

  Definition delivers (o : outcome) : bool :=
    match o with Deliver _ _ _ _ | DeliverIp _ _ => true | _ => false end.
  Definition is_panic_outcome (o : outcome) : bool :=
    match o with PanicNoProto _ => true | _ => false end.

  (* the value Session::send returns to the application: 0 Ok, 5 Header, 6 Mtu, 7 Other.
     On the loopback path the datagram runs through the own receive path synchronously and a refusal
     there comes back as SendError::Other (ipv4_session.rs:113-121). *)
  Definition send_code (s : mstate) (mtu : Z) (d : dgram) : Z :=
    match udp_send mtu None d with
    | SErrHeaderUdp | SErrHeaderIp => 5
    | SErrMtu => 6
    | SOk ToSelf => if delivers (ip_demux s UDP_PROTO d) then 0 else 7
    | SOk _ => 0
    end.

  (* ---------- events of a trace ---------- *)
  (* kind 0: demux on an application reached through Udp; kind 1: demux on a raw IPv4 upstream *)
  Record dev := mkDev { e_kind : Z; e_app : Z; e_m : nat; e_local : key; e_remote : key; e_pay : P }.

  Definition dev_eqb (a b : dev) : bool :=
    (e_kind a =? e_kind b) && (e_app a =? e_app b) && Nat.eqb (e_m a) (e_m b)
    && key_eqb (e_local a) (e_local b) && key_eqb (e_remote a) (e_remote b) && peqb (e_pay a) (e_pay b).

  Definition dgram_eqb (a b : dgram) : bool :=
    key_eqb (d_src a) (d_src b) && key_eqb (d_dst a) (d_dst b) && peqb (d_payload a) (d_payload b).

  Definition events_of (s : mstate) (m : nat) (d : dgram) : list dev :=
    match ip_demux s UDP_PROTO d with
    | Deliver app l r p => [mkDev 0 app m l r p]
    | DeliverIp up d' => [mkDev 1 up m (d_dst d') (d_src d') (d_payload d')]
    | _ => []
    end.

  (* ---------- configuration and trace of one scenario ---------- *)
  Record mcfg := mkMcfg {
    mc_arp : bool; mc_arp_ips0 : list Z; mc_protos : list Z; mc_routes : routes; mc_listens : list lop
  }.
  Record sop := mkSop { so_m : nat; so_d : dgram }.
  Record config := mkConfig {
    c_mtu : Z; c_reply : bool; c_rpy : P; c_machines : list mcfg; c_ops : list sop
  }.
  Record fev := mkFev { f_from : nat; f_to : Z; f_d : dgram }.      (* an IPv4 frame seen on the link *)
  Record trace := mkTrace {
    tr_listen : list (list Z);    (* per machine: result codes of its bind operations *)
    tr_tx : list Z;               (* per send operation: 0 ok, 3 unknown recipient, 4 ARP failure, 5 header, 6 MTU, 7 other *)
    tr_frames : list fev;
    tr_dlv : list dev
  }.

  Definition init_state (mc : mcfg) : mstate := mkState [] [] (mc_arp mc) (mc_arp_ips0 mc) (mc_protos mc).
  Definition final_state (mc : mcfg) : mstate := snd (run_lops (mc_routes mc) (init_state mc) (mc_listens mc)).
  Definition listen_codes (mc : mcfg) : list Z := fst (run_lops (mc_routes mc) (init_state mc) (mc_listens mc)).

  Definition dummy_mcfg : mcfg := mkMcfg false [] [] [] [].
  Definition state_at (c : config) (m : nat) : mstate := final_state (nth m (c_machines c) dummy_mcfg).

  Definition tx_code_ok (c : config) (o : sop) (code : Z) : bool :=
    let mc := nth (so_m o) (c_machines c) dummy_mcfg in
    let s := state_at c (so_m o) in
    let sc := send_code s (c_mtu c) (so_d o) in
    match fst (ip_open (mc_routes mc) s (fst (d_src (so_d o)))) with
    | OUnknownRecipient => code =? 3
    | ONeedsArp => (code =? 4) || (code =? sc)
    | OOk _ => code =? sc
    end.

  Fixpoint tx_codes_ok (c : config) (ops : list sop) (codes : list Z) : bool :=
    match ops, codes with
    | [], [] => true
    | o :: ops', k :: codes' => tx_code_ok c o k && tx_codes_ok c ops' codes'
    | _, _ => false
    end.

  (* the send operations that put a datagram on its way *)
  Fixpoint sent_ops (ops : list sop) (codes : list Z) : list sop :=
    match ops, codes with
    | o :: ops', k :: codes' => if k =? 0 then o :: sent_ops ops' codes' else sent_ops ops' codes'
    | _, _ => []
    end.

  (* the recording applications answer every datagram (except an answer) through the session they were
     handed: UdpSession{local, remote}.send puts local as source and remote as destination *)
  Definition reply_of (c : config) (e : dev) : list sop :=
    if c_reply c && (e_kind e =? 0) && negb (peqb (e_pay e) (c_rpy c))
    then [mkSop (e_m e) (mkDgram (e_local e) (e_remote e) (c_rpy c))] else [].

  Definition emitted (c : config) (tr : trace) : list sop :=
    sent_ops (c_ops c) (tr_tx tr) ++ flat_map (reply_of c) (tr_dlv tr).

  Definition goes_on_link (c : config) (o : sop) : bool :=
    match udp_send (c_mtu c) None (so_d o) with SOk ToSelf => false | SOk _ => true | _ => false end.
  Definition goes_to_self (c : config) (o : sop) : bool :=
    match udp_send (c_mtu c) None (so_d o) with SOk ToSelf => true | _ => false end.

  Definition sop_eqb (a b : sop) : bool := Nat.eqb (so_m a) (so_m b) && dgram_eqb (so_d a) (so_d b).

  Definition expected_frames (c : config) (tr : trace) : list sop := filter (goes_on_link c) (emitted c tr).
  Definition observed_frames (tr : trace) : list sop := map (fun f => mkSop (f_from f) (f_d f)) (tr_frames tr).

  (* (machine, datagram) pairs: every hand-over of a UDP datagram to a machine's IPv4 layer *)
  Definition arrivals (c : config) (tr : trace) : list (nat * dgram) :=
    flat_map (fun f => map (fun m => (m, f_d f)) (reach (length (c_machines c)) (f_to f))) (tr_frames tr)
    ++ map (fun o => (so_m o, so_d o)) (filter (goes_to_self c) (emitted c tr)).

  Definition predicted (c : config) (tr : trace) : list dev :=
    flat_map (fun a => events_of (state_at c (fst a)) (fst a) (snd a)) (arrivals c tr).

  Definition any_panic (c : config) (tr : trace) : bool :=
    existsb (fun a => is_panic_outcome (ip_demux (state_at c (fst a)) UDP_PROTO (snd a))) (arrivals c tr).

  Fixpoint list_eqb {A} (eqb : A -> A -> bool) (a b : list A) : bool :=
    match a, b with
    | [], [] => true
    | x :: a', y :: b' => eqb x y && list_eqb eqb a' b'
    | _, _ => false
    end.

  (* where the link layer was told to send a frame: a datagram for 255.255.255.255 goes to the broadcast MAC
     (ipv4_session.rs:98-103); an answer of a recorder goes to the MAC the datagram came from (ipv4.rs:244,
     taken from the trace); otherwise Recipient.mac of the route of the LOCAL address (ipv4_session.rs:124-126),
     which ARP may have filled in *)
  Definition frame_to_ok (c : config) (f : fev) : bool :=
    let d := f_d f in
    if fst (d_dst d) =? BCAST then f_to f =? -2
    else if peqb (d_payload d) (c_rpy c) then true
    else
      let mc := nth (f_from f) (c_machines c) dummy_mcfg in
      match rget (mc_routes mc) (fst (d_src d)) with
      | Some (Some x) => f_to f =? x
      | Some None => if mc_arp mc then true else f_to f =? -3
      | None => false
      end.

  (* verdict: 0 accept; otherwise the number of the first check that fails *)
  Definition validate (c : config) (tr : trace) : Z :=
    if negb (list_eqb (list_eqb Z.eqb) (map listen_codes (c_machines c)) (tr_listen tr)) then 1
    else if negb (tx_codes_ok c (c_ops c) (tr_tx tr)) then 2
    else if negb (msub_eq sop_eqb (expected_frames c tr) (observed_frames tr)) then 3
    else if negb (forallb (frame_to_ok c) (tr_frames tr)) then 6
    else if any_panic c tr then 4
    else if negb (msub_eq dev_eqb (predicted c tr) (tr_dlv tr)) then 5
    else 0.

  (* ---------- abstract wire format ---------- *)
  Section Wire.
    Variable W : Type.
    Variable encode : dgram -> W.                   (* 8-byte UDP header ++ 20-byte IPv4 header ++ payload *)
    Variable decode : W -> option (Z * dgram).      (* Ipv4Header::from_bytes ; UdpHeader::from_bytes_ipv4 ; remove_front *)

    Inductive wire_outcome := WDropHeader | WOut (o : outcome).

    Definition wire_receive (s : mstate) (w : W) : wire_outcome :=
      match decode w with
      | None => WDropHeader                          (* ipv4.rs:201-207 / udp.rs:113-124: DemuxError::Header *)
      | Some (proto, d) => WOut (ip_demux s proto d)
      end.
  End Wire.
End Payload.

Arguments mkDgram {P}.
Arguments d_src {P}.
Arguments d_dst {P}.
Arguments d_payload {P}.
Arguments Deliver {P}.
Arguments DeliverIp {P}.
Arguments DropIpNoBinding {P}.
Arguments DropUdpNoBinding {P}.
Arguments PanicNoProto {P}.
Arguments udp_demux {P}.
Arguments ip_demux {P}.
Arguments delivers {P}.
Arguments is_panic_outcome {P}.
Arguments udp_send {P}.
Arguments send_code {P}.
Arguments mkDev {P}.
Arguments e_kind {P}.
Arguments e_app {P}.
Arguments e_m {P}.
Arguments e_local {P}.
Arguments e_remote {P}.
Arguments e_pay {P}.
Arguments events_of {P}.
Arguments mkSop {P}.
Arguments so_m {P}.
Arguments so_d {P}.
Arguments mkConfig {P}.
Arguments c_mtu {P}.
Arguments c_reply {P}.
Arguments c_rpy {P}.
Arguments c_machines {P}.
Arguments c_ops {P}.
Arguments mkFev {P}.
Arguments f_from {P}.
Arguments f_to {P}.
Arguments f_d {P}.
Arguments mkTrace {P}.
Arguments tr_listen {P}.
Arguments tr_tx {P}.
Arguments tr_frames {P}.
Arguments tr_dlv {P}.
Arguments state_at {P}.
Arguments tx_code_ok {P}.
Arguments tx_codes_ok {P}.
Arguments sent_ops {P}.
Arguments reply_of {P}.
Arguments emitted {P}.
Arguments goes_on_link {P}.
Arguments goes_to_self {P}.
Arguments expected_frames {P}.
Arguments observed_frames {P}.
Arguments arrivals {P}.
Arguments predicted {P}.
Arguments any_panic {P}.
Arguments validate {P}.
Arguments frame_to_ok {P}.
Arguments dev_eqb {P}.
Arguments dgram_eqb {P}.
Arguments sop_eqb {P}.
Arguments WDropHeader {P}.
Arguments WOut {P}.
Arguments wire_receive {P W}.
