(* IPv4 header codec: sim/elvis-core/src/protocols/ipv4/ipv4_parsing.rs.
   Line numbers refer to that file at /repo commit c999f3a6 (both repairs applied).

   Switches of the model functions
     ck   : cargo feature `compute_checksum` (false = default build)
     fck  : receive-side checksum repair  (commit c999f3a6, .cache/codecip/fix-cksum.patch)
     ftl  : total-length repair           (commit 590cc7ad, .cache/codecip/fix-ipv4-totlen.patch)
   [fck = ftl = true] is the code as it is now; [false] gives the code before the
   respective repair ("_orig"), kept for the refutation witnesses. *)
From Elvis Require Import Model.Base Model.Bytes Model.Checksum.
Local Open Scope Z_scope.

Record ipv4_hdr := mk_ipv4 {                       (* struct Ipv4Header, l.20-43 *)
  ip_ihl : Z;      (* u8  *)
  ip_tos : Z;      (* TypeOfService(u8) *)
  ip_len : Z;      (* u16 total_length *)
  ip_id : Z;       (* u16 *)
  ip_frag : Z;     (* u16 fragment_offset *)
  ip_flags : Z;    (* ControlFlags(u8) *)
  ip_ttl : Z;      (* u8 *)
  ip_proto : Z;    (* u8 *)
  ip_ck : Z;       (* u16 *)
  ip_src : Z;      (* Ipv4Address as the u32 of its big-endian bytes *)
  ip_dst : Z
}.

(* ParseError (l.143-168) as small integers; Checksum{expected,actual} packs both values *)
Definition E_HTS : Z := 1.        (* HeaderTooShort *)
Definition E_VER : Z := 2.        (* IncorrectIpv4Version *)
Definition E_IHL : Z := 3.        (* InvalidHeaderLength *)
Definition E_TOS : Z := 4.        (* UsedReservedTos *)
Definition E_FLAG : Z := 5.       (* UsedReservedFlag *)
Definition E_TOTLEN : Z := 6.     (* only with ftl: total length below the header length *)
Definition E_CK (expected actual : Z) : Z := 4294967296 + expected * 65536 + actual.
(* HeaderBuildError (l.277-282) *)
Definition EB_LONG : Z := 21.     (* OverlyLongPayload *)
Definition EB_FRAG : Z := 22.     (* OverlyLongFragmentOffset *)

(* ControlFlags::new (l.291-293), accessors l.295-305 *)
Definition b2z (b : bool) : Z := if b then 1 else 0.
Definition cf_new (may_fragment is_last_fragment : bool) : Z :=
  bor (b2z (negb is_last_fragment)) (shl (b2z (negb may_fragment)) 1).
Definition cf_may_fragment (f : Z) : bool := band f 2 =? 0.
Definition cf_is_last (f : Z) : bool := band f 1 =? 0.
(* TypeOfService::new (l.370-382); precedence 0..7, the others 0..1 *)
Definition tos_new (prec delay thr rel : Z) : Z :=
  bor (bor (bor (shl rel 2) (shl thr 3)) (shl delay 4)) (shl prec 5).

(* Ipv4Header::from_bytes (l.47-124) *)
Definition ipv4_decode (fck ftl ck : bool) (bs : list Z) : result ipv4_hdr :=
  let c := 0 in                                                        (* l.50 *)
  do (vi, bs) <- ok_or (next_u8 bs) E_HTS;                             (* l.52 *)
  let version := shr vi 4 in                                           (* l.53 *)
  if negb (version =? 4) then Err E_VER else                           (* l.54 *)
  let ihl := band vi 15 in                                             (* l.57 *)
  if negb (ihl =? 5) then Err E_IHL else                               (* l.58 *)
  do (tosb, bs) <- ok_or (next_u8 bs) E_HTS;                           (* l.62 *)
  if negb (band tosb 3 =? 0) then Err E_TOS else                       (* l.63-66 *)
  let c := ck_u8 ck c vi tosb in                                       (* l.67 *)
  do (tl, bs) <- ok_or (next_u16_be bs) E_HTS;                         (* l.69 *)
  if ftl && (tl <? 20) then Err E_TOTLEN else                          (* l.70-73 (repair 590cc7ad) *)
  let c := ck_u16 ck c tl in                                           (* l.74 *)
  do (ident, bs) <- ok_or (next_u16_be bs) E_HTS;                      (* l.76 *)
  let c := ck_u16 ck c ident in                                        (* l.77 *)
  do (ff, bs) <- ok_or (next_u16_be bs) E_HTS;                         (* l.79 *)
  let frag := band ff 8191 in                                          (* l.80 *)
  let cfb := shr ff 13 in                                              (* l.81; < 8, `as u8` exact *)
  if negb (band cfb 4 =? 0) then Err E_FLAG else                       (* l.82 *)
  let c := ck_u16 ck c ff in                                           (* l.85 *)
  do (ttl, bs) <- ok_or (next_u8 bs) E_HTS;                            (* l.87 *)
  do (proto, bs) <- ok_or (next_u8 bs) E_HTS;                          (* l.88 *)
  let c := ck_u8 ck c ttl proto in                                     (* l.89 *)
  do (expected, bs) <- ok_or (next_u16_be bs) E_HTS;                   (* l.91 *)
  do (src, bs) <- ok_or (next_u32_be bs) E_HTS;                        (* l.93 *)
  let c := ck_u32 ck c src in                                          (* l.94 *)
  do (dst, bs) <- ok_or (next_u32_be bs) E_HTS;                        (* l.96 *)
  let c := ck_u32 ck c dst in                                          (* l.97 *)
  let actual := as_u16 ck c in                                         (* l.99 *)
  if negb (ck_match fck actual expected) then Err (E_CK expected actual) (* l.100-109 (repair c999f3a6: 0xffff/0x0000) *)
  else Ok (mk_ipv4 ihl tosb tl ident frag cfb ttl proto expected src dst). (* l.111-123 *)

(* Ipv4HeaderBuilder::build (l.235-273) with every builder field explicit
   (new l.185-202 sets ttl = 30; serialize l.126 passes the header's ttl) *)
Definition ipv4_build (ck : bool) (tos plen ident frag flags ttl proto src dst : Z)
  : result (list Z) :=
  let c := 0 in
  let vi := bor (shl 4 4) 5 in                                         (* l.238 *)
  let c := ck_u8 ck c vi tos in                                        (* l.239-240 *)
  if 65535 <? plen + 20 then Err EB_LONG else                          (* l.242-245 checked_add *)
  let tl := plen + 20 in
  let c := ck_u16 ck c tl in                                           (* l.246 *)
  let c := ck_u16 ck c ident in                                        (* l.248 *)
  if 8191 <? frag then Err EB_FRAG else                                (* l.250-252 *)
  let ff := bor (shl flags 13 mod 65536) (band frag 8191) in           (* l.253-254; u16 `<<` drops high bits *)
  let c := ck_u16 ck c ff in                                           (* l.255 *)
  let c := ck_u8 ck c ttl proto in                                     (* l.257 *)
  let c := ck_u32 ck c src in                                          (* l.258 *)
  let c := ck_u32 ck c dst in                                          (* l.259 *)
  Ok ([vi; tos] ++ be16 tl ++ be16 ident ++ be16 ff ++ [ttl; proto]    (* l.261-272 *)
        ++ be16 (as_u16 ck c) ++ be32 src ++ be32 dst).

(* Ipv4Header::serialize (l.126-139).  `self.total_length - BASE_OCTETS` is a
   checked u16 subtraction (l.129): panic site 121.  ihl and checksum of the value are
   ignored (recomputed). *)
Definition ipv4_encode (ck : bool) (h : ipv4_hdr) : result (list Z) :=
  if ip_len h <? 20 then Panic 121 else
  ipv4_build ck (ip_tos h) (ip_len h - 20) (ip_id h) (ip_frag h) (ip_flags h)
             (ip_ttl h) (ip_proto h) (ip_src h) (ip_dst h).

(* the checksum over the ten other words, as the builder computes it *)
Definition ipv4_cksum (ck : bool) (tos tl ident ff ttl proto src dst : Z) : Z :=
  as_u16 ck (ck_u32 ck (ck_u32 ck (ck_u8 ck (ck_u16 ck (ck_u16 ck (ck_u16 ck
    (ck_u8 ck 0 69 tos) tl) ident) ff) ttl proto) src) dst).

(* header values the typed constructors can produce and the decoder accepts *)
Definition ipv4_wf (ck : bool) (h : ipv4_hdr) : Prop :=
  ip_ihl h = 5 /\ u8 (ip_tos h) /\ ip_tos h mod 4 = 0 /\
  20 <= ip_len h < 65536 /\ u16 (ip_id h) /\ 0 <= ip_frag h < 8192 /\
  0 <= ip_flags h < 4 /\ u8 (ip_ttl h) /\ u8 (ip_proto h) /\
  u32 (ip_src h) /\ u32 (ip_dst h) /\
  ip_ck h = ipv4_cksum ck (ip_tos h) (ip_len h) (ip_id h)
                       (ip_flags h * 8192 + ip_frag h) (ip_ttl h) (ip_proto h)
                       (ip_src h) (ip_dst h).

(* ---- RFC 791 3.1, written from the header diagram -----------------------
   Five 32-bit rows; a field of width w whose least significant bit is k bits
   from the right end of its row contributes value * 2^k; octet j of a row is
   row / 2^(8*(3-j)) mod 2^8.  Nothing here uses the operators of the model. *)
Definition octets32 (w : Z) : list Z :=
  [w / 2^24 mod 2^8; w / 2^16 mod 2^8; w / 2^8 mod 2^8; w mod 2^8].
Definition rfc791_bytes (version ihl prec d t r total_length ident df mf frag ttl proto cksum src dst : Z)
  : list Z :=
  octets32 (version * 2^28 + ihl * 2^24 +
            (prec * 2^5 + d * 2^4 + t * 2^3 + r * 2^2 (* + reserved 0 0 *)) * 2^16 + total_length)
  ++ octets32 (ident * 2^16 + ((* reserved 0 *) df * 2^1 + mf) * 2^13 + frag)
  ++ octets32 (ttl * 2^24 + proto * 2^16 + cksum)
  ++ octets32 src ++ octets32 dst.
(* the rows of a 20-byte string and the fields read back from them *)
Definition row (bs : list Z) (i : nat) : Z :=
  nth (4*i) bs 0 * 2^24 + nth (4*i+1) bs 0 * 2^16 + nth (4*i+2) bs 0 * 2^8 + nth (4*i+3) bs 0.
Definition fld (w k width : Z) : Z := w / 2^k mod 2^width.
Definition rfc791_fields (bs : list Z) : ipv4_hdr :=
  mk_ipv4 (fld (row bs 0) 24 4) (fld (row bs 0) 16 8) (fld (row bs 0) 0 16)
          (fld (row bs 1) 16 16) (fld (row bs 1) 0 13) (fld (row bs 1) 13 3)
          (fld (row bs 2) 24 8) (fld (row bs 2) 16 8) (fld (row bs 2) 0 16)
          (row bs 3) (row bs 4).
