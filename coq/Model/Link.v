(* C05 - the simulated link: model of elvis-core/src/network.rs, protocols/pci.rs and
   protocols/pci/pci_session.rs, and the executable validator of recorded link traces.

   Part 1  the decision logic, transcribed (Rust line numbers in comments):
           address allocator / tap registration, the MTU test of send_pci, the unicast
           lookup / broadcast fan-out of Network::send, what a tap hands to the target
           protocol, Latency::next / Throughput::next, and the discrete-event timing of
           Network::send (throughput permit = single FIFO server, then latency).
   Part 2  [validate]: checks a trace recorded on the REAL simulation against part 1.

   Time is in nanoseconds, rates in bytes per second.
   TIMING FOLLOWS THE REPAIRED CODE (.cache/c05/fix.patch): a frame of len bytes occupies
   the medium for ceil(len * 10^9 / rate) ns.  The code as it stands floors to whole
   milliseconds (network.rs:107); that function is kept as [tx_time_orig] and is the one
   the refutation theorem is about. *)
From Elvis Require Import Model.Base.
Local Open Scope Z_scope.

Definition BROADCAST_MAC : Z := 281474976710655.      (* network.rs:58  0xFF_FF_FF_FF_FF_FF *)
Definition U64_MAX : Z := 18446744073709551615.
Definition MTU_MAX : Z := 65535.                      (* network.rs:65  Mtu::MAX, Mtu = u16 *)
Definition NS : Z := 1000000000.

(* ------------------------------------------------------------------ state *)

(* a tap (PciSession, pci_session.rs:18-23): its address, the owning machine, its slot *)
Record tap := mkTap { t_mac : Z; t_machine : Z; t_slot : Z }.

(* Network (network.rs:41-49); loss_rate is 0 throughout (the property's loss-free network);
   throughput_permit is the [busy] argument of the timing function below *)
Record net := mkNet {
  n_taps : list tap;          (* taps: FxDashMap<Mac, Arc<PciSession>>, one entry per key *)
  n_next_mac : Z;             (* next_mac: Mutex<Mac> *)
  n_mtu : Z;
  n_lat_base : Z; n_lat_rand : Z;
  n_thr_base : Z; n_thr_rand : Z
}.

(* Network::new, network.rs:61-73; mtu < 0 stands for None *)
Definition new_net (mtu lb lr tb tr : Z) : net :=
  mkNet [] 0 (if mtu <? 0 then MTU_MAX else mtu) lb lr tb tr.

(* register_tap, network.rs:88-90: DashMap::insert replaces an entry with the same key *)
Definition register_tap (t : tap) (taps : list tap) : list tap :=
  t :: filter (fun x => negb (t_mac x =? t_mac t)) taps.

(* PciSession::new, pci_session.rs:27-38, with Network::next_mac, network.rs:81-86
   (`*lock += 1` overflows at u64::MAX in the dev profile: Panic 1) *)
Definition attach (n : net) (machine slot : Z) : result (tap * net) :=
  let mac := n_next_mac n in
  if U64_MAX <=? mac then Panic 1
  else
    let t := mkTap mac machine slot in
    Ok (t, mkNet (register_tap t (n_taps n)) (mac + 1) (n_mtu n)
               (n_lat_base n) (n_lat_rand n) (n_thr_base n) (n_thr_rand n)).

(* ------------------------------------------------------------------ sending *)

Record frame (A : Type) := mkFrame {
  f_src : Z; f_dst : option Z; f_proto : Z; f_payload : list A }.
Arguments mkFrame {A}. Arguments f_src {A}. Arguments f_dst {A}.
Arguments f_proto {A}. Arguments f_payload {A}.

(* PciSession::send_pci, pci_session.rs:88-110: the MTU test comes first; Err carries the MTU;
   an accepted frame is put on the wire (the spawned Network::send) *)
Definition send_pci {A} (n : net) (src : Z) (payload : list A) (dst : option Z) (proto : Z)
    (wire : list (frame A)) : result unit * list (frame A) :=
  if n_mtu n <? Z.of_nat (length payload) then (Err (n_mtu n), wire)
  else (Ok tt, wire ++ [mkFrame src dst proto payload]).

(* the same test on a length alone (what the validator uses) *)
Definition mtu_test (n : net) (len : Z) : result unit :=
  if n_mtu n <? len then Err (n_mtu n) else Ok tt.

(* Network::send, network.rs:116-152: None and Some(BROADCAST_MAC) go to EVERY tap of the
   network (the sender's own tap included, as coded); Some(m) to the tap registered under m;
   an address nobody owns reaches nobody *)
Definition route (n : net) (dst : option Z) : list tap :=
  match dst with
  | None => n_taps n
  | Some d =>
      if d =? BROADCAST_MAC then n_taps n
      else match find (fun x => t_mac x =? d) (n_taps n) with
           | Some t => [t]
           | None => []
           end
  end.

(* what the target protocol's demux sees: PciSession::receive, pci_session.rs:63-86
   (DemuxInfo { slot, source, destination, mtu } and the message as it is) *)
Record rx (A : Type) := mkRx {
  rx_machine : Z; rx_slot : Z; rx_src : Z; rx_dst : option Z; rx_mtu : Z; rx_payload : list A }.
Arguments mkRx {A}. Arguments rx_machine {A}. Arguments rx_slot {A}. Arguments rx_src {A}.
Arguments rx_dst {A}. Arguments rx_mtu {A}. Arguments rx_payload {A}.

Definition deliver {A} (n : net) (f : frame A) : list (rx A) :=
  map (fun t => mkRx (t_machine t) (t_slot t) (f_src f) (f_dst f) (n_mtu n) (f_payload f))
      (route n (f_dst f)).

(* ------------------------------------------------------------------ settings *)

(* Latency::next, network.rs:281-283: base + randomness * r, r in [0,1); u is the draw *)
Definition lat_next (n : net) (u : Z) : Z :=
  n_lat_base n + (if n_lat_rand n =? 0 then 0 else u mod (n_lat_rand n + 1)).

(* Throughput::next, network.rs:307-314: constant, or uniform in base .. base+randomness
   (`base + randomness` overflows u64 in the dev profile: Panic 2) *)
Definition thr_next (n : net) (u : Z) : result Z :=
  if n_thr_rand n =? 0 then Ok (n_thr_base n)
  else if U64_MAX <? n_thr_base n + n_thr_rand n then Panic 2
  else Ok (n_thr_base n + u mod n_thr_rand n).

(* the largest rate a frame can be given *)
Definition thr_max (n : net) : Z :=
  if n_thr_rand n =? 0 then n_thr_base n else n_thr_base n + n_thr_rand n - 1.

(* ------------------------------------------------------------------ timing *)

(* occupation of the medium by one frame.  Repaired code: rounded UP to whole ns *)
Definition tx_time (len thr : Z) : Z := (len * NS + thr - 1) / thr.
(* network.rs:107-108 as it stands: `len as u64 * 1000 / throughput` whole milliseconds *)
Definition tx_time_orig (len thr : Z) : Z := (len * 1000 / thr) * 1000000.

(* a sleep of d started at t ends at the first timer tick at or after t + d; g is the tick
   (1 = ideal clock; tokio's timer: 10^6 ns, and under paused time every instant is a tick) *)
Definition wake (g t d : Z) : Z := ((t + d + g - 1) / g) * g.

(* one frame handed to Network::send: when, how long, the rate and latency drawn for it, and
   how long the scheduler let it wait for the permit although the medium was free
   (0 under paused virtual time; any value >= 0 on a real runtime) *)
Record job := mkJob { j_arr : Z; j_len : Z; j_thr : Z; j_lat : Z; j_wait : Z }.
Record slot := mkSlot { k_start : Z; k_end : Z; k_dlv : Z }.

(* network.rs:112-115: `if latency > ZERO { sleep(latency) }` *)
Definition after_lat (g t lat : Z) : Z := if lat =? 0 then t else wake g t lat.

(* network.rs:104-115 for the frame that gets the permit next; b = the medium is busy until b *)
Definition step (txf : Z -> Z -> Z) (g b : Z) (j : job) : slot * Z :=
  if j_thr j =? 0 then
    (* rate 0 = unlimited: no permit, no sleep (network.rs:105) *)
    (mkSlot (j_arr j) (j_arr j) (after_lat g (j_arr j) (j_lat j)), b)
  else
    let start := Z.max (j_arr j) b + j_wait j in          (* notified().await *)
    let e := wake g start (txf (j_len j) (j_thr j)) in    (* sleep(..); notify_one() *)
    (mkSlot start e (after_lat g e (j_lat j)), e).

(* the jobs in the order in which they obtain the permit *)
Fixpoint sched (txf : Z -> Z -> Z) (g b : Z) (js : list job) : list slot :=
  match js with
  | [] => []
  | j :: r => let (s, b') := step txf g b j in s :: sched txf g b' r
  end.

(* bytes (x 10^9) of the frames that were handed over at or after s and delivered by e *)
Fixpoint wbytes (s e : Z) (js : list job) (ks : list slot) : Z :=
  match js, ks with
  | j :: jr, k :: kr =>
      (if (s <=? j_arr j) && (k_dlv k <=? e) then j_len j * NS else 0) + wbytes s e jr kr
  | _, _ => 0
  end.

(* ================================================================== part 2: traces *)

Definition HMOD : Z := 1000003.     (* key = len * HMOD + hash(payload) *)

Inductive event :=
| ETap (m slot ni mac mtu : Z)              (* address and MTU reported by a tap *)
| ETx (t i res em key : Z)                  (* send_pci of send #i returned: 0 Ok | 1 Err(Mtu(em)) *)
| EWire (t ni from to key : Z)              (* the observer saw the frame in Network::send *)
| EDlv (t ni from to tp key : Z)            (* hand-over to tap tp; -1: nobody owns the address *)
| ERx (t m slot src dst mtu key : Z).       (* demux of the target protocol with its DemuxInfo *)

Record ncfg := mkNcfg { c_mtu : Z; c_lb : Z; c_lr : Z; c_tb : Z; c_tr : Z }.
Record scfg := mkScfg { s_t : Z; s_machine : Z; s_slot : Z; s_dst : Z; s_len : Z }.
Record cfg := mkCfg {
  c_nets : list ncfg;
  c_machines : list (list nat);     (* machine m, slot s is attached to network (nth s (nth m ..)) *)
  c_sends : list scfg;
  c_tick : Z                        (* > 0: virtual time with this timer tick, compare exactly *)
}.

Definition dst_of (d : Z) : option Z := if d <? 0 then None else Some d.

(* ---- the configuration, built with the model's allocator *)

Fixpoint set_nth {A} (i : nat) (x : A) (l : list A) : list A :=
  match l, i with
  | [], _ => []
  | _ :: r, O => x :: r
  | a :: r, S k => a :: set_nth k x r
  end.

(* Pci::new, pci.rs:30-38: slot s of the machine gets a new session on network s *)
Fixpoint slots_of (machine slot : Z) (ns : list nat) : list (Z * Z * nat) :=
  match ns with
  | [] => []
  | i :: r => (machine, slot, i) :: slots_of machine (slot + 1) r
  end.
Fixpoint ops_of (machine : Z) (ms : list (list nat)) : list (Z * Z * nat) :=
  match ms with
  | [] => []
  | ns :: r => slots_of machine 0 ns ++ ops_of (machine + 1) r
  end.

Fixpoint run_ops (w : list net) (acc : list (nat * tap)) (ops : list (Z * Z * nat))
    : result (list net * list (nat * tap)) :=
  match ops with
  | [] => Ok (w, acc)
  | (m, s, i) :: r =>
      match nth_error w i with
      | None => Err 9        (* not expressible in Rust: a Pci is built from Arc<Network> handles *)
      | Some n =>
          match attach n m s with
          | Ok (t, n') => run_ops (set_nth i n' w) (acc ++ [(i, t)]) r
          | Err e => Err e
          | Panic p => Panic p
          | OutOfFuel => OutOfFuel
          end
      end
  end.

Definition net_of_cfg (c : ncfg) : net := new_net (c_mtu c) (c_lb c) (c_lr c) (c_tb c) (c_tr c).

Definition build (c : cfg) : result (list net * list (nat * tap)) :=
  run_ops (map net_of_cfg (c_nets c)) [] (ops_of 0 (c_machines c)).

Definition find_tap (ts : list (nat * tap)) (m s : Z) : option (nat * tap) :=
  find (fun it => (t_machine (snd it) =? m) && (t_slot (snd it) =? s)) ts.

(* ---- event classifiers *)

Definition is_tx (i : Z) (e : event) : bool :=
  match e with ETx _ j _ _ _ => j =? i | _ => false end.
Definition is_wire (k : Z) (e : event) : bool :=
  match e with EWire _ _ _ _ k' => k' =? k | _ => false end.
Definition is_dlv (k : Z) (e : event) : bool :=
  match e with EDlv _ _ _ _ _ k' => k' =? k | _ => false end.
Definition is_dlv_to (k tp : Z) (e : event) : bool :=
  match e with EDlv _ _ _ _ tp' k' => (k' =? k) && (tp' =? tp) | _ => false end.
Definition is_rx (k : Z) (e : event) : bool :=
  match e with ERx _ _ _ _ _ _ k' => k' =? k | _ => false end.
Definition is_rx_at (k m s : Z) (e : event) : bool :=
  match e with ERx _ m' s' _ _ _ k' => (k' =? k) && (m' =? m) && (s' =? s) | _ => false end.
Definition on_wire (k : Z) (e : event) : bool := is_wire k e || is_dlv k e || is_rx k e.

Definition count (p : event -> bool) (tr : list event) : Z := Z.of_nat (length (filter p tr)).

Definition mem_mac (m : Z) (l : list tap) : bool := existsb (fun x => t_mac x =? m) l.
Definition b2z (b : bool) : Z := if b then 1 else 0.

(* ---- check 1: the taps report the addresses and MTUs the model's allocator gives *)

Definition tap_events (tr : list event) : list event :=
  filter (fun e => match e with ETap _ _ _ _ _ => true | _ => false end) tr.

Definition event_eqb (a b : event) : bool :=
  match a, b with
  | ETap a1 a2 a3 a4 a5, ETap b1 b2 b3 b4 b5 =>
      (a1 =? b1) && (a2 =? b2) && (a3 =? b3) && (a4 =? b4) && (a5 =? b5)
  | _, _ => false
  end.

Fixpoint list_eqb {A} (eqb : A -> A -> bool) (l1 l2 : list A) : bool :=
  match l1, l2 with
  | [], [] => true
  | a :: r1, b :: r2 => eqb a b && list_eqb eqb r1 r2
  | _, _ => false
  end.

Definition expected_taps (w : list net) (ts : list (nat * tap)) : list event :=
  map (fun it => ETap (t_machine (snd it)) (t_slot (snd it)) (Z.of_nat (fst it)) (t_mac (snd it))
                      (match nth_error w (fst it) with Some n => n_mtu n | None => -1 end)) ts.

Definition check_taps (w : list net) (ts : list (nat * tap)) (tr : list event) : bool :=
  list_eqb event_eqb (tap_events tr) (expected_taps w ts).

(* ---- check 2: every send, against the MTU test, the routing function and the latency *)

Definition wire_ok (ni from to : Z) (e : event) : bool :=
  match e with EWire _ ni' f' t' _ => (ni' =? ni) && (f' =? from) && (t' =? to) | _ => true end.

Definition dlv_ok (ni from to t0 lat : Z) (macs : list tap) (e : event) : bool :=
  match e with
  | EDlv t ni' f' t' tp _ =>
      (ni' =? ni) && (f' =? from) && (t' =? to) && (t0 + lat <=? t) && ((tp =? -1) || mem_mac tp macs)
  | _ => true
  end.

Definition rx_ok (ts : list (nat * tap)) (src dst mtu t0 lat : Z) (e : event) : bool :=
  match e with
  | ERx t m s src' dst' mtu' _ =>
      (src' =? src) && (dst' =? dst) && (mtu' =? mtu) && (t0 + lat <=? t) &&
      match find_tap ts m s with Some _ => true | None => false end
  | _ => true
  end.

Definition check_send (w : list net) (ts : list (nat * tap)) (tr : list event) (i : Z) (s : scfg)
    : bool :=
  match find_tap ts (s_machine s) (s_slot s) with
  | None => false
  | Some (ni, T) =>
    match nth_error w ni with
    | None => false
    | Some n =>
      match filter (is_tx i) tr with
      | [ETx t _ res em key] =>
          (key / HMOD =? s_len s) &&
          match mtu_test n (s_len s) with
          | Err m => (res =? 1) && (em =? m) && (count (on_wire key) tr =? 0)
          | Ok _ =>
              let rcp := route n (dst_of (s_dst s)) in
              (res =? 0) &&
              (count (is_wire key) tr =? 1) &&
              forallb (wire_ok (Z.of_nat ni) (t_mac T) (s_dst s)) (filter (is_wire key) tr) &&
              forallb (dlv_ok (Z.of_nat ni) (t_mac T) (s_dst s) t (n_lat_base n) (n_taps n))
                      (filter (is_dlv key) tr) &&
              forallb (fun T' => count (is_dlv_to key (t_mac T')) tr =? b2z (mem_mac (t_mac T') rcp))
                      (n_taps n) &&
              (count (is_dlv_to key (-1)) tr =? b2z (match rcp with [] => true | _ => false end)) &&
              forallb (rx_ok ts (t_mac T) (s_dst s) (n_mtu n) t (n_lat_base n)) (filter (is_rx key) tr) &&
              forallb (fun it => count (is_rx_at key (t_machine (snd it)) (t_slot (snd it))) tr =?
                                 b2z ((fst it =? ni)%nat && mem_mac (t_mac (snd it)) rcp)) ts
          | _ => false
          end
      | _ => false
      end
    end
  end.

Fixpoint check_sends_from (w : list net) (ts : list (nat * tap)) (tr : list event) (i : Z)
    (ss : list scfg) : bool :=
  match ss with
  | [] => true
  | s :: r => check_send w ts tr i s && check_sends_from w ts tr (i + 1) r
  end.

(* ---- check 3: frames are identified: keys pairwise distinct, no frame nobody sent *)

Definition tx_keys (tr : list event) : list Z :=
  flat_map (fun e => match e with ETx _ _ _ _ k => [k] | _ => [] end) tr.

Fixpoint nodupb (l : list Z) : bool :=
  match l with
  | [] => true
  | a :: r => negb (existsb (Z.eqb a) r) && nodupb r
  end.

Definition known_key (keys : list Z) (e : event) : bool :=
  match e with
  | EWire _ _ _ _ k | EDlv _ _ _ _ _ k | ERx _ _ _ _ _ _ k => existsb (Z.eqb k) keys
  | _ => true
  end.

Definition check_keys (c : cfg) (tr : list event) : bool :=
  nodupb (tx_keys tr) && forallb (known_key (tx_keys tr)) tr &&
  (Z.of_nat (length (tx_keys tr)) =? Z.of_nat (length (c_sends c))).

(* ---- check 4: throughput.  The accepted frames of network ni as (arrival, first delivery,
   length, key), in the order of their tx events *)

Definition dlv_times (k : Z) (tr : list event) : list Z :=
  flat_map (fun e => match e with
                     | EDlv t _ _ _ _ k' => if k' =? k then [t] else []
                     | ERx t _ _ _ _ _ k' => if k' =? k then [t] else []
                     | _ => [] end) tr.

Definition min_list (l : list Z) : option Z :=
  match l with [] => None | a :: r => Some (fold_right Z.min a r) end.

Definition send_net (c : cfg) (ts : list (nat * tap)) (i : Z) : option nat :=
  match nth_error (c_sends c) (Z.to_nat i) with
  | None => None
  | Some s => match find_tap ts (s_machine s) (s_slot s) with
              | Some (ni, _) => Some ni
              | None => None
              end
  end.

Record fr := mkFr { fr_arr : Z; fr_dlv : Z; fr_len : Z; fr_key : Z }.

Definition net_frames (c : cfg) (ts : list (nat * tap)) (tr : list event) (ni : nat) : list fr :=
  flat_map (fun e => match e with
    | ETx t i res _ key =>
        if (res =? 0) && (0 <=? i) &&
           match send_net c ts i with Some n' => (n' =? ni)%nat | None => false end
        then match min_list (dlv_times key tr) with
             | Some d => [mkFr t d (key / HMOD) key]
             | None => []
             end
        else []
    | _ => [] end) tr.

Definition win_bytes (s e : Z) (fs : list fr) : Z :=
  fold_right (fun f acc => (if (s <=? fr_arr f) && (fr_dlv f <=? e) then fr_len f else 0) + acc) 0 fs.

Definition check_window (thr : Z) (fs : list fr) : bool :=
  forallb (fun a => forallb (fun b =>
      (fr_dlv b <? fr_arr a) ||
      (win_bytes (fr_arr a) (fr_dlv b) fs * NS <=? thr * (fr_dlv b - fr_arr a))) fs) fs.

Fixpoint check_thr_from (c : cfg) (ts : list (nat * tap)) (tr : list event) (ni : nat)
    (w : list net) : bool :=
  match w with
  | [] => true
  | n :: r =>
      ((n_thr_base n =? 0) || check_window (thr_max n) (net_frames c ts tr ni)) &&
      check_thr_from c ts tr (S ni) r
  end.

(* ---- check 5: exact instants under virtual time, constant settings: the delivery instants
   are those of [sched] (repaired transmission time, tick g, no scheduler slack, FIFO) *)

Definition job_of (n : net) (f : fr) : job :=
  mkJob (fr_arr f) (fr_len f) (n_thr_base n) (n_lat_base n) 0.

Fixpoint exact_ok (tr : list event) (fs : list fr) (ks : list slot) : bool :=
  match fs, ks with
  | [], [] => true
  | f :: fr', k :: kr => forallb (Z.eqb (k_dlv k)) (dlv_times (fr_key f) tr) && exact_ok tr fr' kr
  | _, _ => false
  end.

Fixpoint check_exact_from (c : cfg) (ts : list (nat * tap)) (tr : list event) (ni : nat)
    (w : list net) : bool :=
  match w with
  | [] => true
  | n :: r =>
      (negb ((n_lat_rand n =? 0) && (n_thr_rand n =? 0)) ||
       let fs := net_frames c ts tr ni in
       exact_ok tr fs (sched tx_time (c_tick c) 0 (map (job_of n) fs))) &&
      check_exact_from c ts tr (S ni) r
  end.

(* ---- the validator *)

Definition validate (c : cfg) (tr : list event) : bool :=
  match build c with
  | Ok (w, ts) =>
      check_taps w ts tr &&
      check_keys c tr &&
      check_sends_from w ts tr 0 (c_sends c) &&
      check_thr_from c ts tr 0 w &&
      ((c_tick c <=? 0) || check_exact_from c ts tr 0 w)
  | _ => false
  end.

(* which check fails first (diagnostics for the driver): 0 = accepted *)
Definition validate_code (c : cfg) (tr : list event) : Z :=
  match build c with
  | Ok (w, ts) =>
      if negb (check_taps w ts tr) then 1
      else if negb (check_keys c tr) then 2
      else if negb (check_sends_from w ts tr 0 (c_sends c)) then 3
      else if negb (check_thr_from c ts tr 0 w) then 4
      else if negb ((c_tick c <=? 0) || check_exact_from c ts tr 0 w) then 5
      else 0
  | _ => 9
  end.

(* the refutation witness on the code as it stands: n frames of len bytes handed over at 0 *)
Definition burst (n : nat) (len thr : Z) : list job := repeat (mkJob 0 len thr 0 0) n.
Definition last_dlv (ks : list slot) : Z := fold_right (fun k acc => Z.max (k_dlv k) acc) 0 ks.
