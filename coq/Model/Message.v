(* Transcription of
     sim/elvis-core/src/message.rs            (Message)
     sim/elvis-core/src/message/chunk.rs      (Chunk)
     sim/elvis-core/src/message/slice_range.rs (SliceRange and the six From impls)
   usize values are N; every usize `+` / `-` is a checked operation that yields
   a Panic value when the dev-profile build would panic; out-of-range slicing
   of the chunk buffer, failed assert! and VecDeque::drain out of range are
   Panic values too.  A buffer (Arc<Vec<u8>>) is a plain [list N] - sharing of
   buffers is NOT visible in this model (see checks/C07.py: structural check +
   pool lock-step). *)
From Elvis Require Import Model.Base.
Local Open Scope N_scope.

Definition USIZE_MAX : N := 18446744073709551615.   (* 2^64 - 1 *)

(* panic sites *)
Definition P_ADD : Z := 1%Z.          (* attempt to add with overflow *)
Definition P_SUB : Z := 2%Z.          (* attempt to subtract with overflow *)
Definition P_INDEX : Z := 3%Z.        (* chunk.rs:30  &self.bytes[start..end] out of range *)
Definition P_ASSERT_SLICE : Z := 4%Z. (* message.rs:93 *)
Definition P_ASSERT_CUT : Z := 5%Z.   (* message.rs:133 *)
Definition P_ASSERT_RF : Z := 6%Z.    (* message.rs:161 *)
Definition P_DRAIN : Z := 7%Z.        (* message.rs:127 drain(i..) with i > len *)

Definition uadd (a b : N) : result N :=
  if a + b <=? USIZE_MAX then Ok (a + b) else Panic P_ADD.
Definition usub (a b : N) : result N :=
  if b <=? a then Ok (a - b) else Panic P_SUB.

(* ------------------------------------------------------------------ chunk.rs *)
Record chunk := mkChunk { c_start : N; c_end : N; c_buf : list N }.

Definition blen (l : list N) : N := N.of_nat (length l).       (* Vec::len *)

(* chunk.rs:20-26 Chunk::new; every From impl (50-84) ends here with a copy of the bytes *)
Definition chunk_new (bytes : list N) : chunk := mkChunk 0 (blen bytes) bytes.

(* chunk.rs:34-36  self.end - self.start *)
Definition chunk_len (c : chunk) : result N := usub (c_end c) (c_start c).

(* the window of the buffer designated by a chunk (total; used by as_slice below and by the abstraction) *)
Definition chunk_bytes (c : chunk) : list N :=
  firstn (N.to_nat (c_end c - c_start c)) (skipn (N.to_nat (c_start c)) (c_buf c)).

(* chunk.rs:29-31  &self.bytes[self.start..self.end] : panics if start > end or end > len *)
Definition chunk_as_slice (c : chunk) : result (list N) :=
  if c_end c <? c_start c then Panic P_INDEX
  else if blen (c_buf c) <? c_end c then Panic P_INDEX
  else Ok (chunk_bytes c).

Definition set_start (c : chunk) (s : N) : chunk := mkChunk s (c_end c) (c_buf c).
Definition set_end (c : chunk) (e : N) : chunk := mkChunk (c_start c) e (c_buf c).

(* ---------------------------------------------------------------- message.rs *)
Record msg := mkMsg { chunks : list chunk; mlen : N }.

(* #[derive(Default)] message.rs:23 : no chunk, len 0 *)
Definition msg_default : msg := mkMsg [] 0.

(* message.rs:38-47 new / new_inner *)
Definition msg_new (body : list N) : result msg :=
  let c := chunk_new body in
  do len <- chunk_len c;                       (* :43 body.len() *)
  Ok (mkMsg [c] len).                          (* :44-46 *)

(* message.rs:60-67 header / header_inner *)
Definition msg_header (m : msg) (header : list N) : result msg :=
  let c := chunk_new header in
  do hl <- chunk_len c;
  do len <- uadd (mlen m) hl;                  (* :65 self.len += header.len() *)
  Ok (mkMsg (c :: chunks m) len).              (* :66 push_front *)

(* message.rs:70-73 concatenate (other is moved in; callers clone) *)
Definition msg_concat (m other : msg) : result msg :=
  do len <- uadd (mlen m) (mlen other);        (* :71 *)
  Ok (mkMsg (chunks m ++ chunks other) len).   (* :72 append *)

(* ---- slice_range.rs: the std range forms accepted by Message::slice *)
Inductive range :=
| RRange (s e : N)        (* s..e   *)
| RFrom (s : N)           (* s..    *)
| RFull                   (* ..     *)
| RIncl (s e : N)         (* s..=e  *)
| RTo (e : N)             (* ..e    *)
| RToIncl (e : N).        (* ..=e   *)

(* SliceRange { start, len: Option<usize> } as a pair *)
Definition range_into (r : range) : result (N * option N) :=
  match r with
  | RRange s e =>                              (* :10-17 ExactSizeIterator::len: 0 when s >= e *)
      Ok (s, Some (if s <? e then e - s else 0))
  | RFrom s => Ok (s, None)                    (* :19-26 *)
  | RFull => Ok (0, None)                      (* :28-35 *)
  | RIncl s e =>                               (* :37-44 range.end() + 1 - range.start() *)
      do e1 <- uadd e 1;
      do l <- usub e1 s;
      Ok (s, Some l)
  | RTo e => Ok (0, Some e)                    (* :46-53 *)
  | RToIncl e =>                               (* :55-62 range.end + 1 *)
      do e1 <- uadd e 1;
      Ok (0, Some e1)
  end.

(* message.rs:97-105  first loop of slice_inner: pop leading chunks with len <= start *)
Fixpoint drop_leading (cs : list chunk) (start : N) : result (list chunk * N) :=
  match cs with
  | [] => Ok ([], start)                       (* front() = None *)
  | h :: t =>
      do hl <- chunk_len h;                    (* :98 *)
      if hl <=? start then                     (* :99 *)
        do s' <- usub start hl;                (* :100 *)
        drop_leading t s'                      (* :101 pop_front *)
      else Ok (cs, start)                      (* :103 break *)
  end.

(* message.rs:108-110  head.start += start *)
Definition bump_head (cs : list chunk) (start : N) : result (list chunk) :=
  match cs with
  | [] => Ok []
  | h :: t => do s <- uadd (c_start h) start; Ok (set_start h s :: t)
  end.

(* message.rs:113-124  third loop: returns the chunk list as mutated in place and the counter i *)
Fixpoint trim_tail (cs : list chunk) (keep : N) : result (list chunk * nat) :=
  match cs with
  | [] => Ok ([], 0%nat)
  | c :: t =>
      do cl <- chunk_len c;                    (* :116-117; i += 1 is the S below *)
      if cl <=? keep then                      (* :118 bytes_to_keep >= chunk_len *)
        do k <- usub keep cl;                  (* :119 *)
        do (t', i) <- trim_tail t k;
        Ok (c :: t', S i)
      else
        do e <- uadd (c_start c) keep;         (* :121 chunk.end = chunk.start + bytes_to_keep *)
        Ok (set_end c e :: t, 1%nat)           (* :122 break *)
  end.

(* message.rs:127  self.chunks.drain(i..) *)
Definition drain_from (i : nat) (cs : list chunk) : result (list chunk) :=
  if (length cs <? i)%nat then Panic P_DRAIN else Ok (firstn i cs).

(* message.rs:91-128 slice_inner *)
Definition msg_slice_inner (m : msg) (start : N) (len : option N) : result msg :=
  do sum <- uadd start (match len with Some l => l | None => 0 end);   (* :93 start + len.unwrap_or(0) *)
  if negb (sum <=? mlen m) then Panic P_ASSERT_SLICE else              (* :93 assert! *)
  do rest <- usub (mlen m) start;              (* :94 the argument of unwrap_or is evaluated eagerly *)
  let newlen := match len with Some l => l | None => rest end in       (* :94 *)
  do (cs1, start1) <- drop_leading (chunks m) start;                  (* :97-105 *)
  do cs2 <- bump_head cs1 start1;                                      (* :108-110 *)
  do (cs3, i) <- trim_tail cs2 newlen;                                (* :113-124 *)
  do cs4 <- drain_from i cs3;                                          (* :127 *)
  Ok (mkMsg cs4 newlen).

(* message.rs:87-89 slice: range.into() runs first *)
Definition msg_slice (m : msg) (r : range) : result msg :=
  do (s, l) <- range_into r;
  msg_slice_inner m s l.

(* message.rs:140-155 loop of cut: returns (what stays in self, chunks of the new message).
   push_back on the new deque = consing in order. *)
Fixpoint cut_loop (cs : list chunk) (to_remove : N) : result (list chunk * list chunk) :=
  match cs with
  | [] => Ok ([], [])                          (* pop_front() = None *)
  | h :: t =>
      do hl <- chunk_len h;                    (* :141 *)
      if hl <=? to_remove then                 (* :142 *)
        do r <- usub to_remove hl;             (* :143 *)
        do (rest, front) <- cut_loop t r;
        Ok (rest, h :: front)                  (* :144 *)
      else
        do front <-
          (if 0 <? to_remove then              (* :146 *)
             do e <- uadd (c_start h) to_remove;        (* :148 *)
             Ok [set_end h e]                  (* :147-149 *)
           else Ok []);
        do s <- uadd (c_start h) to_remove;    (* :151 *)
        Ok (set_start h s :: t, front)         (* :152-153 *)
  end.

(* message.rs:132-158 cut: (self afterwards, returned message) *)
Definition msg_cut (m : msg) (len : N) : result (msg * msg) :=
  if negb (len <=? mlen m) then Panic P_ASSERT_CUT else     (* :133 *)
  do newlen <- usub (mlen m) len;              (* :134 *)
  do (rest, front) <- cut_loop (chunks m) len;
  Ok (mkMsg rest newlen, mkMsg front len).     (* :157 *)

(* message.rs:167-176 loop of remove_front *)
Fixpoint remove_loop (cs : list chunk) (to_remove : N) : result (list chunk) :=
  match cs with
  | [] => Ok []
  | h :: t =>
      do hl <- chunk_len h;                    (* :168 *)
      if hl <=? to_remove then                 (* :169 *)
        do r <- usub to_remove hl;             (* :170 *)
        remove_loop t r                        (* :171 *)
      else
        do s <- uadd (c_start h) to_remove;    (* :173 *)
        Ok (set_start h s :: t)                (* :174 *)
  end.

(* message.rs:160-177 remove_front *)
Definition msg_remove_front (m : msg) (len : N) : result msg :=
  if negb (len <=? mlen m) then Panic P_ASSERT_RF else      (* :161 *)
  do newlen <- usub (mlen m) len;              (* :162 *)
  do cs <- remove_loop (chunks m) len;
  Ok (mkMsg cs newlen).

(* message.rs:180-187 *)
Definition msg_len (m : msg) : N := mlen m.
Definition msg_is_empty (m : msg) : bool := msg_len m =? 0.

(* message.rs:200-204 iter: flat_map over chunk.as_slice() *)
Fixpoint chunks_iter (cs : list chunk) : result (list N) :=
  match cs with
  | [] => Ok []
  | c :: t => do s <- chunk_as_slice c; do r <- chunks_iter t; Ok (s ++ r)
  end.
Definition msg_iter (m : msg) : result (list N) := chunks_iter (chunks m).
(* message.rs:206-208 *)
Definition msg_to_vec (m : msg) : result (list N) := msg_iter m.

Fixpoint bytes_eqb (a b : list N) : bool :=
  match a, b with
  | [], [] => true
  | x :: a', y :: b' => (x =? y) && bytes_eqb a' b'
  | _, _ => false
  end.

(* message.rs:226-230 PartialEq: self.iter().eq(other.iter()).  The iterators are lazy in
   Rust; the order in which an as_slice panic would surface is immaterial because
   MessageFacts.iter_ok shows that no such panic exists for well-formed messages. *)
Definition msg_eq (m1 m2 : msg) : result bool :=
  do a <- msg_iter m1; do b <- msg_iter m2; Ok (bytes_eqb a b).

(* ------------------------------------------------------------ pool of messages
   The lock-step harness keeps a pool of messages; an op names its slots.
   A bad slot number is a malformed case (Err 1), not a behaviour of the code. *)
Inductive op :=
| ONew (d : nat) (b : list N)        (* pool[d] = Message::new(b) *)
| OClone (d i : nat)                 (* pool[d] = pool[i].clone() *)
| OHeader (i : nat) (b : list N)     (* pool[i].header(b) *)
| OConcat (i j : nat)                (* pool[i].concatenate(pool[j].clone()) *)
| OSlice (i : nat) (r : range)       (* pool[i].slice(r) *)
| OCut (d i : nat) (n : N)           (* let x = pool[i].cut(n); pool[d] = x *)
| ORemoveFront (i : nat) (n : N).    (* pool[i].remove_front(n) *)

Section Pool.
  Context {A : Type}.
  Definition pget (pool : list A) (i : nat) : result A :=
    match nth_error pool i with Some m => Ok m | None => Err 1%Z end.
  Fixpoint upd (d : nat) (x : A) (pool : list A) : list A :=
    match pool, d with
    | [], _ => []
    | _ :: t, O => x :: t
    | h :: t, S d' => h :: upd d' x t
    end.
  Definition pset (pool : list A) (d : nat) (x : A) : result (list A) :=
    if (d <? length pool)%nat then Ok (upd d x pool) else Err 1%Z.
End Pool.

Definition step (o : op) (pool : list msg) : result (list msg) :=
  match o with
  | ONew d b => do m <- msg_new b; pset pool d m
  | OClone d i => do m <- pget pool i; pset pool d m
  | OHeader i b => do m <- pget pool i; do m' <- msg_header m b; pset pool i m'
  | OConcat i j => do m <- pget pool i; do o <- pget pool j; do m' <- msg_concat m o; pset pool i m'
  | OSlice i r => do m <- pget pool i; do m' <- msg_slice m r; pset pool i m'
  | OCut d i n => do m <- pget pool i; do (rest, front) <- msg_cut m n;
                  do p1 <- pset pool i rest; pset p1 d front
  | ORemoveFront i n => do m <- pget pool i; do m' <- msg_remove_front m n; pset pool i m'
  end.

(* a panicking op ends the run *)
Fixpoint run_pool (ops : list op) (pool : list msg) : result (list msg) :=
  match ops with
  | [] => Ok pool
  | o :: t => do p <- step o pool; run_pool t p
  end.

(* slots an op may write *)
Definition targets (o : op) : list nat :=
  match o with
  | ONew d _ => [d] | OClone d _ => [d] | OHeader i _ => [i] | OConcat i _ => [i]
  | OSlice i _ => [i] | OCut d i _ => [d; i] | ORemoveFront i _ => [i]
  end.

(* ------------------------------------------------------------------ abstraction *)
Definition bytes_of (m : msg) : list N := flat_map chunk_bytes (chunks m).

Definition is_vec (b : list N) : Prop := blen b <= USIZE_MAX.   (* a Vec<u8>: len <= isize::MAX *)

Definition WFchunk (c : chunk) : Prop :=
  c_start c <= c_end c /\ c_end c <= blen (c_buf c) /\ is_vec (c_buf c).
Definition WF (m : msg) : Prop :=
  Forall WFchunk (chunks m) /\ mlen m = blen (bytes_of m) /\ mlen m <= USIZE_MAX.

(* ------------------------------------------------- reference: plain byte vectors
   What the same operations do on a Vec<u8> (std semantics):
   v[r].to_vec() for slicing, drain(..n) for cut / remove_front, append for
   header / concatenate.  Panic when std panics.  (A Vec cannot exceed
   isize::MAX bytes; the reference uses the weaker usize::MAX bound so that it
   panics exactly where `self.len +=` overflows.) *)
Definition P_VEC : Z := 100%Z.

Definition vappend (a b : list N) : result (list N) :=
  if blen a + blen b <=? USIZE_MAX then Ok (a ++ b) else Panic P_VEC.

Definition vsub (v : list N) (s e : N) : result (list N) :=       (* v[s..e] *)
  if e <? s then Panic P_VEC                    (* slice index starts at s but ends at e *)
  else if blen v <? e then Panic P_VEC          (* range end index e out of range *)
  else Ok (firstn (N.to_nat (e - s)) (skipn (N.to_nat s) v)).

Definition vslice (v : list N) (r : range) : result (list N) :=
  match r with
  | RRange s e => vsub v s e
  | RFrom s => vsub v s (blen v)
  | RFull => Ok v
  | RIncl s e => if USIZE_MAX <=? e then Panic P_VEC else vsub v s (e + 1)
  | RTo e => vsub v 0 e
  | RToIncl e => if USIZE_MAX <=? e then Panic P_VEC else vsub v 0 (e + 1)
  end.

(* (what stays, what is split off) *)
Definition vcut (v : list N) (n : N) : result (list N * list N) :=
  if blen v <? n then Panic P_VEC else Ok (skipn (N.to_nat n) v, firstn (N.to_nat n) v).

Definition vstep (o : op) (pool : list (list N)) : result (list (list N)) :=
  match o with
  | ONew d b => pset pool d b
  | OClone d i => do v <- pget pool i; pset pool d v
  | OHeader i b => do v <- pget pool i; do v' <- vappend b v; pset pool i v'
  | OConcat i j => do v <- pget pool i; do w <- pget pool j; do v' <- vappend v w; pset pool i v'
  | OSlice i r => do v <- pget pool i; do v' <- vslice v r; pset pool i v'
  | OCut d i n => do v <- pget pool i; do (rest, front) <- vcut v n;
                  do p1 <- pset pool i rest; pset p1 d front
  | ORemoveFront i n => do v <- pget pool i; do (rest, _) <- vcut v n; pset pool i rest
  end.

Fixpoint run_vecs (ops : list op) (pool : list (list N)) : result (list (list N)) :=
  match ops with
  | [] => Ok pool
  | o :: t => do p <- vstep o pool; run_vecs t p
  end.

(* side conditions of the refinement: byte literals are Vecs; `s..e` is not inverted
   (for s > e the code differs from Vec, see C07_inverted_range_remark) *)
Definition range_ok (r : range) : Prop :=
  match r with RRange s e => s <= e | _ => True end.
Definition op_ok (o : op) : Prop :=
  match o with
  | ONew _ b => is_vec b | OHeader _ b => is_vec b | OSlice _ r => range_ok r | _ => True
  end.
