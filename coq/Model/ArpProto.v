(* C06 - decision logic of sim/elvis-core/src/protocols/arp.rs as a timed labelled transition
   system over one network (one tap per machine).

   What is transcribed (line numbers of arp.rs):
     Arp::resolve   :168-224   [start_resolve] (the synchronous prefix up to the first await) and
                               [poll_resolve] (one poll of `timeout(RESEND_DELAY, get_mac(dest))`:
                               tokio's Timeout polls the inner future first and the deadline second,
                               get_mac :304-314 returns as soon as the table has an entry)
     Arp::demux     :81-132    [demux]
     Arp::listen    :242-248   [listen]     Arp::set_subnet :236-238 [set_subnet]
     ArpTable::set_mac/fail_mac/get_clone :289-297,318-320  point updates / lookup of [ms_table]
     send_arp_request :63-67, ArpPacket::new_request/new_reply (arp_parsing.rs:48-84)
     PciSession::send_pci (pci_session.rs:88-110): MTU check, then the frame is in flight
     Network::send (network.rs:116-152): None / BROADCAST_MAC -> every tap (the sender's own tap
                               included), Some(mac) -> the tap that owns mac, nobody otherwise
   Conventions
     * machines are indices into [cfg_machs]; an Ipv4Address is its u32 (Model/Subnet.v), a Mac a
       number; packets are the parsed ArpPacket fields (the wire codec is property C08)
     * time is virtual time in nanoseconds; every label carries the instant at which it happens
     * a frame in flight is one (packet, receiving machine) copy per receiving tap, so any loss,
       duplication, delay or reordering of frames - also per receiver - is a label sequence
     * [ms_flipped] and the fields r_sub, r_born, PDone's instant and cause are ghost (history)
       state: they are written, never read by a guard or a data path
   No proofs in this file. *)
From Coq Require Import NArith ZArith List Bool.
From Elvis Require Import Model.Base Model.Subnet.
Import ListNotations.

(* ---- constants *)
Definition RESEND_TRIES : N := 10%N.                 (* arp.rs:139 *)
Definition RESEND_DELAY : Z := 200000000%Z.          (* arp.rs:137, 200 ms in ns *)
Definition ARP_SIZE : N := 28%N.                     (* arp_parsing.rs:45 *)
Definition BROADCAST_MAC : N := 281474976710655%N.   (* network.rs:58 0xFF_FF_FF_FF_FF_FF *)
Definition REQUEST_TARGET_MAC : N := 69%N.           (* arp_parsing.rs:61 *)

(* ---- panic sites / guard errors *)
Definition site_open_slot : Z := 1%Z.    (* arp.rs:207-210 -> pci.rs:45 sessions.get(slot).unwrap() *)
Definition err_time      : Z := 1%Z.     (* label instant violates monotonicity / urgency *)
Definition err_machine   : Z := 2%Z.     (* no such machine *)
Definition err_claim     : Z := 3%Z.     (* address is not among the machine's configured claims *)
Definition err_rid       : Z := 4%Z.     (* resolver id already used / unknown / not waiting *)
Definition err_spurious  : Z := 5%Z.     (* poll of a resolver that is neither ready nor due *)
Definition err_frame     : Z := 6%Z.     (* no such frame in flight *)

(* ---- data *)
Record subnet_info : Type := mkSn { sn_mask : N; sn_gw : N }.          (* subnetting.rs:366 *)
Record pair : Type := mkPair { p_local : N; p_remote : N }.            (* AddressPair *)
Inductive status : Type := SOk (mac : N) | SFailed.                    (* MacStatus, arp.rs:286 *)
Inductive oper : Type := Request | Reply.
Record packet : Type := mkPkt
  { pk_oper : oper; pk_smac : N; pk_sip : N; pk_tmac : N; pk_tip : N }.

Definition oper_eqb (a b : oper) : bool :=
  match a, b with Request, Request => true | Reply, Reply => true | _, _ => false end.
Definition packet_eqb (a b : packet) : bool :=
  oper_eqb (pk_oper a) (pk_oper b) && (pk_smac a =? pk_smac b)%N && (pk_sip a =? pk_sip b)%N &&
  (pk_tmac a =? pk_tmac b)%N && (pk_tip a =? pk_tip b)%N.
Definition status_eqb (a b : status) : bool :=
  match a, b with
  | SOk x, SOk y => (x =? y)%N
  | SFailed, SFailed => true
  | _, _ => false
  end.

(* ---- configuration *)
Record mconf : Type := mkMc
  { mc_mac : N;                              (* MAC of the machine's tap *)
    mc_claims : list N;                      (* addresses the machine may listen on *)
    mc_pre : list (N * subnet_info) }.       (* Arp::preconfig_subnet :229 *)
Record config : Type := mkCfg { cfg_machs : list mconf; cfg_mtu : N }.

Definition mc_default : mconf := mkMc BROADCAST_MAC [] [].
Definition mconf_of (cfg : config) (m : nat) : mconf := nth m (cfg_machs cfg) mc_default.
Definition n_machs (cfg : config) : nat := length (cfg_machs cfg).
Definition mac_of (cfg : config) (m : nat) : N := mc_mac (mconf_of cfg m).
Definition claims_of (cfg : config) (m : nat) : list N := mc_claims (mconf_of cfg m).
Definition claimsb (cfg : config) (m : nat) (ip : N) : bool :=
  existsb (fun x => (x =? ip)%N) (claims_of cfg m).
Definition all_machs (cfg : config) : list nat := seq 0 (n_machs cfg).

(* ---- per-machine and global state *)
Record mstate : Type := mkMs
  { ms_local : N -> option (option subnet_info);    (* arp.rs:54 local_ips *)
    ms_table : N -> option status;                   (* arp.rs:281 ArpTable.table *)
    ms_flipped : N -> bool }.                        (* ghost: a cached failure was overwritten *)

Inductive cause : Type :=
| CCache      (* the table had an entry (at the start :202, or when polled :216-218) *)
| CBudget     (* RESEND_TRIES timeouts elapsed :221-223 *)
| CSend.      (* send_arp_request failed :213 `?` *)

Inductive phase : Type :=
| PWait (tries : N) (deadline : Z)     (* inside the loop :212, `tries` requests sent so far *)
| PDone (st : status) (at_ : Z) (c : cause).

Record resolver : Type := mkRes
  { r_mach : nat; r_pair : pair; r_sub : option subnet_info; r_dest : N; r_born : Z;
    r_phase : phase }.

Record state : Type := mkSt
  { st_now : Z;
    st_machs : nat -> mstate;
    st_res : N -> option resolver;
    st_rids : list N;                    (* ids in use, newest first *)
    st_net : list (packet * nat) }.      (* frames in flight: (packet, receiving machine) *)

Definition upd {A} (f : N -> A) (k : N) (v : A) : N -> A :=
  fun x => if (x =? k)%N then v else f x.
Definition updn {A} (f : nat -> A) (k : nat) (v : A) : nat -> A :=
  fun x => if Nat.eqb x k then v else f x.

Definition pre_lookup (l : list (N * subnet_info)) (ip : N) : option (option subnet_info) :=
  match find (fun e => (fst e =? ip)%N) l with
  | Some e => Some (Some (snd e))
  | None => None
  end.

Definition init_mstate (cfg : config) (m : nat) : mstate :=
  mkMs (pre_lookup (mc_pre (mconf_of cfg m))) (fun _ => None) (fun _ => false).
Definition init (cfg : config) : state :=
  mkSt 0%Z (init_mstate cfg) (fun _ => None) [] [].

(* ---- arp.rs:242-248 listen: insert None only when vacant *)
Definition listen (ms : mstate) (ip : N) : mstate :=
  match ms_local ms ip with
  | Some _ => ms
  | None => mkMs (upd (ms_local ms) ip (Some None)) (ms_table ms) (ms_flipped ms)
  end.
(* arp.rs:236-238 *)
Definition set_subnet (ms : mstate) (ip : N) (sn : subnet_info) : mstate :=
  mkMs (upd (ms_local ms) ip (Some (Some sn))) (ms_table ms) (ms_flipped ms).
(* arp.rs:289-292; the ghost flag records that a cached failure is being replaced *)
Definition set_mac (ms : mstate) (ip mac : N) : mstate :=
  mkMs (ms_local ms) (upd (ms_table ms) ip (Some (SOk mac)))
       (match ms_table ms ip with
        | Some SFailed => upd (ms_flipped ms) ip true
        | _ => ms_flipped ms
        end).
(* arp.rs:294-297 *)
Definition fail_mac (ms : mstate) (ip : N) : mstate :=
  mkMs (ms_local ms) (upd (ms_table ms) ip (Some SFailed)) (ms_flipped ms).

(* ---- arp.rs:185-200 : which address is looked up *)
Definition target (sub : option subnet_info) (p : pair) : N :=
  match sub with
  | Some sn =>
      if negb (net_id (net_new (p_local p) (sn_mask sn)) =? net_id (net_new (p_remote p) (sn_mask sn)))%N
      then sn_gw sn                                             (* :194-197 *)
      else p_remote p
  | None => p_remote p
  end.

(* ---- network.rs:116-152 *)
Definition with_mac (cfg : config) (mac : N) : list nat :=
  filter (fun i => (mac_of cfg i =? mac)%N) (all_machs cfg).
Definition route (cfg : config) (dst : option N) (p : packet) : list (packet * nat) :=
  match dst with
  | None => map (fun i => (p, i)) (all_machs cfg)
  | Some d =>
      if (d =? BROADCAST_MAC)%N then map (fun i => (p, i)) (all_machs cfg)
      else map (fun i => (p, i)) (with_mac cfg d)
  end.
(* pci_session.rs:94-96 then :106 *)
Definition send_pci (cfg : config) (dst : option N) (p : packet) : option (list (packet * nat)) :=
  if (cfg_mtu cfg <? ARP_SIZE)%N then None else Some (route cfg dst p).

(* arp.rs:63-67 *)
Definition request_of (cfg : config) (m : nat) (local dest : N) : packet :=
  mkPkt Request (mac_of cfg m) local REQUEST_TARGET_MAC dest.
(* arp.rs:114-119 *)
Definition reply_of (cfg : config) (m : nat) (req : packet) : packet :=
  mkPkt Reply (mac_of cfg m) (pk_tip req) (pk_smac req) (pk_sip req).

(* ---- arp.rs:81-132.  The two `expect`s (:107-112) cannot fail for a frame that arrives through
   PciSession::receive (it inserts DemuxInfo, and the slot is the receiving tap's own). *)
Definition demux (cfg : config) (m : nat) (ms : mstate) (p : packet) : mstate * list (packet * nat) :=
  let ms1 := set_mac ms (pk_sip p) (pk_smac p) in                     (* :102 *)
  match pk_oper p, ms_local ms1 (pk_tip p) with
  | Request, Some _ =>                                                  (* :106 *)
      match send_pci cfg (Some (pk_smac p)) (reply_of cfg m p) with     (* :120-124 *)
      | Some fr => (ms1, fr)
      | None => (ms1, [])                                               (* :126-128 logged only *)
      end
  | _, _ => (ms1, [])
  end.

(* ---- labels *)
Inductive label : Type :=
| LListen (m : nat) (ip : N)
| LSetSubnet (m : nat) (ip : N) (sn : subnet_info)
| LStart (m : nat) (r : N) (p : pair) (slot : N)
| LPoll (r : N)
| LDeliver (p : packet) (m : nat)
| LDrop (p : packet) (m : nat)
| LDup (p : packet) (m : nat).

(* ---- time guard: instants do not go backwards; virtual time does not pass a pending deadline,
   and does not advance at all while a waiting resolver has its answer in the table (its task is
   runnable) *)
Definition res_time_ok (s : state) (t : Z) (rid : N) : bool :=
  match st_res s rid with
  | Some r =>
      match r_phase r with
      | PWait _ dl =>
          (t <=? dl)%Z &&
          match ms_table (st_machs s (r_mach r)) (r_dest r) with
          | Some _ => (t <=? st_now s)%Z
          | None => true
          end
      | PDone _ _ _ => true
      end
  | None => true
  end.
Definition time_ok (s : state) (t : Z) : bool :=
  (st_now s <=? t)%Z && forallb (res_time_ok s t) (st_rids s).

Fixpoint remove1 (p : packet) (m : nat) (l : list (packet * nat)) : option (list (packet * nat)) :=
  match l with
  | [] => None
  | (q, k) :: l' =>
      if packet_eqb p q && Nat.eqb m k then Some l'
      else match remove1 p m l' with Some r => Some ((q, k) :: r) | None => None end
  end.

Definition set_mach (s : state) (t : Z) (m : nat) (ms : mstate) (extra : list (packet * nat)) : state :=
  mkSt t (updn (st_machs s) m ms) (st_res s) (st_rids s) (st_net s ++ extra).

(* ---- arp.rs:168-220, up to the first await *)
Definition start_resolve (cfg : config) (s : state) (t : Z) (m : nat) (rid : N) (p : pair) (slot : N)
  : result state :=
  let ms := listen (st_machs s m) (p_local p) in                              (* :178 *)
  let sub := match ms_local ms (p_local p) with Some inner => inner | None => None end in  (* :185-190 *)
  let dest := target sub p in                                                  (* :192-200 *)
  let mk ph ms' net' :=
    mkSt t (updn (st_machs s) m ms')
         (upd (st_res s) rid (Some (mkRes m p sub dest t ph))) (rid :: st_rids s) net' in
  match ms_table ms dest with
  | Some st => Ok (mk (PDone st t CCache) ms (st_net s))                       (* :202-204 *)
  | None =>
      if (1 <=? slot)%N then Panic site_open_slot                              (* :207-210 *)
      else
        match send_pci cfg None (request_of cfg m (p_local p) dest) with       (* :213 *)
        | None => Ok (mk (PDone SFailed t CSend) ms (st_net s))                (* `?` *)
        | Some fr => Ok (mk (PWait 1 (t + RESEND_DELAY)) ms (st_net s ++ fr))  (* :215-216 *)
        end
  end.

(* ---- one poll of the future `timeout(RESEND_DELAY, get_mac(dest))` at instant t (:216-223) *)
Definition poll_resolve (cfg : config) (s : state) (t : Z) (rid : N) : result state :=
  match st_res s rid with
  | None => Err err_rid
  | Some r =>
      match r_phase r with
      | PDone _ _ _ => Err err_rid
      | PWait k dl =>
          let m := r_mach r in
          let ms := st_machs s m in
          let fin ph ms' net' :=
            mkSt t (updn (st_machs s) m ms')
                 (upd (st_res s) rid (Some (mkRes m (r_pair r) (r_sub r) (r_dest r) (r_born r) ph)))
                 (st_rids s) net' in
          match ms_table ms (r_dest r) with
          | Some st => Ok (fin (PDone st t CCache) ms (st_net s))              (* :217-218 *)
          | None =>
              if negb (t =? dl)%Z then Err err_spurious                        (* still pending *)
              else if (k <? RESEND_TRIES)%N then                               (* :212 next round *)
                match send_pci cfg None (request_of cfg m (p_local (r_pair r)) (r_dest r)) with
                | None => Ok (fin (PDone SFailed t CSend) ms (st_net s))
                | Some fr => Ok (fin (PWait (k + 1) (t + RESEND_DELAY)) ms (st_net s ++ fr))
                end
              else                                                             (* :221-223 *)
                Ok (fin (PDone SFailed t CBudget) (fail_mac ms (r_dest r)) (st_net s))
          end
      end
  end.

Definition step (cfg : config) (s : state) (tl : Z * label) : result state :=
  let (t, l) := tl in
  if negb (time_ok s t) then Err err_time else
  match l with
  | LListen m ip =>
      if negb (Nat.ltb m (n_machs cfg)) then Err err_machine
      else if negb (claimsb cfg m ip) then Err err_claim
      else Ok (set_mach s t m (listen (st_machs s m) ip) [])
  | LSetSubnet m ip sn =>
      if negb (Nat.ltb m (n_machs cfg)) then Err err_machine
      else if negb (claimsb cfg m ip) then Err err_claim
      else Ok (set_mach s t m (set_subnet (st_machs s m) ip sn) [])
  | LStart m rid p slot =>
      if negb (Nat.ltb m (n_machs cfg)) then Err err_machine
      else if negb (claimsb cfg m (p_local p)) then Err err_claim
      else match st_res s rid with
           | Some _ => Err err_rid
           | None => start_resolve cfg s t m rid p slot
           end
  | LPoll rid => poll_resolve cfg s t rid
  | LDeliver p m =>
      match remove1 p m (st_net s) with
      | None => Err err_frame
      | Some net' =>
          let (ms', fr) := demux cfg m (st_machs s m) p in
          Ok (mkSt t (updn (st_machs s) m ms') (st_res s) (st_rids s) (net' ++ fr))
      end
  | LDrop p m =>
      match remove1 p m (st_net s) with
      | None => Err err_frame
      | Some net' => Ok (mkSt t (st_machs s) (st_res s) (st_rids s) net')
      end
  | LDup p m =>
      match remove1 p m (st_net s) with
      | None => Err err_frame
      | Some _ => Ok (mkSt t (st_machs s) (st_res s) (st_rids s) (st_net s ++ [(p, m)]))
      end
  end.

Fixpoint run (cfg : config) (s : state) (tr : list (Z * label)) : result state :=
  match tr with
  | [] => Ok s
  | x :: tr' => do s' <- step cfg s x; run cfg s' tr'
  end.

(* ---- well-formed configurations (decidable) *)
Fixpoint nodupb (l : list N) : bool :=
  match l with
  | [] => true
  | x :: l' => negb (existsb (fun y => (y =? x)%N) l') && nodupb l'
  end.
Definition wf_cfgb (cfg : config) : bool :=
  nodupb (concat (map mc_claims (cfg_machs cfg))) &&          (* claimed addresses are distinct *)
  nodupb (map mc_mac (cfg_machs cfg)) &&                      (* one MAC per tap *)
  forallb (fun mc => (mc_mac mc <? BROADCAST_MAC)%N) (cfg_machs cfg) &&
  forallb (fun mc => forallb (fun e => existsb (fun x => (x =? fst e)%N) (mc_claims mc)) (mc_pre mc))
          (cfg_machs cfg).

(* ---- trace validation *)
Record obs : Type := mkObs { o_rid : N; o_status : status; o_at : Z }.

Definition check_obs (s : state) (o : obs) : bool :=
  match st_res s (o_rid o) with
  | Some r =>
      match r_phase r with
      | PDone st t _ => status_eqb st (o_status o) && (t =? o_at o)%Z
      | PWait _ _ => false
      end
  | None => false
  end.
Definition observed (os : list obs) (rid : N) : bool :=
  existsb (fun o => (o_rid o =? rid)%N) os.

Inductive verdict : Type :=
| Accept
| RejectCfg                         (* configuration outside the property's quantifier *)
| RejectStep (n : nat) (e : Z)      (* label number n is not a move of the model (error e) *)
| RejectPanic (n : nat) (site : Z)  (* the model panics at label n *)
| RejectObs (rid : N)               (* an observed result differs from the model's *)
| RejectMissing (rid : N)           (* a resolver of the run has no observed result *)
| RejectLeftover (p : packet) (m : nat).  (* a frame of the model was never delivered or dropped *)

Fixpoint run_v (cfg : config) (s : state) (tr : list (Z * label)) (n : nat) : state + verdict :=
  match tr with
  | [] => inl s
  | x :: tr' =>
      match step cfg s x with
      | Ok s' => run_v cfg s' tr' (S n)
      | Err e => inr (RejectStep n e)
      | Panic k => inr (RejectPanic n k)
      | OutOfFuel => inr (RejectStep n 0%Z)
      end
  end.

Definition validate (cfg : config) (tr : list (Z * label)) (os : list obs) : verdict :=
  if negb (wf_cfgb cfg) then RejectCfg else
  match run_v cfg (init cfg) tr 0 with
  | inr v => v
  | inl s =>
      match find (fun o => negb (check_obs s o)) os with
      | Some o => RejectObs (o_rid o)
      | None =>
          match find (fun rid => negb (observed os rid)) (st_rids s) with
          | Some rid => RejectMissing rid
          | None =>
              match st_net s with
              | [] => Accept
              | (p, m) :: _ => RejectLeftover p m
              end
          end
      end
  end.

(* order-insensitive validation of results only (multi-thread runs): every returned MAC is the
   MAC of the machine that may claim the looked-up address *)
Record robs : Type := mkRobs { ro_mach : nat; ro_pair : pair; ro_sub : option subnet_info; ro_status : status }.
Definition owner_macs (cfg : config) (ip : N) : list N :=
  map (mac_of cfg) (filter (fun i => claimsb cfg i ip) (all_machs cfg)).
Definition check_robs (cfg : config) (o : robs) : bool :=
  match ro_status o with
  | SOk mac => existsb (fun x => (x =? mac)%N) (owner_macs cfg (target (ro_sub o) (ro_pair o)))
  | SFailed => true
  end.
Definition validate_results (cfg : config) (os : list robs) : bool :=
  wf_cfgb cfg && forallb (check_robs cfg) os.
