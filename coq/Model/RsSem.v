(* Semantics of the primitive operators of the Rust subset translated by tools/rs2gallina.py.

   The files coq/Gen/*Gen.v written by that translator refer to nothing but these definitions and
   Model/Base.v (result, do-notation).  An unsigned integer of width w is a [Z] in 0 .. 2^w-1, a
   fixed-size array or an `impl Iterator<Item = u8>` is a [list Z], a bool is a [bool].

   Dev-profile semantics (debug assertions on, as the test and simulation builds of /repo use):
     a + b, a - b, a * b   on uN : panic on overflow / underflow        -> ck_add / ck_sub / ck_mul
     a << s, a >> s              : panic when s >= N, else bits shifted out are dropped
     a / b, a % b                : panic when b = 0
     a.wrapping_*(b)             : reduction mod 2^N
     a.overflowing_add(b)        : (wrapped sum, carry flag)
     !a                          : 2^N - 1 - a
     a as uM                     : reduction mod 2^M (identity when M >= N); bool as uM : 0 / 1
   Every panic carries the site number the translator assigned (ordinal of the operator inside
   its function, in evaluation order).  No proofs in this file. *)
From Elvis Require Import Model.Base.
Local Open Scope Z_scope.

Definition in_u (w x : Z) : Prop := 0 <= x < 2 ^ w.
Definition in_ub (w x : Z) : bool := (0 <=? x) && (x <? 2 ^ w).

(* ---- checked arithmetic ------------------------------------------------ *)
Definition ck_add (w site a b : Z) : result Z :=
  if 2 ^ w <=? a + b then Panic site else Ok (a + b).
Definition ck_sub (w site a b : Z) : result Z :=
  if a <? b then Panic site else Ok (a - b).
Definition ck_mul (w site a b : Z) : result Z :=
  if 2 ^ w <=? a * b then Panic site else Ok (a * b).
Definition ck_udiv (site a b : Z) : result Z :=
  if b =? 0 then Panic site else Ok (a / b).
Definition ck_urem (site a b : Z) : result Z :=
  if b =? 0 then Panic site else Ok (a mod b).
(* w = width of the LEFT operand; the shift amount may be of any unsigned type *)
Definition ck_shl (w site a s : Z) : result Z :=
  if (s <? 0) || (w <=? s) then Panic site else Ok (Z.shiftl a s mod 2 ^ w).
Definition ck_shr (w site a s : Z) : result Z :=
  if (s <? 0) || (w <=? s) then Panic site else Ok (Z.shiftr a s).
(* shift by a literal below the width: cannot panic *)
Definition shl_k (w a k : Z) : Z := Z.shiftl a k mod 2 ^ w.
Definition shr_k (a k : Z) : Z := Z.shiftr a k.

(* ---- never-panicking arithmetic ---------------------------------------- *)
Definition w_add (w a b : Z) : Z := (a + b) mod 2 ^ w.
Definition w_sub (w a b : Z) : Z := (a - b) mod 2 ^ w.
Definition w_mul (w a b : Z) : Z := (a * b) mod 2 ^ w.
Definition ovf_add (w a b : Z) : Z * bool := ((a + b) mod 2 ^ w, 2 ^ w <=? a + b).
Definition ovf_sub (w a b : Z) : Z * bool := ((a - b) mod 2 ^ w, a <? b).
Definition sat_add (w a b : Z) : Z := if 2 ^ w <=? a + b then 2 ^ w - 1 else a + b.
Definition sat_sub (a b : Z) : Z := if a <? b then 0 else a - b.
Definition u_not (w a : Z) : Z := 2 ^ w - 1 - a.
Definition u_min (a b : Z) : Z := if a <=? b then a else b.
Definition u_max (a b : Z) : Z := if a <=? b then b else a.

(* ---- casts --------------------------------------------------------------- *)
Definition cast_u (w a : Z) : Z := a mod 2 ^ w.          (* `a as uW`, W narrower than the type of a *)
Definition b2u (b : bool) : Z := if b then 1 else 0.       (* `b as uW` *)

(* ---- bit counting -------------------------------------------------------- *)
Fixpoint pos_ones (p : positive) : Z :=
  match p with
  | xH => 1
  | xO q => pos_ones q
  | xI q => 1 + pos_ones q
  end.
Definition count_ones (a : Z) : Z := match a with Zpos p => pos_ones p | _ => 0 end.
Definition count_zeros (w a : Z) : Z := w - count_ones a.
Fixpoint pos_tz (p : positive) : Z :=
  match p with
  | xO q => 1 + pos_tz q
  | _ => 0
  end.
Definition trailing_zeros (w a : Z) : Z := match a with Zpos p => pos_tz p | _ => w end.
Definition leading_zeros (w a : Z) : Z := match a with Zpos _ => w - 1 - Z.log2 a | _ => w end.

(* ---- byte order ---------------------------------------------------------- *)
(* uN::from_be_bytes on an array of N/8 bytes *)
Definition from_be (bs : list Z) : Z := fold_left (fun acc b => acc * 256 + b) bs 0.
(* uN::to_be_bytes: n = N/8 bytes, most significant first *)
Fixpoint to_be (n : nat) (a : Z) : list Z :=
  match n with
  | O => []
  | S k => (a / 256 ^ Z.of_nat k) mod 256 :: to_be k a
  end.

(* ---- arrays, iterators, options ------------------------------------------ *)
(* a[i] with a literal index the translator has checked against the declared length *)
Definition arr_get (a : list Z) (i : nat) : Z := nth i a 0.
(* a[i] with a computed index: out of range panics *)
Definition ck_get (site : Z) (a : list Z) (i : Z) : result Z :=
  if (i <? 0) || (Z.of_nat (length a) <=? i) then Panic site else Ok (nth (Z.to_nat i) a 0).
(* Iterator::next on a fused, finite iterator = the list of the items still to come *)
Definition iter_next (l : list Z) : option Z * list Z :=
  match l with
  | [] => (None, [])
  | a :: r => (Some a, r)
  end.
Definition unwrap_or {A : Type} (o : option A) (d : A) : A :=
  match o with Some a => a | None => d end.
(* Option::unwrap / expect *)
Definition ck_unwrap {A : Type} (site : Z) (o : option A) : result A :=
  match o with Some a => Ok a | None => Panic site end.
(* Result::or(Err(e)) : an error value is replaced, a panic stays a panic *)
Definition or_err {A : Type} (r : result A) (e : Z) : result A :=
  match r with
  | Ok a => Ok a
  | Err _ => Err e
  | Panic s => Panic s
  | OutOfFuel => OutOfFuel
  end.
(* assert!(c) *)
Definition ck_assert (site : Z) (c : bool) : result unit :=
  if c then Ok tt else Panic site.

(* ---- derived comparisons -------------------------------------------------- *)
(* #[derive(PartialEq)] on arrays / newtypes of arrays *)
Fixpoint list_eqb (x y : list Z) : bool :=
  match x, y with
  | [], [] => true
  | a :: x', b :: y' => (a =? b) && list_eqb x' y'
  | _, _ => false
  end.
(* #[derive(PartialOrd, Ord)] on arrays / newtypes of arrays: lexicographic *)
Fixpoint lex_cmp (x y : list Z) : comparison :=
  match x, y with
  | [], [] => Eq
  | [], _ => Lt
  | _, [] => Gt
  | a :: x', b :: y' => match a ?= b with Eq => lex_cmp x' y' | c => c end
  end.
Definition lex_leb (x y : list Z) : bool := match lex_cmp x y with Gt => false | _ => true end.
Definition lex_ltb (x y : list Z) : bool := match lex_cmp x y with Lt => true | _ => false end.
