From Coq Require Import Extraction ExtrOcamlBasic.
From Elvis Require Import Model.Base Model.Startup.
Extraction Language OCaml.
Extraction "../ocaml/gen/startup_model.ml" builtin_table offenders shutdown_panickers disciplined validate validate_crash predict run_with_timeout run init.
