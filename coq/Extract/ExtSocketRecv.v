From Coq Require Import Extraction ExtrOcamlBasic.
From Elvis Require Import Model.Base Model.SocketRecv.
Extraction Language OCaml.
Extraction "../ocaml/gen/sockrecv_model.ml" recv recv_msg push accept_replay listen demux notify accept lookup update run validate_stream validate_stream_unordered validate_dgram outgoing_text tag fifo arrivals pending.
