From Coq Require Import Extraction ExtrOcamlBasic.
From Elvis Require Import Model.Base Model.AppBytes Model.Dns Model.DnsProto.
Extraction Language OCaml.
Extraction "../ocaml/gen/dnsproto_model.ml" validate step init_state query_of_bytes names_okb records_ok
  server_respond request_bytes server_table tbl_get all_returned starved finals_ok getc.
