From Coq Require Import Extraction ExtrOcamlBasic.
From Elvis Require Import Model.Base Model.U32 Model.Tcb Model.TcpNet Model.TcpSession.
Extraction Language OCaml.
Extraction "../ocaml/gen/tcpsession_model.ml" sess_validate init_diff init_tcb inputs_of sess_start sess_exec_partial visible ev_matches snap_diff ystep yrun yinit.
