From Coq Require Import Extraction ExtrOcamlBasic.
From Elvis Require Import Model.Base Model.Subnet Model.ArpProto.
Extraction Language OCaml.
Extraction "../ocaml/gen/arpproto_model.ml"
  target step run init validate validate_results wf_cfgb check_obs.
