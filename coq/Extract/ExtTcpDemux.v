From Coq Require Import Extraction ExtrOcamlBasic.
From Elvis Require Import Model.Base Model.Demux Model.TcpDemux.
Extraction Language OCaml.
Extraction "../ocaml/gen/tcpdemux_model.ml" validate vrun vstep arrive tcp_listen tcp_open.
