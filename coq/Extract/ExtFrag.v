From Coq Require Import Extraction ExtrOcamlBasic.
From Elvis Require Import Model.Base Model.Frag.
Extraction Language OCaml.
Extraction "../ocaml/gen/frag_model.ml" fragment refrag_all flatten pieces chain partition_ok outcome_ok valid_ok mtu_ok.
