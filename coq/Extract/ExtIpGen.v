From Coq Require Import Extraction ExtrOcamlBasic.
From Elvis Require Import Model.Base Model.IpGen Model.DhcpProto.
Extraction Language OCaml.
Extraction "../ocaml/gen/ipgen_model.ml" build apply_op DhcpProto.init DhcpProto.step DhcpProto.run.
