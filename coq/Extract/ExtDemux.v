From Coq Require Import Extraction ExtrOcamlBasic.
From Elvis Require Import Model.Base Model.Demux.
Extraction Language OCaml.
Extraction "../ocaml/gen/demux_model.ml" validate listen_codes tx_code_ok expected_frames observed_frames predicted arrivals any_panic frame_to_ok.
