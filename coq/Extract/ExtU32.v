From Coq Require Import Extraction ExtrOcamlBasic.
From Elvis Require Import Model.Base Model.U32.
Extraction Language OCaml.
Extraction "../ocaml/gen/u32_model.ml" mod_lt mod_leq mod_gt mod_geq mod_bounded.
