From Coq Require Import Extraction ExtrOcamlBasic.
From Elvis Require Import Model.Base Model.Bytes Model.Checksum Model.Ipv4Hdr Model.UdpHdr Model.TcpHdr.
Extraction Language OCaml.
Extraction "../ocaml/gen/codecip_model.ml"
  ipv4_decode ipv4_build ipv4_encode cf_new cf_may_fragment cf_is_last tos_new
  udp_decode udp_build
  tcp_decode tcp_encode tcp_build tb_new tb_wnd tb_ack tb_psh tb_rst tb_syn tb_fin tb_urg
  ctl_new ctl_set_bit ctl_urg ctl_ack ctl_psh ctl_rst ctl_syn ctl_fin
  ck_u16 ck_u8 ck_u32 ck_rem as_u16 flip_at.
