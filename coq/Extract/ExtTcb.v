From Coq Require Import Extraction ExtrOcamlBasic.
From Elvis Require Import Model.Base Model.U32 Model.Tcb Model.TcpNet.
Extraction Language OCaml.
Extraction "../ocaml/gen/tcb_model.ml" sys_step init_sys run.
