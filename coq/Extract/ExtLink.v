From Coq Require Import Extraction ExtrOcamlBasic.
From Elvis Require Import Model.Base Model.Link.
Extraction Language OCaml.
Extraction "../ocaml/gen/link_model.ml" validate validate_code build check_send net_frames sched tx_time tx_time_orig route attach new_net mtu_test.
