From Coq Require Import Extraction ExtrOcamlBasic.
From Elvis Require Import Model.Base Model.Ndl.
Extraction Language OCaml.
Extraction "../ocaml/gen/ndl_model.ml" core_parse core_parse_orig fold render render4 tabs_to_spaces crlf predict rewrite.
