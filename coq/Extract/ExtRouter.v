From Coq Require Import Extraction ExtrOcamlBasic.
From Elvis Require Import Model.Base Model.Subnet Model.IpTable Model.Router.
Extraction Language OCaml.
Extraction "../ocaml/gen/router_model.ml"
  net_new tbl_new tbl_insert get_recipient
  route_step send_step hop_out cfg_trajectory host_next_hop owner
  validate check_dgram dgram_ending predicts_panic select all_ideal dgram_ideal expect_rest.
