From Coq Require Import Extraction ExtrOcamlBasic.
From Elvis Require Import Model.Base Model.Message.
Extraction Language OCaml.
Extraction "../ocaml/gen/message_model.ml" msg_default step msg_len msg_is_empty msg_iter msg_to_vec msg_eq.
