From Coq Require Import Extraction ExtrOcamlBasic.
From Elvis Require Import Model.Base Model.Reasm.
Extraction Language OCaml.
Extraction "../ocaml/gen/reasm_model.ml" reasm_new receive receive_orig maybe_cull maybe_cull_orig find buf_id.
