From Coq Require Import Extraction ExtrOcamlBasic.
From Elvis Require Import Model.Base Model.AppBytes Model.Arp Model.Dns Model.Dhcp.
Extraction Language OCaml.
Extraction "../ocaml/gen/codecapp_model.ml"
  utf8_valid bytes
  arp_build arp_from_bytes
  dns_to_message dns_from_bytes dns_query_name dns_query_name_orig
  dhcp_to_message dhcp_from_bytes dhcp_from_bytes_orig.
