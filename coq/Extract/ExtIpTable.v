From Coq Require Import Extraction ExtrOcamlBasic.
From Elvis Require Import Model.Base Model.Subnet Model.IpTable.
Extraction Language OCaml.
Extraction "../ocaml/gen/iptable_model.ml"
  from_bitcount mask_try_from popcount ips_in_net usable_ips
  to_be_bytes from_be_bytes lex_compare
  net_new net_new_short net_new_1 net_loopback broadcast net_range contains overlaps
  try_from_range cidr_to_ip from_cidr render_cidr
  obm_cmp tbl_new tbl_insert tbl_delete get_recipient tbl_iter step_obs step run default_gateway.
