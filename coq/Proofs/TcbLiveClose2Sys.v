(* C03 (d): simultaneous close.  From a quiescent state both sides close, two loss-free rounds,
   then both 2*MSL timers: both endpoints are released.  For every quiescent state. *)
From Elvis Require Import Model.Base Model.U32 Model.Tcb Model.TcpNet
  Proofs.U32Facts Proofs.TcbSafetyDefs Proofs.TcbSafetyBase Proofs.TcbSafetySnd Proofs.TcbSafetyRcv
  Proofs.TcbSafetyArr Proofs.TcbSafetySys Proofs.TcbLive Proofs.TcbLiveSys Proofs.TcbLiveThm
  Proofs.TcbLiveHs Proofs.TcbLiveHsSys Proofs.TcbLiveEnd Proofs.TcbLiveWinRound
  Proofs.TcbLiveClose Proofs.TcbLiveCloseSys Proofs.TcbLiveClose2.
From Coq Require Import ZifyBool.
Local Open Scope Z_scope.
Ltac Zify.zify_post_hook ::= Z.div_mod_to_equations.

Section Close2.
  Variable c : config.

  Theorem close_simultaneous s a b : Quiescent c s a b ->
    run c s [LClose SA; LClose SB; LFair 2; LTick SA 2001; LTick SB 2001] =
    mkSys EDead EDead [] [] (subA s) (subB s) (delA s) (delB s) false.
  Proof.
    intros HQ. destruct (quiescent_literal c s a b HQ) as (tA & tB & QA & QB & Es).
    pose proof QA as (_ & _ & _ & _ & _ & _ & _ & _ & _ & _ & _ & _ & _ & _ & Hua & Hub & HmA).
    pose proof QB as (_ & _ & _ & _ & _ & _ & _ & _ & _ & _ & _ & _ & _ & _ & _ & _ & HmB).
    rewrite (quiet_literal tA a b QA), (quiet_literal tB b a QB) in Es.
    generalize dependent (lport tA). generalize dependent (rport tA). generalize dependent (listen_init tA).
    generalize dependent (snd_wl1 tA). generalize dependent (snd_wl2 tA). generalize dependent (snd_iss tA).
    generalize dependent (rcv_irs tA). generalize dependent (mtu tA).
    generalize dependent (lport tB). generalize dependent (rport tB). generalize dependent (listen_init tB).
    generalize dependent (snd_wl1 tB). generalize dependent (snd_wl2 tB). generalize dependent (snd_iss tB).
    generalize dependent (rcv_irs tB). generalize dependent (mtu tB).
    intros mB HmB irsB issB w2B w1B liB rpB lpB mA HmA irsA issA w2A w1A liA rpA lpA Es.
    clear QA QB tA tB.
    generalize dependent (subA s). generalize dependent (subB s).
    generalize dependent (delA s). generalize dependent (delB s).
    intros dB dA sB sA Es. subst s. clear HQ.
    cbn [run fold_left].
    (* ===== both close ===== *)
    match goal with |- context [sys_step c (fst (sys_step c ?s0 (LClose SA))) (LClose SB)] =>
      set (s1 := fst (sys_step c (fst (sys_step c s0 (LClose SA))) (LClose SB))) end.
    close_norm_in s1.
    match goal with s1 := mkSys (ELive ?x) (ELive ?y) _ _ _ _ _ _ _ |- _ => set (tA1 := x) in s1; set (tB1 := y) in s1 end.
    rewrite (fairk c s1 2 eq_refl). cbn [fair_rounds].
    set (finctl := mkCtl false true false false false true).
    set (ackctl := mkCtl false true false false false false).
    set (finAh := mkHdr lpA rpA a b finctl 65535 0). set (finA := mkSeg finAh []).
    set (finBh := mkHdr lpB rpB b a finctl 65535 0). set (finB := mkSeg finBh []).
    assert (HfinA : fin_ack finAh) by (unfold fin_ack; auto).
    assert (HfinB : fin_ack finBh) by (unfold fin_ack; auto).
    (* ===== round 1, A's half: A's FIN and its copy; B: FIN-WAIT-1 -> CLOSING ===== *)
    assert (E1 : tcb_segments tA1 = Ok (set_rto (set_retx (set_oneshot tA1 []) [mkTx finA false]) RTO, [finA])).
    { rewrite segments_idle; try reflexivity. cbn. lia. }
    set (tA2 := set_rto _ RTO) in E1.
    pose proof (advance_101 tA2 eq_refl eq_refl) as E2.
    change (retx tA2) with [mkTx finA false] in E2. cbn [map t_seg] in E2.
    set (tA3 := set_retx _ _) in E2.
    assert (E3 : tcb_segments tA3 = Ok (set_rto (set_retx (set_oneshot tA3 []) [mkTx finA false]) RTO, [finA])).
    { rewrite segments_idle; try reflexivity. cbn. lia. }
    set (tA4 := set_rto _ RTO) in E3.
    assert (HfaB : forall t, fin_pending t = false -> snd_nxt t = wadd b 1 -> snd_una t = b -> is_fin_acked t = false).
    { intros t H1 H2 H3. unfold is_fin_acked. rewrite H1, H2, H3, succ_neq by assumption. reflexivity. }
    assert (HfaA : forall t, fin_pending t = false -> snd_nxt t = wadd a 1 -> snd_una t = a -> is_fin_acked t = false).
    { intros t H1 H2 H3. unfold is_fin_acked. rewrite H1, H2, H3, succ_neq by assumption. reflexivity. }
    assert (G1 : segment_arrives tB1 finA =
                 Ok (set_st (set_oneshot (set_rcv_nxt (set_in_segs tB1 []) (wadd a 1))
                                         [ack_hdr (set_rcv_nxt (set_in_segs tB1 []) (wadd a 1))]) Closing, AOk)).
    { eapply arrives_single; try reflexivity.
      - apply mod_gt_refl_false.
      - etransitivity; [exact (process_fin_unacked (set_in_segs tB1 []) finAh (or_introl eq_refl) eq_refl eq_refl eq_refl
                   (mod_leq_refl b) (HfaB (set_in_segs tB1 []) eq_refl eq_refl eq_refl)
                   (seq_ok_fin_at_nxt (set_in_segs tB1 []) a Hua eq_refl eq_refl))|].
        rewrite (ps_fin_first (set_in_segs tB1 []) finAh eq_refl eq_refl Hua eq_refl).
        cbv zeta. cbn [set_in_segs st tB1].
        rewrite HfaB by reflexivity. reflexivity.
      - reflexivity. }
    set (tB2 := set_st _ Closing) in G1.
    assert (G2 : segment_arrives tB2 finA =
                 Ok (set_oneshot (set_in_segs tB2 []) (oneshot tB2 ++ [ack_hdr tB2]), AOk)).
    { eapply arrives_single; try reflexivity.
      - cbn. unfold mod_gt. apply mod_lt_succ_l.
      - etransitivity; [exact (process_fin_unacked (set_in_segs tB2 []) finAh (or_intror eq_refl) eq_refl eq_refl eq_refl
                   (mod_leq_refl b) (HfaB (set_in_segs tB2 []) eq_refl eq_refl eq_refl)
                   (seq_ok_fin_before (set_in_segs tB2 []) a Hua eq_refl eq_refl))|].
        rewrite (ps_fin_again (set_in_segs tB2 []) finAh eq_refl eq_refl Hua eq_refl).
        reflexivity.
      - reflexivity. }
    set (tB3 := set_oneshot _ _) in G2.
    assert (H1 : fair_half c s1 SA =
      mkSys (ELive (set_in_text tA4 [])) (ELive (set_in_text tB3 [])) [] [] sA sB dA dB false).
    { unfold fair_half, fair_half_t.
      rewrite (tick_eval s1 SA tA1 tA2 [finA] tA3 101 eq_refl E1 E2). subst s1. sys_simpl. cbn [app].
      set (s1' := mkSys _ _ _ _ _ _ _ _ _).
      rewrite (emit_eval s1' SA tA3 tA4 [finA] eq_refl E3). cbn iota beta. subst s1'. sys_simpl. cbn [app length].
      cbn iota.
      rewrite deliver_all_cons with (seg := finA) (rest := [finA]) by reflexivity. sys_simpl.
      erewrite (arrive_eval c _ SB tB1 finA tB2); [|reflexivity|exact G1]. sys_simpl.
      rewrite deliver_all_cons with (seg := finA) (rest := []) by reflexivity. sys_simpl.
      erewrite (arrive_eval c _ SB tB2 finA tB3); [|reflexivity|exact G2]. sys_simpl.
      rewrite deliver_all_nil by reflexivity.
      erewrite (recv_eval_empty _ SA tA4); [|reflexivity|reflexivity]. sys_simpl.
      erewrite (recv_eval_empty _ SB tB3); [|reflexivity|reflexivity]. sys_simpl. reflexivity. }
    rewrite H1. clear H1 E1 E2 E3 G1 G2. subst tA4 tA3 tA2 tA1 tB3 tB2 tB1 s1. tcb_norm.
    match goal with |- context [mkSys (ELive ?x) (ELive ?y)] => set (tA5 := x); set (tB4 := y) end.
    set (s2 := mkSys _ _ _ _ _ _ _ _ _).
    (* ===== round 1, B's half: two ACKs overtake B's FIN and wait in A's heap; then the FIN ===== *)
    set (ackBh := mkHdr lpB rpB (wadd b 1) (wadd a 1) ackctl 65535 0). set (ackB := mkSeg ackBh []).
    assert (HackB : ack_only ackBh) by (unfold ack_only; auto).
    assert (F1 : tcb_segments tB4 = Ok (set_rto (set_retx (set_oneshot tB4 []) [mkTx finB false]) RTO, [ackB; ackB; finB])).
    { rewrite segments_idle; try reflexivity. cbn. lia. }
    set (tB5 := set_rto _ RTO) in F1.
    pose proof (advance_101 tB5 eq_refl eq_refl) as F2.
    change (retx tB5) with [mkTx finB false] in F2. cbn [map t_seg] in F2.
    set (tB6 := set_retx _ _) in F2.
    assert (F3 : tcb_segments tB6 = Ok (set_rto (set_retx (set_oneshot tB6 []) [mkTx finB false]) RTO, [finB])).
    { rewrite segments_idle; try reflexivity. cbn. lia. }
    set (tB7 := set_rto _ RTO) in F3.
    assert (Hgt : mod_gt (wadd b 1) b = true) by (unfold mod_gt; apply mod_lt_succ_r).
    assert (M1 : segment_arrives tA5 ackB = Ok (set_in_segs tA5 [ackB], AOk)).
    { apply (arrives_park tA5 ackB [ackB] ackB); try reflexivity. exact Hgt. }
    set (tA6 := set_in_segs tA5 [ackB]) in M1.
    assert (M2 : segment_arrives tA6 ackB = Ok (set_in_segs tA6 [ackB; ackB], AOk)).
    { apply (arrives_park tA6 ackB [ackB; ackB] ackB); try reflexivity.
      - apply heap_push_same_seq. reflexivity.
      - exact Hgt. }
    set (tA7 := set_in_segs tA6 [ackB; ackB]) in M2.
    (* the FIN goes to the top of the heap; FIN, ACK, ACK are processed in one call *)
    set (T0 := set_in_segs tA7 [ackB; ackB]).
    set (t1 := set_st (set_oneshot (set_rcv_nxt T0 (wadd b 1)) [ack_hdr (set_rcv_nxt T0 (wadd b 1))]) Closing).
    assert (P1 : process_segment T0 finB = Ok (t1, PSuccess)).
    { etransitivity; [exact (process_fin_unacked T0 finBh (or_introl eq_refl) eq_refl eq_refl eq_refl
                               (mod_leq_refl a) (HfaA T0 eq_refl eq_refl eq_refl)
                               (seq_ok_fin_at_nxt T0 b Hub eq_refl eq_refl))|].
      rewrite (ps_fin_first T0 finBh eq_refl eq_refl Hub eq_refl).
      cbv zeta. cbn [T0 set_in_segs st tA7 tA6 tA5].
      rewrite HfaA by reflexivity. reflexivity. }
    destruct (process_ack_closing (set_in_segs t1 [ackB]) ackBh (mkTx finA false)
                eq_refl eq_refl eq_refl (wadd_u32 b 1) HackB eq_refl Hua eq_refl eq_refl eq_refl eq_refl eq_refl)
      as (w & wl1 & wl2 & P2 & Hwv).
    assert (Hw : w = 65535) by (destruct Hwv as [-> | ->]; reflexivity). subst w. clear Hwv.
    fold ackB in P2. set (t2 := set_time_wait _ (Some MSL2)) in P2.
    assert (P3 : process_segment (set_in_segs t2 []) ackB = Ok (set_in_segs t2 [], PSuccess)).
    { apply process_ack_timewait; try reflexivity; try assumption. apply wadd_u32. }
    assert (M3 : segment_arrives tA7 finB = Ok (set_in_segs t2 [], AOk)).
    { unfold segment_arrives. change (in_segs tA7) with [ackB; ackB].
      rewrite (heap_push_smaller ackB ackB finB (seg_le_before finB ackB b Hub eq_refl eq_refl)).
      cbn [length].
      apply (arrives_loop_three 0 (set_in_segs tA7 [finB; ackB; ackB]) finB ackB ackB
               t1 PSuccess t2 PSuccess (set_in_segs t2 []) PSuccess); try reflexivity.
      - apply seg_le_same. reflexivity.
      - apply mod_gt_refl_false.
      - exact P1.
      - apply mod_gt_refl_false.
      - exact P2.
      - apply mod_gt_refl_false.
      - exact P3. }
    set (tA8 := set_in_segs t2 []) in M3.
    pose proof (fin_in_timewait tA8 finBh eq_refl eq_refl eq_refl HfinB Hub eq_refl) as M4.
    cbv zeta in M4. fold finB in M4. set (tA9 := set_time_wait _ _) in M4.
    assert (H2 : fair_half c s2 SB =
      mkSys (ELive (set_in_text tA9 [])) (ELive (set_in_text tB7 [])) [] [] sA sB dA dB false).
    { unfold fair_half, fair_half_t.
      rewrite (tick_eval s2 SB tB4 tB5 [ackB; ackB; finB] tB6 101 eq_refl F1 F2). subst s2. sys_simpl. cbn [app].
      set (s2' := mkSys _ _ _ _ _ _ _ _ _).
      rewrite (emit_eval s2' SB tB6 tB7 [finB] eq_refl F3). cbn iota beta. subst s2'. sys_simpl. cbn [app length].
      cbn iota.
      rewrite deliver_all_cons with (seg := ackB) (rest := [ackB; finB; finB]) by reflexivity. sys_simpl.
      erewrite (arrive_eval c _ SA tA5 ackB tA6); [|reflexivity|exact M1]. sys_simpl.
      rewrite deliver_all_cons with (seg := ackB) (rest := [finB; finB]) by reflexivity. sys_simpl.
      erewrite (arrive_eval c _ SA tA6 ackB tA7); [|reflexivity|exact M2]. sys_simpl.
      rewrite deliver_all_cons with (seg := finB) (rest := [finB]) by reflexivity. sys_simpl.
      erewrite (arrive_eval c _ SA tA7 finB tA8); [|reflexivity|exact M3]. sys_simpl.
      rewrite deliver_all_cons with (seg := finB) (rest := []) by reflexivity. sys_simpl.
      erewrite (arrive_eval c _ SA tA8 finB tA9); [|reflexivity|exact M4]. sys_simpl.
      rewrite deliver_all_nil by reflexivity.
      erewrite (recv_eval_empty _ SA tA9); [|reflexivity|reflexivity]. sys_simpl.
      erewrite (recv_eval_empty _ SB tB7); [|reflexivity|reflexivity]. sys_simpl. reflexivity. }
    rewrite H2. clear H2 F1 F2 F3 M1 M2 M3 M4 P1 P2 P3 HfaA HfaB HfinA HfinB HackB Hgt.
    subst tA9 tA8 t2 t1 T0 tA7 tA6 tA5 tB7 tB6 tB5 tB4 s2 ackB ackBh finA finAh finB finBh finctl ackctl. tcb_norm.
    match goal with |- context [mkSys (ELive ?x) (ELive ?y)] => set (tA10 := x); set (tB8 := y) end.
    set (s3 := mkSys _ _ _ _ _ _ _ _ _).
    (* ===== round 2, A's half: A's three ACKs; B: CLOSING -> TIME-WAIT ===== *)
    set (ackctl := mkCtl false true false false false false).
    set (kh := mkHdr lpA rpA (wadd a 1) (wadd b 1) ackctl 65535 0). set (k := mkSeg kh []).
    assert (Hk : ack_only kh) by (unfold ack_only; auto).
    assert (N1 : tcb_segments tA10 = Ok (set_retx (set_oneshot tA10 []) [], [k; k; k])).
    { rewrite segments_idle; try reflexivity. cbn. lia. }
    set (tA11 := set_retx _ _) in N1.
    pose proof (advance_101_tw tA11 MSL2 eq_refl eq_refl ltac:(unfold MSL2; lia)) as N2.
    change (retx tA11) with (@nil transmit) in N2. cbn [map] in N2.
    set (tA12 := set_time_wait _ _) in N2.
    assert (N3 : tcb_segments tA12 = Ok (set_retx (set_oneshot tA12 []) [], [])).
    { rewrite segments_idle; try reflexivity. cbn. lia. }
    set (tA13 := set_retx _ _) in N3.
    destruct (process_ack_closing (set_in_segs tB8 []) kh
                (mkTx (mkSeg (mkHdr lpB rpB b a (mkCtl false true false false false true) 65535 0) []) false)
                eq_refl eq_refl eq_refl (wadd_u32 a 1) Hk eq_refl Hub eq_refl eq_refl eq_refl eq_refl eq_refl)
      as (w & wl1' & wl2' & P1 & Hwv).
    assert (Hw : w = 65535) by (destruct Hwv as [-> | ->]; reflexivity). subst w. clear Hwv.
    fold k in P1. set (tB9 := set_time_wait _ (Some MSL2)) in P1.
    assert (Q1 : segment_arrives tB8 k = Ok (tB9, AOk)).
    { eapply arrives_single; try reflexivity.
      - apply mod_gt_refl_false.
      - exact P1.
      - reflexivity. }
    assert (Q2 : segment_arrives tB9 k = Ok (set_in_segs tB9 [], AOk)).
    { apply ack_in_timewait; try reflexivity; try assumption. apply wadd_u32. }
    set (tB10 := set_in_segs tB9 []) in Q2.
    assert (Q3 : segment_arrives tB10 k = Ok (set_in_segs tB10 [], AOk)).
    { apply ack_in_timewait; try reflexivity; try assumption. apply wadd_u32. }
    set (tB11 := set_in_segs tB10 []) in Q3.
    assert (H3 : fair_half c s3 SA =
      mkSys (ELive (set_in_text tA13 [])) (ELive (set_in_text tB11 [])) [] [] sA sB dA dB false).
    { unfold fair_half, fair_half_t.
      rewrite (tick_eval s3 SA tA10 tA11 [k; k; k] tA12 101 eq_refl N1 N2). subst s3. sys_simpl. cbn [app].
      set (s3' := mkSys _ _ _ _ _ _ _ _ _).
      rewrite (emit_eval s3' SA tA12 tA13 [] eq_refl N3). cbn iota beta. subst s3'. sys_simpl. cbn [app length].
      cbn iota.
      rewrite deliver_all_cons with (seg := k) (rest := [k; k]) by reflexivity. sys_simpl.
      erewrite (arrive_eval c _ SB tB8 k tB9); [|reflexivity|exact Q1]. sys_simpl.
      rewrite deliver_all_cons with (seg := k) (rest := [k]) by reflexivity. sys_simpl.
      erewrite (arrive_eval c _ SB tB9 k tB10); [|reflexivity|exact Q2]. sys_simpl.
      rewrite deliver_all_cons with (seg := k) (rest := []) by reflexivity. sys_simpl.
      erewrite (arrive_eval c _ SB tB10 k tB11); [|reflexivity|exact Q3]. sys_simpl.
      rewrite deliver_all_nil by reflexivity.
      erewrite (recv_eval_empty _ SA tA13); [|reflexivity|reflexivity]. sys_simpl.
      erewrite (recv_eval_empty _ SB tB11); [|reflexivity|reflexivity]. sys_simpl. reflexivity. }
    rewrite H3. clear H3 N1 N2 N3 P1 Q1 Q2 Q3 Hk.
    subst tA13 tA12 tA11 tA10 tB11 tB10 tB9 tB8 s3 k kh ackctl. tcb_norm.
    match goal with |- context [mkSys (ELive ?x) (ELive ?y)] => set (tA14 := x); set (tB12 := y) end.
    set (s4 := mkSys _ _ _ _ _ _ _ _ _).
    (* ===== round 2, B's half: nothing to send in TIME-WAIT ===== *)
    assert (R1 : tcb_segments tB12 = Ok (set_retx (set_oneshot tB12 []) [], [])).
    { rewrite segments_idle; try reflexivity. cbn. lia. }
    set (tB13 := set_retx _ _) in R1.
    pose proof (advance_101_tw tB13 MSL2 eq_refl eq_refl ltac:(unfold MSL2; lia)) as R2.
    change (retx tB13) with (@nil transmit) in R2. cbn [map] in R2.
    set (tB14 := set_time_wait _ _) in R2.
    assert (R3 : tcb_segments tB14 = Ok (set_retx (set_oneshot tB14 []) [], [])).
    { rewrite segments_idle; try reflexivity. cbn. lia. }
    set (tB15 := set_retx _ _) in R3.
    assert (H4 : fair_half c s4 SB =
      mkSys (ELive (set_in_text tA14 [])) (ELive (set_in_text tB15 [])) [] [] sA sB dA dB false).
    { unfold fair_half, fair_half_t.
      rewrite (tick_eval s4 SB tB12 tB13 [] tB14 101 eq_refl R1 R2). subst s4. sys_simpl. cbn [app].
      set (s4' := mkSys _ _ _ _ _ _ _ _ _).
      rewrite (emit_eval s4' SB tB14 tB15 [] eq_refl R3). cbn iota beta. subst s4'. sys_simpl. cbn [app length].
      cbn iota. rewrite deliver_all_nil by reflexivity.
      erewrite (recv_eval_empty _ SA tA14); [|reflexivity|reflexivity]. sys_simpl.
      erewrite (recv_eval_empty _ SB tB15); [|reflexivity|reflexivity]. sys_simpl. reflexivity. }
    rewrite H4. clear H4 R1 R2 R3. subst tB15 tB14 tB13 tB12 tA14 s4. tcb_norm.
    match goal with |- context [mkSys (ELive ?x) (ELive ?y)] => set (tA15 := x); set (tB16 := y) end.
    set (s5 := mkSys _ _ _ _ _ _ _ _ _).
    (* ===== A's 2*MSL timer ===== *)
    assert (U1 : tcb_segments tA15 = Ok (set_retx (set_oneshot tA15 []) [], [])).
    { rewrite segments_idle; try reflexivity. cbn. lia. }
    set (tA16 := set_retx _ _) in U1.
    unfold sys_step at 2. cbn [panicked s5]. unfold tick at 1.
    rewrite (emit_eval s5 SA tA15 tA16 [] eq_refl U1). cbn iota beta. subst s5. sys_simpl. cbn [app].
    pose proof (advance_expire tA16 (MSL2 - 101) 2001 eq_refl ltac:(unfold MSL2; lia)) as U2.
    pose proof (advance_in_text tA16 2001) as U3. change (in_text tA16) with (@nil Z) in U3.
    destruct (advance_time tA16 2001) as [tA17 r]. cbn [fst snd] in U2, U3. subst r.
    cbn [fst]. rewrite (final_read_nil _ SA tA17 U3). sys_simpl.
    set (s6 := mkSys _ _ _ _ _ _ _ _ _).
    (* ===== B's 2*MSL timer ===== *)
    assert (V1 : tcb_segments tB16 = Ok (set_retx (set_oneshot tB16 []) [], [])).
    { rewrite segments_idle; try reflexivity. cbn. lia. }
    set (tB17 := set_retx _ _) in V1.
    unfold sys_step. cbn [panicked s6]. unfold tick.
    rewrite (emit_eval s6 SB tB16 tB17 [] eq_refl V1). cbn iota beta. subst s6. sys_simpl. cbn [app].
    pose proof (advance_expire tB17 (MSL2 - 101) 2001 eq_refl ltac:(unfold MSL2; lia)) as V2.
    pose proof (advance_in_text tB17 2001) as V3. change (in_text tB17) with (@nil Z) in V3.
    destruct (advance_time tB17 2001) as [tB18 r]. cbn [fst snd] in V2, V3. subst r.
    cbn [fst]. rewrite (final_read_nil _ SB tB18 V3). sys_simpl. reflexivity.
  Qed.
End Close2.

Definition close_both_trace : list label := [LClose SA; LClose SB; LFair 2; LTick SA 2001; LTick SB 2001].

Lemma release_simultaneous_explicit : forall (c : config) (s : sys) (a b : Z),
  Quiescent c s a b ->
  let s' := run c s close_both_trace in
  endA s' = EDead /\ endB s' = EDead /\ netA s' = [] /\ netB s' = [] /\ panicked s' = false /\
  subA s' = subA s /\ subB s' = subB s /\ delivered s' SA = delivered s SA /\ delivered s' SB = delivered s SB.
Proof.
  intros c s a b HQ s'. subst s'. unfold close_both_trace. rewrite (close_simultaneous c s a b HQ).
  cbn. auto 10.
Qed.

Lemma lifecycle_simultaneous_explicit : forall (c : config) (listenB : bool) (ws : list (side * list Z)),
  u32 (issA c) -> u32 (issB c) -> 100 <= mtuA c <= 65535 -> 100 <= mtuB c <= 65535 ->
  (forall w, In w ws -> 0 < zlen (snd w)) ->
  let s := run c (init_sys listenB) (open_trace listenB ++ any_write_trace ws ++ close_both_trace) in
  endA s = EDead /\ endB s = EDead /\ netA s = [] /\ netB s = [] /\ panicked s = false /\
  forall x, sub_of s x = concat (chunks x ws) /\ delivered s (other x) = concat (chunks x ws).
Proof.
  intros c listenB ws H1 H2 H3 H4 Hw s. subst s. rewrite app_assoc, run_app.
  destruct (from_start_any_explicit c listenB ws H1 H2 H3 H4 Hw) as ((a & b & HQ) & Hx).
  set (s0 := run c (init_sys listenB) (open_trace listenB ++ any_write_trace ws)) in *.
  destruct (release_simultaneous_explicit c s0 a b HQ) as (R1 & R2 & R3 & R4 & R5 & R6 & R7 & R8 & R9).
  cbv zeta in *. splits; auto.
  intros x. destruct (Hx x) as [A B].
  destruct x; cbn [other sub_of] in *; rewrite ?R6, ?R7, ?R8, ?R9; auto.
Qed.
