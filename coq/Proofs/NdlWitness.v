(* Concrete descriptions: satisfiability of wf_sim and the witnesses of the
   classes of argument values that do not survive rendering + parsing. *)
From Elvis Require Import Model.Base Model.Ndl Proofs.NdlFacts Proofs.NdlRound Proofs.NdlFile
  Proofs.NdlRewrite Proofs.NdlReject.
From Coq Require Import NArith.
Local Open Scope N_scope.

Definition t_5 : text := [53].
Definition t_a : text := [97].
Definition t_udp : text := [85; 68; 80].
Definition t_capture : text := [99; 97; 112; 116; 117; 114; 101].
Definition t_addr : text := [49; 46; 50; 46; 51; 46; 52].      (* 1.2.3.4 *)
Definition t_its : text := [105; 116; 92; 39; 115; 32; 91; 61]. (* it\'s [=   (escaped quote, bracket, equals sign) *)

(* one network with one address, one machine whose application carries the message v *)
Definition ex_with (v : text) : sim :=
  {| s_networks :=
       [(t_5, {| net_ty := Network; net_opts := [(k_id, t_5)];
                 net_ips := [{| it_ty := IP; it_opts := [(k_ip, t_addr)] |}] |})];
     s_machines :=
       [{| m_ty := Machine; m_opts := [(k_name, t_a)];
           m_nets := [{| it_ty := Network; it_opts := [(k_id, t_5)] |}];
           m_protos := [{| it_ty := Protocol; it_opts := [(k_name, t_udp)] |}];
           m_apps := [{| it_ty := Application;
                         it_opts := [(k_name, t_capture); (k_message, v)] |}] |}] |}.

Ltac notin := cbn; intros H; repeat (destruct H as [H|H]; [discriminate H|]); exact H.
Ltac wfv := repeat (first [apply wfv_nil | apply wfv_esc | apply wfv_normal; [discriminate|discriminate|]]).
Ltac t_pkey := split; [notin|split; [notin|reflexivity]].
Ltac t_pval := split; [wfv|notin].
Ltac t_clean := split; [notin|reflexivity].
Ltac t_nodup := repeat (constructor; [cbn; intros H; repeat (destruct H as [H|H]; [discriminate H|]); exact H|]); constructor.
Ltac t_pargs := split; [repeat (constructor; [split; [t_pkey|t_pval]|]); constructor|t_nodup].
Ltac t_cargs := split; [repeat (constructor; [split; t_clean|]); constructor
                       |repeat (constructor; [split; [t_pkey|t_pval]|]); constructor].

Lemma ex_wf : wf_sim (ex_with t_its).
Proof.
  split.
  - split; [|split].
    + constructor; [|constructor]. unfold pnetwork. cbn [fst snd net_ty net_opts net_ips].
      split; [reflexivity|]. split; [t_pargs|]. split; [reflexivity|]. split; [discriminate|].
      constructor; [|constructor]. split; [reflexivity|t_pargs].
    + cbn. t_nodup.
    + constructor; [|constructor]. unfold pmachine. cbn [m_ty m_opts m_nets m_protos m_apps].
      split; [reflexivity|]. split; [t_pargs|].
      split; [discriminate|]. split; [constructor; [split; [reflexivity|t_pargs]|constructor]|].
      split; [discriminate|]. split; [constructor; [split; [reflexivity|t_pargs]|constructor]|].
      split; [discriminate|]. constructor; [split; [reflexivity|t_pargs]|constructor].
  - split.
    + constructor; [|constructor]. split; [t_cargs|]. constructor; [t_cargs|constructor].
    + constructor; [|constructor]. split; [t_cargs|].
      split; [constructor; [t_cargs|constructor]|].
      split; [constructor; [t_cargs|constructor]|]. constructor; [t_cargs|constructor].
Qed.

(* the three classes of values lost to the global rewrites / the section cut, and the unescaped quote *)
Definition v_rbr : text := [97; 93; 98].               (* a]b *)
Definition v_sp4 : text := [97; 32; 32; 32; 32; 98].   (* a    b *)
Definition v_cr : text := [97; 13; 98].                (* a CR b *)
Definition v_quote : text := [105; 116; 39; 115].      (* it's *)

Lemma refuted_rbr : wf_val v_rbr /\ clean v_rbr /\ core_parse (render (ex_with v_rbr)) = Err (ecode E_EXTRA 11).
Proof. split; [wfv|]. split; [t_clean|]. vm_compute. reflexivity. Qed.

Lemma refuted_sp4 : wf_val v_sp4 /\ ~ In c_rbr v_sp4 /\ ~ In c_cr v_sp4 /\
  core_parse (render (ex_with v_sp4)) = Ok (ex_with [97; 9; 98]).
Proof. split; [wfv|]. split; [notin|]. split; [notin|]. vm_compute. reflexivity. Qed.

Lemma refuted_cr : wf_val v_cr /\ ~ In c_rbr v_cr /\ norun4 0 v_cr = true /\
  core_parse (render (ex_with v_cr)) = Ok (ex_with [97; 98]).
Proof. split; [wfv|]. split; [notin|]. split; [reflexivity|]. vm_compute. reflexivity. Qed.

Lemma refuted_quote : ~ In c_rbr v_quote /\ clean v_quote /\
  core_parse (render (ex_with v_quote)) = Err (ecode E_EXTRA 11).
Proof. split; [notin|]. split; [t_clean|]. vm_compute. reflexivity. Qed.

Lemma ex_with_inj v w : ex_with v = ex_with w -> v = w.
Proof. intros H. injection H as H. exact H. Qed.
