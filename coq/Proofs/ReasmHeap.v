(* The model of std's BinaryHeap (Model/Reasm.v, Section BinaryHeap) is a
   priority queue: push/pop keep the multiset and the heap order, and draining
   pops in non-increasing order.  Generic in the element type and its order. *)
From Coq Require Import ZArith List Bool Lia Arith Permutation Sorted FinFun.
From Coq Require Import ZifyBool ZifyNat.
From Elvis Require Import Model.Base Model.Reasm.
Import ListNotations.
Ltac Zify.zify_post_hook ::= Z.div_mod_to_equations.

Section HeapFacts.
  Context {T : Type} (le : T -> T -> bool) (d : T).
  Variable le_total : forall x y, le x y = true \/ le y x = true.
  Variable le_trans : forall x y z, le x y = true -> le y z = true -> le x z = true.

  Lemma le_refl : forall x, le x x = true.
  Proof. intro x. destruct (le_total x x); assumption. Qed.

  Notation get := (hget d).

  (* ---------------------------------------------------------------- arrays *)
  Lemma length_hset : forall (a : list T) i v, length (hset a i v) = length a.
  Proof. induction a as [|x t IH]; intros [|i] v; cbn [hset length]; auto. Qed.

  Lemma get_hset : forall (a : list T) i v j,
    get (hset a i v) j = if ((j =? i) && (i <? length a))%nat then v else get a j.
  Proof.
    unfold hget. induction a as [|x t IH]; intros i v j.
    - cbn [hset length]. replace (i <? 0)%nat with false by (symmetry; apply Nat.ltb_ge; lia).
      rewrite andb_false_r. reflexivity.
    - destruct i as [|i]; destruct j as [|j]; cbn [hset nth length].
      + reflexivity.
      + reflexivity.
      + reflexivity.
      + rewrite IH. replace (S j =? S i)%nat with (j =? i)%nat by reflexivity.
        replace (S i <? S (length t))%nat with (i <? length t)%nat by reflexivity. reflexivity.
  Qed.

  Lemma length_hswap : forall (a : list T) i j, length (hswap d a i j) = length a.
  Proof. intros. unfold hswap. now rewrite !length_hset. Qed.

  Lemma get_hswap : forall (a : list T) i j k, (i < length a)%nat -> (j < length a)%nat ->
    get (hswap d a i j) k =
      if (k =? j)%nat then get a i else if (k =? i)%nat then get a j else get a k.
  Proof.
    intros a i j k Hi Hj. unfold hswap. rewrite !get_hset, !length_hset.
    replace (j <? length a)%nat with true by (symmetry; apply Nat.ltb_lt; lia).
    replace (i <? length a)%nat with true by (symmetry; apply Nat.ltb_lt; lia).
    rewrite !andb_true_r. reflexivity.
  Qed.

  Lemma hswap_perm : forall (a : list T) i j, (i < length a)%nat -> (j < length a)%nat ->
    Permutation a (hswap d a i j).
  Proof.
    intros a i j Hi Hj. apply (Permutation_nth a (hswap d a i j) d). cbv zeta.
    split; [apply length_hswap|].
    exists (fun k => if (k =? j)%nat then i else if (k =? i)%nat then j else k).
    split; [|split].
    - intros k Hk. destruct (Nat.eqb_spec k j); [lia|]. destruct (Nat.eqb_spec k i); lia.
    - intros x y Hx Hy.
      destruct (Nat.eqb_spec x j); destruct (Nat.eqb_spec x i);
      destruct (Nat.eqb_spec y j); destruct (Nat.eqb_spec y i); lia.
    - intros k Hk. fold (get (hswap d a i j) k). rewrite get_hswap by assumption.
      destruct (Nat.eqb_spec k j); [reflexivity|]. destruct (Nat.eqb_spec k i); reflexivity.
  Qed.

  (* ------------------------------------------------------------- heap order *)
  (* every element is <= its parent *)
  Definition heap_ok (a : list T) : Prop :=
    forall i, (0 < i < length a)%nat -> le (get a i) (get a ((i - 1) / 2)) = true.

  (* heap order everywhere except that a[pos] may exceed its parent; the children
     of pos are <= the parent of pos *)
  Definition up_inv (a : list T) (pos : nat) : Prop :=
    (pos < length a)%nat /\
    (forall i, (0 < i < length a)%nat -> i <> pos -> le (get a i) (get a ((i - 1) / 2)) = true) /\
    (forall c, (0 < pos)%nat -> (0 < c < length a)%nat -> ((c - 1) / 2 = pos)%nat ->
               le (get a c) (get a ((pos - 1) / 2)) = true).

  (* the hole is at pos: a[pos] is unrelated to its parent and to its children *)
  Definition down_inv (a : list T) (pos : nat) : Prop :=
    (pos < length a)%nat /\
    (forall i, (0 < i < length a)%nat -> i <> pos -> ((i - 1) / 2 <> pos)%nat ->
               le (get a i) (get a ((i - 1) / 2)) = true) /\
    (forall c, (0 < pos)%nat -> (0 < c < length a)%nat -> ((c - 1) / 2 = pos)%nat ->
               le (get a c) (get a ((pos - 1) / 2)) = true).

  Lemma le_of_not : forall x y, le x y = false -> le y x = true.
  Proof. intros x y H. destruct (le_total x y) as [E|E]; [congruence|assumption]. Qed.

  Lemma sift_up_ok : forall fuel (a : list T) pos, (pos <= fuel)%nat -> up_inv a pos ->
    heap_ok (sift_up le d fuel a pos) /\ Permutation a (sift_up le d fuel a pos).
  Proof.
    induction fuel as [|f IH]; intros a pos Hf (Hp & Hall & Hgp).
    - cbn [sift_up]. split; [|apply Permutation_refl].
      intros i Hi. apply Hall; lia.
    - cbn [sift_up]. destruct (Nat.eqb_spec pos 0) as [E0|N0].
      + split; [|apply Permutation_refl]. intros i Hi. apply Hall; lia.
      + set (parent := ((pos - 1) / 2)%nat).
        destruct (le (get a pos) (get a parent)) eqn:Ele.
        * split; [|apply Permutation_refl]. intros i Hi.
          destruct (Nat.eq_dec i pos) as [->|Ni]; [exact Ele|apply Hall; assumption].
        * assert (Hpar : (parent < pos)%nat) by (unfold parent; lia).
          assert (Hsw : up_inv (hswap d a pos parent) parent).
          { unfold up_inv. rewrite length_hswap. split; [lia|]. split.
            - intros i Hi Ni. rewrite !get_hswap by lia.
              destruct (Nat.eqb_spec i parent); [lia|].
              destruct (Nat.eqb_spec i pos) as [->|Nip].
              + (* i = pos: a[parent] <= a[pos] *)
                fold parent. rewrite Nat.eqb_refl. apply le_of_not; exact Ele.
              + destruct (Nat.eqb_spec ((i - 1) / 2) parent) as [Epar|Npar].
                * (* sibling of pos *)
                  apply le_trans with (get a parent).
                  -- rewrite <- Epar. apply Hall; lia.
                  -- apply le_of_not; exact Ele.
                * destruct (Nat.eqb_spec ((i - 1) / 2) pos) as [Epos|Npos].
                  -- (* child of pos *)
                     apply Hgp; lia.
                  -- apply Hall; lia.
            - intros c Hpos Hc Ec. rewrite !get_hswap by lia.
              assert (Hgpar : (((parent - 1) / 2) <> pos /\ ((parent - 1) / 2) <> parent)%nat) by lia.
              destruct Hgpar as [G1 G2].
              destruct (Nat.eqb_spec ((parent - 1) / 2) parent); [lia|].
              destruct (Nat.eqb_spec ((parent - 1) / 2) pos); [lia|].
              destruct (Nat.eqb_spec c parent); [lia|].
              destruct (Nat.eqb_spec c pos) as [->|Ncp].
              + apply Hall; lia.
              + apply le_trans with (get a parent).
                * rewrite <- Ec. apply Hall; lia.
                * apply Hall; lia. }
          destruct (IH (hswap d a pos parent) parent ltac:(lia) Hsw) as [H1 H2].
          split; [exact H1|].
          apply Permutation_trans with (hswap d a pos parent); [apply hswap_perm; lia|exact H2].
  Qed.

  Lemma heap_push_ok : forall (a : list T) x, heap_ok a ->
    heap_ok (heap_push le d a x) /\ Permutation (x :: a) (heap_push le d a x).
  Proof.
    intros a x Hok. unfold heap_push.
    assert (Hinv : up_inv (a ++ [x]) (length a)).
    { unfold up_inv. rewrite app_length. cbn [length]. split; [lia|]. split.
      - intros i Hi Ni. unfold hget. rewrite !app_nth1 by lia. apply Hok; lia.
      - intros c Hpos Hc Ec. lia. }
    destruct (sift_up_ok (length a) (a ++ [x]) (length a) (le_n _) Hinv) as [H1 H2].
    split; [exact H1|].
    eapply Permutation_trans; [|exact H2]. apply Permutation_cons_append.
  Qed.

  Lemma sift_down_hole_ok : forall fuel (a : list T) pos,
    (length a <= fuel + pos)%nat -> down_inv a pos ->
    let '(a', p') := sift_down_hole le d fuel a pos in
    up_inv a' p' /\ Permutation a a'.
  Proof.
    induction fuel as [|f IH]; intros a pos Hf (Hp & Hall & Hgp).
    - lia.
    - cbn [sift_down_hole]. set (child := (2 * pos + 1)%nat).
      destruct (Nat.leb_spec (child + 2) (length a)) as [Htwo|Hnot].
      + set (c := if le (get a child) (get a (child + 1)) then (child + 1)%nat else child).
        assert (Hc : (c = child \/ c = child + 1)%nat) by (unfold c; destruct (le _ _); lia).
        assert (Hsib : forall s, (s = child \/ s = child + 1)%nat -> le (get a s) (get a c) = true).
        { intros s Hs. unfold c. destruct (le (get a child) (get a (child + 1))) eqn:E.
          - destruct Hs as [->| ->]; [exact E|apply le_refl].
          - destruct Hs as [->| ->]; [apply le_refl|apply le_of_not; exact E]. }
        assert (Hsw : down_inv (hswap d a pos c) c).
        { unfold down_inv. rewrite length_hswap. split; [lia|]. split.
          - intros i Hi Ni Npi. rewrite !get_hswap by lia.
            destruct (Nat.eqb_spec i c); [lia|].
            destruct (Nat.eqb_spec ((i - 1) / 2) c); [lia|].
            destruct (Nat.eqb_spec i pos) as [->|Nip].
            + (* the element moved up: below the parent of pos *)
              destruct (Nat.eqb_spec ((pos - 1) / 2) pos); [lia|].
              apply Hgp; lia.
            + destruct (Nat.eqb_spec ((i - 1) / 2) pos) as [Epos|Npos].
              * (* sibling of c *) apply Hsib. lia.
              * apply Hall; lia.
          - intros g Hpos Hg Eg. rewrite !get_hswap by lia.
            destruct (Nat.eqb_spec g c); [lia|].
            destruct (Nat.eqb_spec g pos); [lia|].
            assert (Epc : ((c - 1) / 2 = pos)%nat) by lia. rewrite Epc.
            destruct (Nat.eqb_spec pos c); [lia|]. rewrite Nat.eqb_refl.
            rewrite <- Eg. apply Hall; lia. }
        specialize (IH (hswap d a pos c) c). rewrite length_hswap in IH.
        specialize (IH ltac:(lia) Hsw).
        destruct (sift_down_hole le d f (hswap d a pos c) c) as [a' p'].
        destruct IH as [H1 H2]. split; [exact H1|].
        apply Permutation_trans with (hswap d a pos c); [apply hswap_perm; lia|exact H2].
      + destruct (Nat.eqb_spec (child + 1) (length a)) as [Eone|None].
        * (* a single child, the last element *)
          split; [|apply hswap_perm; lia].
          unfold up_inv. rewrite length_hswap. split; [lia|]. split.
          -- intros i Hi Ni. rewrite !get_hswap by lia.
             destruct (Nat.eqb_spec i child); [lia|].
             destruct (Nat.eqb_spec ((i - 1) / 2) child); [lia|].
             destruct (Nat.eqb_spec i pos) as [->|Nip].
             ++ destruct (Nat.eqb_spec ((pos - 1) / 2) pos); [lia|]. apply Hgp; lia.
             ++ destruct (Nat.eqb_spec ((i - 1) / 2) pos); [lia|]. apply Hall; lia.
          -- intros g Hpos Hg Eg. lia.
        * (* no child *)
          split; [|apply Permutation_refl].
          unfold up_inv. split; [lia|]. split.
          -- intros i Hi Ni. apply Hall; lia.
          -- intros g Hpos Hg Eg. lia.
  Qed.

  Lemma heap_ok_root : forall (a : list T), heap_ok a ->
    forall i, (i < length a)%nat -> le (get a i) (get a 0) = true.
  Proof.
    intros a Hok i. induction i as [i IH] using lt_wf_ind. intro Hi.
    destruct (Nat.eq_dec i 0) as [->|N]; [apply le_refl|].
    apply le_trans with (get a ((i - 1) / 2)).
    - apply Hok; lia.
    - apply IH; lia.
  Qed.

  Lemma heap_ok_nil : heap_ok [].
  Proof. intros i Hi. cbn [length] in Hi. lia. Qed.

  Lemma In_get : forall (a : list T) x, In x a -> exists i, (i < length a)%nat /\ get a i = x.
  Proof. intros a x H. destruct (In_nth a x d H) as (i & Hi & E). exists i. split; assumption. Qed.

  (* pop returns a greatest element and leaves a heap of the others *)
  Lemma heap_pop_ok : forall (a : list T), heap_ok a ->
    match heap_pop le d a with
    | None => a = []
    | Some (x, a') =>
      Permutation a (x :: a') /\ heap_ok a' /\ Forall (fun y => le y x = true) a'
    end.
  Proof.
    intros a Hok. unfold heap_pop. destruct a as [|a0 t]; [reflexivity|].
    set (a := a0 :: t) in *.
    assert (Hsplit : a = removelast a ++ [last a d]) by (apply app_removelast_last; discriminate).
    assert (Hlen : length a = S (length (removelast a))).
    { rewrite Hsplit at 1. rewrite app_length. cbn [length]. lia. }
    assert (Hroot : forall y, In y a -> le y (get a 0) = true).
    { intros y Hy. destruct (In_get a y Hy) as (i & Hi & <-). apply heap_ok_root; assumption. }
    destruct (removelast a) as [|top rest'] eqn:Erest.
    - (* one element *)
      split; [rewrite Hsplit at 1; apply Permutation_refl|]. split; [apply heap_ok_nil|constructor].
    - set (rest := top :: rest') in *.
      set (item := last a d) in *.
      assert (Hget : forall i, (i < length rest)%nat -> get a i = get rest i).
      { intros i Hi. unfold hget. rewrite Hsplit. now rewrite app_nth1. }
      assert (Htop : get a 0 = top) by (rewrite Hget; [reflexivity|cbn [rest length]; lia]).
      assert (Hdi : down_inv (hset rest 0 item) 0).
      { unfold down_inv. rewrite length_hset. split; [cbn [rest length]; lia|]. split.
        - intros i Hi Ni Npi. rewrite !get_hset.
          destruct (Nat.eqb_spec i 0); [lia|]. destruct (Nat.eqb_spec ((i - 1) / 2) 0); [lia|].
          cbn [andb]. rewrite <- !Hget by lia. apply Hok; lia.
        - intros c Hpos. lia. }
      pose proof (sift_down_hole_ok (length (hset rest 0 item)) (hset rest 0 item) 0
                    ltac:(lia) Hdi) as Hsd.
      unfold sift_down_to_bottom.
      destruct (sift_down_hole le d (length (hset rest 0 item)) (hset rest 0 item) 0) as [a' p'].
      destruct Hsd as [Hup Hperm1].
      destruct (sift_up_ok p' a' p' (le_n _) Hup) as [Hok' Hperm2].
      assert (Hperm : Permutation (item :: rest') (sift_up le d p' a' p')).
      { eapply Permutation_trans; [|exact Hperm2]. exact Hperm1. }
      split; [|split].
      + rewrite Hsplit at 1. fold item.
        eapply Permutation_trans; [apply Permutation_sym, Permutation_cons_append|].
        cbn [rest]. eapply Permutation_trans; [apply perm_swap|]. apply perm_skip. exact Hperm.
      + exact Hok'.
      + rewrite <- Htop. rewrite Forall_forall. intros y Hy. apply Hroot.
        apply (Permutation_in y (Permutation_sym Hperm)) in Hy.
        rewrite Hsplit. apply in_or_app. destruct Hy as [<-|Hy].
        * right. left. reflexivity.
        * left. right. exact Hy.
  Qed.

  Lemma heap_pop_length : forall (a : list T) x a', heap_ok a ->
    heap_pop le d a = Some (x, a') -> length a = S (length a').
  Proof.
    intros a x a' Hok E. pose proof (heap_pop_ok a Hok) as H. rewrite E in H.
    destruct H as [Hp _]. apply Permutation_length in Hp. exact Hp.
  Qed.

  (* draining pops every element, greatest first *)
  Definition ge_sorted : list T -> Prop := StronglySorted (fun x y => le y x = true).

  Lemma heap_drain_ok : forall fuel (a : list T), heap_ok a -> (length a <= fuel)%nat ->
    Permutation a (heap_drain le d fuel a) /\ ge_sorted (heap_drain le d fuel a).
  Proof.
    induction fuel as [|f IH]; intros a Hok Hf.
    - destruct a; [|cbn [length] in Hf; lia]. cbn [heap_drain]. split; [constructor|constructor].
    - cbn [heap_drain]. pose proof (heap_pop_ok a Hok) as Hpop.
      destruct (heap_pop le d a) as [[x a']|] eqn:E.
      + destruct Hpop as (Hperm & Hok' & Hall).
        assert (Hl : length a = S (length a')) by (apply Permutation_length in Hperm; exact Hperm).
        destruct (IH a' Hok' ltac:(lia)) as [Hp Hs].
        split.
        * eapply Permutation_trans; [exact Hperm|]. apply perm_skip. exact Hp.
        * constructor; [exact Hs|].
          rewrite Forall_forall in *. intros y Hy. apply Hall.
          apply (Permutation_in y (Permutation_sym Hp)). exact Hy.
      + subst a. split; constructor.
  Qed.
End HeapFacts.
