(* C01 liveness: any write of up to one window (65535 bytes) submitted in a quiescent state is
   delivered exactly once, acknowledged, and the system is quiescent again after two loss-free
   rounds. *)
From Elvis Require Import Model.Base Model.U32 Model.Tcb Model.TcpNet
  Proofs.U32Facts Proofs.TcbSafetyDefs Proofs.TcbSafetyBase Proofs.TcbSafetySnd Proofs.TcbSafetyRcv
  Proofs.TcbSafetyArr Proofs.TcbSafetySys Proofs.TcbLive Proofs.TcbLiveSys Proofs.TcbLiveThm
  Proofs.TcbLiveWin Proofs.TcbLiveWinSys.
From Coq Require Import ZifyBool.
Local Open Scope Z_scope.
Ltac Zify.zify_post_hook ::= Z.div_mod_to_equations.

(* the receiver owes one ACK per segment of the flight plus the ACKs of the retransmitted copy *)
Definition ackingN (t : tcb) (b R : Z) (segs : list segment) : Prop :=
  st t = Established /\ snd_una t = b /\ snd_nxt t = b /\ rcv_nxt t = R /\
  snd_wnd t = 65535 /\ rcv_wnd t = 65535 /\ out_text t = [] /\ retx t = [] /\
  (exists acks1 acks2, oneshot t = acks1 ++ acks2 /\ Forall2 (ackfor b) segs acks1 /\
                       Forall (dupack b R) acks2) /\
  fin_pending t = false /\ in_segs t = [] /\ in_text t = [] /\ rto t = RTO /\ time_wait t = None /\
  u32 b /\ u32 R /\ 100 <= mtu t <= 65535.

Section WinHalf.
  Variable c : config.

  Lemma half_sendN s x tx ty a b bytes :
    end_of s x = ELive tx -> end_of s (other x) = ELive ty ->
    net_of s x = [] -> net_of s (other x) = [] -> panicked s = false ->
    writer tx a b bytes -> quiet ty b a -> 0 < zlen bytes ->
    let m := Z.min (zlen bytes) 65535 in
    let s' := fair_half c s x in
    exists tx' ty' segs, end_of s' x = ELive tx' /\ end_of s' (other x) = ELive ty' /\
      net_of s' x = [] /\ net_of s' (other x) = [] /\ panicked s' = false /\
      (forall y, sub_of s' y = sub_of s y) /\ del_of s' x = del_of s x /\
      del_of s' (other x) = del_of s (other x) ++ [firstn (Z.to_nat m) bytes] /\
      sending tx' a (wadd a m) b segs (skipn (Z.to_nat m) bytes) /\ ackingN ty' b (wadd a m) segs /\
      mtu tx' = mtu tx /\ mtu ty' = mtu ty.
  Proof.
    intros Ex Ey Nx Ny Pn
      (W1 & W2 & W3 & W4 & W5 & W6 & W7 & W8 & W9 & W10 & W11 & W12 & W13 & W14 & W15 & W16 & W17)
      (Q1 & Q2 & Q3 & Q4 & Q5 & Q6 & Q7 & Q8 & Q9 & Q10 & Q11 & Q12 & Q13 & Q14 & Q15 & Q16 & Q17) Hn m s'.
    set (n := zlen bytes) in *.
    assert (Hm : 0 < m <= 65535 /\ m <= n) by (subst m; lia).
    destruct (segments_flight tx bytes W1 W9 W8 W7 W10 W5 W6 ltac:(congruence) ltac:(rewrite W3; exact W15) W17 Hn)
      as (segs & E1 & F & B & Hne).
    cbv zeta in E1, B. fold n in E1, B. fold m in E1, B. set (tx1 := set_rto _ RTO) in E1.
    pose proof (advance_101 tx1 eq_refl W14) as E2.
    change (retx tx1) with (map (fun s => mkTx s false) segs) in E2. rewrite reflag_map in E2.
    set (tx2 := set_retx _ _) in E2.
    assert (E3 : tcb_segments tx2 =
                 Ok (set_rto (set_retx (set_oneshot tx2 []) (map (fun s => mkTx s false) segs)) RTO, segs)).
    { apply segments_retransmit; try reflexivity; try assumption.
      - change (st tx2) with (st tx). now rewrite W1.
      - change (mtu tx2) with (mtu tx). lia.
      - change (snd_wnd tx2) with (snd_wnd tx). change (snd_una tx2) with (snd_una tx).
        change (snd_nxt tx2) with (wadd (snd_nxt tx) m).
        change (out_text tx2) with (skipn (Z.to_nat m) bytes).
        rewrite W5, W2, W3, (wsub_of_wadd a m W15 ltac:(lia)), zlen_skipn. fold n. lia. }
    set (tx3 := set_rto _ RTO) in E3.
    rewrite W3, W4 in F.
    unfold s', fair_half, fair_half_t.
    rewrite (tick_eval s x tx tx1 segs tx2 101 Ex E1 E2). rewrite Nx. cbn [app].
    set (s1 := set_end (set_net _ _ _) x (ELive tx2)).
    assert (Ex1 : end_of s1 x = ELive tx2) by (subst s1; now sysr).
    rewrite (emit_eval s1 x tx2 tx3 segs Ex1 E3). cbn iota beta.
    assert (Nx1 : net_of s1 x = segs) by (subst s1; now sysr). rewrite Nx1.
    set (s2 := set_net _ x (segs ++ segs)).
    assert (Nx2 : net_of s2 x = segs ++ segs) by (subst s2; now sysr).
    rewrite Nx2, app_length. cbn iota.
    replace (Datatypes.S (length segs + length segs)) with (length segs + (length segs + 1))%nat by lia.
    (* the flight arrives in order *)
    assert (Ey2 : end_of s2 (other x) = ELive ty) by (subst s2 s1; now sysr).
    assert (Hfl : flight_len segs = m).
    { unfold flight_len. rewrite B, zlen_firstn. fold n. lia. }
    rewrite (deliver_inorder c x (lport tx) (rport tx) b segs s2 ty _ segs Ey2 Nx2 Q1 Q11 Q6
               ltac:(rewrite Q4; exact Q16) ltac:(rewrite Q4; exact F) ltac:(rewrite Q2; apply mod_leq_refl)
               ltac:(rewrite Q12, Hfl; cbn; lia)).
    destruct (recv_flight_facts (lport tx) (rport tx) b segs ty ltac:(rewrite Q4; exact F) Q6
                ltac:(rewrite Q4; exact Q16)) as (C1 & R1 & I1 & S1 & acks1 & O1 & FA1).
    cbv zeta in *. set (tyR := recv_flight ty segs) in *.
    destruct C1 as (_ & _ & Cm & Cst & Cun & Cnx & Csw & Crw & Cot & Crx & Cfp & Crto & Ctw).
    set (s3 := set_end (set_net s2 x segs) (other x) (ELive tyR)).
    (* the retransmitted copy is old data *)
    assert (Ey3 : end_of s3 (other x) = ELive tyR) by (subst s3; now sysr).
    assert (Nx3 : net_of s3 x = segs ++ []) by (subst s3; rewrite app_nil_r; now sysr).
    rewrite Hfl, Q4 in R1. rewrite Q12 in I1. cbn [app] in I1. rewrite B in I1.
    assert (Hchunk : zlen (firstn (Z.to_nat m) bytes) = m) by (rewrite zlen_firstn; fold n; lia).
    rewrite (deliver_dups c x (lport tx) (rport tx) b segs s3 tyR a 1 [] Ey3 Nx3
               ltac:(congruence) (S1 Hne) ltac:(congruence) ltac:(rewrite R1; apply wadd_u32)
               F W15 ltac:(rewrite Hfl; congruence) ltac:(lia) ltac:(rewrite Cun, Q2; apply mod_leq_refl)
               ltac:(rewrite I1, Hchunk; lia)).
    destruct (dup_flight_facts segs tyR ltac:(congruence)) as (C2 & R2 & I2 & S2 & acks2 & O2 & FA2).
    cbv zeta in *. set (tyD := dup_flight tyR segs) in *.
    destruct C2 as (_ & _ & Dm & Dst & Dun & Dnx & Dsw & Drw & Dot & Drx & Dfp & Drto & Dtw).
    set (s4 := set_end (set_net s3 x []) (other x) (ELive tyD)).
    assert (Nx4 : net_of s4 x = []) by (subst s4; now sysr).
    rewrite (deliver_all_nil _ c s4 x Nx4).
    (* both applications read *)
    rewrite (recv_both s4 x).
    assert (Ex4 : end_of s4 x = ELive tx3) by (subst s4 s3 s2; now sysr).
    assert (Hitx : in_text tx3 = []) by (subst tx3 tx2 tx1; tcb_simpl; exact W12).
    rewrite (recv_eval_empty s4 x tx3 Ex4 Hitx).
    set (s5 := set_end s4 x _).
    assert (Ey5 : end_of s5 (other x) = ELive tyD) by (subst s5 s4; now sysr).
    assert (Hit2 : in_text tyD = firstn (Z.to_nat m) bytes) by congruence.
    assert (Hne2 : in_text tyD <> []).
    { rewrite Hit2. intros E0. rewrite E0 in Hchunk. cbn in Hchunk. lia. }
    rewrite (recv_eval_data s5 (other x) tyD Ey5 Hne2). rewrite Hit2.
    exists (set_in_text tx3 []), (set_in_text tyD []), segs.
    splits.
    all: try (subst s5 s4 s3 s2 s1; now sysr).
    all: try reflexivity.
    - intros y. subst s5 s4 s3 s2 s1. now sysr.
    - unfold sending. subst tx3 tx2 tx1. tcb_simpl.
      splits; try assumption; try reflexivity; try congruence; try lia.
      + exists (lport tx), (rport tx), b. exact F.
    - unfold ackingN. tcb_simpl. rewrite O2, O1, Q9. cbn [app].
      splits; try congruence; try (rewrite ?R1; apply wadd_u32); try lia; try (apply S2; exact Hne).
      exists acks1, acks2. splits; auto.
      + now rewrite Q3 in FA1.
      + now rewrite Cnx, Q3, R1 in FA2.
    - cbn [set_in_text mtu]. congruence.
  Qed.

  Lemma half_ackN s y ty tz a b R segs ot :
    end_of s y = ELive ty -> end_of s (other y) = ELive tz ->
    net_of s y = [] -> net_of s (other y) = [] -> panicked s = false ->
    ackingN ty b R segs -> sending tz a R b segs ot ->
    let s' := fair_half c s y in
    exists ty' tz', end_of s' y = ELive ty' /\ end_of s' (other y) = ELive tz' /\
      net_of s' y = [] /\ net_of s' (other y) = [] /\ panicked s' = false /\
      (forall x, sub_of s' x = sub_of s x) /\ (forall x, del_of s' x = del_of s x) /\
      quiet ty' b R /\ writer tz' R b ot /\ mtu ty' = mtu ty /\ mtu tz' = mtu tz.
  Proof.
    intros Ey Ez Ny Nz Pn
      (A1 & A2 & A3 & A4 & A5 & A6 & A7 & A8 & (acks1 & acks2 & A9 & FA1 & FA2) & A10 & A11 & A12 & A13 & A14 & A15 & A16 & A17)
      HS s'.
    set (mk := fun h : header => mkSeg h []).
    assert (E1 : tcb_segments ty = Ok (set_retx (set_oneshot ty []) [], map mk acks1 ++ map mk acks2)).
    { rewrite segments_nothing_new; try assumption; try (rewrite A1; reflexivity); try lia.
      rewrite A8, A9. cbn [map filter]. rewrite app_nil_r, map_app. reflexivity. }
    set (ty1 := set_retx _ _) in E1.
    pose proof (advance_101 ty1 A13 A14) as E2.
    assert (Er1 : retx ty1 = []) by reflexivity. rewrite Er1 in E2. cbn [map] in E2.
    set (ty2 := set_retx _ _) in E2.
    assert (E3 : tcb_segments ty2 = Ok (set_retx (set_oneshot ty2 []) [], [])).
    { rewrite segments_nothing_new.
      - subst ty2 ty1; tcb_simpl. cbn [map filter app]. reflexivity.
      - exact A7.
      - exact A10.
      - change (st ty2) with (st ty). now rewrite A1.
      - change (mtu ty2) with (mtu ty). lia. }
    set (ty3 := set_retx _ _) in E3.
    unfold s', fair_half, fair_half_t.
    rewrite (tick_eval s y ty ty1 _ ty2 101 Ey E1 E2). rewrite Ny. cbn [app].
    set (s1 := set_end (set_net _ _ _) y (ELive ty2)).
    assert (Ey1 : end_of s1 y = ELive ty2) by (subst s1; now sysr).
    rewrite (emit_eval s1 y ty2 ty3 [] Ey1 E3). cbn iota beta.
    assert (Ny1 : net_of s1 y = map mk acks1 ++ map mk acks2) by (subst s1; now sysr).
    rewrite Ny1, app_nil_r.
    set (s2 := set_net _ y _).
    assert (Ny2 : net_of s2 y = map mk acks1 ++ map mk acks2) by (subst s2; now sysr).
    rewrite Ny2, app_length, !map_length. cbn iota.
    replace (Datatypes.S (length acks1 + length acks2)) with (length acks1 + (length acks2 + 1))%nat by lia.
    assert (Ez2 : end_of s2 (other y) = ELive tz) by (subst s2 s1; now sysr).
    destruct (deliver_acks c y b R ot segs acks1 FA1 s2 tz a (length acks2 + 1)%nat (map mk acks2) HS Ez2 Ny2)
      as (tz1 & D1 & HS1 & M1).
    rewrite D1.
    set (s3 := set_end (set_net s2 y (map mk acks2)) (other y) (ELive tz1)).
    assert (Ez3 : end_of s3 (other y) = ELive tz1) by (subst s3; now sysr).
    assert (Ny3 : net_of s3 y = map mk acks2 ++ []) by (subst s3; rewrite app_nil_r; now sysr).
    destruct (deliver_dupacks c y b R ot acks2 s3 tz1 1 [] FA2 HS1 Ez3 Ny3) as (tz2 & D2 & HS2 & M2).
    rewrite D2.
    set (s4 := set_end (set_net s3 y []) (other y) (ELive tz2)).
    assert (Ny4 : net_of s4 y = []) by (subst s4; now sysr).
    rewrite (deliver_all_nil _ c s4 y Ny4).
    rewrite (recv_both s4 y).
    assert (Ey4 : end_of s4 y = ELive ty3) by (subst s4 s3 s2; now sysr).
    rewrite (recv_eval_empty s4 y ty3 Ey4 A12).
    set (s5 := set_end s4 y _).
    assert (Ez5 : end_of s5 (other y) = ELive tz2) by (subst s5 s4; now sysr).
    pose proof (sending_writer tz2 R b ot HS2) as Qz.
    rewrite (recv_eval_empty s5 (other y) tz2 Ez5 ltac:(apply Qz)).
    exists (set_in_text ty3 []), (set_in_text tz2 []).
    splits.
    all: try (subst s5 s4 s3 s2 s1; now sysr).
    all: try reflexivity.
    all: try (intros x; subst s5 s4 s3 s2 s1; now sysr).
    all: try (unfold quiet; subst ty3 ty2 ty1; tcb_simpl; splits; try assumption; try reflexivity; lia).
    all: try (destruct Qz as (Z1 & Z2 & Z3 & Z4 & Z5 & Z6 & Z7 & Z8 & Z9 & Z10 & Z11 & Z12 & Z13 & Z14 & Z15 & Z16 & Z17);
              unfold writer; tcb_simpl; splits; auto; lia).
    all: try (cbn [set_in_text mtu]; congruence).
  Qed.
End WinHalf.
