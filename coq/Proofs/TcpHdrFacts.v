(* Lemmas about the TCP header codec model (Model/TcpHdr.v). *)
From Elvis Require Import Model.Base Model.Bytes Model.Checksum Model.TcpHdr
  Proofs.BytesFacts Proofs.ChecksumFacts.
From Coq Require Import ZifyBool.
Ltac Zify.zify_post_hook ::= Z.div_mod_to_equations.
Local Open Scope Z_scope.

(* C14: no panic site in the decoder *)
Lemma tcp_decode_total : forall fck ck bs plen sa da s, tcp_decode fck ck bs plen sa da <> Panic s.
Proof. intros. apply is_panic_false. unfold tcp_decode. no_panic. Qed.
Lemma tcp_decode_fuel : forall fck ck bs plen sa da, tcp_decode fck ck bs plen sa da <> OutOfFuel.
Proof. intros. unfold tcp_decode. no_fuel. Qed.

(* ---- control bits: finite sweeps over all 64 combinations -------------------------- *)
Definition bools : list bool := [false; true].
Lemma bools_forallb : forall f, forallb f bools = true -> forall b, f b = true.
Proof. intros f H [|]; cbn in H; apply andb_prop in H; destruct H as [H1 H2];
  [apply andb_prop in H2; tauto | assumption]. Qed.

Definition ctl_arith (u a p r s f : bool) : Z :=
  b2zt u * 32 + b2zt a * 16 + b2zt p * 8 + b2zt r * 4 + b2zt s * 2 + b2zt f.
Lemma ctl_new_sweep :
  forallb (fun u => forallb (fun a => forallb (fun p => forallb (fun r => forallb (fun s => forallb (fun f =>
    let c := ctl_new u a p r s f in
    (c =? ctl_arith u a p r s f) &&
    Bool.eqb (ctl_urg c) u && Bool.eqb (ctl_ack c) a && Bool.eqb (ctl_psh c) p &&
    Bool.eqb (ctl_rst c) r && Bool.eqb (ctl_syn c) s && Bool.eqb (ctl_fin c) f)
    bools) bools) bools) bools) bools) bools = true.
Proof. vm_compute. reflexivity. Qed.
(* Control::new packs the six flags as RFC 9293 orders them, and every getter reads its flag *)
Lemma ctl_new_spec : forall u a p r s f,
  let c := ctl_new u a p r s f in
  c = ctl_arith u a p r s f /\ 0 <= c < 64 /\
  ctl_urg c = u /\ ctl_ack c = a /\ ctl_psh c = p /\ ctl_rst c = r /\ ctl_syn c = s /\ ctl_fin c = f.
Proof.
  intros u a p r s f.
  pose proof (bools_forallb _ ctl_new_sweep u) as H. cbv beta in H.
  pose proof (bools_forallb _ H a) as H1. cbv beta in H1.
  pose proof (bools_forallb _ H1 p) as H2. cbv beta in H2.
  pose proof (bools_forallb _ H2 r) as H3. cbv beta in H3.
  pose proof (bools_forallb _ H3 s) as H4. cbv beta in H4.
  pose proof (bools_forallb _ H4 f) as H5. cbv beta zeta in H5.
  cbv zeta.
  repeat (apply andb_prop in H5; let K := fresh "K" in destruct H5 as [H5 K]).
  apply Bool.eqb_prop in K, K0, K1, K2, K3, K4.
  assert (E : ctl_new u a p r s f = ctl_arith u a p r s f) by lia.
  split; [exact E|]. split; [|tauto].
  rewrite E. unfold ctl_arith, b2zt. destruct u, a, p, r, s, f; lia.
Qed.
(* every value below 64 is one of the 64 flag combinations *)
Lemma ctl_all_64_sweep :
  forallb (fun c => ctl_new (ctl_urg c) (ctl_ack c) (ctl_psh c) (ctl_rst c) (ctl_syn c) (ctl_fin c) =? c)
          (zrange 64) = true.
Proof. vm_compute. reflexivity. Qed.
Lemma ctl_all_64 : forall c, 0 <= c < 64 ->
  ctl_new (ctl_urg c) (ctl_ack c) (ctl_psh c) (ctl_rst c) (ctl_syn c) (ctl_fin c) = c.
Proof. intros c Hc. pose proof (zrange_forallb 64 _ ctl_all_64_sweep c Hc) as H. cbv beta in H. lia. Qed.
(* set_bit on every u8 value, every bit, both states: sets that bit, keeps the others *)
Definition set_bit_ok (c bit : Z) (st : bool) : bool :=
  let c' := ctl_set_bit c bit st in
  Bool.eqb (ctl_bit c' bit) st && (0 <=? c') && (c' <? 256) &&
  forallb (fun k => (k =? bit) || Bool.eqb (Z.testbit c' k) (Z.testbit c k)) (zrange 8).
Lemma ctl_set_bit_sweep :
  forallb (fun c => forallb (fun bit => set_bit_ok c bit true && set_bit_ok c bit false) (zrange 6))
          (zrange 256) = true.
Proof. vm_compute. reflexivity. Qed.
Lemma ctl_set_bit_spec : forall c bit st, 0 <= c < 256 -> 0 <= bit < 6 ->
  ctl_bit (ctl_set_bit c bit st) bit = st /\ 0 <= ctl_set_bit c bit st < 256 /\
  forall k, 0 <= k < 8 -> k <> bit -> Z.testbit (ctl_set_bit c bit st) k = Z.testbit c k.
Proof.
  intros c bit st Hc Hb.
  pose proof (zrange_forallb 256 _ ctl_set_bit_sweep c Hc) as H. cbv beta in H.
  pose proof (zrange_forallb 6 _ H bit Hb) as H1. cbv beta in H1.
  apply andb_prop in H1. destruct H1 as [Ht Hf].
  assert (K : set_bit_ok c bit st = true) by (destruct st; assumption).
  unfold set_bit_ok in K. cbv zeta in K.
  apply andb_prop in K. destruct K as [K K4]. apply andb_prop in K. destruct K as [K K3].
  apply andb_prop in K. destruct K as [K1 K2]. apply Bool.eqb_prop in K1.
  split; [exact K1|]. split; [lia|].
  intros k Hk Hne. pose proof (zrange_forallb 8 _ K4 k Hk) as Q. cbv beta in Q.
  apply orb_prop in Q. destruct Q as [Q|Q]; [lia | apply Bool.eqb_prop; exact Q].
Qed.

(* masks on bytes, by sweep over the 256 values *)
Lemma byte_masks_sweep :
  forallb (fun b => (band b 240 =? b / 16 * 16) && (band b 192 =? b / 64 * 64)) (zrange 256) = true.
Proof. vm_compute. reflexivity. Qed.
Lemma band_240 : forall b, byte b -> band b 240 = b / 16 * 16.
Proof. intros b Hb. pose proof (zrange_forallb 256 _ byte_masks_sweep b Hb) as H. cbv beta in H. lia. Qed.
Lemma band_192 : forall b, byte b -> band b 192 = b / 64 * 64.
Proof. intros b Hb. pose proof (zrange_forallb 256 _ byte_masks_sweep b Hb) as H. cbv beta in H. lia. Qed.

(* ---- closed forms --------------------------------------------------------------------- *)
Definition tcp_chain (ck : bool) (sp dp seq ack w1213 wnd urg : Z) (rest : list Z) (sa da plen : Z) : Z :=
  ck_u16 ck (ck_u8 ck (ck_u32 ck (ck_u32 ck (ck_rem ck (ck_u16 ck (ck_u16 ck (ck_u16 ck
    (ck_u32 ck (ck_u32 ck (ck_u16 ck (ck_u16 ck 0 sp) dp) seq) ack) w1213) wnd) urg) rest) sa) da) 0 6) plen.
Definition tcp_bchain (ck : bool) (sp dp seq ack c1213hi ctl wnd urg : Z) (text : list Z) (sa da len : Z) : Z :=
  ck_u16 ck (ck_u16 ck (ck_u8 ck (ck_u32 ck (ck_u32 ck (ck_u16 ck (ck_u16 ck (ck_u16 ck
    (ck_u8 ck (ck_u32 ck (ck_u32 ck (ck_rem ck 0 text) sa) da) 0 6) len) sp) dp) seq) ack) c1213hi ctl) wnd) urg.

Lemma tcp_decode_20 : forall fck ck b0 b1 b2 b3 b4 b5 b6 b7 b8 b9 b10 b11 b12 b13 b14 b15 b16 b17 b18 b19 rest plen sa da,
  tcp_decode fck ck
    (b0 :: b1 :: b2 :: b3 :: b4 :: b5 :: b6 :: b7 :: b8 :: b9 :: b10 :: b11 :: b12 :: b13 :: b14
        :: b15 :: b16 :: b17 :: b18 :: b19 :: rest) plen sa da =
  if negb (shr b12 4 =? 5) then Err ET_OPTS else
  if 65535 <? plen then Err ET_LONG else
  if ck_match fck
       (as_u16 ck (tcp_chain ck (of_be16 b0 b1) (of_be16 b2 b3) (of_be32 b4 b5 b6 b7) (of_be32 b8 b9 b10 b11)
                             (of_be16 b12 b13) (of_be16 b14 b15) (of_be16 b18 b19) rest sa da plen))
       (of_be16 b16 b17)
  then Ok (mk_tcp (of_be16 b0 b1) (of_be16 b2 b3) (of_be32 b4 b5 b6 b7) (of_be32 b8 b9 b10 b11)
                  (shr b12 4) (band b13 63) (of_be16 b14 b15) (of_be16 b18 b19)
                  (if fck then of_be16 b16 b17
                   else as_u16 ck (tcp_chain ck (of_be16 b0 b1) (of_be16 b2 b3) (of_be32 b4 b5 b6 b7)
                                             (of_be32 b8 b9 b10 b11) (of_be16 b12 b13) (of_be16 b14 b15)
                                             (of_be16 b18 b19) rest sa da plen)))
  else Err (ET_CK (of_be16 b16 b17)
             (as_u16 ck (tcp_chain ck (of_be16 b0 b1) (of_be16 b2 b3) (of_be32 b4 b5 b6 b7) (of_be32 b8 b9 b10 b11)
                                   (of_be16 b12 b13) (of_be16 b14 b15) (of_be16 b18 b19) rest sa da plen))).
Proof. reflexivity. Qed.

Ltac kill_ifs_err :=
  repeat match goal with
         | |- context [if ?c then _ else _] => destruct c
         end; eauto.

Lemma tcp_decode_short : forall fck ck bs plen sa da, (length bs < 20)%nat ->
  exists e, tcp_decode fck ck bs plen sa da = Err e.
Proof.
  intros fck ck bs plen sa da Hl. unfold tcp_decode.
  do 20 (destruct bs as [|? bs];
         [ cbn [bind ok_or next_u16_be next_u32_be next_2 fst snd]; cbv zeta; kill_ifs_err | ]).
  cbn in Hl. lia.
Qed.

Lemma tcp_decode_ok_inv : forall fck ck bs plen sa da h, tcp_decode fck ck bs plen sa da = Ok h ->
  exists b0 b1 b2 b3 b4 b5 b6 b7 b8 b9 b10 b11 b12 b13 b14 b15 b16 b17 b18 b19 rest,
    bs = b0 :: b1 :: b2 :: b3 :: b4 :: b5 :: b6 :: b7 :: b8 :: b9 :: b10 :: b11 :: b12 :: b13 :: b14
            :: b15 :: b16 :: b17 :: b18 :: b19 :: rest /\
    shr b12 4 = 5 /\ plen <= 65535 /\
    let actual := as_u16 ck (tcp_chain ck (of_be16 b0 b1) (of_be16 b2 b3) (of_be32 b4 b5 b6 b7)
                                       (of_be32 b8 b9 b10 b11) (of_be16 b12 b13) (of_be16 b14 b15)
                                       (of_be16 b18 b19) rest sa da plen) in
    ck_match fck actual (of_be16 b16 b17) = true /\
    h = mk_tcp (of_be16 b0 b1) (of_be16 b2 b3) (of_be32 b4 b5 b6 b7) (of_be32 b8 b9 b10 b11)
               (shr b12 4) (band b13 63) (of_be16 b14 b15) (of_be16 b18 b19)
               (if fck then of_be16 b16 b17 else actual).
Proof.
  intros fck ck bs plen sa da h H.
  destruct (Nat.ltb_spec (length bs) 20) as [Hs|Hl].
  - destruct (tcp_decode_short fck ck bs plen sa da Hs) as [e He]. congruence.
  - do 20 (destruct bs as [|? bs]; [cbn in Hl; lia|]).
    rewrite tcp_decode_20 in H.
    destruct (shr z11 4 =? 5) eqn:E1; cbn [negb] in H; [|discriminate].
    destruct (65535 <? plen) eqn:E2; [discriminate|].
    match type of H with (if ?c then _ else _) = _ => destruct c eqn:E3 end; [|discriminate].
    inversion H. do 21 eexists. split; [reflexivity|]. cbv zeta.
    split; [lia|]. split; [lia|]. split; [exact E3 | reflexivity].
Qed.

Lemma tcp_build_ok : forall ck h sa da text tlen, 0 <= tlen -> tlen + 20 <= 65535 ->
  tcp_build ck h sa da text tlen =
  Ok (mk_tcp (t_sport h) (t_dport h) (t_seq h) (t_ack h) 5 (t_ctl h) (t_wnd h) (t_urg h)
             (as_u16 ck (tcp_bchain ck (t_sport h) (t_dport h) (t_seq h) (t_ack h) 80 (t_ctl h)
                                    (t_wnd h) (t_urg h) text sa da (tlen + 20)))).
Proof.
  intros. unfold tcp_build. cbv zeta.
  replace (usize_max_t <? tlen + 20) with false by (unfold usize_max_t; lia).
  replace (65535 <? tlen + 20) with false by lia. reflexivity.
Qed.
Lemma tcp_build_long : forall ck h sa da text tlen, 65535 < tlen + 20 -> tlen + 20 <= usize_max_t ->
  tcp_build ck h sa da text tlen = Err ETB_LONG.
Proof.
  intros. unfold tcp_build. cbv zeta. replace (usize_max_t <? tlen + 20) with false by lia.
  replace (65535 <? tlen + 20) with true by lia. reflexivity.
Qed.
Lemma tcp_build_panics_iff : forall ck h sa da text tlen,
  (exists s, tcp_build ck h sa da text tlen = Panic s) <-> usize_max_t < tlen + 20.
Proof.
  intros. unfold tcp_build. cbv zeta.
  destruct (usize_max_t <? tlen + 20) eqn:E1.
  - split; [lia | eauto].
  - destruct (65535 <? tlen + 20); (split; [intros [s Hs]; discriminate | lia]).
Qed.

(* ---- normal forms ------------------------------------------------------------------------ *)
Definition tcp_others (sp dp seq ack w1213 wnd urg : Z) (rest : list Z) (sa da plen : Z) : Z :=
  sp + dp + halves seq + halves ack + w1213 + wnd + urg + wsum rest + halves sa + halves da + 6 + plen.

Lemma tcp_others_pos : forall sp dp seq ack w wnd urg rest sa da plen,
  u16 sp -> u16 dp -> u32 seq -> u32 ack -> u16 w -> u16 wnd -> u16 urg -> bytes rest ->
  u32 sa -> u32 da -> u16 plen -> 0 < tcp_others sp dp seq ack w wnd urg rest sa da plen.
Proof.
  intros. unfold tcp_others.
  pose proof (halves_range seq). pose proof (halves_range ack).
  pose proof (halves_range sa). pose proof (halves_range da). pose proof (wsum_nonneg rest).
  unfold u16 in *. lia.
Qed.
Lemma tcp_chain_norm : forall sp dp seq ack w wnd urg rest sa da plen,
  u16 sp -> u16 dp -> u32 seq -> u32 ack -> u16 w -> u16 wnd -> u16 urg -> bytes rest ->
  u32 sa -> u32 da -> u16 plen ->
  tcp_chain true sp dp seq ack w wnd urg rest sa da plen =
  oc_norm (tcp_others sp dp seq ack w wnd urg rest sa da plen).
Proof.
  intros sp dp seq ack w wnd urg rest sa da plen Hsp Hdp Hseq Hack Hw Hwnd Hurg Hr Hsa Hda Hpl.
  unfold tcp_chain, tcp_others. change 0 with (oc_norm 0) at 1.
  pose proof (halves_range seq Hseq). pose proof (halves_range ack Hack).
  pose proof (halves_range sa Hsa). pose proof (halves_range da Hda). pose proof (wsum_nonneg rest Hr).
  unfold u16 in *.
  rewrite ck_u16_norm by (unfold u16; lia). rewrite ck_u16_norm by (unfold u16; lia).
  rewrite ck_u32_norm by (assumption || lia). rewrite ck_u32_norm by (assumption || lia).
  rewrite ck_u16_norm by (unfold u16; lia). rewrite ck_u16_norm by (unfold u16; lia).
  rewrite ck_u16_norm by (unfold u16; lia).
  rewrite ck_rem_norm by (assumption || lia).
  rewrite ck_u32_norm by (assumption || lia). rewrite ck_u32_norm by (assumption || lia).
  rewrite ck_u8_norm by (unfold byte; lia).
  rewrite ck_u16_norm by (unfold u16; lia).
  f_equal; lia.
Qed.
Lemma tcp_bchain_norm : forall sp dp seq ack hi ctl wnd urg text sa da len,
  u16 sp -> u16 dp -> u32 seq -> u32 ack -> byte hi -> byte ctl -> u16 wnd -> u16 urg -> bytes text ->
  u32 sa -> u32 da -> u16 len ->
  tcp_bchain true sp dp seq ack hi ctl wnd urg text sa da len =
  oc_norm (tcp_others sp dp seq ack (of_be16 hi ctl) wnd urg text sa da len).
Proof.
  intros sp dp seq ack hi ctl wnd urg text sa da len Hsp Hdp Hseq Hack Hhi Hctl Hwnd Hurg Hr Hsa Hda Hpl.
  unfold tcp_bchain, tcp_others, of_be16. change 0 with (oc_norm 0) at 1.
  pose proof (halves_range seq Hseq). pose proof (halves_range ack Hack).
  pose proof (halves_range sa Hsa). pose proof (halves_range da Hda). pose proof (wsum_nonneg text Hr).
  unfold u16, byte in *.
  rewrite ck_rem_norm by (assumption || lia).
  rewrite ck_u32_norm by (assumption || lia). rewrite ck_u32_norm by (assumption || lia).
  rewrite ck_u8_norm by (unfold byte; lia).
  rewrite ck_u16_norm by (unfold u16; lia). rewrite ck_u16_norm by (unfold u16; lia).
  rewrite ck_u16_norm by (unfold u16; lia).
  rewrite ck_u32_norm by (assumption || lia). rewrite ck_u32_norm by (assumption || lia).
  rewrite ck_u8_norm by (unfold byte; lia).
  rewrite ck_u16_norm by (unfold u16; lia). rewrite ck_u16_norm by (unfold u16; lia).
  f_equal; lia.
Qed.
Lemma tcp_chains_agree : forall ck sp dp seq ack hi ctl wnd urg text sa da len,
  u16 sp -> u16 dp -> u32 seq -> u32 ack -> byte hi -> byte ctl -> u16 wnd -> u16 urg -> bytes text ->
  u32 sa -> u32 da -> u16 len ->
  as_u16 ck (tcp_chain ck sp dp seq ack (of_be16 hi ctl) wnd urg text sa da len) =
  as_u16 ck (tcp_bchain ck sp dp seq ack hi ctl wnd urg text sa da len).
Proof.
  intros [|] sp dp seq ack hi ctl wnd urg text sa da len Hsp Hdp Hseq Hack Hhi Hctl Hwnd Hurg Hr Hsa Hda Hpl.
  - rewrite tcp_chain_norm, tcp_bchain_norm by (try apply of_be16_range; assumption). reflexivity.
  - reflexivity.
Qed.
Lemma tcp_cksum_u16 : forall ck sp dp seq ack hi ctl wnd urg text sa da len,
  u16 sp -> u16 dp -> u32 seq -> u32 ack -> byte hi -> byte ctl -> u16 wnd -> u16 urg -> bytes text ->
  u32 sa -> u32 da -> u16 len ->
  u16 (as_u16 ck (tcp_bchain ck sp dp seq ack hi ctl wnd urg text sa da len)).
Proof.
  intros [|] sp dp seq ack hi ctl wnd urg text sa da len Hsp Hdp Hseq Hack Hhi Hctl Hwnd Hurg Hr Hsa Hda Hpl.
  - apply as_u16_range. rewrite tcp_bchain_norm by assumption. apply oc_norm_u16.
    apply Z.lt_le_incl. apply tcp_others_pos; try apply of_be16_range; assumption.
  - cbn [as_u16]. unfold u16. lia.
Qed.

(* ---- round trip 1: decode (serialize (build ..) ++ text) gives the built header ------------ *)
Lemma tcp_decode_encode : forall fck ck h0 sa da text,
  tcp_fields_ok h0 -> u32 sa -> u32 da -> bytes text -> Z.of_nat (length text) + 20 <= 65535 ->
  exists h, tcp_build ck h0 sa da text (Z.of_nat (length text)) = Ok h /\
            length (tcp_encode h) = 20%nat /\
            t_sport h = t_sport h0 /\ t_dport h = t_dport h0 /\ t_seq h = t_seq h0 /\ t_ack h = t_ack h0 /\
            t_doff h = 5 /\ t_ctl h = t_ctl h0 /\ t_wnd h = t_wnd h0 /\ t_urg h = t_urg h0 /\
            tcp_decode fck ck (tcp_encode h ++ text) (Z.of_nat (length text) + 20) sa da = Ok h.
Proof.
  intros fck ck [sp dp seq ack doff ctl wnd urg cks] sa da text W Hsa Hda Ht Hlen.
  unfold tcp_fields_ok in W. cbn [t_sport t_dport t_seq t_ack t_ctl t_wnd t_urg] in W.
  destruct W as (Wsp & Wdp & Wseq & Wack & Wctl & Wwnd & Wurg).
  set (n := Z.of_nat (length text)) in *.
  rewrite tcp_build_ok by lia. cbn [t_sport t_dport t_seq t_ack t_ctl t_wnd t_urg].
  eexists. split; [reflexivity|]. split; [reflexivity|].
  cbn [t_sport t_dport t_seq t_ack t_doff t_ctl t_wnd t_urg].
  do 8 (split; [reflexivity|]).
  assert (Hn : u16 (n + 20)) by (unfold u16; lia).
  assert (Hctl : byte ctl) by (unfold byte; lia).
  assert (H80 : byte 80) by (unfold byte; lia).
  pose proof (tcp_cksum_u16 ck sp dp seq ack 80 ctl wnd urg text sa da (n + 20)
                Wsp Wdp Wseq Wack H80 Hctl Wwnd Wurg Ht Hsa Hda Hn) as Hc.
  unfold tcp_encode. cbn [t_sport t_dport t_seq t_ack t_doff t_ctl t_wnd t_urg t_ck].
  replace (shl 5 4 mod 256) with 80 by reflexivity.
  unfold be16, be32. cbn [app]. rewrite tcp_decode_20.
  replace (shr 80 4) with 5 by reflexivity. rewrite Z.eqb_refl. cbn [negb].
  replace (65535 <? n + 20) with false by lia.
  fold (be16 sp). rewrite !of_be16_be16 by assumption. rewrite !of_be32_be32 by assumption.
  rewrite tcp_chains_agree by assumption.
  unfold ck_match. rewrite Z.eqb_refl. cbn [orb].
  rewrite band_63. rewrite (Z.mod_small ctl) by lia.
  destruct fck; reflexivity.
Qed.

(* ---- round trip 2 ---------------------------------------------------------------------------- *)
(* re-encoding an accepted segment reproduces its first 20 bytes except that the reserved bits
   (low nibble of byte 12, top two bits of byte 13) come out as zero *)
Lemma tcp_encode_decode_masked : forall fck ck bs plen sa da h, bytes bs ->
  tcp_decode fck ck bs plen sa da = Ok h ->
  tcp_encode h = firstn 12 bs ++ [band (nth 12 bs 0) 240; band (nth 13 bs 0) 63] ++ firstn 6 (skipn 14 bs).
Proof.
  intros fck ck bs plen sa da h Hb H.
  apply tcp_decode_ok_inv in H.
  destruct H as (b0 & b1 & b2 & b3 & b4 & b5 & b6 & b7 & b8 & b9 & b10 & b11 & b12 & b13 & b14 & b15
                 & b16 & b17 & b18 & b19 & rest & -> & Hd & Hp & Hm & ->).
  cbv zeta in Hm.
  repeat (apply bytes_cons in Hb; let B := fresh "B" in destruct Hb as [B Hb]).
  unfold tcp_encode. cbn [t_sport t_dport t_seq t_ack t_doff t_ctl t_wnd t_urg t_ck nth firstn skipn app].
  assert (Eck : (if fck then of_be16 b16 b17
                 else as_u16 ck (tcp_chain ck (of_be16 b0 b1) (of_be16 b2 b3) (of_be32 b4 b5 b6 b7)
                                           (of_be32 b8 b9 b10 b11) (of_be16 b12 b13) (of_be16 b14 b15)
                                           (of_be16 b18 b19) rest sa da plen)) = of_be16 b16 b17).
  { destruct fck; [reflexivity|]. apply match_orig_iff in Hm. exact Hm. }
  rewrite Eck.
  rewrite !be16_of_be16, !be32_of_be32 by assumption. cbn [app].
  rewrite band_240 by assumption. rewrite shr_4, shl_4.
  replace (b12 / 16 * 16 mod 256) with (b12 / 16 * 16) by (unfold byte in *; lia).
  reflexivity.
Qed.
(* the positive statement of C08's second clause, with the exact hypothesis *)
Lemma tcp_encode_decode : forall fck ck bs plen sa da h, bytes bs ->
  tcp_reserved_bits bs = false ->
  tcp_decode fck ck bs plen sa da = Ok h -> tcp_encode h = firstn 20 bs.
Proof.
  intros fck ck bs plen sa da h Hb Hr H.
  rewrite (tcp_encode_decode_masked fck ck bs plen sa da h Hb H).
  apply tcp_decode_ok_inv in H.
  destruct H as (b0 & b1 & b2 & b3 & b4 & b5 & b6 & b7 & b8 & b9 & b10 & b11 & b12 & b13 & b14 & b15
                 & b16 & b17 & b18 & b19 & rest & -> & Hd & Hp & Hm & ->).
  repeat (apply bytes_cons in Hb; let B := fresh "B" in destruct Hb as [B Hb]).
  unfold tcp_reserved_bits in Hr. cbn [nth firstn skipn app] in *.
  rewrite band_15 in Hr. rewrite band_192 in Hr by assumption.
  rewrite band_240, band_63 by assumption.
  unfold byte in *.
  replace (b12 / 16 * 16) with b12 by lia. replace (b13 mod 64) with b13 by lia. reflexivity.
Qed.
(* and it is exactly the reserved bits that break the clause *)
Lemma tcp_encode_decode_iff : forall fck ck bs plen sa da h, bytes bs ->
  tcp_decode fck ck bs plen sa da = Ok h ->
  (tcp_encode h = firstn 20 bs <-> tcp_reserved_bits bs = false).
Proof.
  intros fck ck bs plen sa da h Hb H. split; [|intro; eapply tcp_encode_decode; eassumption].
  rewrite (tcp_encode_decode_masked fck ck bs plen sa da h Hb H).
  apply tcp_decode_ok_inv in H.
  destruct H as (b0 & b1 & b2 & b3 & b4 & b5 & b6 & b7 & b8 & b9 & b10 & b11 & b12 & b13 & b14 & b15
                 & b16 & b17 & b18 & b19 & rest & -> & Hd & Hp & Hm & ->).
  repeat (apply bytes_cons in Hb; let B := fresh "B" in destruct Hb as [B Hb]).
  unfold tcp_reserved_bits. cbn [nth firstn skipn app].
  rewrite band_15. rewrite band_192, band_240 by assumption. rewrite band_63.
  intro E. injection E as E12 E13. unfold byte in *. lia.
Qed.
Definition tcp_reserved_witness : list Z :=
  [0; 1; 0; 2; 0; 0; 0; 3; 0; 0; 0; 4; 95; 194; 0; 5; 0; 0; 0; 6].
Lemma tcp_encode_decode_refuted :
  exists h, tcp_decode true false tcp_reserved_witness 20 0 0 = Ok h /\
            tcp_reserved_bits tcp_reserved_witness = true /\
            tcp_encode h <> firstn 20 tcp_reserved_witness.
Proof.
  exists (mk_tcp 1 2 3 4 5 2 5 6 0). split; [vm_compute; reflexivity|].
  split; [vm_compute; reflexivity|]. vm_compute. discriminate.
Qed.

(* ---- RFC 9293 ---------------------------------------------------------------------------------- *)
Lemma tcp_matches_rfc : forall sp dp seq ack doff u a p r s f wnd cks urgp,
  u16 sp -> u16 dp -> u32 seq -> u32 ack -> 0 <= doff < 16 -> u16 wnd -> u16 cks -> u16 urgp ->
  tcp_encode (mk_tcp sp dp seq ack doff (ctl_new u a p r s f) wnd urgp cks) =
  rfc9293_bytes sp dp seq ack doff 0 0 0 (b2zt u) (b2zt a) (b2zt p) (b2zt r) (b2zt s) (b2zt f) wnd cks urgp.
Proof.
  intros sp dp seq ack doff u a p r s f wnd cks urgp Hsp Hdp Hseq Hack Hdoff Hwnd Hcks Hurg.
  destruct (ctl_new_spec u a p r s f) as (E & Rc & _). cbv zeta in E, Rc.
  unfold tcp_encode. cbn [t_sport t_dport t_seq t_ack t_doff t_ctl t_wnd t_urg t_ck].
  rewrite E in *. unfold ctl_arith in *. rewrite shl_4.
  generalize dependent (b2zt u). intros xu. generalize dependent (b2zt a). intros xa.
  generalize dependent (b2zt p). intros xp. generalize dependent (b2zt r). intros xr.
  generalize dependent (b2zt s). intros xs. generalize dependent (b2zt f). intros xf. intros.
  assert (Hb : forall x, 0 <= b2zt x < 2) by (intros [|]; cbn; lia).
  unfold rfc9293_bytes, octets32t, be16, be32, u16, u32 in *. norm_pow. cbn [app].
  list_eq.
Qed.
Lemma tcp_decode_fields_rfc : forall fck ck bs plen sa da h, bytes bs ->
  tcp_decode fck ck bs plen sa da = Ok h ->
  t_sport h = t_sport (rfc9293_fields bs) /\ t_dport h = t_dport (rfc9293_fields bs) /\
  t_seq h = t_seq (rfc9293_fields bs) /\ t_ack h = t_ack (rfc9293_fields bs) /\
  t_doff h = t_doff (rfc9293_fields bs) /\ t_ctl h = t_ctl (rfc9293_fields bs) /\
  t_wnd h = t_wnd (rfc9293_fields bs) /\ t_urg h = t_urg (rfc9293_fields bs) /\
  t_ck h = t_ck (rfc9293_fields bs).
Proof.
  intros fck ck bs plen sa da h Hb H.
  apply tcp_decode_ok_inv in H.
  destruct H as (b0 & b1 & b2 & b3 & b4 & b5 & b6 & b7 & b8 & b9 & b10 & b11 & b12 & b13 & b14 & b15
                 & b16 & b17 & b18 & b19 & rest & -> & Hd & Hp & Hm & ->).
  cbv zeta in Hm.
  assert (Eck : (if fck then of_be16 b16 b17
                 else as_u16 ck (tcp_chain ck (of_be16 b0 b1) (of_be16 b2 b3) (of_be32 b4 b5 b6 b7)
                                           (of_be32 b8 b9 b10 b11) (of_be16 b12 b13) (of_be16 b14 b15)
                                           (of_be16 b18 b19) rest sa da plen)) = of_be16 b16 b17).
  { destruct fck; [reflexivity|]. apply match_orig_iff in Hm. exact Hm. }
  rewrite Eck.
  repeat (apply bytes_cons in Hb; let B := fresh "B" in destruct Hb as [B Hb]).
  unfold rfc9293_fields, trow, tfld.
  cbn [Nat.mul Nat.add nth t_sport t_dport t_seq t_ack t_doff t_ctl t_wnd t_urg t_ck].
  rewrite shr_4, band_63. unfold of_be16, of_be32, byte in *. norm_pow.
  repeat split; lia.
Qed.

(* ---- C18 ------------------------------------------------------------------------------------------ *)
Lemma wsum_pseudo_t : forall sa da proto len, u32 sa -> u32 da -> byte proto -> u16 len ->
  wsum (pseudo sa da proto len) = halves sa + halves da + proto + len.
Proof.
  intros sa da proto len Hsa Hda Hp Hl. unfold pseudo, be32, be16. cbn [app].
  rewrite !wsum_two, wsum_nil. unfold halves, u32, u16, byte in *. lia.
Qed.
Lemma pseudo_bytes_t : forall sa da proto len, byte proto -> bytes (pseudo sa da proto len).
Proof.
  intros. unfold pseudo. apply bytes_app. split; [apply be32_bytes|].
  apply bytes_app. split; [apply be32_bytes|]. apply bytes_app. split; [|apply be16_bytes].
  repeat (apply bytes_cons; split; [assumption || (unfold byte; lia)|]). constructor.
Qed.
Lemma halves_of_be32 : forall a b c d, byte a -> byte b -> byte c -> byte d ->
  halves (of_be32 a b c d) = of_be16 a b + of_be16 c d.
Proof. intros. unfold halves, of_be32, of_be16, byte in *. lia. Qed.

Lemma tcp_total_sum : forall sa da plen b0 b1 b2 b3 b4 b5 b6 b7 b8 b9 b10 b11 b12 b13 b14 b15 b16 b17 b18 b19 rest,
  u32 sa -> u32 da -> u16 plen ->
  byte b4 -> byte b5 -> byte b6 -> byte b7 -> byte b8 -> byte b9 -> byte b10 -> byte b11 ->
  wsum (pseudo sa da 6 plen ++ b0 :: b1 :: b2 :: b3 :: b4 :: b5 :: b6 :: b7 :: b8 :: b9 :: b10 :: b11 :: b12
          :: b13 :: b14 :: b15 :: b16 :: b17 :: b18 :: b19 :: rest) =
  tcp_others (of_be16 b0 b1) (of_be16 b2 b3) (of_be32 b4 b5 b6 b7) (of_be32 b8 b9 b10 b11)
             (of_be16 b12 b13) (of_be16 b14 b15) (of_be16 b18 b19) rest sa da plen + of_be16 b16 b17.
Proof.
  intros. rewrite wsum_app_even by reflexivity.
  rewrite wsum_pseudo_t by (assumption || (unfold byte; lia)).
  rewrite !wsum_two. unfold tcp_others. rewrite !halves_of_be32 by assumption. unfold of_be16. lia.
Qed.

(* every accepted segment verifies under RFC 1071 with the pseudo header *)
Lemma tcp_accepted_verifies : forall fck bs plen sa da h, bytes bs -> u32 sa -> u32 da -> 0 <= plen ->
  tcp_decode fck true bs plen sa da = Ok h ->
  rfc1071_verifies (pseudo sa da 6 plen ++ bs) = true.
Proof.
  intros fck bs plen sa da h Hb Hsa Hda Hpl H.
  apply tcp_decode_ok_inv in H.
  destruct H as (b0 & b1 & b2 & b3 & b4 & b5 & b6 & b7 & b8 & b9 & b10 & b11 & b12 & b13 & b14 & b15
                 & b16 & b17 & b18 & b19 & rest & -> & Hd & Hp & Hm & _).
  cbv zeta in Hm.
  assert (Hplen : u16 plen) by (unfold u16; lia).
  rewrite verifies_wsum by (apply bytes_app; split; [apply pseudo_bytes_t; unfold byte; lia | assumption]).
  repeat (apply bytes_cons in Hb; let B := fresh "B" in destruct Hb as [B Hb]).
  rewrite tcp_total_sum by assumption.
  rewrite tcp_chain_norm in Hm by (try apply of_be16_range; try apply of_be32_range; assumption).
  assert (Hpos : 0 < tcp_others (of_be16 b0 b1) (of_be16 b2 b3) (of_be32 b4 b5 b6 b7) (of_be32 b8 b9 b10 b11)
                                (of_be16 b12 b13) (of_be16 b14 b15) (of_be16 b18 b19) rest sa da plen)
    by (apply tcp_others_pos; try apply of_be16_range; try apply of_be32_range; assumption).
  assert (Hf : u16 (of_be16 b16 b17)) by (apply of_be16_range; assumption).
  apply Z.eqb_eq. destruct fck.
  - apply verify_iff_match_fixed; assumption.
  - apply verify_iff_match_orig; try assumption. left. assumption.
Qed.

(* "decode accepts iff" for the repaired decoder *)
Lemma tcp_accept_iff : forall bs plen sa da, bytes bs -> (20 <= length bs)%nat -> u32 sa -> u32 da -> 0 <= plen ->
  ((exists h, tcp_decode true true bs plen sa da = Ok h) <->
   shr (nth 12 bs 0) 4 = 5 /\ plen <= 65535 /\ rfc1071_verifies (pseudo sa da 6 plen ++ bs) = true).
Proof.
  intros bs plen sa da Hb Hl Hsa Hda Hpl. split.
  - intros [h H]. pose proof H as H'. apply tcp_decode_ok_inv in H'.
    destruct H' as (b0 & b1 & b2 & b3 & b4 & b5 & b6 & b7 & b8 & b9 & b10 & b11 & b12 & b13 & b14 & b15
                    & b16 & b17 & b18 & b19 & rest & -> & Hd & Hp & _).
    cbn [nth]. split; [exact Hd|]. split; [exact Hp|].
    eapply tcp_accepted_verifies; eassumption.
  - intros (Hd & Hp & Hv).
    do 20 (destruct bs as [|? bs]; [cbn in Hl; lia|]).
    rename z into b0, z0 into b1, z1 into b2, z2 into b3, z3 into b4, z4 into b5, z5 into b6, z6 into b7,
           z7 into b8, z8 into b9, z9 into b10, z10 into b11, z11 into b12, z12 into b13, z13 into b14,
           z14 into b15, z15 into b16, z16 into b17, z17 into b18, z18 into b19.
    cbn [nth] in Hd.
    assert (Hplen : u16 plen) by (unfold u16; lia).
    rewrite verifies_wsum in Hv by (apply bytes_app; split; [apply pseudo_bytes_t; unfold byte; lia | assumption]).
    repeat (apply bytes_cons in Hb; let B := fresh "B" in destruct Hb as [B Hb]).
    rewrite tcp_total_sum in Hv by assumption.
    rewrite tcp_decode_20. rewrite Hd, Z.eqb_refl. cbn [negb].
    replace (65535 <? plen) with false by lia.
    rewrite tcp_chain_norm by (try apply of_be16_range; try apply of_be32_range; assumption).
    assert (Hpos : 0 < tcp_others (of_be16 b0 b1) (of_be16 b2 b3) (of_be32 b4 b5 b6 b7) (of_be32 b8 b9 b10 b11)
                                  (of_be16 b12 b13) (of_be16 b14 b15) (of_be16 b18 b19) bs sa da plen)
      by (apply tcp_others_pos; try apply of_be16_range; try apply of_be32_range; assumption).
    assert (Hf : u16 (of_be16 b16 b17)) by (apply of_be16_range; assumption).
    apply Z.eqb_eq in Hv. apply verify_iff_match_fixed in Hv; try assumption.
    rewrite Hv. eauto.
Qed.

Lemma tcp_corruption_detected : forall fck bs bs' plen sa da h, bytes bs -> bytes bs' -> u32 sa -> u32 da ->
  0 <= plen ->
  tcp_decode fck true bs plen sa da = Ok h ->
  wsum bs' mod 65535 <> wsum bs mod 65535 ->
  forall h', tcp_decode fck true bs' plen sa da <> Ok h'.
Proof.
  intros fck bs bs' plen sa da h Hb Hb' Hsa Hda Hpl H Hne h' H'.
  apply tcp_accepted_verifies in H; try assumption.
  apply tcp_accepted_verifies in H'; try assumption.
  assert (P : bytes (pseudo sa da 6 plen)) by (apply pseudo_bytes_t; unfold byte; lia).
  rewrite verifies_wsum in H, H' by (apply bytes_app; split; assumption).
  rewrite wsum_app_even in H, H' by reflexivity.
  apply Z.eqb_eq in H, H'.
  pose proof (wsum_nonneg _ P). pose proof (wsum_nonneg _ Hb). pose proof (wsum_nonneg _ Hb').
  apply oc_norm_ones in H; [|lia]. apply oc_norm_ones in H'; [|lia].
  lia.
Qed.

(* what the builder emits verifies *)
Lemma tcp_emitted_verifies : forall h0 sa da text h,
  tcp_fields_ok h0 -> u32 sa -> u32 da -> bytes text -> Z.of_nat (length text) + 20 <= 65535 ->
  tcp_build true h0 sa da text (Z.of_nat (length text)) = Ok h ->
  rfc1071_verifies (pseudo sa da 6 (Z.of_nat (length text) + 20) ++ tcp_encode h ++ text) = true.
Proof.
  intros [sp dp seq ack doff ctl wnd urg cks] sa da text h W Hsa Hda Ht Hlen H.
  unfold tcp_fields_ok in W. cbn [t_sport t_dport t_seq t_ack t_ctl t_wnd t_urg] in W.
  destruct W as (Wsp & Wdp & Wseq & Wack & Wctl & Wwnd & Wurg).
  set (n := Z.of_nat (length text)) in *.
  rewrite tcp_build_ok in H by lia. apply Ok_inj in H. subst h.
  cbn [t_sport t_dport t_seq t_ack t_ctl t_wnd t_urg].
  assert (Hn : u16 (n + 20)) by (unfold u16; lia).
  assert (Hctl : byte ctl) by (unfold byte; lia).
  assert (H80 : byte 80) by (unfold byte; lia).
  pose proof (tcp_cksum_u16 true sp dp seq ack 80 ctl wnd urg text sa da (n + 20)
                Wsp Wdp Wseq Wack H80 Hctl Wwnd Wurg Ht Hsa Hda Hn) as Hc.
  unfold tcp_encode. cbn [t_sport t_dport t_seq t_ack t_doff t_ctl t_wnd t_urg t_ck].
  replace (shl 5 4 mod 256) with 80 by reflexivity.
  unfold be16, be32. cbn [app].
  rewrite verifies_wsum.
  2:{ apply bytes_app. split; [apply pseudo_bytes_t; unfold byte; lia|].
      unfold u16, u32 in *. repeat (apply bytes_cons; split; [unfold byte; lia|]). assumption. }
  rewrite tcp_total_sum by (assumption || (unfold byte; lia)).
  fold (be16 sp). rewrite !of_be16_be16 by assumption. rewrite !of_be32_be32 by assumption.
  rewrite tcp_bchain_norm by assumption.
  apply Z.eqb_eq. apply emitted_sum_verifies.
  apply Z.lt_le_incl. apply tcp_others_pos; try apply of_be16_range; assumption.
Qed.

(* a conforming sender (RFC 9293 3.1: the complement of the one's-complement sum over pseudo
   header, header with zero field, and text) is accepted after the repair *)
Lemma tcp_accepts_reference : forall sp dp seq ack ctl wnd urg sa da text,
  u16 sp -> u16 dp -> u32 seq -> u32 ack -> 0 <= ctl < 64 -> u16 wnd -> u16 urg -> u32 sa -> u32 da ->
  bytes text -> Z.of_nat (length text) + 20 <= 65535 ->
  let len := Z.of_nat (length text) + 20 in
  let c := rfc1071_checksum (pseudo sa da 6 len ++ tcp_encode (mk_tcp sp dp seq ack 5 ctl wnd urg 0) ++ text) in
  tcp_decode true true (tcp_encode (mk_tcp sp dp seq ack 5 ctl wnd urg c) ++ text) len sa da
    = Ok (mk_tcp sp dp seq ack 5 ctl wnd urg c).
Proof.
  intros sp dp seq ack ctl wnd urg sa da text Hsp Hdp Hseq Hack Hctl Hwnd Hurg Hsa Hda Ht Hlen len c.
  assert (Hn : u16 len) by (subst len; unfold u16; lia).
  assert (Bctl : byte ctl) by (unfold byte; lia).
  assert (B80 : byte 80) by (unfold byte; lia).
  set (S := tcp_others sp dp seq ack (of_be16 80 ctl) wnd urg text sa da len).
  assert (Hpos : 0 < S) by (apply tcp_others_pos; try apply of_be16_range; assumption).
  assert (Hc : c = 65535 - oc_norm S).
  { subst c. unfold rfc1071_checksum.
    assert (Hz : bytes (pseudo sa da 6 len ++ tcp_encode (mk_tcp sp dp seq ack 5 ctl wnd urg 0) ++ text)).
    { apply bytes_app. split; [apply pseudo_bytes_t; unfold byte; lia|]. apply bytes_app. split; [|assumption].
      unfold tcp_encode. cbn [t_sport t_dport t_seq t_ack t_doff t_ctl t_wnd t_urg t_ck].
      replace (shl 5 4 mod 256) with 80 by reflexivity.
      repeat (apply bytes_app; split; [apply be16_bytes || apply be32_bytes || idtac|]);
        try apply be16_bytes.
      repeat (apply bytes_cons; split; [assumption|]). constructor. }
    rewrite oc_sum_norm by (apply words_u16; assumption).
    change (zsum (words (pseudo sa da 6 len ++ tcp_encode (mk_tcp sp dp seq ack 5 ctl wnd urg 0) ++ text)))
      with (wsum (pseudo sa da 6 len ++ tcp_encode (mk_tcp sp dp seq ack 5 ctl wnd urg 0) ++ text)).
    f_equal. f_equal.
    unfold tcp_encode. cbn [t_sport t_dport t_seq t_ack t_doff t_ctl t_wnd t_urg t_ck].
    replace (shl 5 4 mod 256) with 80 by reflexivity.
    unfold be16, be32. cbn [app].
    unfold u16, u32 in *.
    rewrite tcp_total_sum by (assumption || (unfold byte; lia)).
    fold (be16 sp). rewrite !of_be16_be16 by (assumption || (unfold u16; lia)).
    rewrite !of_be32_be32 by assumption.
    replace (of_be16 (0 / 256 mod 256) (0 mod 256)) with 0 by reflexivity. subst S. lia. }
  pose proof (oc_norm_range S (Z.lt_le_incl _ _ Hpos)) as Rn.
  assert (Rc : u16 c) by (unfold u16; lia).
  unfold tcp_encode. cbn [t_sport t_dport t_seq t_ack t_doff t_ctl t_wnd t_urg t_ck].
  replace (shl 5 4 mod 256) with 80 by reflexivity.
  unfold be16, be32. cbn [app]. rewrite tcp_decode_20.
  replace (shr 80 4) with 5 by reflexivity. rewrite Z.eqb_refl. cbn [negb].
  replace (65535 <? len) with false by (unfold u16 in Hn; lia).
  fold (be16 sp). rewrite !of_be16_be16 by assumption. rewrite !of_be32_be32 by assumption.
  rewrite tcp_chain_norm by (try apply of_be16_range; assumption).
  fold S.
  assert (Hm : ck_match true (as_u16 true (oc_norm S)) c = true).
  { apply verify_iff_match_fixed; try assumption. rewrite Hc. clear -Hpos. clearbody S.
    unfold oc_norm. split_ifs; lia. }
  rewrite Hm. rewrite band_63. rewrite (Z.mod_small ctl) by lia. reflexivity.
Qed.

(* before the repair: a conforming segment whose other words sum to 0xffff (field 0x0000) was
   rejected *)
Definition tcp_ffff_witness : list Z :=
  [0; 0; 0; 0; 0; 0; 0; 0; 0; 0; 0; 0; 80; 0; 175; 229; 0; 0; 0; 0].
Lemma tcp_accepts_reference_orig_refuted :
  rfc1071_verifies (pseudo 0 0 6 20 ++ tcp_ffff_witness) = true /\
  rfc1071_checksum (pseudo 0 0 6 20 ++ tcp_ffff_witness) = 0 (* the field is zero: conforming value *) /\
  tcp_decode false true tcp_ffff_witness 20 0 0 = Err (ET_CK 0 65535) /\
  is_ok (tcp_decode true true tcp_ffff_witness 20 0 0) = true.
Proof. vm_compute. auto. Qed.

(* every single-bit corruption of an accepted segment is rejected *)
Lemma tcp_single_flip_rejected : forall fck bs plen sa da h i j, bytes bs -> u32 sa -> u32 da -> 0 <= plen ->
  tcp_decode fck true bs plen sa da = Ok h -> (i < length bs)%nat -> 0 <= j < 8 ->
  forall h', tcp_decode fck true (flip_at bs i j) plen sa da <> Ok h'.
Proof.
  intros fck bs plen sa da h i j Hb Hsa Hda Hpl H Hi Hj.
  eapply tcp_corruption_detected; try eassumption.
  - apply flip_at_bytes; assumption.
  - pose proof (single_flip_changes_sum bs i j 0 Hi Hb Hj) as S. cbn [Z.add] in S. exact S.
Qed.
Lemma tcp_double_flip_rejected : forall fck bs plen sa da h i1 j1 i2 j2, bytes bs -> u32 sa -> u32 da -> 0 <= plen ->
  tcp_decode fck true bs plen sa da = Ok h ->
  (i1 < length bs)%nat -> (i2 < length bs)%nat -> 0 <= j1 < 8 -> 0 <= j2 < 8 -> (i1 <> i2 \/ j1 <> j2) ->
  ~ (bit_exp i1 j1 = bit_exp i2 j2 /\ Z.testbit (nth i1 bs 0) j1 <> Z.testbit (nth i2 bs 0) j2) ->
  forall h', tcp_decode fck true (flip_at (flip_at bs i1 j1) i2 j2) plen sa da <> Ok h'.
Proof.
  intros fck bs plen sa da h i1 j1 i2 j2 Hb Hsa Hda Hpl H Hi1 Hi2 Hj1 Hj2 Hne Hnc.
  eapply tcp_corruption_detected; try eassumption.
  - apply flip_at_bytes; [apply flip_at_bytes|]; assumption.
  - pose proof (double_flip_unchanged_iff bs i1 j1 i2 j2 0 Hi1 Hi2 Hb Hj1 Hj2 Hne) as D. cbn [Z.add] in D.
    intro E. apply Hnc. apply D. exact E.
Qed.

(* the decoder accepts the RFC 9293 encoding (reserved bits, CWR, ECE zero) of every field
   combination with the checksum of the build, and returns exactly those fields *)
Lemma tcp_decode_rfc : forall fck ck sp dp seq ack u a p r s f wnd urg sa da text,
  u16 sp -> u16 dp -> u32 seq -> u32 ack -> u16 wnd -> u16 urg -> u32 sa -> u32 da ->
  bytes text -> Z.of_nat (length text) + 20 <= 65535 ->
  let n := Z.of_nat (length text) in
  let ctl := ctl_new u a p r s f in
  exists c, u16 c /\
    tcp_build ck (mk_tcp sp dp seq ack 0 ctl wnd urg 0) sa da text n = Ok (mk_tcp sp dp seq ack 5 ctl wnd urg c) /\
    tcp_decode fck ck
      (rfc9293_bytes sp dp seq ack 5 0 0 0 (b2zt u) (b2zt a) (b2zt p) (b2zt r) (b2zt s) (b2zt f) wnd c urg ++ text)
      (n + 20) sa da = Ok (mk_tcp sp dp seq ack 5 ctl wnd urg c).
Proof.
  intros fck ck sp dp seq ack u a p r s f wnd urg sa da text Hsp Hdp Hseq Hack Hwnd Hurg Hsa Hda Ht Hlen n ctl.
  destruct (ctl_new_spec u a p r s f) as (_ & Rc & _). cbv zeta in Rc. fold ctl in Rc.
  assert (W : tcp_fields_ok (mk_tcp sp dp seq ack 0 ctl wnd urg 0)).
  { unfold tcp_fields_ok. cbn [t_sport t_dport t_seq t_ack t_ctl t_wnd t_urg]. tauto. }
  destruct (tcp_decode_encode fck ck _ sa da text W Hsa Hda Ht Hlen) as (h & Hb & _ & _ & _ & _ & _ & _ & _ & _ & _ & Hd).
  fold n in Hb, Hd.
  rewrite tcp_build_ok in Hb by (subst n; lia).
  cbn [t_sport t_dport t_seq t_ack t_ctl t_wnd t_urg] in Hb.
  apply Ok_inj in Hb. subst h.
  set (c := as_u16 ck (tcp_bchain ck sp dp seq ack 80 ctl wnd urg text sa da (n + 20))) in *.
  assert (Hc : u16 c).
  { subst c. apply tcp_cksum_u16; try assumption; unfold byte, u16; subst n; lia. }
  exists c. split; [exact Hc|]. split.
  - rewrite tcp_build_ok by (subst n; lia). reflexivity.
  - subst ctl. rewrite <- tcp_matches_rfc by (assumption || lia). exact Hd.
Qed.
