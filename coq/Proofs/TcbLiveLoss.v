(* C01 liveness: recovery from tail loss by the retransmission timeout.
   A flight is in the network but a suffix of it (possibly all of it) has been lost.  The next
   loss-free round retransmits the whole flight: the surviving prefix arrives in order, its
   copies are old data, the lost suffix then arrives in order; the ACKs empty the queue. *)
From Elvis Require Import Model.Base Model.U32 Model.Tcb Model.TcpNet
  Proofs.U32Facts Proofs.TcbSafetyDefs Proofs.TcbSafetyBase Proofs.TcbSafetySnd Proofs.TcbSafetyRcv
  Proofs.TcbSafetyArr Proofs.TcbSafetySys Proofs.TcbLive Proofs.TcbLiveSys Proofs.TcbLiveThm
  Proofs.TcbLiveWin Proofs.TcbLiveWinSys Proofs.TcbLiveWinThm.
From Coq Require Import ZifyBool.
Local Open Scope Z_scope.
Ltac Zify.zify_post_hook ::= Z.div_mod_to_equations.

(* ---------- flights split ---------- *)
Lemma flight_len_app p q : flight_len (p ++ q) = flight_len p + flight_len q.
Proof. unfold flight_len, flight_bytes. rewrite map_app, concat_app. apply zlen_app. Qed.

Lemma flight_bytes_app p q : flight_bytes (p ++ q) = flight_bytes p ++ flight_bytes q.
Proof. unfold flight_bytes. rewrite map_app. apply concat_app. Qed.

Lemma flight_split lp rp ackv : forall p q a, u32 a ->
  flight lp rp ackv a (p ++ q) ->
  flight lp rp ackv a p /\ flight lp rp ackv (wadd a (flight_len p)) q.
Proof.
  induction p as [|s r IH]; intros q a Hu F; cbn [app flight] in *.
  - change (flight_len []) with 0. rewrite (wadd_0_u32 a Hu). auto.
  - destruct F as (Fh & Fl & Fr).
    destruct (IH q _ (wadd_u32 _ _) Fr) as [F1 F2].
    rewrite wadd_wadd in F2. rewrite flight_len_cons. auto.
Qed.

Section Loss.
  Variable c : config.

  (* ---------- the sender: ACKs for a prefix of the queue, duplicate ACKs in the middle ---------- *)
  Lemma deliver_acks_prefix y b R ot suf : forall pre acks, Forall2 (ackfor b) pre acks ->
    forall s tz u f rest,
    sending tz u R b (pre ++ suf) ot ->
    end_of s (other y) = ELive tz -> net_of s y = map (fun h => mkSeg h []) acks ++ rest ->
    exists tz', deliver_all (length acks + f) c s y =
                deliver_all f c (set_end (set_net s y rest) (other y) (ELive tz')) y /\
                sending tz' (wadd u (flight_len pre)) R b suf ot /\ mtu tz' = mtu tz.
  Proof.
    intros pre acks. induction 1 as [|s0 h r hs Hah _ IH]; intros s tz u f rest HS Ez Ny.
    - exists tz. cbn [length Nat.add map app] in *. rewrite sys_same by assumption.
      split; [reflexivity|]. split; [|reflexivity].
      change (flight_len []) with 0.
      assert (Hu : u32 u) by apply HS. now rewrite (wadd_0_u32 u Hu).
    - cbn [length Nat.add map app] in *.
      rewrite (deliver_all_cons _ c s y (mkSeg h []) (map (fun h => mkSeg h []) hs ++ rest) Ny).
      destruct HS as (A1 & A2 & A3 & A4 & A5 & A6 & A7 & A8 & A9 & A10 & A11 & A12 & A13 & A14 & A15 & A16 & A17 & (lp & rp & ackv & F) & A19 & A20).
      destruct Hah as (Hh & Hhs & Hhw & Hha).
      destruct F as (Fh & Fl & Fr). rewrite flight_len_cons in *.
      pose proof (flight_len_nonneg (r ++ suf)) as Hr0.
      set (n := zlen (s_text s0)) in *.
      assert (Hsl : seg_len s0 = n) by (unfold seg_len; rewrite Fh; cbn; fold n; lia).
      assert (Hsq : h_seq (s_hdr s0) = u) by (rewrite Fh; reflexivity).
      assert (Hfl : wsub (snd_nxt tz) (snd_una tz) = n + flight_len (r ++ suf)).
      { rewrite A2, A3, <- A19. apply wsub_of_wadd; [assumption|lia]. }
      cbn [map] in A9.
      destruct (ack_first_seg tz h (mkTx s0 false) (map (fun s => mkTx s false) (r ++ suf)) n)
        as (w1 & w2 & Ea); try assumption; try (rewrite ?A2, ?A3, ?A4; assumption); try lia.
      + congruence.
      + rewrite Forall_map. cbn [t_seg]. rewrite A2.
        pose proof (flight_offsets lp rp ackv u (r ++ suf) n) as Ho.
        specialize (Ho Fr ltac:(lia) ltac:(lia)).
        eapply Forall_impl; [|exact Ho]. intros s' Hs'. cbv beta zeta in *. lia.
      + rewrite A2 in Ea. set (tz1 := set_snd_window _ _ _ _) in Ea.
        assert (Ez' : end_of (set_net s y (map (fun h => mkSeg h []) hs ++ rest)) (other y) = ELive tz)
          by (now sysr).
        rewrite (arrive_eval c _ (other y) tz _ tz1 Ez' Ea).
        destruct (IH (set_end (set_net s y (map (fun h => mkSeg h []) hs ++ rest)) (other y) (ELive tz1))
                     tz1 (wadd u n) f rest) as (tz' & Ed & HS' & Hm').
        * unfold sending. subst tz1. tcb_simpl. splits; auto; try apply wadd_u32; try lia.
          -- exists lp, rp, ackv. exact Fr.
          -- rewrite wadd_wadd. exact A19.
        * now sysr.
        * now sysr.
        * exists tz'. rewrite Ed, sys_collapse. rewrite wadd_wadd in HS'. splits; auto.
  Qed.

  Lemma deliver_dupacks_mid y b R ot segs u : forall acks s tz f rest,
    Forall (dupack b u) acks -> sending tz u R b segs ot ->
    end_of s (other y) = ELive tz -> net_of s y = map (fun h => mkSeg h []) acks ++ rest ->
    exists tz', deliver_all (length acks + f) c s y =
                deliver_all f c (set_end (set_net s y rest) (other y) (ELive tz')) y /\
                sending tz' u R b segs ot /\ mtu tz' = mtu tz.
  Proof.
    induction acks as [|h hs IH]; intros s tz f rest Hd HS Ez Ny.
    - exists tz. cbn [length Nat.add map app] in *. rewrite sys_same by assumption. auto.
    - cbn [length Nat.add map app] in *. inversion Hd as [|? ? Hdh Hdr]; subst.
      rewrite (deliver_all_cons _ c s y (mkSeg h []) (map (fun h => mkSeg h []) hs ++ rest) Ny).
      pose proof HS as (A1 & A2 & A3 & A4 & A5 & A6 & A7 & A8 & A9 & A10 & A11 & A12 & A13 & A14 & A15 & A16 & A17 & A18 & A19 & A20).
      destruct Hdh as (Hh & Hhs & Hhw & Hha).
      assert (Ea : segment_arrives tz (mkSeg h []) = Ok (set_in_segs tz [], AOk)).
      { apply ack_duplicate; try assumption.
        - rewrite A4. exact A16.
        - congruence.
        - rewrite Hha, A2. apply mod_leq_refl. }
      assert (Ez' : end_of (set_net s y (map (fun h => mkSeg h []) hs ++ rest)) (other y) = ELive tz)
        by (now sysr).
      rewrite (arrive_eval c _ (other y) tz _ _ Ez' Ea).
      destruct (IH (set_end (set_net s y (map (fun h => mkSeg h []) hs ++ rest)) (other y) (ELive (set_in_segs tz [])))
                   (set_in_segs tz []) f rest Hdr) as (tz' & Ed & HS' & Hm').
      + unfold sending in *. tcb_simpl. splits; auto; lia.
      + now sysr.
      + now sysr.
      + exists tz'. rewrite Ed, sys_collapse. splits; auto.
  Qed.
End Loss.
