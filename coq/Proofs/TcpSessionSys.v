(* The closed system of two session tasks (Model/TcpSession.v, part 3): every step preserves
   the invariant of the two-endpoint TCB system (Proofs/TcbSafetyDefs.v) on the abstraction
   that forgets the queues, so C01's safety holds for the session tasks as they are.

   Abstraction: a task that runs is a live endpoint with its TCB, a task that left its loop
   is a dead endpoint; the segments waiting in a task's channel are still "in flight"; the
   submitted stream of the TCB system is what the TCB accepted; what was delivered is what the
   task flushed upstream.  TcpNet has no label for a bare advance_time (LTick emits first), so
   this is not a label-by-label refinement: each task step is matched with the per-operation
   preservation lemma of TcbSafetyStep.v (arrival, send, advance, emit, receive). *)
From Elvis Require Import Model.Base Model.U32 Model.Tcb Model.TcpNet Model.TcpSession
  Proofs.U32Facts Proofs.TcbSafetyDefs Proofs.TcbSafetyBase Proofs.TcbSafetySnd
  Proofs.TcbSafetySys Proofs.TcbSafetyStep Proofs.TcbSafety Proofs.TcpSessionFacts Proofs.TcpSessionSt.
Local Open Scope Z_scope.

(* ---------- projections of updated systems ---------- *)
Ltac yd := intros; repeat match goal with x : side |- _ => destruct x end; reflexivity.

Lemma yt_set_yt y x v : yt (set_yt y x v) x = v. Proof. yd. Qed.
Lemma yt_set_yt_o y x v : yt (set_yt y x v) (other x) = yt y (other x). Proof. yd. Qed.
Lemma yt_set_yn y x v z : yt (set_yn y x v) z = yt y z. Proof. yd. Qed.
Lemma yt_set_ypush y x v z : yt (set_ypush y x v) z = yt y z. Proof. yd. Qed.
Lemma yt_set_yhand y x v z : yt (set_yhand y x v) z = yt y z. Proof. yd. Qed.
Lemma yt_set_yacc y x v z : yt (set_yacc y x v) z = yt y z. Proof. yd. Qed.
Lemma yt_set_yfl y x v z : yt (set_yfl y x v) z = yt y z. Proof. yd. Qed.
Lemma yt_set_ypan y v z : yt (set_ypan y v) z = yt y z. Proof. yd. Qed.
Lemma yn_set_yt y x v z : yn (set_yt y x v) z = yn y z. Proof. yd. Qed.
Lemma yn_set_yn y x v : yn (set_yn y x v) x = v. Proof. yd. Qed.
Lemma yn_set_yn_o y x v : yn (set_yn y x v) (other x) = yn y (other x). Proof. yd. Qed.
Lemma yn_set_ypush y x v z : yn (set_ypush y x v) z = yn y z. Proof. yd. Qed.
Lemma yn_set_yhand y x v z : yn (set_yhand y x v) z = yn y z. Proof. yd. Qed.
Lemma yn_set_yacc y x v z : yn (set_yacc y x v) z = yn y z. Proof. yd. Qed.
Lemma yn_set_yfl y x v z : yn (set_yfl y x v) z = yn y z. Proof. yd. Qed.
Lemma yn_set_ypan y v z : yn (set_ypan y v) z = yn y z. Proof. yd. Qed.
Lemma ypush_set_yt y x v z : ypush (set_yt y x v) z = ypush y z. Proof. yd. Qed.
Lemma ypush_set_yn y x v z : ypush (set_yn y x v) z = ypush y z. Proof. yd. Qed.
Lemma ypush_set_ypush y x v : ypush (set_ypush y x v) x = v. Proof. yd. Qed.
Lemma ypush_set_ypush_o y x v : ypush (set_ypush y x v) (other x) = ypush y (other x). Proof. yd. Qed.
Lemma ypush_set_yhand y x v z : ypush (set_yhand y x v) z = ypush y z. Proof. yd. Qed.
Lemma ypush_set_yacc y x v z : ypush (set_yacc y x v) z = ypush y z. Proof. yd. Qed.
Lemma ypush_set_yfl y x v z : ypush (set_yfl y x v) z = ypush y z. Proof. yd. Qed.
Lemma ypush_set_ypan y v z : ypush (set_ypan y v) z = ypush y z. Proof. yd. Qed.
Lemma yhand_set_yt y x v z : yhand (set_yt y x v) z = yhand y z. Proof. yd. Qed.
Lemma yhand_set_yn y x v z : yhand (set_yn y x v) z = yhand y z. Proof. yd. Qed.
Lemma yhand_set_ypush y x v z : yhand (set_ypush y x v) z = yhand y z. Proof. yd. Qed.
Lemma yhand_set_yhand y x v : yhand (set_yhand y x v) x = v. Proof. yd. Qed.
Lemma yhand_set_yhand_o y x v : yhand (set_yhand y x v) (other x) = yhand y (other x). Proof. yd. Qed.
Lemma yhand_set_yacc y x v z : yhand (set_yacc y x v) z = yhand y z. Proof. yd. Qed.
Lemma yhand_set_yfl y x v z : yhand (set_yfl y x v) z = yhand y z. Proof. yd. Qed.
Lemma yhand_set_ypan y v z : yhand (set_ypan y v) z = yhand y z. Proof. yd. Qed.
Lemma yacc_set_yt y x v z : yacc (set_yt y x v) z = yacc y z. Proof. yd. Qed.
Lemma yacc_set_yn y x v z : yacc (set_yn y x v) z = yacc y z. Proof. yd. Qed.
Lemma yacc_set_ypush y x v z : yacc (set_ypush y x v) z = yacc y z. Proof. yd. Qed.
Lemma yacc_set_yhand y x v z : yacc (set_yhand y x v) z = yacc y z. Proof. yd. Qed.
Lemma yacc_set_yacc y x v : yacc (set_yacc y x v) x = v. Proof. yd. Qed.
Lemma yacc_set_yacc_o y x v : yacc (set_yacc y x v) (other x) = yacc y (other x). Proof. yd. Qed.
Lemma yacc_set_yfl y x v z : yacc (set_yfl y x v) z = yacc y z. Proof. yd. Qed.
Lemma yacc_set_ypan y v z : yacc (set_ypan y v) z = yacc y z. Proof. yd. Qed.
Lemma yfl_set_yt y x v z : yfl (set_yt y x v) z = yfl y z. Proof. yd. Qed.
Lemma yfl_set_yn y x v z : yfl (set_yn y x v) z = yfl y z. Proof. yd. Qed.
Lemma yfl_set_ypush y x v z : yfl (set_ypush y x v) z = yfl y z. Proof. yd. Qed.
Lemma yfl_set_yhand y x v z : yfl (set_yhand y x v) z = yfl y z. Proof. yd. Qed.
Lemma yfl_set_yacc y x v z : yfl (set_yacc y x v) z = yfl y z. Proof. yd. Qed.
Lemma yfl_set_yfl y x v : yfl (set_yfl y x v) x = v. Proof. yd. Qed.
Lemma yfl_set_yfl_o y x v : yfl (set_yfl y x v) (other x) = yfl y (other x). Proof. yd. Qed.
Lemma yfl_set_ypan y v z : yfl (set_ypan y v) z = yfl y z. Proof. yd. Qed.
Lemma ypan_set_yt y x v : ypan (set_yt y x v) = ypan y. Proof. yd. Qed.
Lemma ypan_set_yn y x v : ypan (set_yn y x v) = ypan y. Proof. yd. Qed.
Lemma ypan_set_ypush y x v : ypan (set_ypush y x v) = ypan y. Proof. yd. Qed.
Lemma ypan_set_yhand y x v : ypan (set_yhand y x v) = ypan y. Proof. yd. Qed.
Lemma ypan_set_yacc y x v : ypan (set_yacc y x v) = ypan y. Proof. yd. Qed.
Lemma ypan_set_yfl y x v : ypan (set_yfl y x v) = ypan y. Proof. yd. Qed.
Lemma ypan_set_ypan y v : ypan (set_ypan y v) = v. Proof. reflexivity. Qed.

Global Hint Rewrite other_other yt_set_yt yt_set_yt_o yt_set_yn yt_set_ypush yt_set_yhand yt_set_yacc yt_set_yfl yt_set_ypan yn_set_yt yn_set_yn yn_set_yn_o yn_set_ypush yn_set_yhand yn_set_yacc yn_set_yfl yn_set_ypan ypush_set_yt ypush_set_yn ypush_set_ypush ypush_set_ypush_o ypush_set_yhand ypush_set_yacc ypush_set_yfl ypush_set_ypan yhand_set_yt yhand_set_yn yhand_set_ypush yhand_set_yhand yhand_set_yhand_o yhand_set_yacc yhand_set_yfl yhand_set_ypan yacc_set_yt yacc_set_yn yacc_set_ypush yacc_set_yhand yacc_set_yacc yacc_set_yacc_o yacc_set_yfl yacc_set_ypan yfl_set_yt yfl_set_yn yfl_set_ypush yfl_set_yhand yfl_set_yacc yfl_set_yfl yfl_set_yfl_o yfl_set_ypan ypan_set_yt ypan_set_yn ypan_set_ypush ypan_set_yhand ypan_set_yacc ypan_set_yfl ypan_set_ypan : yr.

Lemma yt_set_yt_o2 y x v : yt (set_yt y (other x) v) x = yt y x. Proof. yd. Qed.
Lemma yn_set_yn_o2 y x v : yn (set_yn y (other x) v) x = yn y x. Proof. yd. Qed.
Lemma ypush_set_ypush_o2 y x v : ypush (set_ypush y (other x) v) x = ypush y x. Proof. yd. Qed.
Lemma yhand_set_yhand_o2 y x v : yhand (set_yhand y (other x) v) x = yhand y x. Proof. yd. Qed.
Lemma yacc_set_yacc_o2 y x v : yacc (set_yacc y (other x) v) x = yacc y x. Proof. yd. Qed.
Lemma yfl_set_yfl_o2 y x v : yfl (set_yfl y (other x) v) x = yfl y x. Proof. yd. Qed.
Global Hint Rewrite yt_set_yt_o2 yn_set_yn_o2 ypush_set_ypush_o2 yhand_set_yhand_o2 yacc_set_yacc_o2 yfl_set_yfl_o2 : yr.

Ltac yr := autorewrite with yr.

Lemma end_set_end_o2 s x e : end_of (set_end s (other x) e) x = end_of s x. Proof. sd. Qed.
Lemma net_set_net_o2 s x n : net_of (set_net s (other x) n) x = net_of s x. Proof. sd. Qed.
Lemma sub_set_sub_o2 s x v : sub_of (set_sub s (other x) v) x = sub_of s x. Proof. sd. Qed.
Lemma del_set_del_o2 s x v : del_of (set_del s (other x) v) x = del_of s x. Proof. sd. Qed.
Global Hint Rewrite end_set_end_o2 net_set_net_o2 sub_set_sub_o2 del_set_del_o2 : sysr.

(* ---------- the abstraction ---------- *)
Definition yend (t : ytask) : endpoint :=
  match t with
  | YNone => EClosed
  | YListen => EListen
  | YRun s _ => match ss_phase s with PEnded | PCrashed => EDead | _ => ELive (ss_tcb s) end
  end.
Definition yq (t : ytask) : list instr := match t with YRun _ q => q | _ => [] end.

Definition yabs (y : ysys) : sys :=
  mkSys (yend (ytA y)) (yend (ytB y))
        (ynA y ++ qsegs (yq (ytB y))) (ynB y ++ qsegs (yq (ytA y)))
        (yaccA y) (yaccB y) (yflA y) (yflB y) (ypan y).

Lemma end_yabs y x : end_of (yabs y) x = yend (yt y x). Proof. yd. Qed.
Lemma net_yabs y x : net_of (yabs y) x = yn y x ++ qsegs (yq (yt y (other x))). Proof. yd. Qed.
Lemma sub_yabs y x : sub_of (yabs y) x = yacc y x. Proof. yd. Qed.
Lemma del_yabs y x : del_of (yabs y) x = yfl y x. Proof. yd. Qed.
Lemma pan_yabs y : panicked (yabs y) = ypan y. Proof. reflexivity. Qed.

(* ---------- outputs of a task step ---------- *)
Lemma yt_apply_outs y x os z : yt (apply_outs y x os) z = yt y z.
Proof. unfold apply_outs. destruct (panicked_of os); yr; reflexivity. Qed.
Lemma yn_apply_outs y x os : yn (apply_outs y x os) x = yn y x ++ emitted_of os.
Proof. unfold apply_outs. destruct (panicked_of os); yr; reflexivity. Qed.
Lemma yn_apply_outs_o y x os : yn (apply_outs y x os) (other x) = yn y (other x).
Proof. unfold apply_outs. destruct (panicked_of os); yr; reflexivity. Qed.
Lemma yfl_apply_outs y x os : yfl (apply_outs y x os) x = yfl y x ++ flushed_of os.
Proof. unfold apply_outs. destruct (panicked_of os); yr; reflexivity. Qed.
Lemma yfl_apply_outs_o y x os : yfl (apply_outs y x os) (other x) = yfl y (other x).
Proof. unfold apply_outs. destruct (panicked_of os); yr; reflexivity. Qed.
Lemma ypush_apply_outs y x os z : ypush (apply_outs y x os) z = ypush y z.
Proof. unfold apply_outs. destruct (panicked_of os); yr; reflexivity. Qed.
Lemma yhand_apply_outs y x os z : yhand (apply_outs y x os) z = yhand y z.
Proof. unfold apply_outs. destruct (panicked_of os); yr; reflexivity. Qed.
Lemma yacc_apply_outs y x os z : yacc (apply_outs y x os) z = yacc y z.
Proof. unfold apply_outs. destruct (panicked_of os); yr; reflexivity. Qed.
Lemma ypan_apply_outs y x os : ypan (apply_outs y x os) = (panicked_of os || ypan y)%bool.
Proof. unfold apply_outs. destruct (panicked_of os); yr; reflexivity. Qed.

Global Hint Rewrite yt_apply_outs yn_apply_outs yn_apply_outs_o yfl_apply_outs yfl_apply_outs_o
  ypush_apply_outs yhand_apply_outs yacc_apply_outs ypan_apply_outs : yr.

Lemma yn_apply_outs_o2 y x os : yn (apply_outs y (other x) os) x = yn y x.
Proof. unfold apply_outs. destruct (panicked_of os); yr; reflexivity. Qed.
Lemma yfl_apply_outs_o2 y x os : yfl (apply_outs y (other x) os) x = yfl y x.
Proof. unfold apply_outs. destruct (panicked_of os); yr; reflexivity. Qed.
Global Hint Rewrite yn_apply_outs_o2 yfl_apply_outs_o2 : yr.

Lemma emitted_of_app a b : emitted_of (a ++ b) = emitted_of a ++ emitted_of b.
Proof. unfold emitted_of. apply flat_map_app. Qed.
Lemma flushed_of_app a b : flushed_of (a ++ b) = flushed_of a ++ flushed_of b.
Proof. unfold flushed_of. apply flat_map_app. Qed.
Lemma emitted_of_map segs : emitted_of (map OEmitted segs) = segs.
Proof. induction segs as [|a l IH]; [reflexivity|]. cbn. f_equal. exact IH. Qed.
Lemma flushed_of_map segs : flushed_of (map OEmitted segs) = [].
Proof. induction segs as [|a l IH]; [reflexivity|]. cbn. exact IH. Qed.
Lemma panicked_of_map segs : panicked_of (map OEmitted segs) = false.
Proof. induction segs as [|a l IH]; [reflexivity|]. cbn. exact IH. Qed.

Lemma sess_top_quiet t c :
  emitted_of (snd (sess_top t c)) = [] /\ flushed_of (snd (sess_top t c)) = [] /\
  panicked_of (snd (sess_top t c)) = false.
Proof. unfold sess_top. destruct c; [auto|]. destruct (state_eqb _ _); auto. Qed.

Lemma sess_start_shape t : exists c os,
  sess_start t = (mkSess t c (PDrain true), os) /\
  emitted_of os = [] /\ flushed_of os = [] /\ panicked_of os = false.
Proof.
  unfold sess_start. pose proof (sess_top_quiet t false) as H.
  destruct (sess_top t false) as [c os]. exists c, os. auto.
Qed.

Lemma qsegs_app a b : qsegs (a ++ b) = qsegs a ++ qsegs b.
Proof. unfold qsegs. apply flat_map_app. Qed.
Lemma qbytes_app a b : qbytes (a ++ b) = qbytes a ++ qbytes b.
Proof. unfold qbytes. apply flat_map_app. Qed.

(* ---------- moving the invariant along ---------- *)
Lemma prefix_refl {A} (l : list A) : prefix l l.
Proof. exists []. now rewrite app_nil_r. Qed.
Lemma prefix_trans {A} (a b c : list A) : prefix a b -> prefix b c -> prefix a c.
Proof. intros [r ->] [r' ->]. exists (r ++ r'). now rewrite app_assoc. Qed.
Lemma prefix_app {A} (a r : list A) : prefix a (a ++ r).
Proof. exists r. reflexivity. Qed.
Lemma prefix_zlen {A} (a b : list A) : prefix a b -> zlen a <= zlen b.
Proof. intros [r ->]. rewrite zlen_app. pose proof (zlen_nonneg r). lia. Qed.

(* SysInv only looks at the projections; the in-flight multisets may shrink or be permuted,
   and a dead endpoint may have delivered less *)
Lemma sysinv_transfer c s s' :
  SysInv c s -> panicked s' = false ->
  (forall x, end_of s' x = end_of s x) -> (forall x, sub_of s' x = sub_of s x) ->
  (forall x, del_of s' x = del_of s x \/
             (end_of s x = EDead /\ prefix (concat (del_of s' x)) (concat (del_of s x)))) ->
  (forall x seg, In seg (net_of s' x) -> In seg (net_of s x)) ->
  SysInv c s'.
Proof.
  intros (P & W & E & N) P' He Hs Hd Hn.
  assert (Epv : forall x, pv_of c s' x = pv_of c s x).
  { intros x. rewrite !pv_of_eq, He, Hs. reflexivity. }
  unfold SysInv. splits.
  - exact P'.
  - intros x. rewrite Epv. apply W.
  - intros x. specialize (E x). rewrite EndInv_eq in *. rewrite Epv, He, !Hs.
    unfold delivered in *. destruct (Hd x) as [-> | [Hdead Hpre]]; [exact E|].
    rewrite Hdead in *. cbn [EndInvP] in *. eapply prefix_trans; eassumption.
  - intros x. rewrite Epv. specialize (N x). rewrite Forall_forall in *. intros seg Hin. apply N, Hn, Hin.
Qed.

Lemma In_remove_nth {A} (l : list A) n a : In a (remove_nth l n) -> In a l.
Proof.
  revert n. induction l as [|b l IH]; intros n H; cbn [remove_nth] in H; [destruct H|].
  destruct n; [right; exact H|]. destruct H as [<-|H]; [left; reflexivity|right; eapply IH, H].
Qed.

(* ---------- the invariant of the session system ---------- *)
(* per side: the application's stream = what the task has handled + what waits in its channel;
   what the TCB accepted is a prefix of what the task handled, and all of it while the TCB
   still accepts text *)
Definition QInv (y : ysys) (x : side) : Prop :=
  ypush y x = yhand y x ++ qbytes (yq (yt y x)) /\
  prefix (yacc y x) (yhand y x) /\
  match yt y x with
  | YRun s _ => accepts_send (st (ss_tcb s)) = true -> yacc y x = yhand y x
  | _ => yacc y x = yhand y x
  end.

Definition YInv (c : config) (y : ysys) : Prop := SysInv c (yabs y) /\ forall x, QInv y x.

Lemma QInv_ext y y' x :
  yt y' x = yt y x -> ypush y' x = ypush y x -> yhand y' x = yhand y x -> yacc y' x = yacc y x ->
  QInv y x -> QInv y' x.
Proof. unfold QInv. intros -> -> -> ->. auto. Qed.

Section Steps.
  Variable c : config.
  Hypothesis Hc : cfg_ok c.

  Lemma sysinv_nopanic s : SysInv c s -> panicked s = false.
  Proof. intros H. apply H. Qed.

  (* a change of the session system that leaves endpoints, accepted streams and flushed chunks
     alone and only drops / permutes in-flight segments *)
  Lemma yinv_net_only y y' :
    YInv c y -> ypan y' = ypan y ->
    (forall z, yend (yt y' z) = yend (yt y z)) ->
    (forall z, yacc y' z = yacc y z) -> (forall z, yfl y' z = yfl y z) ->
    (forall z seg, In seg (yn y' z ++ qsegs (yq (yt y' (other z)))) -> In seg (yn y z ++ qsegs (yq (yt y (other z))))) ->
    (forall z, QInv y' z) ->
    YInv c y'.
  Proof.
    intros [HI HQ] Hp He Ha Hf Hn HQ'. split; [|exact HQ'].
    apply (sysinv_transfer c (yabs y)); [exact HI| | | | |].
    - rewrite pan_yabs, Hp, <- pan_yabs. apply HI.
    - intros z. rewrite !end_yabs. apply He.
    - intros z. rewrite !sub_yabs. apply Ha.
    - intros z. left. rewrite !del_yabs. apply Hf.
    - intros z seg. rewrite !net_yabs. apply Hn.
  Qed.

  Lemma write_inv y x bytes s q : YInv c y -> yt y x = YRun s q ->
    YInv c (set_ypush (set_yt y x (YRun s (q ++ [IOutgoing bytes]))) x (ypush y x ++ bytes)).
  Proof.
    intros HY El. pose proof HY as [HI HQ].
    apply (yinv_net_only y); try assumption; try (intros; yr; reflexivity).
    - intros z. destruct (side_cases x z) as [-> | ->]; yr; [rewrite El|]; reflexivity.
    - intros z seg. destruct (side_cases x z) as [-> | ->]; yr; try (intros H; exact H).
      rewrite El. cbn [yq]. rewrite qsegs_app. cbn. rewrite app_nil_r. intros H; exact H.
    - intros z. destruct (side_cases x z) as [-> | ->].
      + specialize (HQ x). unfold QInv in *. yr. rewrite El in *. cbn [yq] in *.
        destruct HQ as (Q1 & Q2 & Q3). split; [|split; assumption].
        rewrite Q1, qbytes_app. cbn. rewrite app_nil_r, app_assoc. reflexivity.
      + apply (QInv_ext y); yr; auto.
  Qed.

  (* only the in-flight segments of x change, to a sub-multiset (or with copies) *)
  Lemma net_shrink_inv y x l : YInv c y ->
    (forall seg, In seg l -> In seg (yn y x)) -> YInv c (set_yn y x l).
  Proof.
    intros HY Hl. pose proof HY as [HI HQ].
    apply (yinv_net_only y); try assumption; try (intros; yr; reflexivity).
    - intros z seg. destruct (side_cases x z) as [-> | ->]; yr; [|intros H; exact H].
      intros H. apply in_app_or in H. apply in_or_app. destruct H as [H|H]; [left; apply Hl, H|right; exact H].
    - intros z. apply (QInv_ext y); yr; auto.
  Qed.

  Lemma nth_mod_In {A} (n : list A) i seg : nth_error n (Nat.modulo i (length n)) = Some seg -> In seg n.
  Proof. apply nth_error_In. Qed.

  (* Tcp::demux hands the segment to the existing session: it waits in the channel *)
  Lemma deliver_run_inv y x n j seg s q : YInv c y -> yn y x = n -> nth_error n j = Some seg ->
    yt y (other x) = YRun s q ->
    YInv c (set_yt (set_yn y x (remove_nth n j)) (other x) (YRun s (q ++ [IIncoming seg]))).
  Proof.
    intros HY En Hnth El. pose proof HY as [HI HQ].
    apply (yinv_net_only y); try assumption; try (intros; yr; reflexivity).
    - intros z. destruct (side_cases x z) as [-> | ->]; yr; [|rewrite El]; reflexivity.
    - intros z seg0. destruct (side_cases x z) as [-> | ->]; yr.
      + rewrite El. cbn [yq]. rewrite qsegs_app. cbn [qsegs flat_map app]. rewrite En. intros H.
        apply in_or_app. apply in_app_or in H. destruct H as [H|H]; [left; eapply In_remove_nth, H|].
        apply in_app_or in H. destruct H as [H|[<-|[]]]; [right; exact H|left; eapply nth_error_In, Hnth].
      + intros H; exact H.
    - intros z. destruct (side_cases x z) as [-> | ->].
      + apply (QInv_ext y); yr; auto.
      + specialize (HQ (other x)). unfold QInv in *. yr. rewrite El in *. cbn [yq] in *.
        destruct HQ as (Q1 & Q2 & Q3). split; [|split; assumption].
        rewrite Q1, qbytes_app. cbn. rewrite app_nil_r. reflexivity.
  Qed.

  (* the abstraction of y' is, projection by projection, a system known to satisfy the invariant *)
  Lemma yinv_from_target y' tg :
    SysInv c tg -> ypan y' = false ->
    (forall z, yend (yt y' z) = end_of tg z) ->
    (forall z, yacc y' z = sub_of tg z) ->
    (forall z, yfl y' z = del_of tg z \/
               (end_of tg z = EDead /\ prefix (concat (yfl y' z)) (concat (del_of tg z)))) ->
    (forall z seg, In seg (yn y' z ++ qsegs (yq (yt y' (other z)))) -> In seg (net_of tg z)) ->
    (forall z, QInv y' z) ->
    YInv c y'.
  Proof.
    intros HT Hp He Ha Hf Hn HQ. split; [|exact HQ].
    apply (sysinv_transfer c tg); [exact HT| | | | |].
    - rewrite pan_yabs. exact Hp.
    - intros z. rewrite end_yabs. apply He.
    - intros z. rewrite sub_yabs. apply Ha.
    - intros z. rewrite del_yabs. apply Hf.
    - intros z seg. rewrite net_yabs. apply Hn.
  Qed.

  Definition running (s : sess) : bool :=
    match ss_phase s with PEnded | PCrashed => false | _ => true end.
  Lemma yend_running s q : running s = true -> yend (YRun s q) = ELive (ss_tcb s).
  Proof. unfold running, yend. destruct (ss_phase s); try discriminate; reflexivity. Qed.

  Lemma ypan_false y : YInv c y -> ypan y = false.
  Proof. intros [HI _]. rewrite <- pan_yabs. apply HI. Qed.

  (* ---------- a task starts: Tcp::open ---------- *)
  Lemma yopen_inv y x : YInv c y -> yt y x = YNone ->
    YInv c (let '(s0, os) := sess_start (tcb_open (port_of c x) (port_of c (other x)) (iss_of c x) (mtu_of c x)) in
            apply_outs (set_yt y x (YRun s0 [])) x os).
  Proof.
    intros HY El. pose proof HY as [HI HQ]. pose proof (ypan_false y HY) as Hp.
    set (t0 := tcb_open _ _ _ _).
    destruct (sess_start_shape t0) as (c0 & os & -> & E1 & E2 & E3).
    assert (HT : SysInv c (set_end (yabs y) x (ELive t0))).
    { apply open_inv; try exact Hc; try exact HI. rewrite end_yabs, El. reflexivity. }
    apply (yinv_from_target _ _ HT).
    - yr. rewrite E3, Hp. reflexivity.
    - intros z. destruct (side_cases x z) as [-> | ->]; yr; sysr; rewrite ?end_yabs; reflexivity.
    - intros z. yr. sysr. rewrite sub_yabs. reflexivity.
    - intros z. left. destruct (side_cases x z) as [-> | ->]; yr; sysr; rewrite del_yabs, ?E2, ?app_nil_r; reflexivity.
    - intros z seg. sysr. rewrite net_yabs. destruct (side_cases x z) as [-> | ->]; yr.
      + rewrite E1, app_nil_r. intros H; exact H.
      + cbn [yq qsegs flat_map]. rewrite El. intros H; exact H.
    - intros z. destruct (side_cases x z) as [-> | ->].
      + specialize (HQ x). unfold QInv in *. yr. rewrite El in *. cbn [yq] in *.
        destruct HQ as (Q1 & Q2 & Q3). split; [exact Q1|]. split; [exact Q2|]. intros _. exact Q3.
      + apply (QInv_ext y); yr; auto.
  Qed.

  (* what the invariant says about the in-flight segments of x and the channel of its peer *)
  Lemma yinv_net_parts y x : YInv c y ->
    Forall (seg_inv (pv_of c (yabs y) x)) (yn y x) /\
    Forall (seg_inv (pv_of c (yabs y) x)) (qsegs (yq (yt y (other x)))).
  Proof.
    intros [(P & W & E & N) _]. specialize (N x). rewrite net_yabs in N.
    apply Forall_app in N. exact N.
  Qed.

  Lemma Forall_remove_nth' {A} (P : A -> Prop) l n : Forall P l -> Forall P (remove_nth l n).
  Proof. rewrite !Forall_forall. intros H a Ha. apply H. eapply In_remove_nth, Ha. Qed.

  (* ---------- Tcp::demux without a session: listen binding / nothing ---------- *)
  Lemma deliver_listen_inv y x n j seg : YInv c y -> yn y x = n -> nth_error n j = Some seg ->
    yt y (other x) = YListen ->
    YInv c (match arrives_listen seg (iss_of c (other x)) (mtu_of c (other x)) with
            | LNone => set_yn y x (remove_nth n j)
            | LResponse h => set_yn (set_yn y x (remove_nth n j)) (other x)
                                    (yn (set_yn y x (remove_nth n j)) (other x) ++ [mkSeg h []])
            | LTcb t => let '(s0, os) := sess_start t in
                        apply_outs (set_yt (set_yn y x (remove_nth n j)) (other x) (YRun s0 [])) (other x) os
            end).
  Proof.
    intros HY En Hnth El. pose proof HY as [HI HQ]. pose proof (ypan_false y HY) as Hp.
    destruct (yinv_net_parts y x HY) as [N1 N2]. rewrite En in N1.
    assert (HT : SysInv c (fst (arrive c (set_net (yabs y) x (remove_nth n j)) (other x) seg))).
    { apply deliver_inv; try exact Hc; try exact HI.
      - apply Forall_remove_nth', N1.
      - rewrite Forall_forall in N1. apply N1. eapply nth_error_In, Hnth. }
    unfold arrive in HT. rewrite end_set_net, end_yabs, El in HT. cbn [yend] in HT.
    destruct (arrives_listen seg (iss_of c (other x)) (mtu_of c (other x))) as [|h|t]; cbn [fst] in HT.
    - apply (yinv_from_target _ _ HT).
      + yr. exact Hp.
      + intros z. yr. sysr. rewrite end_yabs. reflexivity.
      + intros z. yr. sysr. rewrite sub_yabs. reflexivity.
      + intros z. left. yr. sysr. rewrite del_yabs. reflexivity.
      + intros z seg0. destruct (side_cases x z) as [-> | ->]; yr; sysr.
        * rewrite El. cbn [yq qsegs flat_map]. rewrite app_nil_r. intros H; exact H.
        * rewrite net_yabs, other_other. intros H; exact H.
      + intros z. apply (QInv_ext y); yr; auto.
    - apply (yinv_from_target _ _ HT).
      + yr. exact Hp.
      + intros z. yr. sysr. rewrite end_yabs. reflexivity.
      + intros z. yr. sysr. rewrite sub_yabs. reflexivity.
      + intros z. left. yr. sysr. rewrite del_yabs. reflexivity.
      + intros z seg0. destruct (side_cases x z) as [-> | ->]; yr; sysr.
        * rewrite El. cbn [yq qsegs flat_map]. rewrite app_nil_r. intros H; exact H.
        * rewrite net_yabs, other_other. yr. intros H.
          apply in_app_or in H. destruct H as [H|H].
          -- apply in_app_or in H. apply in_or_app. destruct H as [H|H]; [left; apply in_or_app; left; exact H|right; exact H].
          -- apply in_or_app. left. apply in_or_app. right. exact H.
      + intros z. apply (QInv_ext y); yr; auto.
    - destruct (sess_start_shape t) as (c0 & os & -> & E1 & E2 & E3).
      apply (yinv_from_target _ _ HT).
      + yr. rewrite E3, Hp. reflexivity.
      + intros z. destruct (side_cases x z) as [-> | ->]; yr; sysr; rewrite ?end_yabs; reflexivity.
      + intros z. yr. sysr. rewrite sub_yabs. reflexivity.
      + intros z. left. destruct (side_cases x z) as [-> | ->]; yr; sysr; rewrite del_yabs, ?E2, ?app_nil_r; reflexivity.
      + intros z seg0. destruct (side_cases x z) as [-> | ->]; yr; sysr.
        * cbn [yq qsegs flat_map]. rewrite app_nil_r. intros H; exact H.
        * rewrite net_yabs, other_other, E1, app_nil_r. intros H; exact H.
      + intros z. destruct (side_cases x z) as [-> | ->].
        * apply (QInv_ext y); yr; auto.
        * specialize (HQ (other x)). unfold QInv in *. yr. rewrite El in *. cbn [yq] in *.
          destruct HQ as (Q1 & Q2 & Q3). split; [exact Q1|]. split; [exact Q2|]. intros _. exact Q3.
  Qed.

  Lemma deliver_none_inv y x n j seg : YInv c y -> yn y x = n -> nth_error n j = Some seg ->
    yt y (other x) = YNone ->
    YInv c (match arrives_closed (s_hdr seg) (zlen (s_text seg)) with
            | None => set_yn y x (remove_nth n j)
            | Some h => set_yn (set_yn y x (remove_nth n j)) (other x)
                               (yn (set_yn y x (remove_nth n j)) (other x) ++ [mkSeg h []])
            end).
  Proof.
    intros HY En Hnth El. pose proof HY as [HI HQ]. pose proof (ypan_false y HY) as Hp.
    destruct (yinv_net_parts y x HY) as [N1 N2]. rewrite En in N1.
    assert (HT : SysInv c (fst (arrive c (set_net (yabs y) x (remove_nth n j)) (other x) seg))).
    { apply deliver_inv; try exact Hc; try exact HI.
      - apply Forall_remove_nth', N1.
      - rewrite Forall_forall in N1. apply N1. eapply nth_error_In, Hnth. }
    unfold arrive in HT. rewrite end_set_net, end_yabs, El in HT. cbn [yend] in HT.
    destruct (arrives_closed (s_hdr seg) (zlen (s_text seg))) as [h|]; cbn [fst] in HT.
    - apply (yinv_from_target _ _ HT).
      + yr. exact Hp.
      + intros z. yr. sysr. rewrite end_yabs. reflexivity.
      + intros z. yr. sysr. rewrite sub_yabs. reflexivity.
      + intros z. left. yr. sysr. rewrite del_yabs. reflexivity.
      + intros z seg0. destruct (side_cases x z) as [-> | ->]; yr; sysr.
        * rewrite El. cbn [yq qsegs flat_map]. rewrite app_nil_r. intros H; exact H.
        * rewrite net_yabs, other_other. yr. intros H.
          apply in_app_or in H. destruct H as [H|H].
          -- apply in_app_or in H. apply in_or_app. destruct H as [H|H]; [left; apply in_or_app; left; exact H|right; exact H].
          -- apply in_or_app. left. apply in_or_app. right. exact H.
      + intros z. apply (QInv_ext y); yr; auto.
    - apply (yinv_from_target _ _ HT).
      + yr. exact Hp.
      + intros z. yr. sysr. rewrite end_yabs. reflexivity.
      + intros z. yr. sysr. rewrite sub_yabs. reflexivity.
      + intros z. left. yr. sysr. rewrite del_yabs. reflexivity.
      + intros z seg0. destruct (side_cases x z) as [-> | ->]; yr; sysr.
        * rewrite El. cbn [yq qsegs flat_map]. rewrite app_nil_r. intros H; exact H.
        * rewrite net_yabs, other_other. intros H; exact H.
      + intros z. apply (QInv_ext y); yr; auto.
  Qed.

  (* ---------- the steps of a running task ---------- *)
  Lemma in_app_swap {A} (a b d : list A) x : In x ((a ++ b) ++ d) -> In x ((a ++ d) ++ b).
  Proof. rewrite !in_app_iff. tauto. Qed.

  (* try_recv found the channel empty (l.78) *)
  Lemma take_empty_inv y x s nt : YInv c y -> yt y x = YRun s [] -> ss_phase s = PDrain nt ->
    YInv c (ytake y x s [] SEmpty).
  Proof.
    intros HY El Hph. pose proof HY as [HI HQ].
    unfold ytake, sess_step. cbv zeta. rewrite Hph. cbv beta iota.
    apply (yinv_net_only y); [exact HY| | | | | |].
    - yr. reflexivity.
    - intros z. destruct (side_cases x z) as [-> | ->]; yr; [|reflexivity].
      rewrite El. unfold yend. cbn [ss_phase ss_tcb]. rewrite Hph. destruct nt; reflexivity.
    - intros z. yr. reflexivity.
    - intros z. destruct (side_cases x z) as [-> | ->]; yr; cbn [flushed_of flat_map]; rewrite ?app_nil_r; reflexivity.
    - intros z seg. destruct (side_cases x z) as [-> | ->]; yr.
      + cbn [emitted_of flat_map]. rewrite app_nil_r. intros H; exact H.
      + rewrite El. cbn [yq]. intros H; exact H.
    - intros z. destruct (side_cases x z) as [-> | ->].
      + specialize (HQ x). unfold QInv in *. yr. rewrite El in *. cbn [yq ss_tcb] in *. exact HQ.
      + apply (QInv_ext y); yr; auto.
  Qed.

  (* an Incoming instruction is taken from the channel (l.68-76 or l.86-95) *)
  Lemma take_incoming_inv y x s q seg next : YInv c y ->
    yt y x = YRun s (IIncoming seg :: q) -> running s = true ->
    next = PDrain false \/ next = PReady ->
    sess_step s (SIncoming seg) = sess_handle s (SIncoming seg) next ->
    YInv c (ytake y x s q (SIncoming seg)).
  Proof.
    intros HY El Hrun Hnext Hstep. pose proof HY as [HI HQ]. pose proof (ypan_false y HY) as Hp.
    destruct (yinv_net_parts y (other x) HY) as [N1 N2].
    rewrite other_other, El in N2. cbn [yq qsegs flat_map app] in N2. inversion N2 as [|? ? Hseg N3]; subst.
    set (l := yn y (other x) ++ qsegs q).
    assert (HT : SysInv c (fst (arrive c (set_net (yabs y) (other x) l) x seg))).
    { rewrite <- (other_other x) at 2. apply deliver_inv; try exact Hc; try exact HI; [|exact Hseg].
      subst l. apply Forall_app. split; assumption. }
    unfold arrive in HT. rewrite end_set_net, end_yabs, El, (yend_running s _ Hrun) in HT.
    unfold ytake. rewrite Hstep. unfold sess_handle. cbv zeta.
    assert (Hnr : forall t1 q1, yend (YRun (mkSess t1 (ss_conn s) next) q1) = ELive t1).
    { intros t1 q1. destruct Hnext as [-> | ->]; reflexivity. }
    pose proof (HQ x) as (Q1 & Q2 & Q3). rewrite El in Q1, Q3. cbn [yq qbytes flat_map app] in Q1.
    destruct (segment_arrives (ss_tcb s) seg) as [[t1 []]|e|p|] eqn:Ea; cbn [fst] in HT.
    - (* Ok *)
      apply (yinv_from_target _ _ HT).
      + yr. cbn. exact Hp.
      + intros z. destruct (side_cases x z) as [-> | ->]; yr; sysr; rewrite ?end_yabs, ?Hnr; reflexivity.
      + intros z. yr. sysr. rewrite sub_yabs. reflexivity.
      + intros z. left. destruct (side_cases x z) as [-> | ->]; yr; sysr; rewrite del_yabs; cbn; rewrite ?app_nil_r; reflexivity.
      + intros z seg0. destruct (side_cases x z) as [-> | ->]; yr; sysr.
        * rewrite net_yabs. cbn [emitted_of flat_map]. rewrite app_nil_r. intros H; exact H.
        * cbn [yq]. intros H; exact H.
      + intros z. destruct (side_cases x z) as [-> | ->].
        * unfold QInv. yr. cbn [yq ss_tcb]. split; [exact Q1|]. split; [exact Q2|].
          intros Hacc. apply Q3. eapply segment_arrives_st; eassumption.
        * apply (QInv_ext y); yr; auto.
    - (* Close: the task leaves its loop; nothing more is emitted or flushed *)
      destruct (final_read_other (set_net (yabs y) (other x) l) x t1) as (F1 & F2 & F3 & F4 & F5).
      apply (yinv_from_target _ _ HT).
      + yr. cbn. exact Hp.
      + intros z. destruct (side_cases x z) as [-> | ->]; yr; sysr; rewrite ?F1; sysr; rewrite ?end_yabs; reflexivity.
      + intros z. yr. sysr. rewrite F2. sysr. rewrite sub_yabs. reflexivity.
      + intros z. destruct (side_cases x z) as [-> | ->]; yr.
        * right. sysr. split; [reflexivity|].
          change (concat (del_of (final_read (set_net (yabs y) (other x) l) x t1) x))
            with (delivered (final_read (set_net (yabs y) (other x) l) x t1) x).
          rewrite delivered_final_read. unfold delivered. sysr. rewrite del_yabs.
          cbn [flushed_of flat_map app]. rewrite app_nil_r. apply prefix_app.
        * left. sysr. rewrite F5. sysr. rewrite del_yabs. reflexivity.
      + intros z seg0. destruct (side_cases x z) as [-> | ->]; yr; sysr; rewrite F3; sysr.
        * rewrite net_yabs. cbn [emitted_of flat_map app]. rewrite app_nil_r. intros H; exact H.
        * cbn [yq]. intros H; exact H.
      + intros z. destruct (side_cases x z) as [-> | ->].
        * unfold QInv. yr. cbn [yq ss_tcb]. split; [exact Q1|]. split; [exact Q2|].
          intros Hacc. apply Q3. eapply segment_arrives_st; eassumption.
        * apply (QInv_ext y); yr; auto.
    - apply sysinv_nopanic in HT. discriminate HT.
    - apply sysinv_nopanic in HT. discriminate HT.
    - apply sysinv_nopanic in HT. discriminate HT.
  Qed.

  (* an Outgoing instruction is taken from the channel *)
  Lemma take_outgoing_inv y x s q b next : YInv c y ->
    yt y x = YRun s (IOutgoing b :: q) -> running s = true ->
    next = PDrain false \/ next = PReady ->
    sess_step s (SOutgoing b) = sess_handle s (SOutgoing b) next ->
    zlen (ypush y x) < SEQ_BOUND ->
    YInv c (ytake y x s q (SOutgoing b)).
  Proof.
    intros HY El Hrun Hnext Hstep Hb. pose proof HY as [HI HQ]. pose proof (ypan_false y HY) as Hp.
    pose proof (HQ x) as (Q1 & Q2 & Q3). rewrite El in Q1, Q3. cbn [yq qbytes flat_map] in Q1.
    fold (qbytes q) in Q1.
    assert (El' : end_of (yabs y) x = ELive (ss_tcb s)) by (rewrite end_yabs, El; apply yend_running, Hrun).
    pose proof (send_sys_inv c Hc (yabs y) x (ss_tcb s) b HI El') as HT. cbv zeta in HT.
    assert (Hnr : forall t1 q1, yend (YRun (mkSess t1 (ss_conn s) next) q1) = ELive t1).
    { intros t1 q1. destruct Hnext as [-> | ->]; reflexivity. }
    unfold ytake. rewrite Hstep. unfold sess_handle. cbv zeta.
    pose proof (zlen_nonneg (qbytes q)) as Hq0. pose proof (zlen_nonneg b) as Hb0.
    rewrite Q1, !zlen_app in Hb.
    destruct (accepts_send (st (ss_tcb s))) eqn:Eacc.
    - specialize (Q3 eq_refl).
      assert (HT' := HT ltac:(sysr; rewrite sub_yabs, Q3, zlen_app; lia)). clear HT.
      apply (yinv_from_target _ _ HT').
      + yr. cbn. exact Hp.
      + intros z. destruct (side_cases x z) as [-> | ->]; yr; sysr; rewrite ?end_yabs, ?Hnr; reflexivity.
      + intros z. destruct (side_cases x z) as [-> | ->]; yr; sysr; rewrite !sub_yabs; reflexivity.
      + intros z. left. destruct (side_cases x z) as [-> | ->]; yr; sysr; rewrite del_yabs; cbn; rewrite ?app_nil_r; reflexivity.
      + intros z seg0. destruct (side_cases x z) as [-> | ->]; yr; sysr; rewrite net_yabs.
        * cbn [emitted_of flat_map]. rewrite app_nil_r. intros H; exact H.
        * rewrite other_other, El. cbn [yq qsegs flat_map app]. intros H; exact H.
      + intros z. destruct (side_cases x z) as [-> | ->].
        * unfold QInv. yr. cbn [yq ss_tcb]. split; [|split].
          -- rewrite Q1, <- app_assoc. reflexivity.
          -- rewrite Q3. apply prefix_refl.
          -- intros _. rewrite Q3. reflexivity.
        * apply (QInv_ext y); yr; auto.
    - assert (HT' := HT ltac:(rewrite sub_yabs; pose proof (prefix_zlen _ _ Q2); lia)). clear HT.
      apply (yinv_from_target _ _ HT').
      + yr. cbn. exact Hp.
      + intros z. destruct (side_cases x z) as [-> | ->]; yr; sysr; rewrite ?end_yabs, ?Hnr; reflexivity.
      + intros z. destruct (side_cases x z) as [-> | ->]; yr; sysr; rewrite !sub_yabs; reflexivity.
      + intros z. left. destruct (side_cases x z) as [-> | ->]; yr; sysr; rewrite del_yabs; cbn; rewrite ?app_nil_r; reflexivity.
      + intros z seg0. destruct (side_cases x z) as [-> | ->]; yr; sysr; rewrite net_yabs.
        * cbn [emitted_of flat_map]. rewrite app_nil_r. intros H; exact H.
        * rewrite other_other, El. cbn [yq qsegs flat_map app]. intros H; exact H.
      + intros z. destruct (side_cases x z) as [-> | ->].
        * unfold QInv. yr. cbn [yq ss_tcb]. split; [|split].
          -- rewrite Q1, <- app_assoc. reflexivity.
          -- eapply prefix_trans; [exact Q2|apply prefix_app].
          -- rewrite tcb_send_st, Eacc. discriminate.
        * apply (QInv_ext y); yr; auto.
  Qed.

  (* segments() and the hand-over of every segment to the IPv4 session (l.112-120) *)
  Lemma take_emit_inv y x s q : YInv c y -> yt y x = YRun s q -> ss_phase s = PReady ->
    YInv c (ytake y x s q SEmit).
  Proof.
    intros HY El Hph. pose proof HY as [HI HQ]. pose proof (ypan_false y HY) as Hp.
    assert (Hrun : running s = true) by (unfold running; rewrite Hph; reflexivity).
    pose proof (HQ x) as (Q1 & Q2 & Q3). rewrite El in Q1, Q3. cbn [yq] in Q1.
    destruct (emit_inv c Hc (yabs y) x HI) as [HT Hbad].
    unfold emit in HT, Hbad. rewrite end_yabs, El, (yend_running s _ Hrun) in HT, Hbad.
    unfold ytake, sess_step. cbv zeta. rewrite Hph. cbv beta iota.
    destruct (tcb_segments (ss_tcb s)) as [[t1 segs]|e|p|] eqn:Es; cbn [fst snd] in HT, Hbad; try discriminate Hbad.
    assert (E1 : emitted_of (OCall CSegments :: map OEmitted segs) = segs) by (cbn; apply emitted_of_map).
    assert (E2 : flushed_of (OCall CSegments :: map OEmitted segs) = []) by (cbn; apply flushed_of_map).
    assert (E3 : panicked_of (OCall CSegments :: map OEmitted segs) = false) by (cbn; apply panicked_of_map).
    apply (yinv_from_target _ _ HT).
    - yr. rewrite E3. exact Hp.
    - intros z. destruct (side_cases x z) as [-> | ->]; yr; sysr; rewrite ?end_yabs; reflexivity.
    - intros z. yr. sysr. rewrite sub_yabs. reflexivity.
    - intros z. left. destruct (side_cases x z) as [-> | ->]; yr; sysr; rewrite del_yabs, ?E2, ?app_nil_r; reflexivity.
    - intros z seg0. destruct (side_cases x z) as [-> | ->]; yr; sysr; rewrite net_yabs.
      + rewrite E1. apply in_app_swap.
      + rewrite other_other, El. cbn [yq]. intros H; exact H.
    - intros z. destruct (side_cases x z) as [-> | ->].
      + unfold QInv. yr. cbn [yq ss_tcb]. split; [exact Q1|]. split; [exact Q2|].
        rewrite (tcb_segments_st _ _ _ Es). exact Q3.
      + apply (QInv_ext y); yr; auto.
  Qed.

  (* receive(), upstream.demux of a non-empty result, and the top of the next round (l.122-132, l.55-64) *)
  Lemma take_flush_inv y x s q : YInv c y -> yt y x = YRun s q -> ss_phase s = PEmitted ->
    YInv c (ytake y x s q SFlush).
  Proof.
    intros HY El Hph. pose proof HY as [HI HQ]. pose proof (ypan_false y HY) as Hp.
    assert (Hrun : running s = true) by (unfold running; rewrite Hph; reflexivity).
    pose proof (HQ x) as (Q1 & Q2 & Q3). rewrite El in Q1, Q3. cbn [yq] in Q1.
    first [pose proof (recv_inv c Hc (yabs y) x HI) as HT | pose proof (recv_inv c (yabs y) x HI) as HT].
    unfold recv in HT. rewrite end_yabs, El, (yend_running s _ Hrun) in HT.
    unfold tcb_receive in HT. cbn [fst] in HT.
    unfold ytake, sess_step. cbv zeta. rewrite Hph. cbv beta iota. unfold tcb_receive.
    pose proof (sess_top_quiet (set_in_text (ss_tcb s) []) (ss_conn s)) as (T1 & T2 & T3).
    destruct (sess_top (set_in_text (ss_tcb s) []) (ss_conn s)) as [c0 o]. cbn [snd] in T1, T2, T3.
    set (bytes := in_text (ss_tcb s)) in *.
    assert (E1 : emitted_of (OCall CReceive :: OFlushed bytes :: o) = []) by (cbn; exact T1).
    assert (E3 : panicked_of (OCall CReceive :: OFlushed bytes :: o) = false) by (cbn; exact T3).
    assert (E2 : flushed_of (OCall CReceive :: OFlushed bytes :: o) = match bytes with [] => [] | _ => [bytes] end).
    { cbn [flushed_of flat_map app]. fold (flushed_of o). rewrite T2. destruct bytes; reflexivity. }
    destruct bytes as [|b0 br] eqn:Eb; cbn [fst] in HT.
    - apply (yinv_from_target _ _ HT).
      + yr. rewrite E3. exact Hp.
      + intros z. destruct (side_cases x z) as [-> | ->]; yr; sysr; rewrite ?end_yabs; reflexivity.
      + intros z. yr. sysr. rewrite sub_yabs. reflexivity.
      + intros z. left. destruct (side_cases x z) as [-> | ->]; yr; sysr; rewrite del_yabs, ?E2, ?app_nil_r; reflexivity.
      + intros z seg0. destruct (side_cases x z) as [-> | ->]; yr; sysr; rewrite net_yabs.
        * rewrite E1, app_nil_r. intros H; exact H.
        * rewrite other_other, El. cbn [yq]. intros H; exact H.
      + intros z. destruct (side_cases x z) as [-> | ->].
        * unfold QInv. yr. cbn [yq ss_tcb]. split; [exact Q1|]. split; [exact Q2|]. exact Q3.
        * apply (QInv_ext y); yr; auto.
    - apply (yinv_from_target _ _ HT).
      + yr. rewrite E3. exact Hp.
      + intros z. destruct (side_cases x z) as [-> | ->]; yr; sysr; rewrite ?end_yabs; reflexivity.
      + intros z. yr. sysr. rewrite sub_yabs. reflexivity.
      + intros z. left. destruct (side_cases x z) as [-> | ->]; yr; sysr; rewrite !del_yabs, ?E2; reflexivity.
      + intros z seg0. destruct (side_cases x z) as [-> | ->]; yr; sysr; rewrite net_yabs.
        * rewrite E1, app_nil_r. intros H; exact H.
        * rewrite other_other, El. cbn [yq]. intros H; exact H.
      + intros z. destruct (side_cases x z) as [-> | ->].
        * unfold QInv. yr. cbn [yq ss_tcb]. split; [exact Q1|]. split; [exact Q2|]. exact Q3.
        * apply (QInv_ext y); yr; auto.
  Qed.

  (* the 5 ms timeout elapsed: advance_time(TIMEOUT) (l.100-108) *)
  Lemma take_advance_inv y x s q : YInv c y -> yt y x = YRun s q -> ss_phase s = PWait ->
    YInv c (ytake y x s q SAdvance).
  Proof.
    intros HY El Hph. pose proof HY as [HI HQ]. pose proof (ypan_false y HY) as Hp.
    assert (Hrun : running s = true) by (unfold running; rewrite Hph; reflexivity).
    pose proof (HQ x) as (Q1 & Q2 & Q3). rewrite El in Q1, Q3. cbn [yq] in Q1.
    assert (El' : end_of (yabs y) x = ELive (ss_tcb s)) by (rewrite end_yabs, El; apply yend_running, Hrun).
    first [pose proof (advance_sys_inv c Hc (yabs y) x (ss_tcb s) TIMEOUT_MS HI El') as HT
          |pose proof (advance_sys_inv c (yabs y) x (ss_tcb s) TIMEOUT_MS HI El') as HT].
    unfold ytake, sess_step. cbv zeta. rewrite Hph. cbv beta iota.
    pose proof (advance_time_st (ss_tcb s) TIMEOUT_MS) as Est.
    destruct (advance_time (ss_tcb s) TIMEOUT_MS) as [t1 []] eqn:Ea; cbn [fst] in Est.
    - apply (yinv_from_target _ _ HT).
      + yr. cbn. exact Hp.
      + intros z. destruct (side_cases x z) as [-> | ->]; yr; sysr; rewrite ?end_yabs; reflexivity.
      + intros z. yr. sysr. rewrite sub_yabs. reflexivity.
      + intros z. left. destruct (side_cases x z) as [-> | ->]; yr; sysr; rewrite del_yabs; cbn; rewrite ?app_nil_r; reflexivity.
      + intros z seg0. destruct (side_cases x z) as [-> | ->]; yr; sysr; rewrite net_yabs.
        * cbn [emitted_of flat_map]. rewrite app_nil_r. intros H; exact H.
        * rewrite other_other, El. cbn [yq]. intros H; exact H.
      + intros z. destruct (side_cases x z) as [-> | ->].
        * unfold QInv. yr. cbn [yq ss_tcb]. split; [exact Q1|]. split; [exact Q2|]. rewrite Est. exact Q3.
        * apply (QInv_ext y); yr; auto.
    - destruct (final_read_other (yabs y) x t1) as (F1 & F2 & F3 & F4 & F5).
      apply (yinv_from_target _ _ HT).
      + yr. cbn. exact Hp.
      + intros z. destruct (side_cases x z) as [-> | ->]; yr; sysr; rewrite ?F1; rewrite ?end_yabs; reflexivity.
      + intros z. yr. sysr. rewrite F2. rewrite sub_yabs. reflexivity.
      + intros z. destruct (side_cases x z) as [-> | ->]; yr.
        * right. sysr. split; [reflexivity|].
          change (concat (del_of (final_read (yabs y) x t1) x)) with (delivered (final_read (yabs y) x t1) x).
          rewrite delivered_final_read. unfold delivered. rewrite del_yabs.
          cbn [flushed_of flat_map app]. rewrite app_nil_r. apply prefix_app.
        * left. sysr. rewrite F5. rewrite del_yabs. reflexivity.
      + intros z seg0. destruct (side_cases x z) as [-> | ->]; yr; sysr; rewrite F3; rewrite net_yabs.
        * cbn [emitted_of flat_map app]. rewrite app_nil_r. intros H; exact H.
        * rewrite other_other, El. cbn [yq]. intros H; exact H.
      + intros z. destruct (side_cases x z) as [-> | ->].
        * unfold QInv. yr. cbn [yq ss_tcb]. split; [exact Q1|]. split; [exact Q2|]. rewrite Est. exact Q3.
        * apply (QInv_ext y); yr; auto.
  Qed.

  (* ---------- every label ---------- *)
  Lemma ystep_inv y l : YInv c y -> (forall z, zlen (ypush y z) < SEQ_BOUND) -> YInv c (ystep c y l).
  Proof.
    intros HY Hb. unfold ystep. rewrite (ypan_false y HY).
    destruct l as [x|x bytes|x|x|x i|x i|x i].
    - destruct (yt y x) eqn:El; try exact HY. apply yopen_inv; assumption.
    - destruct (yt y x) as [| |s q] eqn:El; try exact HY. apply write_inv; assumption.
    - destruct (yt y x) as [| |s q] eqn:El; try exact HY.
      destruct (ss_phase s) as [nt| | | | |] eqn:Hph; try exact HY.
      + destruct q as [|[seg|b] q'].
        * eapply take_empty_inv; eassumption.
        * apply (take_incoming_inv y x s q' seg (PDrain false)); auto.
          -- unfold running. rewrite Hph. reflexivity.
          -- unfold sess_step. cbv zeta. rewrite Hph. reflexivity.
        * apply (take_outgoing_inv y x s q' b (PDrain false)); auto.
          -- unfold running. rewrite Hph. reflexivity.
          -- unfold sess_step. cbv zeta. rewrite Hph. reflexivity.
      + destruct q as [|[seg|b] q']; [exact HY| |].
        * apply (take_incoming_inv y x s q' seg PReady); auto.
          -- unfold running. rewrite Hph. reflexivity.
          -- unfold sess_step. cbv zeta. rewrite Hph. reflexivity.
        * apply (take_outgoing_inv y x s q' b PReady); auto.
          -- unfold running. rewrite Hph. reflexivity.
          -- unfold sess_step. cbv zeta. rewrite Hph. reflexivity.
      + apply take_emit_inv; assumption.
      + apply take_flush_inv; assumption.
    - destruct (yt y x) as [| |s q] eqn:El; try exact HY.
      destruct (ss_phase s) eqn:Hph; try exact HY. apply take_advance_inv; assumption.
    - destruct (yn y x) as [|a n'] eqn:En; [exact HY|].
      destruct (nth_error (a :: n') (Nat.modulo i (length (a :: n')))) as [seg|] eqn:Hnth; [|exact HY].
      cbv zeta. rewrite yt_set_yn.
      destruct (yt y (other x)) as [| |s q] eqn:El.
      + apply deliver_none_inv; assumption.
      + apply deliver_listen_inv; assumption.
      + apply deliver_run_inv; assumption.
    - destruct (yn y x) as [|a n'] eqn:En; [exact HY|].
      apply net_shrink_inv; [exact HY|]. rewrite En. intros seg H. eapply In_remove_nth, H.
    - destruct (yn y x) as [|a n'] eqn:En; [exact HY|].
      destruct (nth_error (a :: n') (Nat.modulo i (length (a :: n')))) as [seg|] eqn:Hnth; [|exact HY].
      apply net_shrink_inv; [exact HY|]. rewrite En. intros seg0 H.
      apply in_app_or in H. destruct H as [H|[<-|[]]]; [exact H|eapply nth_error_In, Hnth].
  Qed.
End Steps.

(* ---------- the application's streams only grow ---------- *)
Lemma ypush_ytake y x s q e z : ypush (ytake y x s q e) z = ypush y z.
Proof.
  unfold ytake. destruct (sess_step s e) as [[s1 os]|]; [|reflexivity].
  destruct e; try (yr; reflexivity).
  destruct (accepts_send _); yr; reflexivity.
Qed.

Lemma ystep_push c y l z : exists more, ypush (ystep c y l) z = ypush y z ++ more.
Proof.
  assert (Hsame : forall y', ypush y' z = ypush y z -> exists more, ypush y' z = ypush y z ++ more).
  { intros y' E. exists []. now rewrite app_nil_r. }
  unfold ystep. destruct (ypan y); [apply Hsame; reflexivity|].
  destruct l as [x|x bytes|x|x|x i|x i|x i].
  - destruct (yt y x); try (apply Hsame; reflexivity).
    destruct (sess_start _) as [s0 os]. apply Hsame. yr. reflexivity.
  - destruct (yt y x) as [| |s q]; try (apply Hsame; reflexivity).
    destruct (side_cases x z) as [-> | ->]; yr; [eauto|apply Hsame; yr; reflexivity].
  - destruct (yt y x) as [| |s q]; try (apply Hsame; reflexivity).
    destruct (ss_phase s); try (apply Hsame; reflexivity).
    + destruct q; apply Hsame, ypush_ytake.
    + destruct q; apply Hsame; [reflexivity|apply ypush_ytake].
    + apply Hsame, ypush_ytake.
    + apply Hsame, ypush_ytake.
  - destruct (yt y x) as [| |s q]; try (apply Hsame; reflexivity).
    destruct (ss_phase s); try (apply Hsame; reflexivity). apply Hsame, ypush_ytake.
  - destruct (yn y x) as [|a n']; [apply Hsame; reflexivity|].
    destruct (nth_error _ _) as [seg|]; [|apply Hsame; reflexivity].
    cbv zeta. rewrite yt_set_yn. destruct (yt y (other x)) as [| |s q].
    + destruct (arrives_closed _ _); apply Hsame; yr; reflexivity.
    + destruct (arrives_listen _ _ _) as [|h|t]; try (apply Hsame; yr; reflexivity).
      destruct (sess_start t) as [s0 os]. apply Hsame. yr. reflexivity.
    + apply Hsame. yr. reflexivity.
  - destruct (yn y x); apply Hsame; yr; reflexivity.
  - destruct (yn y x) as [|a n']; [apply Hsame; reflexivity|].
    destruct (nth_error _ _); apply Hsame; yr; reflexivity.
Qed.

Lemma yrun_push c ls : forall y z, exists more, ypush (yrun c y ls) z = ypush y z ++ more.
Proof.
  induction ls as [|l ls IH]; intros y z; cbn [yrun fold_left].
  - exists []. now rewrite app_nil_r.
  - destruct (IH (ystep c y l) z) as [m1 E1]. destruct (ystep_push c y l z) as [m2 E2].
    unfold yrun in E1. rewrite E1, E2. exists (m2 ++ m1). now rewrite app_assoc.
Qed.

(* ---------- reachable states ---------- *)
Lemma yinit_inv c b : cfg_ok c -> YInv c (yinit b).
Proof.
  intros Hc. split.
  - replace (yabs (yinit b)) with (init_sys b) by (destruct b; reflexivity). apply init_inv, Hc.
  - intros x. unfold QInv. destruct x, b; cbn; repeat split; try apply prefix_refl; reflexivity.
Qed.

Lemma yrun_inv c : cfg_ok c -> forall ls y,
  YInv c y -> (forall z, zlen (ypush (yrun c y ls) z) < SEQ_BOUND) -> YInv c (yrun c y ls).
Proof.
  intros Hc. induction ls as [|l ls IH]; intros y HY Hb; cbn [yrun fold_left]; [exact HY|].
  apply IH; [|exact Hb].
  apply ystep_inv; try assumption.
  intros z. specialize (Hb z). cbn [yrun fold_left] in Hb.
  destruct (yrun_push c ls (ystep c y l) z) as [m1 E1]. destruct (ystep_push c y l z) as [m2 E2].
  unfold yrun in E1. rewrite E1, E2, !zlen_app in Hb.
  pose proof (zlen_nonneg m1). pose proof (zlen_nonneg m2). lia.
Qed.

(* ---------- C01 safety for the session tasks ---------- *)
Theorem session_safety c b ls :
  cfg_ok c ->
  let y := yrun c (yinit b) ls in
  zlen (ypushA y) < SEQ_BOUND -> zlen (ypushB y) < SEQ_BOUND ->
  ypan y = false /\
  prefix (yflushed y SB) (ypushA y) /\ prefix (yflushed y SA) (ypushB y).
Proof.
  intros Hc y HbA HbB.
  assert (HY : YInv c y).
  { apply yrun_inv; [exact Hc|apply yinit_inv, Hc|]. intros z. destruct z; assumption. }
  split; [apply (ypan_false c y HY)|].
  assert (Hdir : forall z, prefix (yflushed y z) (ypush y (other z))).
  { intros z. destruct HY as [HI HQ].
    pose proof (sysinv_prefix c (yabs y) z HI) as H1. unfold delivered in H1. rewrite del_yabs, sub_yabs in H1.
    destruct (HQ (other z)) as (Q1 & Q2 & _).
    eapply prefix_trans; [exact H1|]. eapply prefix_trans; [exact Q2|]. rewrite Q1. apply prefix_app. }
  split; [apply (Hdir SB)|apply (Hdir SA)].
Qed.
