(* Facts about the operator semantics Model/RsSem.v used by the equality proofs of the generated files. *)
From Elvis Require Import Model.Base Model.RsSem.
From Coq Require Import ZifyBool.
Ltac Zify.zify_post_hook ::= Z.div_mod_to_equations.
Local Open Scope Z_scope.

(* renaming of panic sites and embedding of values between a hand model and a generated definition *)
Definition rmap {A B : Type} (f : A -> B) (sigma : Z -> Z) (r : result A) : result B :=
  match r with
  | Ok a => Ok (f a)
  | Err e => Err e
  | Panic s => Panic (sigma s)
  | OutOfFuel => OutOfFuel
  end.

Lemma to_be_4 : forall v, to_be 4 v = [v / 16777216 mod 256; v / 65536 mod 256; v / 256 mod 256; v mod 256].
Proof.
  intros v. unfold to_be.
  change (256 ^ Z.of_nat 3) with 16777216. change (256 ^ Z.of_nat 2) with 65536.
  change (256 ^ Z.of_nat 1) with 256. change (256 ^ Z.of_nat 0) with 1.
  rewrite Z.div_1_r. reflexivity.
Qed.

Lemma from_be_4 : forall a b c d, from_be [a; b; c; d] = ((a * 256 + b) * 256 + c) * 256 + d.
Proof. intros. unfold from_be. cbn [fold_left]. lia. Qed.

Lemma from_be_2 : forall a b, from_be [a; b] = a * 256 + b.
Proof. intros. unfold from_be. cbn [fold_left]. lia. Qed.

Lemma from_to_be_4 : forall v, 0 <= v < 4294967296 -> from_be (to_be 4 v) = v.
Proof. intros v Hv. rewrite to_be_4, from_be_4. lia. Qed.

Lemma to_from_be_4 : forall a b c d, 0 <= a < 256 -> 0 <= b < 256 -> 0 <= c < 256 -> 0 <= d < 256 ->
  to_be 4 (from_be [a; b; c; d]) = [a; b; c; d].
Proof.
  intros a b c d Ha Hb Hc Hd. rewrite to_be_4, from_be_4.
  f_equal; [lia|]. f_equal; [lia|]. f_equal; [lia|]. f_equal. lia.
Qed.

Lemma to_be_4_bytes : forall v, Forall (fun b => 0 <= b < 256) (to_be 4 v).
Proof. intros v. rewrite to_be_4. repeat constructor; lia. Qed.

(* the derived lexicographic order on the big-endian bytes is the numeric order *)
Lemma lex_cmp_be_4 : forall x y, 0 <= x < 4294967296 -> 0 <= y < 4294967296 ->
  lex_cmp (to_be 4 x) (to_be 4 y) = (x ?= y).
Proof.
  intros x y Hx Hy. rewrite !to_be_4. cbn [lex_cmp].
  destruct (Z.compare_spec (x / 16777216 mod 256) (y / 16777216 mod 256)) as [E1|E1|E1].
  2: { symmetry. apply Z.compare_lt_iff. lia. }
  2: { symmetry. apply Z.compare_gt_iff. lia. }
  destruct (Z.compare_spec (x / 65536 mod 256) (y / 65536 mod 256)) as [E2|E2|E2].
  2: { symmetry. apply Z.compare_lt_iff. lia. }
  2: { symmetry. apply Z.compare_gt_iff. lia. }
  destruct (Z.compare_spec (x / 256 mod 256) (y / 256 mod 256)) as [E3|E3|E3].
  2: { symmetry. apply Z.compare_lt_iff. lia. }
  2: { symmetry. apply Z.compare_gt_iff. lia. }
  destruct (Z.compare_spec (x mod 256) (y mod 256)) as [E4|E4|E4].
  - symmetry. apply Z.compare_eq_iff. lia.
  - symmetry. apply Z.compare_lt_iff. lia.
  - symmetry. apply Z.compare_gt_iff. lia.
Qed.

Lemma lex_leb_be_4 : forall x y, 0 <= x < 4294967296 -> 0 <= y < 4294967296 ->
  lex_leb (to_be 4 x) (to_be 4 y) = (x <=? y).
Proof.
  intros x y Hx Hy. unfold lex_leb. rewrite lex_cmp_be_4 by assumption.
  unfold Z.leb. destruct (x ?= y); reflexivity.
Qed.

Lemma lex_ltb_be_4 : forall x y, 0 <= x < 4294967296 -> 0 <= y < 4294967296 ->
  lex_ltb (to_be 4 x) (to_be 4 y) = (x <? y).
Proof.
  intros x y Hx Hy. unfold lex_ltb. rewrite lex_cmp_be_4 by assumption.
  unfold Z.ltb. destruct (x ?= y); reflexivity.
Qed.

Lemma list_eqb_be_4 : forall x y, 0 <= x < 4294967296 -> 0 <= y < 4294967296 ->
  list_eqb (to_be 4 x) (to_be 4 y) = (x =? y).
Proof.
  intros x y Hx Hy. rewrite !to_be_4. cbn [list_eqb].
  destruct (x =? y) eqn:E.
  - assert (x = y) by lia. subst y. rewrite !Z.eqb_refl. reflexivity.
  - destruct (x / 16777216 mod 256 =? y / 16777216 mod 256) eqn:E1; [|reflexivity].
    destruct (x / 65536 mod 256 =? y / 65536 mod 256) eqn:E2; [|reflexivity].
    destruct (x / 256 mod 256 =? y / 256 mod 256) eqn:E3; [|reflexivity].
    destruct (x mod 256 =? y mod 256) eqn:E4; [|reflexivity].
    exfalso. lia.
Qed.

Lemma land_of_N : forall a b, Z.land (Z.of_N a) (Z.of_N b) = Z.of_N (N.land a b).
Proof. intros a b. destruct a, b; reflexivity. Qed.

Lemma pos_ones_nonneg : forall p, 0 < pos_ones p.
Proof. induction p; cbn [pos_ones]; lia. Qed.
