(* C03 (c) at system level: write, close at once (the text is still queued), emit.  The network
   then holds the flight of data segments followed by the FIN, sequenced after the last byte; after
   in-order delivery the peer's application has read every byte and the peer is in CLOSE-WAIT. *)
From Elvis Require Import Model.Base Model.U32 Model.Tcb Model.TcpNet
  Proofs.U32Facts Proofs.TcbSafetyDefs Proofs.TcbSafetyBase Proofs.TcbSafetySnd Proofs.TcbSafetyRcv
  Proofs.TcbSafetySys Proofs.TcbLive Proofs.TcbLiveSys Proofs.TcbLiveThm
  Proofs.TcbLiveWin Proofs.TcbLiveWinSys Proofs.TcbLiveWinThm Proofs.TcbLiveWinRound
  Proofs.TcbLiveLoss Proofs.TcbLiveLossThm Proofs.TcbLiveLossRound Proofs.TcbLiveAckRound
  Proofs.TcbLiveClose Proofs.TcbLiveFinData.
From Coq Require Import ZifyBool.
Local Open Scope Z_scope.
Ltac Zify.zify_post_hook ::= Z.div_mod_to_equations.

Section FinData.
  Variable c : config.

  Lemma lclose_step s x t : panicked s = false -> end_of s x = ELive t -> st t = Established ->
    out_text t <> [] ->
    fst (sys_step c s (LClose x)) = set_end s x (ELive (set_st (set_fin_pending t true) FinWait1)).
  Proof.
    intros Pn El Est Hne. unfold sys_step. rewrite Pn, El, (close_with_text t Est Hne). reflexivity.
  Qed.

  Theorem close_after_write s a b x bytes :
    Quiescent c s a b -> 0 < zlen bytes <= 65535 ->
    let n := zlen bytes in
    let p := sel x a b in
    let q := sel x b a in
    let s1 := run c s [LSend x bytes; LClose x; LEmit x] in
    let s2 := run c s1 (repeat (LDeliver x 0) (length (net_of s1 x)) ++ [LRecv (other x)]) in
    (exists lp rp segs, net_of s1 x = segs ++ [mkSeg (fin_hdr lp rp (wadd p n) q) []] /\
        flight lp rp q p segs /\ flight_bytes segs = bytes) /\
    (exists tx ty, end_of s2 x = ELive tx /\ end_of s2 (other x) = ELive ty /\
        st tx = FinWait1 /\ snd_una tx = p /\ snd_nxt tx = wadd (wadd p n) 1 /\ out_text tx = [] /\
        st ty = CloseWait /\ rcv_nxt ty = wadd (wadd p n) 1 /\ in_text ty = [] /\ in_segs ty = []) /\
    net_of s2 x = [] /\ net_of s2 (other x) = [] /\ panicked s2 = false /\
    sub_of s2 x = sub_of s x ++ bytes /\ sub_of s2 (other x) = sub_of s (other x) /\
    delivered s2 (other x) = delivered s (other x) ++ bytes /\ del_of s2 x = del_of s x.
  Proof.
    intros HQ Hn n p q s1 s2.
    destruct (quiescent_at c s a b x HQ) as (tx & ty & Ex & Ey & Qx & Qy & Mx & My & Nx & Ny & Pn).
    fold p q in Qx, Qy.
    assert (Est : st tx = Established) by apply Qx.
    (* the write *)
    set (s0 := fst (sys_step c s (LSend x bytes))).
    assert (E0 : s0 = set_end (set_sub s x (sub_of s x ++ bytes)) x (ELive (tcb_send tx bytes)))
      by (apply (send_step c s x tx Pn Ex Est)).
    pose proof (writer_of_quiet tx p q bytes Qx) as W.
    set (tx0 := tcb_send tx bytes) in *.
    destruct W as (W1 & W2 & W3 & W4 & W5 & W6 & W7 & W8 & W9 & W10 & W11 & W12 & W13 & W14 & W15 & W16 & W17).
    assert (Hbne : bytes <> []) by (intros ->; cbn in Hn; lia).
    (* the close: the FIN is deferred *)
    assert (P0 : panicked s0 = false) by (rewrite E0; now sysr).
    assert (Ex0 : end_of s0 x = ELive tx0) by (rewrite E0; now sysr).
    pose proof (lclose_step s0 x tx0 P0 Ex0 W1 ltac:(rewrite W7; exact Hbne)) as EC.
    set (tx1 := set_st (set_fin_pending tx0 true) FinWait1) in EC.
    set (sC := set_end s0 x (ELive tx1)) in EC.
    (* the emission: the flight, then the FIN *)
    destruct (segments_flight_fin tx1 bytes) as (segs & E1 & F & B & Hne);
      try (subst tx1; tcb_simpl; first [reflexivity | assumption | congruence]).
    cbv zeta in E1. set (tx2 := set_rto _ RTO) in E1.
    change (lport tx1) with (lport tx0) in *. change (rport tx1) with (rport tx0) in *.
    change (rcv_nxt tx1) with (rcv_nxt tx0) in *. change (snd_nxt tx1) with (snd_nxt tx0) in *.
    rewrite W3, W4 in *. fold n in E1.
    set (fin := mkSeg (fin_hdr (lport tx0) (rport tx0) (wadd p n) q) []) in *.
    assert (PC : panicked sC = false) by (subst sC; now sysr).
    assert (ExC : end_of sC x = ELive tx1) by (subst sC; now sysr).
    pose proof (lemit_step c sC x tx1 tx2 (segs ++ [fin]) PC ExC E1) as EE.
    assert (NxC : net_of sC x = []) by (subst sC; rewrite E0; now sysr).
    rewrite NxC in EE. cbn [app] in EE.
    assert (Es1 : s1 = set_net (set_end sC x (ELive tx2)) x (segs ++ [fin])).
    { subst s1. unfold run. cbn [fold_left]. fold s0. rewrite EC. exact EE. }
    assert (Nx1 : net_of s1 x = segs ++ [fin]) by (rewrite Es1; now sysr).
    assert (Ey1 : end_of s1 (other x) = ELive ty) by (rewrite Es1; subst sC; rewrite E0; now sysr).
    assert (P1 : panicked s1 = false) by (rewrite Es1; now sysr).
    (* delivery of the data *)
    pose proof Qy as (Q1 & Q2 & Q3 & Q4 & Q5 & Q6 & Q7 & Q8 & Q9 & Q10 & Q11 & Q12 & Q13 & Q14 & Q15 & Q16 & Q17).
    assert (F' : flight (lport tx0) (rport tx0) q (rcv_nxt ty) segs) by (rewrite Q4; exact F).
    assert (Hu' : u32 (rcv_nxt ty)) by (rewrite Q4; exact Q16).
    assert (Hfl : flight_len segs = n) by (unfold flight_len; now rewrite B).
    pose proof (deliver_inorder c x (lport tx0) (rport tx0) q segs s1 ty 1%nat [fin] Ey1 Nx1 Q1 Q11 Q6 Hu' F'
                  ltac:(rewrite Q2; apply mod_leq_refl) ltac:(rewrite Q12, Hfl; cbn; lia)) as ED.
    destruct (recv_flight_facts (lport tx0) (rport tx0) q segs ty F' Q6 Hu') as (C1 & R1 & I1 & _ & acks & O1 & FA1).
    pose proof (recv_flight_in_segs (lport tx0) (rport tx0) q segs ty F' Q6 Hu' Q11) as S1.
    cbv zeta in *. set (t1 := recv_flight ty segs) in *.
    destruct C1 as (_ & _ & Cm & Cst & Cun & Cnx & Csw & Crw & Cot & Crx & Cfp & Crto & Ctw).
    rewrite Q4, Hfl in R1. rewrite Q12, B in I1. cbn [app] in I1.
    (* delivery of the FIN *)
    assert (Hfin : fin_ack (fin_hdr (lport tx0) (rport tx0) (wadd p n) q)) by (unfold fin_ack, fin_hdr; auto).
    pose proof (fin_arrives t1 (fin_hdr (lport tx0) (rport tx0) (wadd p n) q)
                  ltac:(rewrite Cst, Q1; reflexivity) S1 ltac:(congruence) ltac:(rewrite R1; apply wadd_u32)
                  Hfin ltac:(rewrite R1; reflexivity)
                  ltac:(rewrite Cun, Q2; apply mod_leq_refl)) as G1.
    rewrite (ps_fin_first (set_in_segs t1 []) (fin_hdr (lport tx0) (rport tx0) (wadd p n) q) eq_refl
               ltac:(cbn [set_in_segs st]; rewrite Cst, Q1; reflexivity) (wadd_u32 _ _)
               ltac:(cbn [set_in_segs rcv_nxt]; rewrite R1; reflexivity)) in G1.
    cbv zeta in G1. cbn [set_in_segs st] in G1. rewrite Cst, Q1 in G1.
    fold fin in G1. set (t2 := set_st _ CloseWait) in G1.
    set (sD1 := set_end (set_net s1 x [fin]) (other x) (ELive t1)) in ED.
    assert (ND1 : net_of sD1 x = [fin]) by (subst sD1; now sysr).
    assert (EyD1 : end_of (set_net sD1 x []) (other x) = ELive t1) by (subst sD1; now sysr).
    rewrite (deliver_all_cons 0 c sD1 x fin [] ND1) in ED.
    rewrite (arrive_eval c _ (other x) t1 fin t2 EyD1 G1) in ED. cbn [deliver_all] in ED.
    set (sD := set_end (set_net sD1 x []) (other x) (ELive t2)) in ED.
    assert (PD : panicked sD = false) by (subst sD sD1; now sysr).
    assert (Hlen : length (net_of s1 x) = (length segs + 1)%nat) by (rewrite Nx1, app_length; reflexivity).
    assert (RD : run c s1 (repeat (LDeliver x 0) (length (net_of s1 x))) = sD).
    { rewrite Hlen, run_delivers; rewrite ED; [reflexivity|exact PD]. }
    (* the read *)
    assert (It2 : in_text t2 = bytes) by (subst t2; tcb_simpl; exact I1).
    assert (EyD : end_of sD (other x) = ELive t2) by (subst sD; now sysr).
    pose proof (lrecv_step c sD (other x) t2 PD EyD ltac:(rewrite It2; exact Hbne)) as ER.
    rewrite It2 in ER.
    assert (Es2 : s2 = set_del (set_end sD (other x) (ELive (set_in_text t2 []))) (other x)
                               (del_of sD (other x) ++ [bytes])).
    { subst s2. rewrite run_app, RD. unfold run. cbn [fold_left]. exact ER. }
    splits.
    - exists (lport tx0), (rport tx0), segs. splits; auto.
    - exists tx2, (set_in_text t2 []). rewrite Es2. subst sD sD1. rewrite Es1. subst sC. sysr.
      splits; auto; try (subst tx2 tx1; tcb_simpl; auto; fail); try (subst t2; tcb_simpl; auto; fail).
      + subst tx2 tx1; tcb_simpl. rewrite ?W3. reflexivity.
      + subst t2; tcb_simpl. now rewrite R1.
    - rewrite Es2. subst sD sD1. now sysr.
    - rewrite Es2. subst sD sD1. rewrite Es1. subst sC. rewrite E0. now sysr.
    - rewrite Es2. now sysr.
    - rewrite Es2. subst sD sD1. rewrite Es1. subst sC. rewrite E0. now sysr.
    - rewrite Es2. subst sD sD1. rewrite Es1. subst sC. rewrite E0. now sysr.
    - unfold delivered. rewrite Es2. sysr. subst sD sD1. sysr. rewrite Es1. subst sC. rewrite E0. sysr.
      rewrite concat_app. cbn [concat]. now rewrite app_nil_r.
    - rewrite Es2. subst sD sD1. rewrite Es1. subst sC. rewrite E0. now sysr.
  Qed.
End FinData.

Lemma close_after_write_explicit : forall (c : config) (s : sys) (a b : Z) (x : side) (bytes : list Z),
  Quiescent c s a b -> 0 < zlen bytes <= 65535 ->
  let n := zlen bytes in
  let p := sel x a b in
  let q := sel x b a in
  let s1 := run c s [LSend x bytes; LClose x; LEmit x] in
  let s2 := run c s1 (repeat (LDeliver x 0) (length (net_of s1 x)) ++ [LRecv (other x)]) in
  (exists lp rp segs, net_of s1 x = segs ++ [mkSeg (fin_hdr lp rp (wadd p n) q) []] /\
      flight lp rp q p segs /\ flight_bytes segs = bytes) /\
  (exists tx ty, end_of s2 x = ELive tx /\ end_of s2 (other x) = ELive ty /\
      st tx = FinWait1 /\ snd_una tx = p /\ snd_nxt tx = wadd (wadd p n) 1 /\ out_text tx = [] /\
      st ty = CloseWait /\ rcv_nxt ty = wadd (wadd p n) 1 /\ in_text ty = [] /\ in_segs ty = []) /\
  net_of s2 x = [] /\ net_of s2 (other x) = [] /\ panicked s2 = false /\
  sub_of s2 x = sub_of s x ++ bytes /\ sub_of s2 (other x) = sub_of s (other x) /\
  delivered s2 (other x) = delivered s (other x) ++ bytes /\ delivered s2 x = delivered s x.
Proof.
  intros c s a b x bytes HQ Hn n p q s1 s2.
  destruct (close_after_write c s a b x bytes HQ Hn) as (H1 & H2 & H3 & H4 & H5 & H6 & H7 & H8 & H9).
  cbv zeta in H9. splits; auto. unfold delivered. subst s2 s1. now rewrite H9.
Qed.
